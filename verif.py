#!/usr/bin/env python3
"""Orchestrator of the regress verification checks.

  verif.py setup                       build everything from files on disk (offline)
  verif.py check <Cxx> [--tier quick|thorough]
  verif.py replay <file>

Decision procedure of one check (DESIGN.md §2.6):
  1. translator  /repo/src -> lean/RegressModel/Gen          (tie, regenerated every run)
  2. lake build  Proofs.<Cxx> + driver, audit (no sorry/axiom/native_decide…, #print axioms allow-list)
  3. cargo build harness against /repo's working tree with --cfg regress_verif
  4. harness: generated cases -> request lines + implementation replies (+ the harness's own
     implementation-vs-oracle / implementation-vs-implementation comparisons)
  5. Lean driver answers the same requests; diff = model vs implementation
  6. classify, write evidence/<Cxx>.json, print VIOLATION / KNOWN-FINDING lines

Exit status 0 = property held on everything explored, 1 = violation (a VIOLATION line was printed).
"""
import json
import os
import re
import shutil
import subprocess
import sys
import time

ROOT = os.path.dirname(os.path.abspath(__file__))
LEAN = os.path.join(ROOT, "lean")
BUILD = os.path.join(ROOT, ".build")
HARNESS = os.path.join(ROOT, "harness")
REPO = os.environ.get("REGRESS_REPO", "/repo")
ALLOWED_AXIOMS = {"propext", "Classical.choice", "Quot.sound"}
FORBIDDEN = re.compile(r"\b(sorry|admit|native_decide|bv_decide|implemented_by|unsafe)\b|^\s*axiom\s|maxHeartbeats\s+0\b|\bpartial\s+def\b", re.M)

SPEC_OPS = {"esfind", "esiter", "esvalid"}

TRUSTED_BASE = [
    "Lean 4.33.0 kernel (axioms allowed: propext, Classical.choice, Quot.sound; no native_decide, no sorry)",
    "tools/rs2lean.py (translator: tables, name maps, constants; checked against the engine by the `prop` tie)",
    "harness + driver + diff (correspondence = differential testing; bounded by the generators)",
]


def env_offline():
    e = dict(os.environ)
    e["CARGO_NET_OFFLINE"] = "true"
    e["PIP_NO_INDEX"] = "1"
    e["GOPROXY"] = "off"
    return e


def run(cmd, cwd=None, env=None, timeout=None, stdin=None, mem_gib=None):
    pre = None
    if mem_gib:
        def pre():
            import resource
            resource.setrlimit(resource.RLIMIT_AS, (mem_gib << 30, mem_gib << 30))
    p = subprocess.run(cmd, cwd=cwd, env=env or env_offline(), stdin=stdin, stdout=subprocess.PIPE,
                       stderr=subprocess.STDOUT, text=True, timeout=timeout, preexec_fn=pre)
    return p.returncode, p.stdout


# ----------------------------------------------------------------------------- steps

def translate():
    rc, out = run([sys.executable, os.path.join(ROOT, "tools", "rs2lean.py")])
    if rc != 0:
        return False, out.strip()
    try:
        return True, json.loads(out.strip().splitlines()[-1])
    except Exception:
        return False, out.strip()


def lake_build(targets):
    rc, out = run(["lake", "build"] + targets, cwd=LEAN, timeout=3600)
    errs = [l for l in out.splitlines() if l.startswith("error")]
    return rc == 0, errs, out


def strip_lean_comments(src):
    src = re.sub(r"/-.*?-/", "", src, flags=re.S)
    src = re.sub(r"--.*", "", src)
    return src


def module_files(mod):
    """The .lean files a proof module depends on inside this project (transitively)."""
    seen = {}
    todo = [mod]
    while todo:
        m = todo.pop()
        if m in seen:
            continue
        path = os.path.join(LEAN, m.replace(".", "/") + ".lean")
        if not os.path.exists(path):
            continue
        src = open(path).read()
        seen[m] = path
        for imp in re.findall(r"^import\s+([A-Za-z0-9_.]+)", src, re.M):
            if imp.startswith("RegressModel") or imp.startswith("Proofs"):
                todo.append(imp)
    return seen


def audit(proof_modules):
    """-> (ok, problems, theorem names, axioms used)"""
    problems = []
    theorems = []
    files = {}
    for pm in proof_modules:
        files.update(module_files(pm))
    for m, path in sorted(files.items()):
        if "/Gen/" in path:
            continue
        src = strip_lean_comments(open(path).read())
        for mm in FORBIDDEN.finditer(src):
            # `partial def` is allowed only in the IO driver, which is not a proof dependency
            problems.append("%s: forbidden token %r" % (os.path.relpath(path, ROOT), mm.group(0).strip()))
        if m.startswith("RegressModel") and re.search(r"^import\s+Mathlib", src, re.M):
            problems.append("%s: model file imports Mathlib" % os.path.relpath(path, ROOT))
    for pm in proof_modules:
        path = os.path.join(LEAN, pm.replace(".", "/") + ".lean")
        ns = []
        for line in strip_lean_comments(open(path).read()).splitlines():
            m1 = re.match(r"\s*namespace\s+([A-Za-z0-9_.]+)", line)
            m2 = re.match(r"\s*end\s+([A-Za-z0-9_.]+)", line)
            m3 = re.match(r"\s*#print axioms\s+([A-Za-z0-9_.']+)", line)
            if m1:
                ns.append(m1.group(1))
            elif m2 and ns and ns[-1] == m2.group(1):
                ns.pop()
            elif m3:
                t = m3.group(1)
                # fully qualify: a name already starting with the root namespace is left alone
                if ns and not t.startswith("Regress."):
                    t = ".".join(ns) + "." + t
                theorems.append(t)
    if not theorems:
        problems.append("no property theorems listed (#print axioms) in %s" % proof_modules)
    os.makedirs(os.path.join(BUILD, "tmp"), exist_ok=True)
    ax_file = os.path.join(BUILD, "tmp", "axioms_%s.lean" % "_".join(proof_modules).replace(".", "_"))
    with open(ax_file, "w") as f:
        for pm in proof_modules:
            f.write("import %s\n" % pm)
        for t in theorems:
            f.write("#print axioms %s\n" % t)
    rc, out = run(["lake", "env", "lean", ax_file], cwd=LEAN, timeout=1800)
    used = set()
    per = {}
    for mm in re.finditer(r"'(\S+)' depends on axioms: \[([^\]]*)\]", out):
        axs = [a.strip() for a in mm.group(2).split(",") if a.strip()]
        per[mm.group(1)] = axs
        used.update(axs)
    for mm in re.finditer(r"'(\S+)' does not depend on any axioms", out):
        per[mm.group(1)] = []
    if rc != 0:
        problems.append("axiom audit failed to run: %s" % out.strip()[:400])
    for t in theorems:
        if t not in per:
            problems.append("theorem %s not found by #print axioms" % t)
    bad = used - ALLOWED_AXIOMS
    if bad:
        problems.append("axioms outside the allow-list: %s" % sorted(bad))
    return not problems, problems, theorems, sorted(used)


FEATURE_SETS = {
    "default": "std-default",
    "utf16": "std-default,utf16",
    "index": "std-default,index-positions",
    "safe": "std-default,prohibit-unsafe",
    "index-safe": "std-default,index-positions,prohibit-unsafe",
    "alloc": "alloc-only",
    "pattern": "std-default,pattern",
}


def cargo_build(fset="default", profile="release", toolchain=None):
    env = env_offline()
    env["CARGO_TARGET_DIR"] = os.path.join(BUILD, fset)
    env["RUSTFLAGS"] = "--cfg regress_verif"
    cmd = ["cargo"] + ([toolchain] if toolchain else []) + ["build", "--offline"]
    if profile == "release":
        cmd.append("--release")
    else:
        cmd += ["--profile", profile]
    cmd += ["--no-default-features", "--features", FEATURE_SETS[fset]]
    rc, out = run(cmd, cwd=HARNESS, env=env, timeout=3600)
    binary = os.path.join(BUILD, fset, "release" if profile == "release" else profile, "rvharness")
    return rc == 0, out, binary


def run_harness(binary, cmd, outdir, args, timeout=7200):
    os.makedirs(outdir, exist_ok=True)
    for f in ("req.txt", "impl.txt", "report.json", "lean.txt"):
        try:
            os.remove(os.path.join(outdir, f))
        except FileNotFoundError:
            pass
    # 24 GiB of address space: a runaway allocation ends the harness process, not the machine
    rc, out = run([binary, cmd, "--out", outdir] + args, timeout=timeout, mem_gib=24)
    rep = None
    try:
        rep = json.load(open(os.path.join(outdir, "report.json")))
    except Exception:
        pass
    return rc, out, rep


REQ_TIMEOUT = float(os.environ.get("VERIF_MODEL_REQ_TIMEOUT", "30"))


def _feed_driver(drv, pin, pout, result):
    """One driver process answers the lines of `pin`, one at a time, with a wall-clock limit per request: a model
    evaluation that does not return in time (the denotational models materialise every continuation and can be
    exponentially slower than the engine on nested quantifiers) is answered `model-timeout`, the process is replaced
    and the run goes on. A timeout is not evidence of anything: such requests are counted and left undecided."""
    import select

    def limit():
        import resource
        gib = int(os.environ.get("VERIF_MODEL_MEM_GIB", "6"))
        resource.setrlimit(resource.RLIMIT_AS, (gib << 30, gib << 30))

    def start():
        return subprocess.Popen([drv], stdin=subprocess.PIPE, stdout=subprocess.PIPE, stderr=subprocess.DEVNULL, bufsize=0, preexec_fn=limit)

    p = start()
    buf = b""
    timeouts = crashes = 0
    with open(pin, "rb") as fin, open(pout, "wb") as fout:
        for line in fin:
            try:
                p.stdin.write(line)
            except (BrokenPipeError, OSError):
                p.kill()
                p = start()
                buf = b""
                p.stdin.write(line)
            deadline = time.time() + REQ_TIMEOUT
            ans = None
            while True:
                k = buf.find(b"\n")
                if k >= 0:
                    ans, buf = buf[: k + 1], buf[k + 1 :]
                    break
                left = deadline - time.time()
                if left <= 0:
                    break
                r, _, _ = select.select([p.stdout], [], [], left)
                if not r:
                    break
                chunk = os.read(p.stdout.fileno(), 65536)
                if not chunk:
                    ans = b""      # the driver died on this request
                    break
                buf += chunk
            if ans is None or ans == b"":
                if ans is None:
                    timeouts += 1
                    fout.write(b"model-timeout\n")
                else:
                    crashes += 1
                    fout.write(b"model-crash\n")
                p.kill()
                p.wait()
                p = start()
                buf = b""
            else:
                fout.write(ans)
    try:
        p.stdin.close()
    except OSError:
        pass
    p.wait()
    result["timeouts"] = timeouts
    result["crashes"] = crashes


DRIVER_STATS = {"timeouts": 0, "crashes": 0}


def run_driver(outdir, timeout=7200):
    """Answer req.txt with the Lean driver. The driver is a pure function of each line, so the file is
    dealt round-robin to parallel driver processes (expensive requests come in runs) and the replies are
    interleaved back. Everything is streamed: a thorough run has millions of long lines. Each request has a
    wall-clock limit (`_feed_driver`)."""
    import threading
    drv = os.path.join(LEAN, ".lake", "build", "bin", "driver")
    reqp = os.path.join(outdir, "req.txt")
    nlines = 0
    with open(reqp, "rb") as f:
        for _ in f:
            nlines += 1
    jobs = max(1, min(os.cpu_count() or 1, 16, nlines // 2000 + 1))
    parts = [os.path.join(outdir, "req.%d.part" % j) for j in range(jobs)]
    outs = [open(pth, "wb") for pth in parts]
    with open(reqp, "rb") as f:
        for i, line in enumerate(f):
            outs[i % jobs].write(line)
    for o in outs:
        o.close()
    pouts = [os.path.join(outdir, "lean.%d.part" % j) for j in range(jobs)]
    results = [{} for _ in range(jobs)]
    threads = [threading.Thread(target=_feed_driver, args=(drv, parts[j], pouts[j], results[j]), daemon=True) for j in range(jobs)]
    for t in threads:
        t.start()
    deadline = time.time() + timeout
    rc, err = 0, ""
    for t in threads:
        t.join(max(1, deadline - time.time()))
        if t.is_alive():
            rc, err = 124, "driver run exceeded %ds; " % timeout
    crashes = sum(r.get("crashes", 0) for r in results)
    DRIVER_STATS["timeouts"] += sum(r.get("timeouts", 0) for r in results)
    DRIVER_STATS["crashes"] += crashes
    # a request on which the model process dies has exhausted its address-space limit (the denotational models build
    # every intermediate result list): undecided like a timeout, unless it happens on more than 1 request in 1000
    if crashes > max(3, nlines // 1000) and rc == 0:
        rc, err = 1, "the driver died on %d of %d requests (answered model-crash)" % (crashes, nlines)
    ins = [open(pout, "rb") for pout in pouts]
    with open(os.path.join(outdir, "lean.txt"), "wb") as fout:
        for i in range(nlines):
            line = ins[i % jobs].readline()
            if not line:
                break
            fout.write(line)
    for fh in ins:
        fh.close()
    for pth in parts + pouts:
        os.remove(pth)
    return rc, err


def diff_replies(outdir, limit=20):
    """Stream the three files side by side; returns (number of requests, first `limit` differences)."""
    diffs = []
    n = [0, 0, 0]
    with open(os.path.join(outdir, "req.txt"), errors="replace") as fr, \
         open(os.path.join(outdir, "impl.txt"), errors="replace") as fi, \
         open(os.path.join(outdir, "lean.txt"), errors="replace") as fl:
        while True:
            r, a, b = fr.readline(), fi.readline(), fl.readline()
            if not r and not a and not b:
                break
            n[0] += 1 if r else 0
            n[1] += 1 if a else 0
            n[2] += 1 if b else 0
            if not (r and a and b):
                continue
            a, b = a.rstrip("\n"), b.rstrip("\n")
            if b == "model-timeout" or b == "model-crash":
                continue
            if a != b and len(diffs) < limit:
                diffs.append({"request": r.rstrip("\n"), "impl": a, "model": b})
    if not (n[0] == n[1] == n[2]):
        diffs.insert(0, {"request": "<line counts>", "impl": str(n[1]), "model": str(n[2])})
    return n[0], diffs


# ----------------------------------------------------------------------------- known findings

def load_known():
    path = os.path.join(ROOT, "known_findings.json")
    if not os.path.exists(path):
        return []
    return json.load(open(path)).get("findings", [])


def match_known(pid, text, known):
    for k in known:
        if k.get("status") != "open" or pid not in k.get("properties", []):
            continue
        for pat in k.get("match", []):
            if re.search(pat, text):
                return k
        pred = k.get("predicate")
        if pred and PREDICATES[pred](text):
            return k
    return None


# ----------------------------------------------------------------------------- per-property plans

def c11_aux():
    """Candidate file for the harness from the committed oracle snapshot."""
    o = json.load(open(os.path.join(ROOT, "oracle", "props17.json")))
    kinds = {"lone": 0, "gc": 1, "sc": 2, "scx": 3}
    path = os.path.join(BUILD, "tmp", "c11_candidates.txt")
    os.makedirs(os.path.dirname(path), exist_ok=True)
    with open(path, "w") as f:
        for e in o["entries"]:
            f.write("%d %d %s\n" % (kinds[e["kind"]], 1 if e["accepted"] else 0, e["name"]))
    # properties of strings: the candidate sequences with V8/ICU's verdict, for the runtime sweep (`^\p{P}$` under v)
    sp = os.path.join(BUILD, "tmp", "c11_strings.txt")
    so = json.load(open(os.path.join(ROOT, "oracle", "strings17.json")))
    with open(sp, "w") as f:
        for prop, e in so["properties"].items():
            for c, v in zip(e["candidates"], e["verdicts"]):
                f.write("%s %s %s\n" % (prop, v, c.replace(" ", ".")))
    return path, o


def c11_strings_compare():
    """Properties of strings: the seven sequence tables regenerated from the source (translator) against V8/ICU 78.2's
    verdict on the committed candidate universe (members, prefixes, suffixes, U+FE0F removed/appended, all 676
    regional-indicator pairs, keycap bases): membership must agree on every candidate."""
    sys.path.insert(0, os.path.join(ROOT, "tools"))
    import rs2lean as r
    ut = r.strip_comments(open(os.path.join(REPO, "src", "unicodetables.rs")).read())
    tabs = r.parse_string_tables(ut)
    disp = r.parse_string_dispatch(ut, tabs)
    names = dict(r.parse_from_str(ut, "unicode_string_property_from_str"))
    so = json.load(open(os.path.join(ROOT, "oracle", "strings17.json")))
    viol, n = [], 0
    for prop, e in so["properties"].items():
        if prop not in names:
            viol.append({"kind": "impl-vs-oracle", "case": "\\p{%s}" % prop, "what": "property of strings %s is not known to the crate" % prop})
            continue
        t = set(tuple(x) for x in tabs[disp[names[prop]]])
        for c, v in zip(e["candidates"], e["verdicts"]):
            n += 1
            sq = tuple(int(x, 16) for x in c.split())
            if (sq in t) != (v == "1") and len(viol) < 40:
                viol.append({"kind": "impl-vs-oracle", "case": "\\p{%s} sequence %s" % (prop, c),
                             "what": "the crate's table for \\p{%s} %s the sequence <%s>, ICU 78.2 (Unicode 17) %s" % (
                                 prop, "contains" if sq in t else "lacks", c, "contains it" if v == "1" else "does not")})
    for prop in names:
        if prop not in so["properties"]:
            viol.append({"kind": "impl-vs-oracle", "case": "\\p{%s}" % prop, "what": "the crate accepts a property of strings %s that is not in the ES table" % prop})
    return viol, n


def casefold_aux():
    cf = json.load(open(os.path.join(ROOT, "oracle", "casefold17.json")))
    f8 = json.load(open(os.path.join(ROOT, "oracle", "f8_sets.json")))
    path = os.path.join(BUILD, "tmp", "casefold.txt")
    os.makedirs(os.path.dirname(path), exist_ok=True)
    with open(path, "w") as f:
        for c, r in cf["scf"]:
            f.write("scf %x %x\n" % (c, r))
        for c, r in cf["legacy"]:
            f.write("legacy %x %x\n" % (c, r))
        for c in f8["D"]:
            f.write("d8 %x\n" % c)
        for c in f8["X8"]:
            f.write("x8 %x\n" % c)
    return path


_F8 = None


def f8_chars():
    global _F8
    if _F8 is None:
        f8 = json.load(open(os.path.join(ROOT, "oracle", "f8_sets.json")))
        _F8 = set(f8["D"]) | set(f8["X8"])
    return _F8


def legacy_icase_context(flags, ast_text=""):
    """i without u/v at top level, or a modifier group switching i on in a non-unicode pattern."""
    if "u" in flags or "v" in flags:
        return False
    if "i" in flags:
        return True
    return bool(re.search(r"\(mod [a-z]*i[a-z]* ", ast_text))


def f8_predicate(text):
    """Class predicate of known finding F8: legacy (non-u/v) case-insensitive matching AND a code point
    of the committed sets D ∪ X8 (oracle/f8_sets.json) occurs in the pattern or the haystack."""
    bad = f8_chars()
    m = re.search(r"F8CTX flags=(\S+) cps=(\S+)", text)
    if m:
        if not legacy_icase_context(m.group(1)):
            return False
        if "negesc=1" in text:
            return True
        cps = [int(x, 16) for x in m.group(2).split(".")] if m.group(2) != "-" else []
        return any(c in bad for c in cps)
    m = re.match(r"(esfind|esiter) (\S+) (\S+) (\S+) (\d+)", text)
    if m:
        flags, ast, hay = m.group(2), m.group(3).replace("~", " "), m.group(4)
        if not legacy_icase_context(flags, ast):
            return False
        # a negated class escape inside a bracket: its raw set contains every non-ASCII case partner
        if re.search(r"class [01] ", ast) and re.search(r"\(esc [WDS]\)", ast):
            return True
        cps = [int(x, 16) for x in hay.split(".")] if hay != "-" else []
        cps += [int(x, 16) for x in re.findall(r"\((?:char|c) ([0-9a-f]+)\)", ast)]
        for a, b in re.findall(r"\(r ([0-9a-f]+) ([0-9a-f]+)\)", ast):
            lo, hi = int(a, 16), int(b, 16)
            if any(lo <= c <= hi for c in bad):
                return True
        for q in re.findall(r"\(q ([^)]*)\)", ast):
            for sname in q.split(" "):
                if sname and sname != "-":
                    cps += [int(x, 16) for x in sname.split(".")]
        return any(c in bad for c in cps)
    return False


def legacy_astral_range(text):
    """Class predicate of known finding F29: no u/v flag, implementation and specification disagree on validity, and
    the pattern contains a supplementary code point immediately followed by `-` and a further class member (a range
    whose left end is a trail surrogate in UTF-16: the crate compares the whole code point with the right end, so
    `[U+10400-U+1044F]` is accepted where ES reports a range out of order, and `[U+10400-\\uDE00]` is rejected
    where ES sees the valid range DC00-DE00)."""
    m = re.match(r"esvalid (\S+) (\S+) \|\| implementation \[(?:valid|invalid)\] differs .* \[(?:valid|invalid)\]", text)
    if not m:
        return False
    flags, pat = m.group(1), m.group(2)
    if "u" in flags or "v" in flags or pat == "-":
        return False
    cps = [int(x, 16) for x in pat.split(".")]
    for i in range(len(cps) - 2):
        if cps[i] >= 0x10000 and cps[i + 1] == 0x2D and cps[i + 2] != 0x5D:
            return True
        # ... or whose RIGHT end is one (`[\\uDE00-U+1044F]`: DE00-D801 out of order in ES, DE00-1044F here)
        if cps[i + 2] >= 0x10000 and cps[i + 1] == 0x2D and cps[i] != 0x5B:
            return True
    return False


def legacy_u_brace(text):
    """Class predicate of known finding F30 for C08: no u/v flag and the pattern contains `\\u{` hex digits `}`
    (ECMAScript reads that as `u` followed by a brace group, the crate as a code point escape)."""
    m = re.match(r"esvalid (\S+) (\S+) \|\| ", text)
    if not m:
        return False
    flags, pat = m.group(1), m.group(2)
    if "u" in flags or "v" in flags or pat == "-":
        return False
    s = "".join(chr(int(x, 16)) if int(x, 16) < 0xD800 or int(x, 16) > 0xDFFF else "\ufffd" for x in pat.split("."))
    # a group name may use the brace form in every mode: only occurrences outside `(?<…>` / `\\k<…>` count
    s = re.sub(r"(\(\?|\\k)<[^>]*>", "", s)
    return re.search(r"\\u\{[0-9a-fA-F]+\}", s) is not None


PREDICATES = {"legacy_icase_x8": f8_predicate, "legacy_astral_range": legacy_astral_range, "legacy_u_brace": legacy_u_brace}


def c11_oracle_compare(outdir, oracle):
    """Property's observable form: the table the engine builds for \\p{…} == ICU's set."""
    req = open(os.path.join(outdir, "req.txt")).read().splitlines()
    imp = open(os.path.join(outdir, "impl.txt")).read().splitlines()
    viol = []
    for e, r, a in zip(oracle["entries"], req, imp):
        if not e["accepted"] or not a.startswith("cc "):
            continue
        want = ",".join("%x-%x" % (x, y) for x, y in e["intervals"]) or "-"
        if a[3:] != want:
            got = [tuple(int(v, 16) for v in p.split("-")) for p in a[3:].split(",")] if a[3:] != "-" else []
            wl = [tuple(x) for x in e["intervals"]]
            cp = None
            for x, y in zip(got, wl):
                if x != y:
                    cp = min(x[0], y[0]) if x[0] != y[0] else min(x[1], y[1]) + 1
                    break
            viol.append({"kind": "impl-vs-oracle",
                         "what": "\\p{%s%s}: engine table differs from Unicode 17 (first difference near U+%04X)" % (
                             {"lone": "", "gc": "gc=", "sc": "sc=", "scx": "scx="}[e["kind"]], e["name"], cp or 0),
                         "case": r})
    return viol


ENGINE_RULE = ("(pattern AST from the generator, flags, haystack sampled from the pattern / mutated / random, start on a char boundary); "
               "non-trivial = the search finds a match; distinct by (pattern, flags, haystack, start)")

PLANS = {
    "C07": dict(proofs=["Proofs.C07", "Proofs.C07pre", "Proofs.SourceConsts", "Proofs.OptHeight"], custom="c07",
                runs=[("syntax", dict(quick=20000, thorough=600000), ["--focus", "C07"]), ("compiler", dict(quick=10000, thorough=300000))],
                rule="all strings up to length 3 (thorough 4) over 25 syntax symbols x {-,u,v}; generated valid patterns, single-token mutations, random syntax-alphabet strings incl. surrogate code points; 30 adversarially large patterns (10^5..10^6 alternatives / nesting 255,256,257,10^5 / 65535,65536 groups and loops / 30-digit counts / 10^6-char literals / ...) each in a worker process; non-trivial = compiles",
                technique="Lean 4 proofs about the parser / optimizer / emitter models with every Rust panic site explicit (case classes <= 4, pre-scan totality, …) + exact correspondence of the parser model (accept/reject and IR) + adversarial stream in worker processes"),
    "C08": dict(proofs=["Proofs.C08", "Proofs.C08Frag", "Proofs.Lemmas.ESGrammarLaws", "Proofs.Lemmas.ParseRegressions", "Proofs.C07", "Proofs.PropExpr"], custom="c07",
                runs=[("syntax", dict(quick=150000, thorough=3000000), ["--focus", "C08"])],
                rule="all strings up to length 3 (thorough 4) over 25 syntax symbols x {-,u,v}; generated valid patterns of every flag set (character spellings varied: raw, \\xHH, \\uHHHH, \\u{..}, surrogate pairs, \\cX, control escapes, identity escapes), single-token mutations of them, random strings over the syntax alphabet incl. surrogate code points; every case asked both of Regex::with_flags and of the ES2025 grammar recognizer; non-trivial = compiles",
                technique="Lean 4 recognizer of the ES2025 Pattern grammar incl. Annex B and early errors (written from ECMA-262 alone, validated against V8 on 10^8 strings) with a proof that it never runs out of fuel + exact correspondence of the parser model (accept/reject and IR) + parser totality theorems (C07) + differential implementation vs recognizer on every generated string"),
    "C15": dict(proofs=["Proofs.C15", "Proofs.ByteSearch"], runs=[], custom="c15",
                rule="one generated case file ((flags, pattern incl. single-token mutations of valid patterns, haystack, start)) replayed through find_from (optimized and no_opt, backtracking and PikeVM) by binaries built with default / index-positions / prohibit-unsafe / both / utf16 / alloc-only features; non-trivial = the default build finds a match",
                technique="Lean 4 proof (any two build variants that refine the executor model agree wherever no error site is reachable - by the C06 safety theorem) + replay of one case file through six feature builds"),
    "C20": dict(proofs=["Proofs.C20", "Proofs.Closure", "Proofs.Final", "Proofs.SearchTerm", "Proofs.C20Provided"], fset="pattern", toolchain="+nightly",
                runs=[("c20", dict(quick=6000, thorough=200000))],
                rule="(regex from pool/generator, haystack incl. multi-byte text, interleaving of next()/next_back() calls: all-forward, all-backward, 3 random); non-trivial = regex has a match; plus str::find/rfind/contains/matches/rmatches/split/rsplit compared with find_iter",
                technique="Lean 4 proof of the Searcher/ReverseSearcher contract for the model of RegexSearcher (any interleaving tiles the haystack; Match steps = find_iter) + correspondence on nightly"),
    "C06": dict(proofs=["Proofs.C06", "Proofs.Certs", "Proofs.Final", "Proofs.ByteSearch", "Proofs.SourceConsts"], runs=[("engine", dict(quick=30000, thorough=1500000), ["--focus", "C06"]),
                                             ("engine", dict(quick=30000, thorough=1500000), ["--focus", "C06"], {"profile": "checked"})],
                rule=ENGINE_RULE,
                technique="Lean 4 proof of a safety invariant of the executor models (no error site reachable, positions in range) + executor tie + range/boundary checks on the implementation"),
    "C14": dict(proofs=["Proofs.C14", "Proofs.C14Sem", "Proofs.SourceConsts"], fset="utf16",
                runs=[("c14", dict(quick=20000, thorough=600000))],
                rule="(pattern AST, flags, haystack, start): find_from_utf16 on the UTF-16 encoding with offsets translated back vs find_from on the string; find_from_ucs2 on BMP text; arbitrary u16 slices with lone surrogates from every start; non-trivial = match",
                technique="Lean 4 proof about the UTF-16/UCS-2 decoder models (round trip, totality and range on arbitrary units, offset translation) + correspondence with the utf16 build"),
    "C10": dict(proofs=["Proofs.C10"], runs=[("c10", dict(quick=0, thorough=0))],
                rule="every code point with a non-trivial case class in either source (quick: all below U+0250 and a quarter of the rest) x {i, iu, iv} x {literal, [c], [^c], (c)\\1} x every member of both classes; \\w \\W [\\w] [\\W] \\b for every such code point; non-trivial = c ≠ d equivalent",
                technique="Lean 4 kernel evaluation over FOLDS / TO_UPPERCASE regenerated from the source vs ICU 78.2 snapshot, lifted to all code points; engine-level sweep of the same relation"),
    "C01": dict(proofs=["Proofs.C01", "Proofs.Lower", "Proofs.LowerChain", "Proofs.ESTerm", "Proofs.RoundTrip", "Proofs.Keystone", "Proofs.Final", "Proofs.DupNameRef"], custom="c01", runs=[("engine", dict(quick=30000, thorough=600000), ["--focus", "C01"]), ("lower", dict(quick=10000, thorough=200000))],
                rule=ENGINE_RULE,
                technique="Lean 4 ES2025 specification (laws proved) as executable oracle: spec-vs-implementation differential on generated ASTs"),
    "C04": dict(proofs=["Proofs.C04", "Proofs.C04Sem", "Proofs.EndToEnd", "Proofs.Final", "Proofs.ByteSearch"], runs=[("bytesearch", dict(quick=20000, thorough=500000)), ("engine", dict(quick=30000, thorough=1500000), ["--focus", "C04"]),
                                             ("compiler", dict(quick=20000, thorough=600000))],
                rule=ENGINE_RULE,
                technique="Lean 4 proof (prefilter transparency for any admissible scan; byte-scan and lead-byte lemmas) + executor tie + predicate-vs-Arbitrary differential"),
    "C02": dict(proofs=["Proofs.C02", "Proofs.C02Full", "Proofs.Keystone", "Proofs.Lemmas.KeystoneC02", "Proofs.Certs", "Proofs.Final"], runs=[("engine", dict(quick=30000, thorough=1500000), ["--focus", "C02"])],
                rule=ENGINE_RULE, technique="Lean 4 proofs about the executor models + executor tie (models run on the dumped bytecode, incl. step counts) + implementation differential"),
    "C03": dict(proofs=["Proofs.C03", "Proofs.Keystone", "Proofs.EndToEnd", "Proofs.Final", "Proofs.SourceConsts"], runs=[("engine", dict(quick=30000, thorough=1500000), ["--focus", "C03"]),
                                 ("compiler", dict(quick=30000, thorough=900000))],
                rule=ENGINE_RULE + "; compiler tie: per generated pattern the real IR before/after optimization, start predicate and program vs the Lean models, and the IR semantics vs the real first match",
                technique="Lean 4 proof: every optimizer pass and the whole pipeline preserve the IR semantics (all inputs) + exact correspondence of the optimizer / IR-semantics models with the code + opt-vs-no_opt differential"),
    "C05": dict(proofs=["Proofs.C05", "Proofs.C05Full", "Proofs.Certs", "Proofs.Final", "Proofs.SearchTerm"], runs=[("engine", dict(quick=30000, thorough=1500000), ["--focus", "C05"]),
                                 ("c05scope", dict(quick=0, thorough=0))],
                rule=ENGINE_RULE, technique="Lean 4 proofs about the executor models + executor tie (models run on the dumped bytecode, incl. step counts) + implementation differential"),
    "C13": dict(proofs=["Proofs.C13"], runs=[("engine", dict(quick=30000, thorough=1500000), ["--focus", "C13"])],
                rule=ENGINE_RULE, technique="Lean 4 proofs about the executor models + executor tie (models run on the dumped bytecode, incl. step counts) + implementation differential"),
    "C19": dict(proofs=["Proofs.C19"], runs=[("c19", dict(quick=4000, thorough=100000))],
                rule="(regex, multiset of (haystack,start) queries): sequential results vs 3 random orders on one thread vs 16 threads sharing &Regex and a clone, both executors; non-trivial = query has a match",
                technique="Lean 4 proof (schedule-independence of per-thread executor state; generated type inventory has no interior mutability) + rustc Send/Sync assertion + thread stress"),
    "C09": dict(proofs=["Proofs.C09", "Proofs.Closure", "Proofs.Closure2", "Proofs.Final", "Proofs.SearchTerm"], runs=[("c09", dict(quick=20000, thorough=400000))],
                rule="(pattern from pool/generator, haystack, start, executor); non-trivial = at least one match",
                technique="Lean 4 proof over the iterator model (parametric in the matcher) + correspondence on attempt tables"),
    "C11": dict(proofs=["Proofs.C11", "Proofs.PropExpr"], runs=[("c11", dict(quick=0, thorough=0))],
                rule="every (kind, name) of the candidate universe (names of either side, all 2-letter names, mutations); non-trivial = accepted by ICU",
                technique="Lean 4 kernel evaluation (decide +kernel) over tables regenerated from the source vs ICU 78.2 snapshot"),
    "C12": dict(proofs=["Proofs.C12", "Proofs.Lower"], custom="c07", runs=[("c12sets", dict(quick=20000, thorough=400000)), ("c12classes", dict(quick=60000, thorough=1500000))],
                rule="(a) random well-formed interval sets over small and full universes x set operation, non-trivial = non-empty operands; (b) /^E$/ for generated class expressions E (legacy brackets; v-mode unions, &&, --, nesting, \\q strings, negation) x flags x every mentioned character, its case partners, range neighbours and mentioned strings with single-edit variants, expected answer from the ES specification model, non-trivial = match",
                technique="Lean 4 proof of the CodePointSet algebra (all inputs) + correspondence through hook wrappers"),
    "C16": dict(proofs=["Proofs.C16", "Proofs.Closure", "Proofs.Closure2", "Proofs.Final"], runs=[("c16", dict(quick=2000, thorough=60000))],
                rule="(pattern, haystack, match) with named/unnamed/duplicate-named groups; non-trivial = pattern has a named group",
                technique="Lean 4 proof over the Match accessor model + correspondence"),
    "C17": dict(proofs=["Proofs.C17", "Proofs.Closure", "Proofs.Final"], runs=[("c17", dict(quick=1500, thorough=50000))],
                rule="(pattern, haystack, template); non-trivial = at least one match and a `$` in the template",
                technique="Lean 4 proof (template grammar spec = model; splice theorem) + correspondence"),
    "C18": dict(proofs=["Proofs.C18", "Proofs.C18Full"], runs=[("c18", dict(quick=300, thorough=3000))],
                rule="all strings up to length 2 (thorough 3) over 24 syntax/other characters + random longer ones, x 12 flag sets x 8 haystacks; non-trivial = contains a syntax character",
                technique="Lean 4 proof over the escape model + exhaustive short-string differential against substring search"),
}


BIG_CASES = [
    ("alt", 100000, "ok"), ("altgroups", 70000, "err"), ("nest", 255, "ok"), ("nest", 256, None), ("nest", 257, "err"), ("nest", 100000, "err"),
    ("ncnest", 257, "err"), ("ncnest", 100000, "err"), ("looknest", 100000, "err"), ("lookbehindnest", 250, "ok"),
    ("groups", 65535, "ok"), ("groups", 65536, "err"), ("loops", 65535, "ok"), ("loops", 65536, "err"),
    ("quantnest", 250, "ok"), ("quantnest", 100000, "err"), ("count", 30, "ok"), ("countrange", 30, "ok"),
    ("literal", 1000000, "ok"), ("literalmb", 300000, "ok"), ("classranges", 100000, "ok"), ("classnest", 250, "ok"),
    ("classnest", 100000, "err"), ("qstrings", 50000, "ok"), ("backrefs", 100000, "ok"), ("named", 70000, "err"),
    ("dupnamed", 3000, "ok"), ("catnest", 250, "ok"), ("altnest", 250, "ok"), ("altnest", 100000, "err"),
    ("countnest", 9, "ok"), ("countnest", 14, "ok"), ("countnest", 40, "ok"), ("countnest", 250, "ok"), ("countnest2", 30, "ok"),
    ("sibgroups", 1000, "ok"), ("sibnc", 1000, "ok"), ("siblook", 600, "ok"), ("sibclass", 1000, "ok"), ("sibvclass", 1000, "ok"),
    ("sibvnclass", 1000, "ok"), ("sibvclasstop", 600, "ok"), ("sibquant", 1000, "ok"), ("sibmod", 1000, "ok"),
    ("dupwrap", 1, "err"), ("dupwrap", 255, "err"), ("dupwrap", 65533, "err"), ("dupwrap", 65534, "err"), ("dupwrap", 65535, "err"), ("dupwrap", 65536, "err"),
    ("dupwrap", 131070, "err"), ("dupwraplook", 65534, "err"), ("dupwraplook", 254, "err"), ("dupwrapok", 65534, "ok"), ("dupwrapok", 3, "ok"),
    # every nesting construct x every quantifier shape at depths around the optimizer's (100) and the parser's (256) limits
    ("nestquant", 49, "ok"), ("nestquant", 50, "ok"), ("nestquant", 51, "ok"), ("nestquant", 99, "ok"), ("nestquant", 100, "ok"), ("nestquant", 101, "ok"),
    ("nestquant", 102, "ok"), ("nestquant", 126, "ok"), ("nestquant", 127, "ok"), ("nestquant", 128, "ok"), ("nestquant", 200, "ok"), ("nestquant", 253, "ok"),
    ("nestquant", 254, "ok"), ("nestquant", 255, "ok"), ("nestquant", 256, "ok"),
]
BIG_THOROUGH = [("alt", 1000000, "ok"), ("literal", 5000000, "ok"), ("classranges", 1000000, "ok"), ("backrefs", 1000000, "ok"), ("qstrings", 300000, "ok")]


def _limit_worker_memory():
    """16 GiB of address space for a worker: a pattern that makes the compiler allocate without bound ends in an
    allocation failure (abort) in the worker instead of exhausting the machine."""
    import resource
    resource.setrlimit(resource.RLIMIT_AS, (16 << 30, 16 << 30))


def c07_big(binary, tier, stats, violations):
    """Adversarially large patterns, each compiled (and searched once, and dropped) in a worker process
    with the default 8 MiB main-thread stack and a wall-clock cap: an abort, a signal or a timeout is a violation;
    the expected verdict (Ok / Err for the resource limits) is checked too."""
    cases = BIG_CASES + (BIG_THOROUGH if tier == "thorough" else [])
    for kind, n, want in cases:
        t = time.time()
        try:
            p = subprocess.run([binary, "big", kind, str(n)], stdout=subprocess.PIPE, stderr=subprocess.PIPE, text=True, timeout=120,
                               preexec_fn=_limit_worker_memory)
            rc, out = p.returncode, (p.stdout.strip().splitlines() or [""])[-1]
        except subprocess.TimeoutExpired:
            rc, out = "timeout", ""
        stats["evaluations"] = stats.get("evaluations", 0) + 1
        stats["distinct_nontrivial"] = stats.get("distinct_nontrivial", 0) + 1
        stats["dist"]["c07big:%s:%d" % (kind, n)] = "%s %s %.1fs" % (rc, out, time.time() - t)
        verdict = out.split(" ")[0] if out else ""
        if rc != 0 or verdict not in ("ok", "err"):
            violations.append({"kind": "panic", "case": "rvharness big %s %d" % (kind, n),
                               "what": "compiling the adversarial pattern `%s` x %d did not return Ok or Err (exit status %s, output %r)" % (kind, n, rc, out)})
        elif want is not None and verdict != want:
            violations.append({"kind": "impl-vs-spec", "case": "rvharness big %s %d" % (kind, n),
                               "what": "adversarial pattern `%s` x %d: expected %s, got %s (resource limits must surface exactly at the documented bounds)" % (kind, n, want, verdict)})
    stats["samples"] += ["big %s %d => %s" % (k, n, w) for k, n, w in cases[:6]]


def c01_print(binary, tier, seed, stats, broken):
    """Tie of the Lean pattern printer (Spec/Print.lean, the text side of Proofs/RoundTrip) to the real parser:
    for the ASTs of the `lower` run, the real parser's IR for the LEAN-printed text must equal its IR for the
    harness-printed text of the same AST (which the `lower` tie equates with toIR of the AST)."""
    base = os.path.join(BUILD, "runs", "C01", "lower")
    reqp, impp = os.path.join(base, "req.txt"), os.path.join(base, "impl.txt")
    if not (os.path.exists(reqp) and os.path.exists(impp)):
        broken.append({"tie": "print tie: the lower run left no request file", "detail": ""})
        return
    pd = os.path.join(BUILD, "runs", "C01", "print")
    os.makedirs(pd, exist_ok=True)
    reqs = [l.rstrip("\n") for l in open(reqp)]
    want = [l.rstrip("\n") for l in open(impp)]
    with open(os.path.join(pd, "req.txt"), "w") as f:
        for l in reqs:
            f.write("print" + l[len("lower"):] + "\n")
    with open(os.path.join(pd, "impl.txt"), "w") as f:
        f.write("\n" * len(reqs))
    rc, err = run_driver(pd)
    if rc != 0:
        broken.append({"tie": "Lean driver on print", "detail": err[-1000:]})
        return
    texts = [l.rstrip("\n") for l in open(os.path.join(pd, "lean.txt"))]
    with open(os.path.join(pd, "texts.txt"), "w") as f:
        for l, t in zip(reqs, texts):
            f.write("%s %s\n" % (l.split(" ")[1], t))
    rc, out = run([binary, "irof", "--aux", os.path.join(pd, "texts.txt"), "--out", pd], timeout=3600, mem_gib=24)
    got = [l.rstrip("\n") for l in open(os.path.join(pd, "irof.txt"))] if os.path.exists(os.path.join(pd, "irof.txt")) else []
    if rc != 0 or len(got) != len(want):
        broken.append({"tie": "print tie: the real parser did not answer every printed pattern", "detail": out[-1000:]})
        return
    diffs = [{"request": r, "printed": t, "impl": g, "model": w} for r, t, g, w in zip(reqs, texts, got, want) if g != w and t != "bad-request"]
    stats["dist"]["print-tie-cases"] = len(reqs)
    stats["dist"]["print-tie-bad-request"] = sum(1 for t in texts if t == "bad-request")
    stats["requests"] = stats.get("requests", 0) + len(reqs)
    if diffs:
        broken.append({"tie": "print tie: real parser on the Lean-printed text vs on the harness-printed text of the same AST", "detail": diffs[:5]})


def c15_replay(default_binary, tier, seed, stats, violations, broken):
    """One case file replayed through the string APIs of six builds; every output must equal the default build's."""
    n = 20000 if tier == "quick" else 400000
    base = os.path.join(BUILD, "runs", "C15")
    rc, out, rep = run_harness(default_binary, "gencases", os.path.join(base, "gen"), ["--seed", str(seed), "--n", str(n)])
    cases = os.path.join(base, "gen", "cases.txt")
    if rc != 0 or not os.path.exists(cases):
        broken.append({"tie": "C15 case generation", "detail": out[-2000:]})
        return
    lines = open(cases).read().splitlines()
    stats["evaluations"] = stats.get("evaluations", 0) + len(lines)
    outputs = {}
    for fset in ["default", "index", "safe", "index-safe", "utf16", "alloc"]:
        okb, bout, binary = cargo_build(fset)
        if not okb:
            broken.append({"tie": "cargo build of feature set " + fset, "detail": bout[-2000:]})
            continue
        d = os.path.join(base, fset)
        os.makedirs(d, exist_ok=True)
        try:
            os.remove(os.path.join(d, "replay.txt"))
        except FileNotFoundError:
            pass
        rc, rout = run([binary, "replay", "--aux", cases, "--out", d], timeout=7200)
        rp = os.path.join(d, "replay.txt")
        if rc != 0 or not os.path.exists(rp):
            violations.append({"kind": "panic", "what": "the %s build died (exit status %s) while replaying the case file" % (fset, rc),
                               "case": "rvharness[%s] replay %s" % (fset, cases)})
            continue
        outputs[fset] = open(rp).read().splitlines()
        stats["dist"]["c15:replayed-by-" + fset] = len(outputs[fset])
    ref = outputs.get("default")
    if ref is None:
        return
    nontrivial = set()
    for i, r in enumerate(ref):
        if r.startswith("ok") and "[]" not in r.split(" ")[1]:
            nontrivial.add(lines[i])
    stats["distinct_nontrivial"] = stats.get("distinct_nontrivial", 0) + len(nontrivial)
    stats["dist"]["c15:compile-errors"] = sum(1 for r in ref if r == "err")
    stats["samples"] += ["%s => %s" % (lines[i], ref[i]) for i in range(0, min(len(ref), 2000), 400)]
    for fset, outp in outputs.items():
        if fset == "default":
            continue
        for i, (a, b) in enumerate(zip(ref, outp)):
            if "fuel" in a or "fuel" in b:
                # the step budget of hook H1 is not available in every build (no thread-locals without std)
                stats["dist"]["c15:fuel-skips"] = stats["dist"].get("c15:fuel-skips", 0) + 1
                continue
            if a != b:
                violations.append({"kind": "impl-vs-impl", "case": "F8CTX-none " + lines[i],
                                   "what": "feature set %s [%s] differs from default [%s]" % (fset, b, a)})
                break
        if len(outp) != len(ref):
            violations.append({"kind": "impl-vs-impl", "case": cases, "what": "feature set %s answered %d of %d cases" % (fset, len(outp), len(ref))})


def write_evidence(pid, tier, seed, t0, plan, stats):
    os.makedirs(os.path.join(ROOT, "evidence"), exist_ok=True)
    cov = {
        "obligations": stats["obligations"],
        "discharged": stats["discharged"],
        "checker_cmd": "cd /verif/lean && lake build %s && lake env lean <#print axioms file>" % " ".join(plan["proofs"]),
        "trusted_base": TRUSTED_BASE + stats.get("extra_trusted", []),
        "theorems": stats.get("theorems", []),
        "axioms_used": stats.get("axioms", []),
        "evaluations": max(stats.get("evaluations", 0), 1),
        "distinct_nontrivial": stats.get("distinct_nontrivial", 0),
        "rule": plan["rule"],
        "samples": stats.get("samples", []) or ["<no cases>"],
        "traces_validated_against_impl": stats.get("requests", 0),
        "model_vs_impl_differences": stats.get("model_diffs", 0),
        "impl_violations": stats.get("impl_violations", 0),
        "known_findings_seen": stats.get("known_seen", []),
        "input_distribution": stats.get("dist", {}),
        "translator": stats.get("translator", {}),
        "explanation": stats.get("explanation", ""),
    }
    ev = {
        "property_id": pid, "tier": tier, "seed": seed, "level": "proof", "coverage": cov,
        "assumptions": stats.get("assumptions", []),
        "wall_s": round(time.time() - t0, 2), "violations": stats.get("violations", 0),
    }
    with open(os.path.join(ROOT, "evidence", "%s.json" % pid), "w") as f:
        json.dump(ev, f, indent=1)


def write_replay(pid, payload):
    d = os.path.join(ROOT, "replays")
    os.makedirs(d, exist_ok=True)
    path = os.path.join(d, "%s_%d.json" % (pid, int(time.time() * 1000) % 10**10))
    with open(path, "w") as f:
        json.dump(payload, f, indent=1)
    return path


def check(pid, tier, seed):
    t0 = time.time()
    plan = PLANS[pid]
    known = load_known()
    stats = {"obligations": 0, "discharged": 0, "violations": 0, "known_seen": [], "samples": [], "dist": {}}
    violations = []      # (what, payload) with concrete input
    broken = []          # ties / proof obligations that no longer check

    ok, tr = translate()
    if not ok:
        broken.append({"tie": "translator", "detail": str(tr)[:2000]})
    else:
        stats["translator"] = {k: tr[k] for k in ("interval_tables", "intervals", "folds", "to_uppercase") if k in tr}

    ok_build, errs, out = lake_build(plan["proofs"] + ["driver"])
    if not ok_build:
        broken.append({"tie": "lake build " + " ".join(plan["proofs"]), "detail": "\n".join(errs[:20]) or out[-2000:]})
    if not plan["proofs"]:
        ok_a, problems, theorems, axioms = True, [], [], []
    else:
        ok_a, problems, theorems, axioms = audit(plan["proofs"]) if ok_build else (False, ["build failed"], [], [])
    stats["theorems"] = theorems
    stats["axioms"] = axioms
    stats["obligations"] = max(len(theorems), 1)
    stats["discharged"] = len(theorems) if (ok_build and ok_a) else 0
    if ok_build and not ok_a:
        broken.append({"tie": "audit", "detail": "\n".join(problems)})
    if ok_build and tier == "thorough" and plan["proofs"]:
        # independent re-check: leanchecker replays the compiled declarations of each proof module through the kernel
        from concurrent.futures import ThreadPoolExecutor
        def lc(mod):
            try:
                rc, out = run(["lake", "env", "leanchecker", mod], cwd=LEAN, timeout=3600)
            except subprocess.TimeoutExpired:
                rc, out = 124, "timeout"
            return mod, rc, out
        with ThreadPoolExecutor(max_workers=4) as ex:
            res = list(ex.map(lc, plan["proofs"]))
        stats["dist"]["leanchecker-modules-ok"] = sum(1 for _, rc, _ in res if rc == 0)
        bad = [(m, rc, out[-500:]) for m, rc, out in res if rc != 0]
        if bad:
            broken.append({"tie": "leanchecker", "detail": str(bad)[:2000]})

    okc, cout, binary = cargo_build(plan.get("fset", "default"), toolchain=plan.get("toolchain"))
    if not okc:
        broken.append({"tie": "cargo build of the harness against /repo", "detail": cout[-3000:]})

    # source files that changed since the models were last validated against them (tools/fingerprint.py):
    # not an alarm, but a reason to look harder
    changed_src = []
    try:
        rcf, outf = run([sys.executable, os.path.join(ROOT, "tools", "fingerprint.py")])
        changed_src = json.loads(outf.strip().splitlines()[-1]) if rcf == 0 else []
    except Exception:
        changed_src = []
    stats["dist"]["source-files-changed-since-validation"] = len(changed_src)
    if changed_src:
        stats["samples"].append("changed source files: " + " ".join(changed_src))
    if okc:
        budget_mult = 10 if broken else (4 if changed_src else 1)   # broken proof/tie or changed source: search harder
        for run_entry in plan["runs"]:
            cmd, sizes = run_entry[0], run_entry[1]
            extra = list(run_entry[2]) if len(run_entry) > 2 else []
            outdir = os.path.join(BUILD, "runs", pid, cmd)
            n = sizes[tier] * budget_mult
            args = ["--seed", str(seed), "--n", str(n), "--tier", "thorough" if (tier == "thorough" or broken or changed_src) else "quick"] + extra
            oracle = None
            if cmd == "c11":
                aux, oracle = c11_aux()
                args += ["--aux", aux]
            if cmd in ("c18", "c10"):
                args += ["--aux", casefold_aux()]
            run_binary = binary
            if len(run_entry) > 3 and run_entry[3].get("profile"):
                okp, pout, run_binary = cargo_build(plan.get("fset", "default"), profile=run_entry[3]["profile"], toolchain=plan.get("toolchain"))
                if not okp:
                    broken.append({"tie": "cargo build (%s profile)" % run_entry[3]["profile"], "detail": pout[-2000:]})
                    continue
                outdir = outdir + "-" + run_entry[3]["profile"]
            rc, hout, rep = run_harness(run_binary, cmd, outdir, args)
            if rc == -9:
                # SIGKILL comes from outside the process (the kernel's out-of-memory killer under load, an
                # operator): a Rust panic, abort or memory fault is 101 / -6 / -11. Run it once more before
                # calling it a crash of the engine.
                time.sleep(20)
                stats["dist"]["harness-sigkill-retries"] = stats["dist"].get("harness-sigkill-retries", 0) + 1
                rc, hout, rep = run_harness(run_binary, cmd, outdir, args)
            if rc != 0 or rep is None:
                # the process died (abort / segmentation fault / stack overflow): that is itself an observation.
                # Re-run in the checked profile (debug assertions, overflow checks), where undefined behaviour
                # surfaces as a per-case panic, to obtain the concrete input.
                crash = {"kind": "panic", "what": "the harness process running the real engine died (exit status %s) during `%s`" % (rc, cmd),
                         "case": "rvharness %s %s" % (cmd, " ".join(args))}
                fm = re.search(r"FAULT-CASE: (.*)", hout or "")
                if fm:
                    # the fault handler of the guard-page runs names the case: a read outside the haystack
                    crash = {"kind": "panic", "case": fm.group(1)[:2000],
                             "what": "memory fault (SIGSEGV/SIGBUS) while searching a haystack that ends (or starts) at an inaccessible page: the engine read outside the haystack"}
                    violations.append(crash)
                    continue
                okp, pout, cbin = cargo_build(plan.get("fset", "default"), profile="checked", toolchain=plan.get("toolchain"))
                rc2, hout2, rep2 = run_harness(cbin, cmd, outdir + "-checked", args) if okp else (1, "", None)
                if rep2 is not None and rep2["violations"]:
                    for v in rep2["violations"]:
                        v["what"] = "(release build crashed; checked build reports) " + v["what"]
                        violations.append(v)
                else:
                    violations.append(crash)
                continue
            stats["evaluations"] = stats.get("evaluations", 0) + rep["evaluations"]
            stats["distinct_nontrivial"] = stats.get("distinct_nontrivial", 0) + rep["distinct_nontrivial"]
            stats["requests"] = stats.get("requests", 0) + rep["requests"]
            stats["samples"] += rep["samples"][:8]
            for k, v in rep["dist"].items():
                stats["dist"][cmd + ":" + k] = v
            hv = []
            for v in rep["violations"]:
                tag = v["kind"].split(":")[1] if ":" in v["kind"] else pid
                if tag == pid:
                    hv.append(v)
                else:
                    stats["dist"]["other-property-violations:" + tag] = stats["dist"].get("other-property-violations:" + tag, 0) + 1
            if oracle is not None:
                hv += c11_oracle_compare(outdir, oracle)
                sv, sn = c11_strings_compare()
                hv += sv
                stats["dist"]["string-property-candidates-vs-icu"] = sn
                stats["evaluations"] = stats.get("evaluations", 0) + sn
            for v in hv:
                violations.append(v)
            if ok_build:
                drc, derr = run_driver(outdir)
                if drc != 0:
                    broken.append({"tie": "Lean driver on " + cmd, "detail": derr[-2000:]})
                else:
                    nreq, diffs = diff_replies(outdir, limit=50000)
                    tie_diffs = []
                    for d in diffs:
                        op = d["request"].split(" ")[0]
                        if op.startswith("semfind16") and d["impl"] == "fuel":
                            stats["dist"]["fuel-skips"] = stats["dist"].get("fuel-skips", 0) + 1
                            continue
                        if op == "runprog" and pid == "C05" and d["impl"].endswith(" fuel") and d["model"].startswith("ok "):
                            # the implementation spent its whole budget where the reference ordered search (the executor
                            # model, proved terminating) finishes: a concrete input on which the search does not halt
                            # within K = 4 times the reference cost
                            mi = re.match(r"ok (\d+) (\d+) fuel$", d["impl"])
                            mm = re.match(r"ok (\d+) (\d+)", d["model"])
                            if mi and mm and int(mi.group(1)) > 4 * int(mm.group(1)) + 64:
                                violations.append({"kind": "impl-vs-spec", "case": d["request"][:4000],
                                                   "what": "the search spent %s steps without finishing; the reference ordered search (executor model) finishes this case in %s steps" % (mi.group(1), mm.group(1))})
                                continue
                        if op == "runprog" and (d["impl"].endswith(" fuel") or d["model"] == "fuel"):
                            # the harness' step budget (3M) was exhausted on the implementation (a C05 violation is
                            # raised by the harness where that matters); nothing to compare
                            stats["dist"]["fuel-skips"] = stats["dist"].get("fuel-skips", 0) + 1
                            continue
                        if op == "runprog" and pid == "C05":
                            # C05 is about cost: the implementation may spend at most K = 4 times the steps and the
                            # backtrack-store length of the reference ordered search (the executor model), plus a
                            # constant; an implementation that got cheaper is not reported
                            mi = re.match(r"((?:[a-z-]+ )*)ok (\d+) (\d+)(.*)$", d["impl"])
                            mm = re.match(r"((?:[a-z-]+ )*)ok (\d+) (\d+)(.*)$", d["model"])
                            if mi and mm and mi.group(1) == mm.group(1) and mi.group(4) == mm.group(4) \
                                    and int(mi.group(2)) <= 4 * int(mm.group(2)) + 64 and int(mi.group(3)) <= 4 * int(mm.group(3)) + 64:
                                stats["dist"]["cost-differences-within-K"] = stats["dist"].get("cost-differences-within-K", 0) + 1
                                continue
                        if op == "runprog" and pid != "C05":
                            # interpreted-instruction count and peak stack are part of the tie only where the
                            # property is about them (C05); elsewhere a change of bookkeeping cost alone is not reported
                            strip = lambda r: re.sub(r"ok \d+ \d+", "ok", r, count=1)
                            if strip(d["impl"]) == strip(d["model"]):
                                stats["dist"]["count-only-differences"] = stats["dist"].get("count-only-differences", 0) + 1
                                continue
                        if op in SPEC_OPS:
                            # the Lean side is the *specification*: a difference is implementation vs spec
                            if d["model"].startswith("unsupported") or d["model"] == "fuel" or d["impl"] == "fuel":
                                stats["dist"]["spec-domain-skips"] = stats["dist"].get("spec-domain-skips", 0) + 1
                                continue
                            violations.append({"kind": "impl-vs-spec", "case": d["request"],
                                               "what": "implementation [%s] differs from the ECMAScript specification model [%s]" % (d["impl"], d["model"])})
                        else:
                            tie_diffs.append(d)
                    stats["model_diffs"] = stats.get("model_diffs", 0) + len(tie_diffs)
                    if DRIVER_STATS["timeouts"]:
                        stats["dist"]["model-timeouts(undecided)"] = DRIVER_STATS["timeouts"]
                    if DRIVER_STATS["crashes"]:
                        stats["dist"]["model-out-of-memory(undecided)"] = DRIVER_STATS["crashes"]
                    if tie_diffs:
                        broken.append({"tie": "correspondence %s (model vs implementation)" % cmd, "detail": tie_diffs[:5]})

    if plan.get("custom") == "c15" and okc:
        c15_replay(binary, tier, seed, stats, violations, broken)
    if plan.get("custom") == "c01" and okc:
        c01_print(binary, tier, seed, stats, broken)
    if plan.get("custom") == "c07" and okc:
        c07_big(binary, tier, stats, violations)

    # classification
    rc = 0
    seen_known = set()
    fresh = []
    for v in violations:
        k = match_known(pid, v["case"] + " || " + v["what"], known)
        if k:
            if k["id"] not in seen_known:
                seen_known.add(k["id"])
                print("KNOWN-FINDING: property=%s %s" % (pid, k["title"]))
        else:
            fresh.append(v)
    stats["known_seen"] = sorted(seen_known)
    stats["impl_violations"] = len(violations)
    if fresh:
        path = write_replay(pid, {"property": pid, "tier": tier, "seed": seed, "kind": "concrete-input",
                                  "violations": fresh[:20], "broken": broken,
                                  "replay_cmd": "python3 /verif/verif.py check %s --tier %s  (VERIF_SEED=%d)" % (pid, tier, seed)})
        print("VIOLATION property=%s replay=%s" % (pid, path))
        print("  " + fresh[0]["what"])
        rc = 1
    elif broken:
        path = write_replay(pid, {"property": pid, "tier": tier, "seed": seed, "kind": "broken-obligation", "broken": broken,
                                  "note": "a proof obligation or the model/implementation correspondence no longer checks; the search found no concrete failing input"})
        print("VIOLATION property=%s replay=%s no-failing-input-found" % (pid, path))
        print("  " + str(broken[0]["tie"]))
        rc = 1
    stats["violations"] = len(fresh) + (1 if (broken and not fresh) else 0)
    write_evidence(pid, tier, seed, t0, plan, stats)
    if rc == 0:
        print("OK property=%s tier=%s theorems=%d requests=%d evaluations=%d wall=%.1fs" % (
            pid, tier, len(theorems), stats.get("requests", 0), stats.get("evaluations", 0), time.time() - t0))
    return rc


def setup():
    ok, tr = translate()
    print("translator:", "ok" if ok else tr)
    if not ok:
        return 1
    okb, errs, out = lake_build([])
    print("lake build:", "ok" if okb else "\n".join(errs[:10]))
    okc, cout, _ = cargo_build("default")
    print("cargo build (default):", "ok" if okc else cout[-2000:])
    return 0 if (okb and okc) else 1


def main():
    if len(sys.argv) < 2:
        print(__doc__)
        return 2
    if sys.argv[1] == "setup":
        return setup()
    if sys.argv[1] == "check":
        pid = sys.argv[2]
        tier = os.environ.get("VERIF_TIER", "quick")
        if "--tier" in sys.argv:
            tier = sys.argv[sys.argv.index("--tier") + 1]
        seed = int(os.environ.get("VERIF_SEED", "1"))
        if pid not in PLANS:
            print("unknown property", pid)
            return 2
        return check(pid, tier, seed)
    if sys.argv[1] == "replay":
        payload = json.load(open(sys.argv[2]))
        print(json.dumps(payload, indent=1)[:4000])
        os.environ["VERIF_SEED"] = str(payload.get("seed", 1))
        return check(payload["property"], payload.get("tier", "quick"), payload.get("seed", 1))
    print(__doc__)
    return 2


if __name__ == "__main__":
    sys.exit(main())
