#![cfg_attr(feature = "pattern", feature(pattern))]
//! rvharness — drives the real `regress` (built from /repo's working tree with `--cfg regress_verif`)
//! and writes the line-protocol files that the Lean driver answers as well.
//!
//! usage: rvharness <cmd> [--seed N] [--n N] [--out DIR] [--tier quick|thorough] [--aux FILE]

mod ast;
mod guard;
mod ops_api;
mod ops_case;
mod ops_engine;
mod ops_features;
mod ops_syntax;
#[cfg(feature = "pattern")]
mod ops_pattern;
mod report;
mod rng;
mod scope;
mod util;

use report::Report;

fn arg(args: &[String], name: &str) -> Option<String> {
    args.iter().position(|a| a == name).and_then(|i| args.get(i + 1).cloned())
}

fn main() {
    let args: Vec<String> = std::env::args().collect();
    if args.len() < 2 {
        eprintln!("usage: rvharness <cmd> …");
        std::process::exit(2);
    }
    let cmd = args[1].as_str();
    let seed: u64 = arg(&args, "--seed").and_then(|s| s.parse().ok()).unwrap_or(1);
    let n: usize = arg(&args, "--n").and_then(|s| s.parse().ok()).unwrap_or(1000);
    let out = arg(&args, "--out").unwrap_or("/verif/.build/run".into());
    let thorough = arg(&args, "--tier").as_deref() == Some("thorough");
    let aux = arg(&args, "--aux").unwrap_or_default();
    // a panic inside a guarded region is reported by the caller; keep the default hook quiet
    std::panic::set_hook(Box::new(|_| {}));
    let mut rep = Report::new(&out);
    match cmd {
        "probe" => {
            let re = regress::Regex::with_flags(&args[3], args[2].as_str()).unwrap();
            println!("{}", regress::verif::dump_program(&re));
            if args.len() >= 5 {
                for m in re.find_iter(&args[4]) {
                    println!("{:?} {:?}", m.range(), m.captures);
                }
            }
            return;
        }
        "bigalt" => {
            let n: usize = args[2].parse().unwrap();
            let pat = vec!["a"; n].join("|");
            println!("{}", regress::Regex::new(&pat).is_ok());
            return;
        }
        "engine" => {
            let focus = arg(&args, "--focus").expect("--focus");
            ops_engine::engine(&mut rep, &focus, n, seed, thorough)
        }
        #[cfg(feature = "pattern")]
        "c20" => ops_pattern::c20(&mut rep, n, seed),
        "gencases" => ops_features::gen_cases(&mut rep, n, seed, &out, true),
        "replay" => {
            ops_features::replay(&aux, &out);
            return;
        }
        #[cfg(feature = "utf16")]
        "c14" => ops_features::c14(&mut rep, n, seed),
        "c19" => ops_engine::c19(&mut rep, n, seed, thorough),
        "c09" => ops_api::c09(&mut rep, n, seed),
        "c11" => ops_api::c11(&mut rep, &aux, thorough, seed),
        "c05scope" => ops_engine::c05_scope(&mut rep, seed, thorough),
        "syntax" => {
            let focus = arg(&args, "--focus").unwrap_or("C08".into());
            ops_syntax::syntax(&mut rep, &focus, n, seed, thorough)
        }
        "irof" => {
            // one line per input line `<flags> <hex code points>`: the canonical IR the real parser builds, or `err`
            let text = std::fs::read_to_string(&aux).expect("input file");
            let mut w = std::io::BufWriter::new(std::fs::File::create(format!("{}/irof.txt", out)).expect("irof.txt"));
            use std::io::Write;
            for line in text.lines() {
                let mut it = line.split(' ');
                let fl = it.next().unwrap_or("-");
                let pat = it.next().unwrap_or("-");
                let cps: Vec<u32> = if pat == "-" { vec![] } else { pat.split('.').filter_map(|h| u32::from_str_radix(h, 16).ok()).collect() };
                let fs = if fl == "-" { "" } else { fl };
                let r = util::guarded(|| regress::verif::dump_ir_canon(cps.iter().copied(), util::make_flags(fs, true)));
                match r {
                    Ok(Ok(ir)) => writeln!(w, "ok {}", ir.replace(' ', "~")).unwrap(),
                    Ok(Err(_)) => writeln!(w, "err").unwrap(),
                    Err(_) => writeln!(w, "panic").unwrap(),
                }
            }
            return;
        }
        "big" => {
            ops_syntax::big(&args[2], args[3].parse().unwrap());
            return;
        }
        "compiler" => ops_engine::compiler_tie(&mut rep, n, seed, thorough),
        "bytesearch" => ops_engine::bytesearch_tie(&mut rep, n, seed),
        "lower" => ops_engine::lower_tie(&mut rep, n, seed, thorough),
        "c12classes" => ops_engine::c12_classes(&mut rep, n, seed, thorough),
        "c12sets" => ops_api::c12_sets(&mut rep, n, seed),
        "c16" => ops_api::c16(&mut rep, n, seed),
        "c17" => ops_api::c17(&mut rep, n, seed),
        "c18" => {
            ops_api::c18(&mut rep, thorough, n, seed);
            ops_case::c18_icase(&mut rep, &aux, n * 4, seed);
        }
        "c10" => ops_case::c10(&mut rep, &aux, thorough, seed),
        _ => {
            eprintln!("unknown command {}", cmd);
            std::process::exit(2);
        }
    }
    rep.write(&out).expect("write report");
    println!("{} requests={} evaluations={} violations={}", cmd, rep.nreq, rep.evaluations, rep.violations.len());
}
