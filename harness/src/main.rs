fn main() {
    let args: Vec<String> = std::env::args().collect();
    if args.len() >= 4 && args[1] == "probe" {
        let re = regress::Regex::with_flags(&args[3], args[2].as_str()).unwrap();
        println!("{}", regress::verif::dump_program(&re));
        if args.len() >= 5 {
            for m in re.find_iter(&args[4]) {
                println!("{:?} {:?}", m.range(), m.captures);
            }
        }
    }
    if args.len() >= 3 && args[1] == "bigalt" {
        let n: usize = args[2].parse().unwrap();
        let pat = vec!["a"; n].join("|");
        let re = regress::Regex::new(&pat);
        println!("{}", re.is_ok());
    }
}
