//! Haystacks placed against inaccessible memory: a read past either end of the haystack (an over-long
//! unaligned load, an unchecked peek) faults instead of silently reading a neighbour allocation.
//! Linux only (mmap / mprotect through the C library that std links anyway).

use std::os::raw::{c_int, c_void};

extern "C" {
    fn mmap(addr: *mut c_void, len: usize, prot: c_int, flags: c_int, fd: c_int, off: i64) -> *mut c_void;
    fn mprotect(addr: *mut c_void, len: usize, prot: c_int) -> c_int;
    fn munmap(addr: *mut c_void, len: usize) -> c_int;
    fn signal(signum: c_int, handler: usize) -> usize;
    fn write(fd: c_int, buf: *const c_void, n: usize) -> isize;
    fn _exit(code: c_int) -> !;
}

const PROT_NONE: c_int = 0;
const PROT_RW: c_int = 3;
const MAP_PRIVATE_ANON: c_int = 0x22;
const PAGE: usize = 4096;

static mut TRACE: [u8; 2048] = [0; 2048];
static mut TRACE_LEN: usize = 0;

/// Remember what is being run, for the fault handler.
pub fn set_trace(label: &str) {
    let b = label.as_bytes();
    let n = b.len().min(2040);
    unsafe {
        let t = &raw mut TRACE;
        (&mut (*t))[..n].copy_from_slice(&b[..n]);
        TRACE_LEN = n;
    }
}

extern "C" fn on_fault(_sig: c_int) {
    unsafe {
        let head = b"\nFAULT-CASE: ";
        write(2, head.as_ptr() as *const c_void, head.len());
        let t = &raw const TRACE;
        write(2, (*t).as_ptr() as *const c_void, TRACE_LEN);
        write(2, b"\n".as_ptr() as *const c_void, 1);
        _exit(139);
    }
}

pub fn install_fault_handler() {
    unsafe {
        signal(11, on_fault as usize); // SIGSEGV
        signal(7, on_fault as usize); // SIGBUS
    }
}

/// A copy of `s` whose last byte is the last byte of a page followed by an inaccessible page (`at_end`), or whose
/// first byte is the first byte of a page preceded by one.
pub struct Guarded {
    base: *mut u8,
    total: usize,
    ptr: *const u8,
    len: usize,
}

impl Guarded {
    pub fn new(s: &str, at_end: bool) -> Option<Guarded> {
        let data_pages = (s.len() + PAGE - 1) / PAGE + 1;
        let total = (data_pages + 2) * PAGE;
        unsafe {
            let base = mmap(std::ptr::null_mut(), total, PROT_RW, MAP_PRIVATE_ANON, -1, 0) as *mut u8;
            if base as isize == -1 {
                return None;
            }
            // layout: [guard page][data pages][guard page]
            let data = base.add(PAGE);
            let ptr = if at_end { data.add(data_pages * PAGE - s.len()) } else { data };
            std::ptr::copy_nonoverlapping(s.as_ptr(), ptr, s.len());
            mprotect(base as *mut c_void, PAGE, PROT_NONE);
            mprotect(base.add(PAGE + data_pages * PAGE) as *mut c_void, PAGE, PROT_NONE);
            Some(Guarded { base, total, ptr, len: s.len() })
        }
    }
    pub fn as_str(&self) -> &str {
        unsafe { std::str::from_utf8_unchecked(std::slice::from_raw_parts(self.ptr, self.len)) }
    }
}

impl Drop for Guarded {
    fn drop(&mut self) {
        unsafe {
            munmap(self.base as *mut c_void, self.total);
        }
    }
}
