//! Case generation for the engine-level properties C01–C06, C13: one generator of
//! (pattern AST, flags, haystacks, starts); per focus property it performs the property's own
//! implementation-vs-implementation comparison and emits the request lines that tie the Lean
//! models (`runprog` = executor models on the dumped bytecode, `esfind` = the ES specification).

use crate::ast::{self, Flags, Gen, GenCfg, Node};
use crate::report::Report;
use crate::rng::Rng;
use crate::util::*;
use regress::Regex;
use std::collections::BTreeSet;

pub const FUEL: u64 = 3_000_000;

pub struct Case {
    pub flags: Flags,
    pub node: Node,
    pub pat: String,
    pub opt: Regex,
    pub noopt: Regex,
}

pub fn gen_case(rng: &mut Rng, cfg: &GenCfg, rep: &mut Report, flags: Option<Flags>) -> Option<Case> {
    let flags = flags.unwrap_or_else(|| Flags::random(rng));
    let node = Gen::new(rng, flags, cfg).pattern();
    let pat = ast::pattern_string(&node, flags);
    let fs = flags.to_string();
    if std::env::var_os("RV_TRACE").is_some() {
        // post-mortem aid: the pattern being worked on when the process is killed from outside
        let _ = std::fs::write("/verif/.build/rv_trace.txt", format!("/{}/{}\n", pat, fs));
    }
    let opt = guarded(|| compile(&pat, &fs, false));
    let noopt = guarded(|| compile(&pat, &fs, true));
    match (opt, noopt) {
        (Ok(Ok(a)), Ok(Ok(b))) => Some(Case { flags, node, pat, opt: a, noopt: b }),
        (Ok(Err(e)), _) | (_, Ok(Err(e))) => {
            // every generated pattern is a valid ES pattern for its flags
            rep.violation("impl-vs-spec:C08", format!("valid pattern rejected: /{}/{}: {}", pat, fs, e), format!("/{}/{}", pat, fs));
            None
        }
        _ => {
            rep.violation("panic:C07", format!("compilation panicked: /{}/{}", pat, fs), format!("/{}/{}", pat, fs));
            None
        }
    }
}

pub struct RunOut {
    pub text: String, // formatted matches, or "panic: …" / "fuel"
    pub steps: u64,
    pub peak: u64,
}

thread_local! {
    static RETRIES: std::cell::Cell<u32> = const { std::cell::Cell::new(0) };
    static RETRY_MILLIS: std::cell::Cell<u64> = const { std::cell::Cell::new(0) };
}

/// `FUEL` steps first; a search that needs more (legitimately: nested `.*` under a counted loop is
/// polynomial of high degree) is run again with `FUEL_RETRY`, at most 40 times per process, so that
/// "one side finished, the other hit the budget" is not mistaken for a difference. A result that is
/// still "fuel" is never compared (see `differ`).
pub fn run_exec(re: &Regex, exec: Exec, hay: &str, start: usize, limit: usize) -> RunOut {
    let r = run_exec_budget(re, exec, hay, start, limit, FUEL);
    // retries are bounded in number AND in wall-clock time (a PikeVM step on a pathological pattern copies long
    // thread lists: 10^8 steps can take minutes)
    if r.text == "fuel" && RETRIES.with(|c| c.get()) < 40 && RETRY_MILLIS.with(|c| c.get()) < 600_000 {
        RETRIES.with(|c| c.set(c.get() + 1));
        let t = std::time::Instant::now();
        let r2 = run_exec_budget(re, exec, hay, start, limit, FUEL_RETRY);
        RETRY_MILLIS.with(|c| c.set(c.get() + t.elapsed().as_millis() as u64));
        return r2;
    }
    r
}

pub const FUEL_RETRY: u64 = 100_000_000;

/// two results differ, and both are results (not an exhausted budget)
pub fn differ(a: &str, b: &str) -> bool {
    a != b && a != "fuel" && b != "fuel"
}

/// A pattern may legitimately need more than `FUEL` steps (nested `.*` under a counted loop is
/// polynomial of high degree): before calling that non-termination, run it again with this budget.
pub const FUEL_BIG: u64 = 2_000_000_000;

pub fn run_exec_budget(re: &Regex, exec: Exec, hay: &str, start: usize, limit: usize, budget: u64) -> RunOut {
    regress::verif::fuel::reset(budget);
    let r = guarded(std::panic::AssertUnwindSafe(|| {
        let (mut ms, _) = find_all(re, exec, hay, start, 0);
        ms.truncate(limit);
        fmt_matches(&ms)
    }));
    let (steps, peak, exhausted) = regress::verif::fuel::report();
    regress::verif::fuel::reset(u64::MAX);
    let text = match r {
        Err(msg) => format!("panic: {}", msg),
        Ok(_) if exhausted => "fuel".to_string(),
        Ok(t) => t,
    };
    RunOut { text, steps, peak }
}

fn is_ascii(h: &[u32]) -> bool {
    h.iter().all(|c| *c < 128)
}

fn case_label(c: &Case, hay: &str, start: usize) -> String {
    format!("/{}/{} on {:?} from {}", c.pat, c.flags.to_string(), hay, start)
}

fn check_ranges(rep: &mut Report, tag: &str, hay: &str, out: &str, label: &str) {
    // every reported range is within the haystack and on char boundaries
    for tok in out.split(|c: char| c == ' ' || c == '[' || c == ']' || c == ';') {
        if tok.is_empty() || tok == "_" {
            continue;
        }
        let mut it = tok.split('-');
        if let (Some(a), Some(b)) = (it.next(), it.next()) {
            if let (Ok(a), Ok(b)) = (a.parse::<usize>(), b.parse::<usize>()) {
                if !(a <= b && b <= hay.len() && hay.is_char_boundary(a) && hay.is_char_boundary(b)) {
                    rep.violation(&format!("impl-vs-spec:{}", tag), format!("invalid range {}-{} reported", a, b), label.to_string());
                }
            }
        }
    }
}

/// `focus` ∈ C01 C02 C03 C04 C05 C06 C13.
pub fn engine(rep: &mut Report, focus: &str, n: usize, seed: u64, thorough: bool) {
    let mut rng = Rng::new(seed);
    if focus == "C06" {
        crate::guard::install_fault_handler();
    }
    let cfg = GenCfg { max_depth: if thorough { 4 } else { 3 }, first_term_bias: focus == "C04", ..GenCfg::default() };
    let mut feats_seen: BTreeSet<&'static str> = BTreeSet::new();
    let mut done = 0usize;
    while done < n && !rep.saturated() {
        // C04: case-insensitive and v-mode patterns are where lead bytes of a match can differ from the pattern's
        let forced = if focus == "C04" && rng.chance(1, 2) {
            let mut f = Flags::random(&mut rng);
            f.i = true;
            if rng.chance(1, 2) {
                f.u = false;
                f.v = true;
            }
            Some(f)
        } else {
            None
        };
        let Some(c) = gen_case(&mut rng, &cfg, rep, forced) else { continue };
        let mut feats = BTreeSet::new();
        ast::features(&c.node, &mut feats);
        for f in &feats {
            rep.count(&format!("feature:{}", f));
            feats_seen.insert(f);
        }
        rep.count(&format!("flags:{}", c.flags.to_token()));
        let prog = prog_token(&c.opt);
        let prog_noopt = prog_token(&c.noopt);
        let pred = regress::verif::dump_program(&c.opt).lines().nth(1).unwrap_or("").split(' ').nth(1).unwrap_or("").to_string();
        rep.count(&format!("startpred:{}", pred));
        for l in regress::verif::dump_program(&c.opt).lines().filter(|l| l.starts_with("I ")) {
            rep.count(&format!("insn:{}", l.split(' ').nth(1).unwrap_or("")));
        }
        let mut hays = ast::haystacks(&c.node, c.flags, &mut rng, if thorough { 8 } else { 5 });
        if focus == "C13" {
            // ASCII haystacks (the pattern keeps its non-ASCII characters)
            for h in hays.iter_mut() {
                for ch in h.iter_mut() {
                    if *ch >= 128 {
                        *ch = match *ch {
                            0x17F => 's' as u32,
                            0x212A => 'k' as u32,
                            0xC9 | 0xE9 => 'e' as u32,
                            _ => *rng.pick(&['a' as u32, 'A' as u32, 'S' as u32, 'K' as u32, '_' as u32, '\n' as u32, 'i' as u32, 'I' as u32]),
                        }
                    }
                }
            }
        }
        for (hi, h) in hays.iter().enumerate() {
            let hay = ast::to_string(h);
            let bounds = boundaries(&hay);
            let starts: Vec<usize> = if hi < 2 { bounds.clone() } else { vec![0] };
            for &start in &starts {
                done += 1;
                let label = case_label(&c, &hay, start);
                let bt = run_exec(&c.opt, Exec::Bt, &hay, start, 64);
                let matched = !bt.text.is_empty() && bt.text != "fuel" && !bt.text.starts_with("panic");
                rep.case(&label, matched);
                rep.count(if matched { "outcome:match" } else { "outcome:no-match" });
                if bt.steps > 200 {
                    rep.count("outcome:backtracking-heavy");
                }
                if bt.text.starts_with("panic") {
                    rep.violation("panic:C06", format!("search panicked: {}", bt.text), label.clone());
                    continue;
                }
                match focus {
                    "C01" => {
                        // the specification answers the same question on the AST; its model materialises every
                        // continuation, so searches the engine itself finds expensive are left to the executor models
                        if bt.text == "fuel" || bt.steps > 300_000 {
                            rep.count("esfind-skipped-heavy");
                            continue;
                        }
                        let first = bt.text.split(' ').next().unwrap_or("").to_string();
                        let cp_start = hay[..start].chars().count();
                        rep.tie(
                            format!("esfind {} {} {} {}", c.flags.to_token(), ast::ast_string(&c.node), ast::cps_hex(h), cp_start),
                            if bt.text == "fuel" { "fuel".into() } else if first.is_empty() { "none".into() } else { format!("m {}", first) },
                        );
                    }
                    "C02" => {
                        let pk = run_exec(&c.opt, Exec::Pk, &hay, start, 64);
                        if differ(&bt.text, &pk.text) {
                            rep.violation("impl-vs-impl:C02", format!("backtracking [{}] vs PikeVM [{}]", bt.text, pk.text), label.clone());
                        }
                        let btn = run_exec(&c.noopt, Exec::Bt, &hay, start, 64);
                        let pkn = run_exec(&c.noopt, Exec::Pk, &hay, start, 64);
                        if differ(&btn.text, &pkn.text) {
                            rep.violation("impl-vs-impl:C02", format!("(no_opt) backtracking [{}] vs PikeVM [{}]", btn.text, pkn.text), label.clone());
                        }
                        if is_ascii(h) {
                            let a = run_exec(&c.opt, Exec::BtAscii, &hay, start, 64);
                            let b = run_exec(&c.opt, Exec::PkAscii, &hay, start, 64);
                            if differ(&a.text, &b.text) {
                                rep.violation("impl-vs-impl:C02", format!("(ascii) backtracking [{}] vs PikeVM [{}]", a.text, b.text), label.clone());
                            }
                            rep.count("ascii-haystack");
                        }
                        rep.tie(format!("runprog bt utf8 {} {} {}", prog, ast::bytes_hex(hay.as_bytes()), start), format!("ok {} {} {}", bt.steps, bt.peak, bt.text).trim_end().to_string());
                        rep.tie(format!("runprog pk utf8 {} {} {}", prog, ast::bytes_hex(hay.as_bytes()), start), format!("ok {} {} {}", pk.steps, pk.peak, pk.text).trim_end().to_string());
                    }
                    "C03" => {
                        let btn = run_exec(&c.noopt, Exec::Bt, &hay, start, 64);
                        if differ(&bt.text, &btn.text) {
                            rep.violation("impl-vs-impl:C03", format!("optimized [{}] vs no_opt [{}]", bt.text, btn.text), label.clone());
                        }
                        let pk = run_exec(&c.opt, Exec::Pk, &hay, start, 64);
                        let pkn = run_exec(&c.noopt, Exec::Pk, &hay, start, 64);
                        if differ(&pk.text, &pkn.text) {
                            rep.violation("impl-vs-impl:C03", format!("(PikeVM) optimized [{}] vs no_opt [{}]", pk.text, pkn.text), label.clone());
                        }
                        if prog != prog_noopt {
                            rep.count("optimizer-changed-program");
                        }
                        rep.tie(format!("runprog bt utf8 {} {} {}", prog_noopt, ast::bytes_hex(hay.as_bytes()), start), format!("ok {} {} {}", btn.steps, btn.peak, btn.text).trim_end().to_string());
                    }
                    "C04" => {
                        let mut arb = c.opt.clone();
                        regress::verif::set_start_pred_arbitrary(&mut arb);
                        let a = run_exec(&arb, Exec::Bt, &hay, start, 64);
                        if differ(&bt.text, &a.text) {
                            rep.violation("impl-vs-impl:C04", format!("with prefilter ({}) [{}] vs Arbitrary [{}]", pred, bt.text, a.text), label.clone());
                        }
                        let pk = run_exec(&c.opt, Exec::Pk, &hay, start, 64);
                        if differ(&bt.text, &pk.text) {
                            rep.violation("impl-vs-impl:C04", format!("backtracking with prefilter ({}) [{}] vs PikeVM [{}]", pred, bt.text, pk.text), label.clone());
                        }
                        rep.tie(format!("runprog bt utf8 {} {} {}", prog, ast::bytes_hex(hay.as_bytes()), start), format!("ok {} {} {}", bt.steps, bt.peak, bt.text).trim_end().to_string());
                    }
                    "C05" => {
                        let mut bt = bt;
                        let mut pk = run_exec(&c.opt, Exec::Pk, &hay, start, 64);
                        for (name, exec, r) in [("backtracking", Exec::Bt, &mut bt), ("PikeVM", Exec::Pk, &mut pk)] {
                            if r.text == "fuel" {
                                // `run_exec` has already retried with 100M steps. Running out of a budget is not evidence of
                                // non-termination by itself (nested counted loops over `.*?` are legitimately exponential):
                                // the result goes to the tie as "fuel" with the steps spent, and is a violation exactly when
                                // the reference search (the executor model, proved terminating) finishes the same case in
                                // fewer than a quarter of those steps (decided in verif.py)
                                rep.count(&format!("budget-exhausted:{}", name));
                                let _ = exec;
                            }
                        }
                        rep.count_n("steps:bt", bt.steps);
                        rep.count_n("steps:pk", pk.steps);
                        rep.tie(format!("runprog bt utf8 {} {} {}", prog, ast::bytes_hex(hay.as_bytes()), start), format!("ok {} {} {}", bt.steps, bt.peak, bt.text).trim_end().to_string());
                        rep.tie(format!("runprog pk utf8 {} {} {}", prog, ast::bytes_hex(hay.as_bytes()), start), format!("ok {} {} {}", pk.steps, pk.peak, pk.text).trim_end().to_string());
                    }
                    "C06" => {
                        // the same searches with the haystack placed against inaccessible memory at either end: a read
                        // outside the haystack faults (the handler names this case) instead of going unnoticed
                        if hay.len() <= 4096 {
                            crate::guard::set_trace(&label);
                            for at_end in [true, false] {
                                if let Some(g) = crate::guard::Guarded::new(&hay, at_end) {
                                    let gs = g.as_str();
                                    for (re, e) in [(&c.opt, Exec::Bt), (&c.opt, Exec::Pk), (&c.noopt, Exec::Bt)] {
                                        let r = run_exec(re, e, gs, start, 64);
                                        if e == Exec::Bt && std::ptr::eq(re, &c.opt) && differ(&r.text, &bt.text) {
                                            rep.violation("impl-vs-impl:C06", format!("same haystack at another address: [{}] vs [{}]", r.text, bt.text), label.clone());
                                        }
                                    }
                                    if is_ascii(h) {
                                        let _ = run_exec(&c.opt, Exec::BtAscii, gs, start, 64);
                                        let _ = run_exec(&c.opt, Exec::PkAscii, gs, start, 64);
                                    }
                                    rep.count("guard-page-runs");
                                }
                            }
                        }
                        check_ranges(rep, "C06", &hay, &bt.text, &label);
                        let pk = run_exec(&c.opt, Exec::Pk, &hay, start, 64);
                        if pk.text.starts_with("panic") {
                            rep.violation("panic:C06", format!("PikeVM search panicked: {}", pk.text), label.clone());
                        }
                        check_ranges(rep, "C06", &hay, &pk.text, &label);
                        rep.tie(format!("runprog bt utf8 {} {} {}", prog, ast::bytes_hex(hay.as_bytes()), start), format!("ok {} {} {}", bt.steps, bt.peak, bt.text).trim_end().to_string());
                    }
                    "C13" => {
                        if is_ascii(h) {
                            rep.count("ascii-haystack");
                            for (u, a) in [(Exec::Bt, Exec::BtAscii), (Exec::Pk, Exec::PkAscii)] {
                                for re in [&c.opt, &c.noopt] {
                                    let x = run_exec(re, u, &hay, start, 64);
                                    let y = run_exec(re, a, &hay, start, 64);
                                    if differ(&x.text, &y.text) {
                                        rep.violation("impl-vs-impl:C13", format!("{} utf8 [{}] vs ascii [{}]", u.name(), x.text, y.text), label.clone());
                                    }
                                }
                            }
                            let a = run_exec(&c.opt, Exec::BtAscii, &hay, start, 64);
                            rep.tie(format!("runprog bt ascii {} {} {}", prog, ast::bytes_hex(hay.as_bytes()), start), format!("ok {} {} {}", a.steps, a.peak, a.text).trim_end().to_string());
                        }
                    }
                    _ => panic!("unknown focus"),
                }
            }
        }
    }
    if focus == "C13" {
        c13_ascii_sweep(rep);
        c13_long_ranges(rep, &mut rng, thorough);
        c13_public_lengths(rep, thorough);
    }
    if focus == "C02" || focus == "C05" {
        crate::scope::deep_attempt_scope(rep, focus, thorough);
    }
    if focus == "C05" {
        // gap x attempt: a long run of characters that cannot start a match in front of a candidate whose anchored
        // attempt fails expensively; the whole-search step count is tied to the search-loop model (within K)
        for p in ["x(?:a|ab|b)*c", "x(?:a*)*c", "[xy](?:ab?)*?c", "x(a|b)+\\1c", "(?:x|y)(?:a|b)*(?=c)c"] {
            let re = compile(p, "", false).unwrap();
            let prog = prog_token(&re);
            for gap in [0usize, 1, 64, 512, if thorough { 4096 } else { 1024 }] {
                for k in [4usize, 12] {
                    let hay = format!("{}x{}", ".".repeat(gap), "ab".repeat(k));
                    rep.case(&format!("gap {} {} {}", p, gap, k), false);
                    rep.count("gap-family");
                    for (exec, tag) in [(Exec::Bt, "bt"), (Exec::Pk, "pk")] {
                        let r = run_exec(&re, exec, &hay, 0, 64);
                        rep.tie(format!("runprog {} utf8 {} {} 0", tag, prog, ast::bytes_hex(hay.as_bytes())), format!("ok {} {} {}", r.steps, r.peak, r.text).trim_end().to_string());
                    }
                }
            }
        }
    }
    if focus == "C02" || focus == "C03" {
        look_scope(rep, &mut rng, focus, thorough);
        crate::scope::class_boundary_scope(rep, &mut rng, thorough);
    }
    if focus == "C04" {
        crate::scope::prefix_scope(rep, &mut rng, thorough);
        crate::scope::literal_scope(rep, &mut rng, thorough);
        crate::scope::deep_first_scope(rep);
        crate::scope::dense_candidate_scope(rep, "C04");
        crate::scope::class_edge_prefix_scope(rep);
    }
    if focus == "C01" {
        crate::scope::run_spec_probes(rep);
        crate::scope::backref_scope(rep);
    }
    if matches!(focus, "C01" | "C02" | "C03") {
        crate::scope::size_scope(rep, focus);
        crate::scope::nested_look_literal_scope(rep, focus);
    }
    if matches!(focus, "C01" | "C02" | "C03" | "C05") {
        crate::scope::loop_scope(rep, &mut rng, focus, thorough);
    }
    rep.notes.push(format!("features seen: {:?}", feats_seen));
}

/// C02 / C03, small-scope part: capture groups inside (nested) lookarounds, inside an alternation
/// whose other arm can match after the first arm was abandoned — the shape in which capture
/// save/restore around a lookaround becomes observable. Every haystack over {a,b,c} up to length 3.
fn look_scope(rep: &mut Report, rng: &mut Rng, focus: &str, thorough: bool) {
    let looks = ["(?=", "(?!", "(?<=", "(?<!"];
    let inner = ["", "(?=", "(?!", "(?<=", "(?<!"];
    let groups = ["(a)", "(b)", "(a|b)", "(a)?", "(.)"];
    let t1s = ["", "a", "b"];
    let t2s = ["", "a", "b", "ac", "."];
    let t3s = ["ab", "a", "(c)|b", ""];
    let mut hays: Vec<String> = vec![String::new()];
    let mut cur = vec![String::new()];
    for _ in 0..3 {
        let mut nxt = vec![];
        for p in &cur {
            for ch in ["a", "b", "c"] {
                nxt.push(format!("{}{}", p, ch));
            }
        }
        hays.extend(nxt.iter().cloned());
        cur = nxt;
    }
    for l1 in looks {
        for g1 in groups {
            for l2 in inner {
                for g2 in groups {
                    for t1 in t1s {
                        for t2 in t2s {
                            for t3 in t3s {
                                for order in 0..2 {
                                    if rep.saturated() {
                                        return;
                                    }
                                    if !thorough && !rng.chance(1, 6) {
                                        continue;
                                    }
                                    let inn = if l2.is_empty() { g2.to_string() } else { format!("{}{})", l2, g2) };
                                    let body = if order == 0 { format!("{}{}{}", g1, inn, t1) } else { format!("{}{}{}", inn, g1, t1) };
                                    let pat = format!("(?:{}{}){}|{})", l1, body, t2, t3);
                                    let (Ok(Ok(opt)), Ok(Ok(noopt))) = (guarded(|| compile(&pat, "", false)), guarded(|| compile(&pat, "", true))) else {
                                        rep.count("lookscope:rejected");
                                        continue;
                                    };
                                    rep.count("lookscope:patterns");
                                    let prog = prog_token(&opt);
                                    for h in &hays {
                                        let label = format!("/{}/ on {:?} from 0", pat, h);
                                        let bt = run_exec(&opt, Exec::Bt, h, 0, 64);
                                        let pk = run_exec(&opt, Exec::Pk, h, 0, 64);
                                        let btn = run_exec(&noopt, Exec::Bt, h, 0, 64);
                                        rep.case(&label, !bt.text.is_empty());
                                        if differ(&bt.text, &pk.text) {
                                            rep.violation("impl-vs-impl:C02", format!("backtracking [{}] vs PikeVM [{}]", bt.text, pk.text), label.clone());
                                        }
                                        if differ(&bt.text, &btn.text) {
                                            rep.violation("impl-vs-impl:C03", format!("optimized [{}] vs no_opt [{}]", bt.text, btn.text), label.clone());
                                        }
                                        if focus == "C02" && rng.chance(1, 64) {
                                            rep.tie(format!("runprog bt utf8 {} {} 0", prog, ast::bytes_hex(h.as_bytes())), format!("ok {} {} {}", bt.steps, bt.peak, bt.text).trim_end().to_string());
                                            rep.tie(format!("runprog pk utf8 {} {} 0", prog, ast::bytes_hex(h.as_bytes())), format!("ok {} {} {}", pk.steps, pk.peak, pk.text).trim_end().to_string());
                                        }
                                    }
                                }
                            }
                        }
                    }
                }
            }
        }
    }
}

/// C13, the PUBLIC ASCII entry points (`find_ascii`, `find_iter_ascii`, `find_from_ascii`: the stream above goes through
/// `backends::find_ascii`) on haystacks whose length, or remaining length from the start offset, sits just above a
/// power of two (2^8, 2^16, 2^31; thorough: 2^32 - a 4 GiB haystack): any narrowing of a length must not change
/// the result. Matches at the front, in the middle and at the very end; closed-form expected.
fn c13_public_lengths(rep: &mut Report, thorough: bool) {
    let mut sizes: Vec<usize> = vec![(1 << 8) + 2, (1 << 16) + 2, (1 << 16) + 5, (1usize << 31) + 2];
    if thorough {
        sizes.push((1usize << 32) + 2);
        sizes.push((1usize << 32) + 5);
    }
    let res = [("needle", ""), ("n(e+)dle", "i"), ("needle$", ""), ("(?<=x)needle|needle", "")];
    for n in sizes {
        let mut v = vec![b'x'; n];
        let put = |v: &mut Vec<u8>, at: usize, s: &[u8]| v[at..at + s.len()].copy_from_slice(s);
        put(&mut v, 0, b"needle");
        put(&mut v, 100, b"NEEDLE");
        put(&mut v, 200, b"needle");
        let l = v.len();
        put(&mut v, l - 6, b"needle");
        let hay = String::from_utf8(v).unwrap();
        for (p, fl) in res {
            let re = compile(p, fl, false).unwrap();
            for start in [0usize, 1, 6, 100, 101, 201, n - 7] {
                rep.count("public-ascii-lengths");
                let a: Vec<(usize, usize, usize)> = re.find_from(&hay, start).map(|m| (m.start(), m.end(), m.captures.len())).collect();
                let b: Vec<(usize, usize, usize)> = re.find_from_ascii(&hay, start).map(|m| (m.start(), m.end(), m.captures.len())).collect();
                if a != b {
                    rep.violation("impl-vs-impl:C13", format!("find_from_ascii {:?} vs find_from {:?}", b, a), format!("/{}/{} on a haystack of {} bytes from {}", p, fl, n, start));
                }
                if start == 0 {
                    let x = re.find(&hay).map(|m| m.range());
                    let y = re.find_ascii(&hay).map(|m| m.range());
                    let xi = re.find_iter(&hay).count();
                    let yi = re.find_iter_ascii(&hay).count();
                    if x != y || xi != yi {
                        rep.violation("impl-vs-impl:C13", format!("find_ascii {:?} ({} matches) vs find {:?} ({} matches)", y, yi, x, xi), format!("/{}/{} on a haystack of {} bytes", p, fl, n));
                    }
                    if x != Some(0..6) && p != "needle$" {
                        rep.violation("impl-vs-oracle:C13", format!("first match {:?}, expected 0..6", x), format!("/{}/{} on a haystack of {} bytes", p, fl, n));
                    }
                }
            }
        }
        rep.case(&format!("public ascii entry points, {} bytes", n), true);
    }
}

/// C13, long byte ranges: back-references (forward, backward, case-insensitive) to captures of every
/// length 1..=80 (thorough 200) and literals of the same lengths, against text that equals the capture
/// except at ONE position (every position near the ends and the 8/16/32-byte marks, and none): the byte-range
/// comparisons of the ASCII entry points must agree with the UTF-8 ones and with the executor model.
fn c13_long_ranges(rep: &mut Report, rng: &mut Rng, thorough: bool) {
    let shapes: [(&str, &str); 5] = [
        ("^(.+),\\1$", "s"),
        ("^(.+),\\1$", "is"),
        ("^(.+),.+(?<=\\1);$", "s"),
        ("(?<w>[ab]+),\\k<w>;", ""),
        ("^(?:(.+),)\\1$", "su"),
    ];
    let res: Vec<(Regex, Regex, String)> = shapes
        .iter()
        .map(|(p, f)| {
            let re = compile(p, f, false).unwrap();
            let tok = prog_token(&re);
            (re, compile(p, f, true).unwrap(), tok)
        })
        .collect();
    let max = if thorough { 200 } else { 80 };
    for len in 1..=max {
        let w: Vec<u8> = (0..len).map(|_| *rng.pick(&[b'a', b'b'])).collect();
        let mut ds: BTreeSet<usize> = BTreeSet::new();
        for d in [0usize, 1, 7, 8, 9, 15, 16, 17, 31, 32, 33, len / 2] {
            if d < len {
                ds.insert(d);
                ds.insert(len - 1 - d);
            }
        }
        let mut variants: Vec<Option<usize>> = ds.into_iter().map(Some).collect();
        variants.push(None);
        for d in variants {
            let mut w2 = w.clone();
            if let Some(d) = d {
                w2[d] = if w2[d] == b'a' { b'b' } else { b'a' };
            }
            let ws = String::from_utf8(w.clone()).unwrap();
            let w2s = String::from_utf8(w2).unwrap();
            let hay = format!("{},{};", ws, w2s);
            let hay2 = format!("{},{}", ws, w2s);
            for (k, (re, ren, tok)) in res.iter().enumerate() {
                let h = if shapes[k].0.ends_with("$") && !shapes[k].0.contains(";") { &hay2 } else { &hay };
                let label = format!("/{}/{} on {:?}", shapes[k].0, shapes[k].1, h);
                rep.case(&label, d.is_none());
                rep.count("long-range");
                let base = run_exec(re, Exec::Bt, h, 0, 64);
                for (r, e) in [(re, Exec::BtAscii), (re, Exec::Pk), (re, Exec::PkAscii), (ren, Exec::Bt), (ren, Exec::BtAscii), (ren, Exec::PkAscii)] {
                    let y = run_exec(r, e, h, 0, 64);
                    if differ(&base.text, &y.text) {
                        rep.violation("impl-vs-impl:C13", format!("{} [{}] vs backtracker/utf8 [{}] (capture of {} bytes, difference at {:?})", e.name(), y.text, base.text, len, d), label.clone());
                    }
                }
                let a = run_exec(re, Exec::BtAscii, h, 0, 64);
                rep.tie(format!("runprog bt ascii {} {} {}", tok, ast::bytes_hex(h.as_bytes()), 0), format!("ok {} {} {}", a.steps, a.peak, a.text).trim_end().to_string());
            }
            // the literal itself (chunked into byte sequences by the emitter) against the near-duplicate
            let lit = compile(&format!("^{}$", ws), "", false).unwrap();
            let x = run_exec(&lit, Exec::Bt, &w2s, 0, 64);
            for e in [Exec::BtAscii, Exec::Pk, Exec::PkAscii] {
                let y = run_exec(&lit, e, &w2s, 0, 64);
                if differ(&x.text, &y.text) {
                    rep.violation("impl-vs-impl:C13", format!("literal of {} bytes, difference at {:?}: {} [{}] vs backtracker/utf8 [{}]", len, d, e.name(), y.text, x.text), format!("/^{}$/ on {:?}", ws, w2s));
                }
            }
            if x.text.is_empty() != d.is_some() {
                rep.violation("impl-vs-oracle:C13", format!("literal of {} bytes against text differing at {:?}: [{}]", len, d, x.text), format!("/^{}$/ on {:?}", ws, w2s));
            }
        }
    }
}

/// C13, exhaustive part: every pair (a, b) of ASCII bytes, for the case-sensitive and the two
/// case-insensitive modes: a literal `a` against `b`, a one-element class, and a back-reference
/// `(.)\\1` against "ab" — the ASCII entry points must agree with the UTF-8 ones.
fn c13_ascii_sweep(rep: &mut Report) {
    for flags in ["s", "is", "isu", "isv"] {
        let br = compile("^(.)\\1$", flags, false).unwrap();
        let brn = compile("^(.)\\1$", flags, true).unwrap();
        for a in 0u32..128 {
            let lit = compile(&format!("^\\x{:02x}$", a), flags, false).unwrap();
            let cls = compile(&format!("^[\\x{:02x}]$", a), flags, false).unwrap();
            let ncls = compile(&format!("^[^\\x{:02x}]$", a), flags, false).unwrap();
            for b in 0u32..128 {
                let hb = char::from_u32(b).unwrap().to_string();
                let hab: String = [char::from_u32(a).unwrap(), char::from_u32(b).unwrap()].iter().collect();
                rep.case(&format!("sweep {} {} {}", flags, a, b), a != b);
                rep.count("ascii-sweep");
                for (re, hay, name) in [(&lit, &hb, "literal"), (&cls, &hb, "class"), (&ncls, &hb, "negated class"), (&br, &hab, "backref"), (&brn, &hab, "backref (no_opt)")] {
                    for (u, x) in [(Exec::Bt, Exec::BtAscii), (Exec::Pk, Exec::PkAscii)] {
                        let r1 = fmt_matches(&find_all(re, u, hay, 0, 0).0);
                        let r2 = fmt_matches(&find_all(re, x, hay, 0, 0).0);
                        if r1 != r2 {
                            rep.violation(
                                "impl-vs-impl:C13",
                                format!("{} {} under {:?}: pattern byte 0x{:02x}, haystack {:?}: utf8 [{}] vs ascii [{}]", u.name(), name, flags, a, hay, r1, r2),
                                format!("F8CTX flags={} cps={:x}.{:x}", flags, a, b),
                            );
                        }
                    }
                }
            }
        }
    }
}

// ------------------------------------------------------------------ C19

fn assert_send_sync<T: Send + Sync>() {}

/// The compile-time half of C19: rustc checks these on every build of the harness.
#[allow(dead_code)]
pub fn c19_static() {
    assert_send_sync::<Regex>();
    assert_send_sync::<regress::Match>();
    assert_send_sync::<regress::Error>();
    assert_send_sync::<regress::Flags>();
}

pub fn c19(rep: &mut Report, n: usize, seed: u64, thorough: bool) {
    c19_static();
    let mut rng = Rng::new(seed);
    let cfg = GenCfg { max_depth: 3, ..GenCfg::default() };
    let threads = 16;
    let mut done = 0;
    while done < n {
        let Some(c) = gen_case(&mut rng, &cfg, rep, None) else { continue };
        // a multiset of queries
        let hays = ast::haystacks(&c.node, c.flags, &mut rng, if thorough { 10 } else { 6 });
        let mut queries: Vec<(String, usize)> = vec![];
        for h in &hays {
            let s = ast::to_string(h);
            let b = boundaries(&s);
            let st = *rng.pick(&b);
            queries.push((s.clone(), 0));
            queries.push((s, st));
        }
        let seq: Vec<String> = queries.iter().map(|(h, s)| run_exec(&c.opt, Exec::Bt, h, *s, 64).text).collect();
        done += queries.len();
        for (i, (h, s)) in queries.iter().enumerate() {
            rep.case(&format!("{}/{}/{}", c.pat, h, s), !seq[i].is_empty());
        }
        // (1) the same queries in several random orders on one thread, same Regex value
        for _ in 0..3 {
            let mut order: Vec<usize> = (0..queries.len()).collect();
            for i in (1..order.len()).rev() {
                order.swap(i, rng.below(i + 1));
            }
            for &i in &order {
                let r = run_exec(&c.opt, Exec::Bt, &queries[i].0, queries[i].1, 64).text;
                if r != seq[i] {
                    rep.violation("impl-vs-impl:C19", format!("result depends on query order: [{}] vs [{}]", r, seq[i]), format!("/{}/{} {:?}", c.pat, c.flags.to_string(), queries[i]));
                }
            }
            rep.count("reordered-runs");
        }
        // (1b) history independence on views of ONE buffer (sub-slices and find_from share addresses):
        // every answer of the long-lived Regex equals the answer of a freshly compiled one
        for h in hays.iter().take(3) {
            let s = ast::to_string(h);
            let fs = c.flags.to_string();
            for (round, &k) in boundaries(&s).iter().enumerate() {
                let views: [(&str, usize); 2] = if round % 2 == 0 { [(&s[k..], 0), (&s[..], k)] } else { [(&s[..], k), (&s[k..], 0)] };
                for (text, start) in views {
                    let got = run_exec(&c.opt, Exec::Bt, text, start, 64).text;
                    let Ok(Ok(fresh)) = guarded(|| compile(&c.pat, &fs, false)) else { continue };
                    let want = run_exec(&fresh, Exec::Bt, text, start, 64).text;
                    rep.count("view-queries");
                    if got != want {
                        rep.violation("impl-vs-impl:C19", format!("a Regex that answered other queries before returns [{}], a freshly compiled one [{}]", got, want), format!("/{}/{} {:?} from {}", c.pat, fs, text, start));
                    }
                }
            }
        }
        // (2) many threads sharing one &Regex (and one clone), random assignment of queries to threads
        let assignment: Vec<usize> = (0..queries.len() * 4).map(|_| rng.below(threads)).collect();
        let re = &c.opt;
        let cl = c.opt.clone();
        let results: Vec<Vec<(usize, String)>> = std::thread::scope(|sc| {
            let mut hs = vec![];
            for t in 0..threads {
                let queries = &queries;
                let assignment = &assignment;
                let cl = &cl;
                hs.push(sc.spawn(move || {
                    let mut out = vec![];
                    for (k, &a) in assignment.iter().enumerate() {
                        if a == t {
                            let qi = k % queries.len();
                            let r = if k % 3 == 0 { cl } else { re };
                            let exec = if k % 5 == 0 { Exec::Pk } else { Exec::Bt };
                            // step budget per thread (the counter is thread-local): an expensive query must not stall the run
                            out.push((qi, run_exec_budget(r, exec, &queries[qi].0, queries[qi].1, 64, FUEL).text));
                        }
                    }
                    out
                }));
            }
            hs.into_iter().map(|h| h.join().unwrap_or_default()).collect()
        });
        for per in results {
            for (qi, r) in per {
                if differ(&r, &seq[qi]) {
                    rep.violation("impl-vs-impl:C19", format!("concurrent result [{}] differs from sequential [{}]", r, seq[qi]), format!("/{}/{} {:?}", c.pat, c.flags.to_string(), queries[qi]));
                }
            }
        }
        rep.count("threaded-batches");
    }
}

// ------------------------------------------------------------------ C12 (class level)

/// `^E$` for generated class expressions E, on every character E mentions, their case partners,
/// neighbours of range ends, a few fixed probes, and the strings E mentions (+ single-edit variants);
/// the expected answer comes from the ES specification model (`esfind` lines).
/// Class RANGES under `i` around every cased code point: `[a-b]` for short intervals that start at, end at or
/// straddle a cased character (the closure of an interval walks the fold table in strides; single characters
/// never exercise the walk), against the ES specification model, probing every character of the interval, its
/// simple case mappings and their neighbours.
fn c12_fold_intervals(rep: &mut Report, rng: &mut Rng, thorough: bool) {
    let single = |it: &mut dyn Iterator<Item = char>| -> Option<u32> {
        let a = it.next()?;
        if it.next().is_some() {
            None
        } else {
            Some(a as u32)
        }
    };
    let maps = |c: u32| -> Vec<u32> {
        let mut v = vec![c];
        if let Some(ch) = char::from_u32(c) {
            if let Some(l) = single(&mut ch.to_lowercase()) {
                v.push(l);
            }
            if let Some(u) = single(&mut ch.to_uppercase()) {
                v.push(u);
            }
        }
        v
    };
    let mut flags = Flags::default();
    flags.i = true;
    flags.u = true;
    for c in 0x41u32..0x1F000 {
        if maps(c).iter().all(|x| *x == c) {
            continue;
        }
        if !thorough && c >= 0x250 && !rng.chance(1, 8) {
            continue;
        }
        for (a, b) in [(c, c + 1), (c, c + 2), (c, c + 3), (c - 1, c), (c - 2, c), (c - 1, c + 1), (c - 3, c + 1)] {
            if (a..=b).any(|x| char::from_u32(x).is_none()) {
                continue;
            }
            let cls = Node::Class(false, vec![ast::ClassItem::R(a, b)]);
            let node = Node::Cat(vec![Node::Bol, cls.clone(), Node::Eol]);
            let pat = ast::pattern_string(&node, flags);
            let Ok(re) = compile(&pat, "iu", false) else {
                rep.violation("impl-vs-spec:C08", format!("valid class pattern rejected: /{}/iu", pat), pat.clone());
                continue;
            };
            let mut probes: BTreeSet<u32> = BTreeSet::new();
            for x in a..=b {
                for m in maps(x) {
                    for mm in maps(m) {
                        probes.insert(mm);
                        probes.insert(mm + 1);
                        probes.insert(mm.saturating_sub(1));
                    }
                }
            }
            for h in probes {
                let Some(ch) = char::from_u32(h) else { continue };
                let hay = ch.to_string();
                let r = run_exec(&re, Exec::Bt, &hay, 0, 1);
                let first = r.text.split(' ').next().unwrap_or("").to_string();
                rep.count("fold-interval");
                rep.tie(
                    format!("esfind {} {} {} 0", flags.to_token(), ast::ast_string(&node), ast::cps_hex(&[h])),
                    if first.is_empty() { "none".into() } else { format!("m {}", first) },
                );
            }
            rep.case(&format!("/{}/iu", pat), true);
        }
    }
}

pub fn c12_classes(rep: &mut Report, n: usize, seed: u64, thorough: bool) {
    let mut rng = Rng::new(seed);
    c12_fold_intervals(rep, &mut rng, thorough);
    let cfg = GenCfg::default();
    let mut done = 0;
    while done < n {
        let mut flags = Flags::random(&mut rng);
        if rng.chance(1, 2) {
            flags.u = false;
            flags.v = true;
        }
        flags.m = false;
        let (node, cls) = Gen::new(&mut rng, flags, &cfg).class_pattern(if thorough { 3 } else { 2 });
        let pat = ast::pattern_string(&node, flags);
        let fs = flags.to_string();
        let re = match guarded(|| compile(&pat, &fs, false)) {
            Ok(Ok(re)) => re,
            Ok(Err(e)) => {
                rep.violation("impl-vs-spec:C08", format!("valid class pattern rejected: /{}/{}: {}", pat, fs, e), format!("/{}/{}", pat, fs));
                continue;
            }
            Err(m) => {
                rep.violation("panic:C07", format!("compilation panicked: /{}/{}: {}", pat, fs, m), format!("/{}/{}", pat, fs));
                continue;
            }
        };
        let mut chars = vec![];
        let mut strs = vec![];
        ast::class_mentions(&cls, &mut chars, &mut strs);
        let mut probes: Vec<Vec<u32>> = vec![vec![]];
        let mut cs: Vec<u32> = vec!['a' as u32, 'k' as u32, 'K' as u32, 0x212A, 's' as u32, 0x17F, '0' as u32, '_' as u32, ' ' as u32, 0xE9, 0x1F600, '-' as u32, 'Z' as u32, 0x0, 0x1, 0x7F, 0x80, 0xFF, 0x100, 0x7FF, 0x800, 0xD7FF, 0xE000, 0xFFFF, 0x10000, 0x10FFFF];
        for c in chars {
            cs.extend(ast::case_partners(c));
        }
        cs.sort();
        cs.dedup();
        for c in cs {
            if char::from_u32(c).is_some() {
                probes.push(vec![c]);
            }
        }
        for s in strs {
            probes.push(s.clone());
            probes.push(s.iter().map(|c| *ast::case_partners(*c).last().unwrap()).collect());
            if s.len() > 1 {
                probes.push(s[..s.len() - 1].to_vec());
                let mut t = s.clone();
                t.push('a' as u32);
                probes.push(t);
            }
        }
        probes.sort();
        probes.dedup();
        for h in probes {
            if h.iter().any(|c| char::from_u32(*c).is_none()) {
                continue;
            }
            let hay = ast::to_string(&h);
            done += 1;
            let r = run_exec(&re, Exec::Bt, &hay, 0, 1);
            let first = r.text.split(' ').next().unwrap_or("").to_string();
            rep.case(&format!("/{}/{} {:?}", pat, fs, hay), !first.is_empty());
            rep.count(if first.is_empty() { "no-match" } else { "match" });
            rep.count(&format!("flags:{}", flags.to_token()));
            rep.count(match &cls { Node::VClass(true, _) => "kind:negated-vclass", Node::VClass(false, _) => "kind:vclass", Node::Class(true, _) => "kind:negated-class", _ => "kind:class" });
            rep.tie(
                format!("esfind {} {} {} 0", flags.to_token(), ast::ast_string(&node), ast::cps_hex(&h)),
                if first.is_empty() { "none".into() } else { format!("m {}", first) },
            );
        }
    }
}

// ------------------------------------------------------------------ compiler tie (optimizer / start predicate / emitter / IR semantics models)

/// For generated patterns: the real IR before and after optimization, the real start predicate,
/// the real program and the real first match, as expectations for the Lean models of
/// `optimizer.rs`, `startpredicate.rs`, `emit.rs` and for the IR semantics.
pub fn compiler_tie(rep: &mut Report, n: usize, seed: u64, thorough: bool) {
    let mut rng = Rng::new(seed);
    let cfg = GenCfg { max_depth: if thorough { 4 } else { 3 }, ..GenCfg::default() };
    let mut done = 0;
    while done < n {
        let Some(c) = gen_case(&mut rng, &cfg, rep, None) else { continue };
        let cps: Vec<u32> = c.pat.chars().map(|ch| ch as u32).collect();
        let fl = c.flags.to_token();
        let fs = c.flags.to_string();
        let ir0 = regress::verif::dump_ir_canon(cps.iter().copied(), make_flags(&fs, true)).unwrap().replace(' ', "~");
        let ir1 = regress::verif::dump_ir_canon(cps.iter().copied(), make_flags(&fs, false)).unwrap().replace(' ', "~");
        let sp = regress::verif::dump_start_predicate(cps.iter().copied(), make_flags(&fs, false)).unwrap();
        rep.tie(format!("optimize {} {}", fl, ir0), format!("ok {}", ir1));
        rep.tie(format!("startpred {} {}", fl, ir1), sp.clone());
        rep.tie(format!("emit {} {}", fl, ir1), prog_token(&c.opt));
        rep.tie(format!("emit {}O {}", if fl == "-" { "".to_string() } else { fl.clone() }, ir0), prog_token(&c.noopt));
        rep.count(if ir0 != ir1 { "optimizer-changed-ir" } else { "optimizer-no-change" });
        rep.count(&format!("startpred:{}", sp.split(' ').next().unwrap_or("")));
        done += 4;
        rep.case(&format!("/{}/{}", c.pat, fs), ir0 != ir1);
        let hays = ast::haystacks(&c.node, c.flags, &mut rng, 3);
        for h in hays.iter() {
            let hay = ast::to_string(h);
            let b = boundaries(&hay);
            let start = *rng.pick(&b);
            let r = run_exec(&c.opt, Exec::Bt, &hay, start, 1);
            if r.text == "fuel" || r.steps > 200_000 {
                // the denotational model materialises every success of a sub-pattern: keep it to searches
                // the engine finishes quickly (the executor models cover the expensive ones)
                rep.count("semfind-skipped-heavy");
                continue;
            }
            let first = r.text.split(' ').next().unwrap_or("").to_string();
            let want = if first.is_empty() { "none".to_string() } else { format!("m {}", first) };
            rep.tie(format!("semfind {} {} {} {}", fl, ir1, ast::bytes_hex(hay.as_bytes()), start), want.clone());
            rep.tie(format!("semfind {} {} {} {}", fl, ir0, ast::bytes_hex(hay.as_bytes()), start), want);
            done += 2;
            rep.case(&format!("/{}/{} {:?} {}", c.pat, fs, hay, start), !first.is_empty());
        }
    }
}

/// AST → IR lowering tie: the IR the real parser builds for the pattern text of a generated AST,
/// next to the AST itself (the Lean `toIR` must reproduce it).
pub fn lower_tie(rep: &mut Report, n: usize, seed: u64, thorough: bool) {
    let mut rng = Rng::new(seed);
    let cfg = GenCfg { max_depth: if thorough { 4 } else { 3 }, ..GenCfg::default() };
    let mut done = 0;
    while done < n {
        let Some(c) = gen_case(&mut rng, &cfg, rep, None) else { continue };
        let cps: Vec<u32> = c.pat.chars().map(|ch| ch as u32).collect();
        let fs = c.flags.to_string();
        let ir0 = regress::verif::dump_ir_canon(cps.iter().copied(), make_flags(&fs, true)).unwrap().replace(' ', "~");
        rep.tie(format!("lower {} {}", c.flags.to_token(), ast::ast_string(&c.node)), format!("ok {}", ir0));
        rep.case(&format!("/{}/{}", c.pat, fs), true);
        done += 1;
    }
    for node in crate::scope::loop_family().iter().take(if thorough { usize::MAX } else { 2000 }) {
        let pat = ast::pattern_string(node, ast::Flags::default());
        let cps: Vec<u32> = pat.chars().map(|ch| ch as u32).collect();
        let ir0 = regress::verif::dump_ir_canon(cps.iter().copied(), make_flags("", true)).unwrap().replace(' ', "~");
        rep.tie(format!("lower - {}", ast::ast_string(node)), format!("ok {}", ir0));
    }
}

// ------------------------------------------------------------------ C05 exhaustive small scope

/// All patterns built from a few atoms by nesting quantifiers (every small (min,max,lazy) shape),
/// the four look-arounds and concatenation up to depth 3, on all haystacks of length ≤ 4 over
/// {a, b, c}: every search must finish within a small step budget on both executors.
pub fn c05_scope(rep: &mut Report, seed: u64, thorough: bool) {
    let mut rng = Rng::new(seed);
    let atoms = ["a", "ab", "(?:)", "(?:a|)", "(a)", "(a|b)?", "c?", "\\b", "$"];
    let quants = ["*", "+", "?", "{0,2}", "{2}", "{1,}", "*?", "+?", "{0,2}?", "{2,3}?"];
    let looks = ["(?=", "(?<=", "(?!", "(?<!"];
    let wrap = |s: &str| -> String { format!("(?:{})", s) };
    let mut t0: Vec<String> = atoms.iter().map(|s| s.to_string()).collect();
    t0.push("\\1".to_string());
    let level = |prev: &Vec<String>, rng: &mut Rng, keep: usize| -> Vec<String> {
        let mut out = vec![];
        for p in prev {
            for q in quants.iter() {
                out.push(format!("{}{}", wrap(p), q));
            }
            for l in looks.iter() {
                out.push(format!("{}{})", l, p));
            }
            for a in ["a", "c?", "(a)", "b*"] {
                out.push(format!("{}{}", p, a));
                out.push(format!("{}{}", a, p));
            }
        }
        if out.len() > keep {
            // deterministic sample
            for i in (1..out.len()).rev() {
                out.swap(i, rng.below(i + 1));
            }
            out.truncate(keep);
        }
        out
    };
    let t1 = level(&t0, &mut rng, usize::MAX);
    let t2 = level(&t1, &mut rng, if thorough { 20000 } else { 4000 });
    let t3 = level(&t2, &mut rng, if thorough { 60000 } else { 12000 });
    let mut hays: Vec<String> = vec![String::new()];
    let mut cur = vec![String::new()];
    for _ in 0..(if thorough { 4 } else { 3 }) {
        let mut nxt = vec![];
        for p in &cur {
            for ch in ["a", "b", "c"] {
                nxt.push(format!("{}{}", p, ch));
            }
        }
        hays.extend(nxt.iter().cloned());
        cur = nxt;
    }
    let budget: u64 = 400_000;
    for (li, lvl) in [&t1, &t2, &t3].iter().enumerate() {
        for body in lvl.iter() {
            if rep.saturated() {
                return;
            }
            for tail in ["d", ""] {
                // a leading group so that \1 is a valid back-reference
                let pat = format!("(x)?{}{}", body, tail);
                let re = match guarded(|| compile(&pat, "", false)) {
                    Ok(Ok(re)) => re,
                    Ok(Err(_)) => {
                        rep.count("rejected");
                        continue;
                    }
                    Err(m) => {
                        rep.violation("panic:C07", format!("compilation panicked: /{}/: {}", pat, m), pat.clone());
                        continue;
                    }
                };
                rep.count(&format!("depth{}", li + 1));
                let some_hays: Vec<&String> = if thorough { hays.iter().collect() } else { (0..6).map(|_| rng.pick(&hays)).collect() };
                for h in some_hays {
                    for exec in [Exec::Bt, Exec::Pk] {
                        regress::verif::fuel::reset(budget);
                        let mut r = guarded(std::panic::AssertUnwindSafe(|| find_all(&re, exec, h, 0, 0).0.len()));
                        let (mut steps, mut peak, mut exhausted) = regress::verif::fuel::report();
                        regress::verif::fuel::reset(u64::MAX);
                        if exhausted {
                            // deeply nested lazy quantifiers legitimately need more than the small budget:
                            // only a run that also exceeds the large one (or the stack bound) is reported
                            rep.count("needed-more-than-the-small-budget");
                            regress::verif::fuel::reset(FUEL_RETRY);
                            r = guarded(std::panic::AssertUnwindSafe(|| find_all(&re, exec, h, 0, 0).0.len()));
                            (steps, peak, exhausted) = regress::verif::fuel::report();
                            regress::verif::fuel::reset(u64::MAX);
                        }
                        rep.case(&format!("{} {} {:?}", pat, h, exec), steps > 20);
                        rep.count_n("steps", steps);
                        if exhausted {
                            rep.violation("impl-vs-spec:C05", format!("{} did not finish within {} steps (peak stack {})", exec.name(), steps.max(budget), peak), format!("/{}/ on {:?}", pat, h));
                        }
                        if let Err(m) = r {
                            rep.violation("panic:C06", format!("search panicked: {}", m), format!("/{}/ on {:?}", pat, h));
                        }
                    }
                }
            }
        }
    }
}

// ------------------------------------------------------------------ bytesearch.rs tie

#[repr(align(8))]
struct Aligned([u8; 96]);

/// `ByteBitmap::find_in` (the word-at-a-time scan under default features) on random sets and haystacks at all
/// four alignments of the slice start, against the Lean model of bytesearch.rs (which takes the
/// alignment offset as a parameter).
pub fn bytesearch_tie(rep: &mut Report, n: usize, seed: u64) {
    let mut rng = Rng::new(seed);
    for _ in 0..n {
        let setn = [0usize, 1, 2, 5, 16, 200][rng.below(6)];
        let pool: Vec<u8> = match rng.below(3) {
            0 => (0u8..=255).collect(),
            1 => vec![0x00, 0x0F, 0x10, 0x7F, 0x80, 0xC3, 0xE2, 0xF0, 0xFF, b'a', b'b'],
            _ => (0x60u8..0x70).collect(),
        };
        let set: Vec<u8> = (0..setn).map(|_| *rng.pick(&pool)).collect();
        let mut buf = Aligned([0u8; 96]);
        for b in buf.0.iter_mut() {
            *b = if rng.chance(1, 6) && !set.is_empty() { *rng.pick(&set) } else { *rng.pick(&pool) };
        }
        let k = rng.below(8);
        let len = rng.below(40);
        let hay = &buf.0[k..k + len];
        let off = hay.as_ptr().align_offset(4);
        let got = regress::verif::bitmap_find_in(&set, hay);
        let hex = |v: &[u8]| if v.is_empty() { "-".to_string() } else { v.iter().map(|b| format!("{:02x}", b)).collect::<String>() };
        rep.case(&format!("{:?} {:?} {}", set, hay, off), got.is_some());
        rep.count(&format!("align-offset:{}", off));
        rep.tie(format!("bitmapfind {} {} {}", hex(&set), hex(hay), off), match got { Some(i) => i.to_string(), None => "none".into() });
        // the definition itself: least index whose byte is in the set
        let want = hay.iter().position(|b| set.contains(b));
        if got != want {
            rep.violation("impl-vs-spec:C04", format!("ByteBitmap::find_in = {:?}, first member at {:?}", got, want), format!("set {:?} hay {:?} align offset {}", set, hay, off));
        }
    }
}
