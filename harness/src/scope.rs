//! Small-scope structural families: every pattern of a fixed shape over a tiny alphabet, against
//! every short haystack. The random generator reaches these shapes only occasionally; bugs in the
//! bookkeeping of nested loops (iteration counters, loop-entry positions, capture resets) need a
//! bounded quantifier with a choice point inside another quantifier and a haystack that forces
//! backtracking across the outer iterations.

use crate::ast::{self, ClassItem, Flags, Node, VExpr};
use crate::ops_engine::run_exec;
use crate::report::Report;
use crate::rng::Rng;
use crate::util::*;

fn ch(c: char) -> Node {
    Node::Char(c as u32)
}
fn lit(s: &str) -> Node {
    let v: Vec<Node> = s.chars().map(ch).collect();
    if v.len() == 1 {
        v.into_iter().next().unwrap()
    } else {
        Node::Cat(v)
    }
}
fn quant(min: u32, max: Option<u32>, greedy: bool, body: Node) -> Node {
    Node::Quant { min, max, greedy, body: Box::new(Node::Nc(Box::new(body))) }
}
fn group(body: Node) -> Node {
    Node::Group(0, None, Box::new(body))
}

/// assign capture indices in left-parenthesis order
pub fn number(n: &mut Node, next: &mut u32) {
    match n {
        Node::Group(idx, _, b) => {
            *next += 1;
            *idx = *next;
            number(b, next);
        }
        Node::Nc(b) | Node::Mod(_, _, b) => number(b, next),
        Node::Look { body, .. } => number(body, next),
        Node::Quant { body, .. } => number(body, next),
        Node::Cat(v) | Node::Alt(v) => v.iter_mut().for_each(|x| number(x, next)),
        _ => {}
    }
}

const QS: &[(u32, Option<u32>, bool)] =
    &[(0, Some(1), true), (0, None, true), (1, None, true), (0, Some(2), true), (2, Some(2), true), (0, Some(1), false), (0, None, false), (1, Some(2), false)];
const OUTER: &[(u32, Option<u32>, bool)] = &[(2, Some(2), true), (1, None, true), (0, None, true), (1, Some(3), true), (2, Some(2), false), (1, None, false)];

fn inner_bodies() -> Vec<Node> {
    vec![
        Node::Alt(vec![lit("a"), lit("ab")]),
        Node::Alt(vec![lit("ab"), lit("a")]),
        Node::Alt(vec![lit("a"), Node::Empty]),
        Node::Alt(vec![Node::Empty, lit("a")]),
        lit("a"),
        Node::Alt(vec![group(lit("a")), lit("b")]),
        quant(0, None, true, lit("a")),
    ]
}

/// `^?(?: G?( (?:A){q1} ) T ){q2} U`
pub fn loop_family() -> Vec<Node> {
    let mut out = vec![];
    let tails = [Node::Empty, lit("b"), Node::Class(false, vec![ClassItem::C('b' as u32), ClassItem::C('x' as u32)])];
    let ends = [Node::Empty, lit("y"), Node::Eol];
    for a in inner_bodies() {
        for &(m1, x1, g1) in QS {
            for cap in [false, true] {
                for t in tails.iter() {
                    for &(m2, x2, g2) in OUTER {
                        for u in ends.iter() {
                            for anch in [false, true] {
                                let inner = quant(m1, x1, g1, a.clone());
                                let inner = if cap { group(inner) } else { inner };
                                let outer = quant(m2, x2, g2, Node::Cat(vec![inner, t.clone()]));
                                let mut v = vec![];
                                if anch {
                                    v.push(Node::Bol);
                                }
                                v.push(outer);
                                v.push(u.clone());
                                let mut n = Node::Cat(v);
                                let mut k = 0;
                                number(&mut n, &mut k);
                                out.push(n);
                            }
                        }
                    }
                }
            }
        }
    }
    out
}

fn short_strings(alpha: &[&str], maxlen: usize) -> Vec<String> {
    let mut hays: Vec<String> = vec![String::new()];
    let mut cur = vec![String::new()];
    for _ in 0..maxlen {
        let mut nxt = vec![];
        for p in &cur {
            for c in alpha {
                nxt.push(format!("{}{}", p, c));
            }
        }
        hays.extend(nxt.iter().cloned());
        cur = nxt;
    }
    hays
}

/// `focus`: C01 (ES specification tie), C02 (executors agree), C03 (optimizer), C05 (termination).
pub fn loop_scope(rep: &mut Report, rng: &mut Rng, focus: &str, thorough: bool) {
    let fam = loop_family();
    let all = short_strings(&["a", "b", "y"], 4);
    let long = ["abaxby", "aabab", "ababy", "abaabb", "aaaby", "abxaby", "aabaab"];
    let flags = Flags::default();
    let keep = if focus == "C01" { 2 } else { 3 };
    for node in fam.iter() {
        if rep.saturated() {
            return;
        }
        if !thorough && !rng.chance(1, keep) {
            continue;
        }
        let pat = ast::pattern_string(node, flags);
        let (Ok(Ok(opt)), Ok(Ok(noopt))) = (guarded(|| compile(&pat, "", false)), guarded(|| compile(&pat, "", true))) else {
            rep.violation("impl-vs-spec:C08", format!("valid pattern rejected: /{}/", pat), format!("/{}/", pat));
            continue;
        };
        rep.count("loopscope:patterns");
        let mut hays: Vec<String> = long.iter().map(|s| s.to_string()).collect();
        if thorough {
            hays.extend(all.iter().cloned());
        } else {
            for _ in 0..8 {
                hays.push(rng.pick(&all).clone());
            }
        }
        for h in &hays {
            let label = format!("/{}/ on {:?} from 0", pat, h);
            let bt = run_exec(&opt, Exec::Bt, h, 0, 64);
            rep.case(&label, !bt.text.is_empty());
            match focus {
                "C01" => {
                    let first = bt.text.split(' ').next().unwrap_or("").to_string();
                    let cps: Vec<u32> = h.chars().map(|c| c as u32).collect();
                    rep.tie(
                        format!("esfind - {} {} 0", ast::ast_string(node), ast::cps_hex(&cps)),
                        if bt.text == "fuel" { "fuel".into() } else if first.is_empty() { "none".into() } else { format!("m {}", first) },
                    );
                }
                "C05" => {
                    let pk = run_exec(&opt, Exec::Pk, h, 0, 64);
                    for (name, r) in [("backtracking", &bt), ("PikeVM", &pk)] {
                        if r.text == "fuel" {
                            rep.violation("impl-vs-spec:C05", format!("{} did not finish", name), label.clone());
                        }
                    }
                }
                _ => {
                    let pk = run_exec(&opt, Exec::Pk, h, 0, 64);
                    let btn = run_exec(&noopt, Exec::Bt, h, 0, 64);
                    if crate::ops_engine::differ(&bt.text, &pk.text) {
                        rep.violation("impl-vs-impl:C02", format!("backtracking [{}] vs PikeVM [{}]", bt.text, pk.text), label.clone());
                    }
                    if crate::ops_engine::differ(&bt.text, &btn.text) {
                        rep.violation("impl-vs-impl:C03", format!("optimized [{}] vs no_opt [{}]", bt.text, btn.text), label.clone());
                    }
                }
            }
        }
    }
}

/// C04: what the pattern *starts with* decides the start predicate (anchored shortcut, lead-byte
/// scan). Every combination of a zero-width or anchoring first term, a short body and a flag set,
/// on every haystack of length ≤ 4 over {a, b, \n} (plus other line terminators), from every offset:
/// the prefiltered search, the search with the prefilter disabled, and the PikeVM must agree.
pub fn prefix_scope(rep: &mut Report, rng: &mut Rng, thorough: bool) {
    let firsts = [
        "", "^", "$", "\\b", "\\B", "(?<!.)", "(?<![^])", "(?<![\\s\\S])", "(?<!a)", "(?<!^)", "(?<=\\n)", "(?<=^)", "(?<=a|^)", "(?!^)", "(?=a)", "(?=^)", "(?:^|a)", "(^)",
        "(?:(?<!.))", "((?<!.))", "(?<!.|b)", "(?<!\\n)", "(?:^)?", "(?<!.)?", "(?=(?<!.))", "(?<!(?=.))", "(?<!b.)",
        // a leading group that a later back-reference constrains: the search may not be cut short
        "(.*)", "(.*?)", "(.+)", "(a*)", "(?:(.*))", "(.*)a",
    ];
    let bodies = ["a", "ab", "[ab]", "a|b", "(a)", ".", "", "\\w+", "(?:a|ba)", "b*a", "[^a]", "=\\1", "a\\1", "\\1", "b\\1$"];
    let flagsets = ["", "m", "s", "ms", "i", "u", "su"];
    let mut hays = short_strings(&["a", "b", "\n"], 4);
    for extra in ["\ra", "a\rb", "\u{2028}a", "b\u{2029}ab", "\r\na", "a\n\nab"] {
        hays.push(extra.to_string());
    }
    for first in firsts {
        for body in bodies {
            for fs in flagsets {
                if rep.saturated() {
                    return;
                }
                if !thorough && !rng.chance(1, 3) {
                    continue;
                }
                let pat = format!("{}{}", first, body);
                let Ok(Ok(re)) = guarded(|| compile(&pat, fs, false)) else {
                    rep.count("prefixscope:rejected");
                    continue;
                };
                rep.count("prefixscope:patterns");
                let mut arb = re.clone();
                regress::verif::set_start_pred_arbitrary(&mut arb);
                let pred = regress::verif::dump_program(&re).lines().nth(1).unwrap_or("").split(' ').nth(1).unwrap_or("").to_string();
                rep.count(&format!("prefixscope:startpred:{}", pred));
                for h in &hays {
                    for start in boundaries(h) {
                        let label = format!("/{}/{} on {:?} from {}", pat, fs, h, start);
                        let bt = run_exec(&re, Exec::Bt, h, start, 64);
                        let a = run_exec(&arb, Exec::Bt, h, start, 64);
                        let pk = run_exec(&re, Exec::Pk, h, start, 64);
                        rep.case(&label, !bt.text.is_empty());
                        if crate::ops_engine::differ(&bt.text, &a.text) {
                            rep.violation("impl-vs-impl:C04", format!("with prefilter ({}) [{}] vs Arbitrary [{}]", pred, bt.text, a.text), label.clone());
                        }
                        if crate::ops_engine::differ(&bt.text, &pk.text) {
                            rep.violation("impl-vs-impl:C04", format!("backtracking with prefilter ({}) [{}] vs PikeVM [{}]", pred, bt.text, pk.text), label.clone());
                        }
                    }
                }
            }
        }
    }
}

/// Minimized past failures and listed deviations, as (flags, pattern text, the AST ECMAScript reads
/// it as, haystacks): the implementation runs on the text, the specification model on the AST.
pub fn spec_probes() -> Vec<(&'static str, &'static str, Node, Vec<&'static str>)> {
    let anch = |n: Node| Node::Cat(vec![Node::Bol, n, Node::Eol]);
    vec![
        // F30 (open): without u/v, \u{3} is the letter u three times
        ("", "^\\u{3}$", anch(Node::Quant { min: 3, max: Some(3), greedy: true, body: Box::new(ch('u')) }), vec!["uuu", "\u{3}", "u"]),
        // F27: \b in a v-mode class is backspace
        ("v", "^[\\b]$", anch(Node::VClass(false, VExpr::Union(vec![ClassItem::C(8)]))), vec!["\u{8}", "b"]),
        // F28: the escape after a lone high surrogate keeps its \u
        ("", "^[\\uD83D\\u0041]$", anch(Node::Class(false, vec![ClassItem::C(0xD83D), ClassItem::C(0x41)])), vec!["A", "0", "4", "1", "u"]),
        // F26: a single & can start a range
        ("v", "^[A&-Z]$", anch(Node::VClass(false, VExpr::Union(vec![ClassItem::C('A' as u32), ClassItem::R('&' as u32, 'Z' as u32)]))), vec!["&", "-", "Z", "A", "a", "0"]),
        // F31: under v+i strings are compared up to case in && and --
        (
            "iv",
            "^[\\q{ab}&&\\q{AB}]$",
            anch(Node::VClass(false, VExpr::Inter(vec![ClassItem::Q(vec![vec![0x61, 0x62]]), ClassItem::Q(vec![vec![0x41, 0x42]])]))),
            vec!["ab", "AB", "aB", "a"],
        ),
        (
            "iv",
            "^[\\q{ab|cd}--\\q{AB}]$",
            anch(Node::VClass(false, VExpr::Sub(vec![ClassItem::Q(vec![vec![0x61, 0x62], vec![0x63, 0x64]]), ClassItem::Q(vec![vec![0x41, 0x42]])]))),
            vec!["ab", "AB", "cd", "CD"],
        ),
        // F32: a negated class may subtract strings
        (
            "v",
            "^[^a--\\q{bc}]$",
            anch(Node::VClass(true, VExpr::Sub(vec![ClassItem::C(0x61), ClassItem::Q(vec![vec![0x62, 0x63]])]))),
            vec!["a", "b", "bc"],
        ),
        // F20: two different reserved punctuators
        ("v", "^[!#]$", anch(Node::VClass(false, VExpr::Union(vec![ClassItem::C('!' as u32), ClassItem::C('#' as u32)]))), vec!["!", "#", "a"]),
    ]
}

pub fn run_spec_probes(rep: &mut Report) {
    for (fs, pat, node, hays) in spec_probes() {
        let re = match guarded(|| compile(pat, fs, false)) {
            Ok(Ok(re)) => re,
            _ => {
                rep.violation("impl-vs-spec:C08", format!("valid pattern rejected: /{}/{}", pat, fs), format!("/{}/{}", pat, fs));
                continue;
            }
        };
        let ftok = if fs.is_empty() { "-" } else { fs };
        for h in hays {
            let bt = run_exec(&re, Exec::Bt, h, 0, 1);
            let first = bt.text.split(' ').next().unwrap_or("").to_string();
            let cps: Vec<u32> = h.chars().map(|c| c as u32).collect();
            rep.case(&format!("/{}/{} on {:?}", pat, fs, h), !first.is_empty());
            rep.count("probe");
            rep.tie(
                format!("esfind {} {} {} 0", ftok, ast::ast_string(&node), ast::cps_hex(&cps)),
                if first.is_empty() { "none".into() } else { format!("m {}", first) },
            );
        }
    }
}

/// C04: literal prefixes. Every literal of length 2..4 over a two-letter alphabet (ASCII, and
/// two-byte letters), alone and as the shared prefix of an alternation, on every haystack over the same
/// alphabet up to length 6 from every offset: the literal-prefix (memmem / byte-sequence) search must
/// not skip an occurrence that overlaps a partial one.
pub fn literal_scope(rep: &mut Report, rng: &mut Rng, thorough: bool) {
    for alpha in [["a", "b"], ["\u{e9}", "\u{e8}"], ["a", "\u{e9}"]] {
        let lits: Vec<String> = short_strings(&alpha, 4).into_iter().filter(|s| s.chars().count() >= 2).collect();
        let hays = short_strings(&alpha, 6);
        for lit in &lits {
            let x = alpha[0];
            let y = alpha[1];
            for pat in [lit.clone(), format!("(?:{}{}|{}{})", lit, x, lit, y), format!("{}+", lit), format!("({}){}?", lit, y)] {
                if rep.saturated() {
                    return;
                }
                if !thorough && !rng.chance(1, 2) {
                    continue;
                }
                let Ok(Ok(re)) = guarded(|| compile(&pat, "", false)) else { continue };
                let mut arb = re.clone();
                regress::verif::set_start_pred_arbitrary(&mut arb);
                let pred = regress::verif::dump_program(&re).lines().nth(1).unwrap_or("").split(' ').nth(1).unwrap_or("").to_string();
                rep.count(&format!("literalscope:startpred:{}", pred));
                for h in &hays {
                    for start in boundaries(h) {
                        let bt = run_exec(&re, Exec::Bt, h, start, 64);
                        let a = run_exec(&arb, Exec::Bt, h, start, 64);
                        if crate::ops_engine::differ(&bt.text, &a.text) {
                            rep.violation(
                                "impl-vs-impl:C04",
                                format!("with prefilter ({}) [{}] vs Arbitrary [{}]", pred, bt.text, a.text),
                                format!("/{}/ on {:?} from {}", pat, h, start),
                            );
                        }
                    }
                }
                rep.case(&format!("/{}/ literal scope", pat), true);
            }
        }
    }
}

/// C01: case-insensitive back-references over characters whose case partners have other encoded
/// lengths (ſ/s, K/k, ẞ/ß, İ/i …): `(a)\1`, anchored, followed by text, and read backwards inside a
/// look-behind, on every pair of partners, bare and embedded, under i / iu / iv; checked against the
/// ES specification model.
pub fn backref_scope(rep: &mut Report) {
    let classes: &[&[u32]] = &[
        &['s' as u32, 'S' as u32, 0x17F],
        &['k' as u32, 'K' as u32, 0x212A],
        &[0xDF, 0x1E9E],
        &['i' as u32, 'I' as u32, 0x130, 0x131],
        &[0x1C4, 0x1C5, 0x1C6],
        &[0x3C3, 0x3C2, 0x3A3],
        &[0x1FBE, 0x3B9, 0x399, 0x345],
        &[0x10400, 0x10428],
        &[0xE9, 0xC9],
        &[0xFF, 0x178],
        &[0xB5, 0x39C, 0x3BC],
    ];
    for class in classes {
        for &a in class.iter() {
            let g = || Node::Group(1, None, Box::new(Node::Char(a)));
            let shapes: Vec<Node> = vec![
                Node::Cat(vec![g(), Node::Bref(1)]),
                Node::Cat(vec![Node::Bol, g(), Node::Bref(1), Node::Eol]),
                Node::Cat(vec![g(), Node::Bref(1), ch('x')]),
                Node::Cat(vec![Node::Look { ahead: false, neg: false, body: Box::new(Node::Cat(vec![Node::Bref(1), g()])) }, Node::Eol]),
                Node::Alt(vec![Node::Cat(vec![g(), Node::Bref(1)]), Node::Dot]),
            ];
            for flags in [Flags { i: true, ..Flags::default() }, Flags { i: true, u: true, ..Flags::default() }, Flags { i: true, v: true, ..Flags::default() }] {
                for node in shapes.iter() {
                    let pat = ast::pattern_string(node, flags);
                    let fs = flags.to_string();
                    let Ok(Ok(re)) = guarded(|| compile(&pat, &fs, false)) else {
                        rep.violation("impl-vs-spec:C08", format!("valid pattern rejected: /{}/{}", pat, fs), format!("/{}/{}", pat, fs));
                        continue;
                    };
                    for &x in class.iter() {
                        for &y in class.iter() {
                            for (pre, post) in [("", ""), ("x", ""), ("", "x"), ("\u{e9}", "y")] {
                                let mut cps: Vec<u32> = pre.chars().map(|c| c as u32).collect();
                                cps.push(x);
                                cps.push(y);
                                cps.extend(post.chars().map(|c| c as u32));
                                let h = ast::to_string(&cps);
                                let bt = run_exec(&re, Exec::Bt, &h, 0, 1);
                                let first = bt.text.split(' ').next().unwrap_or("").to_string();
                                rep.case(&format!("/{}/{} on {:?}", pat, fs, h), !first.is_empty());
                                rep.count("backref-scope");
                                rep.tie(
                                    format!("esfind {} {} {} 0", flags.to_token(), ast::ast_string(node), ast::cps_hex(&cps)),
                                    if first.is_empty() { "none".into() } else { format!("m {}", first) },
                                );
                            }
                        }
                    }
                }
            }
        }
    }
}

/// C02 / C03: small classes over the code points at which the encodings change length (and the
/// byte values they share: 0x80 is a continuation byte of U+00C0, U+0100, U+0800), as `[S]`, `[S]+`,
/// `[^S]`, `x[S]`, on every such character alone and after an `a`: optimized vs unoptimized, and
/// backtracker vs PikeVM (the optimizer lowers small sets to byte sets, the emitter to bitmaps).
pub fn class_boundary_scope(rep: &mut Report, rng: &mut Rng, thorough: bool) {
    let b: [u32; 10] = [0x61, 0x7F, 0x80, 0xFF, 0x100, 0x7FF, 0x800, 0xFFFF, 0x10000, 0x10FFFF];
    let extra: [u32; 6] = [0xC0, 0xC2, 0x4080, 0x0, 0x17F, 0x7E];
    let mut sets: Vec<Vec<u32>> = vec![];
    for i in 0..b.len() {
        sets.push(vec![b[i]]);
        for j in i + 1..b.len() {
            sets.push(vec![b[i], b[j]]);
            for k in j + 1..b.len() {
                sets.push(vec![b[i], b[j], b[k]]);
            }
        }
    }
    let mut hays: Vec<String> = vec![];
    for c in b.iter().chain(extra.iter()) {
        if let Some(ch) = char::from_u32(*c) {
            hays.push(ch.to_string());
            hays.push(format!("a{}", ch));
            hays.push(format!("{}{}", ch, ch));
        }
    }
    for set in sets.iter() {
        for shape in 0..4 {
            for fs in ["", "i", "u"] {
                if rep.saturated() {
                    return;
                }
                if !thorough && !rng.chance(1, 3) {
                    continue;
                }
                let items: Vec<ClassItem> = set.iter().map(|c| ClassItem::C(*c)).collect();
                let cls = |neg: bool| Node::Class(neg, items.clone());
                let node = match shape {
                    0 => cls(false),
                    1 => Node::Quant { min: 1, max: None, greedy: true, body: Box::new(cls(false)) },
                    2 => cls(true),
                    _ => Node::Cat(vec![ch('a'), cls(false)]),
                };
                let flags = Flags { i: fs == "i", u: fs == "u", ..Flags::default() };
                let pat = ast::pattern_string(&node, flags);
                let (Ok(Ok(opt)), Ok(Ok(noopt))) = (guarded(|| compile(&pat, fs, false)), guarded(|| compile(&pat, fs, true))) else { continue };
                rep.count("classboundary:patterns");
                for h in &hays {
                    let label = format!("/{}/{} on {:?} from 0", pat, fs, h);
                    let bt = run_exec(&opt, Exec::Bt, h, 0, 64);
                    let pk = run_exec(&opt, Exec::Pk, h, 0, 64);
                    let btn = run_exec(&noopt, Exec::Bt, h, 0, 64);
                    rep.case(&label, !bt.text.is_empty());
                    if crate::ops_engine::differ(&bt.text, &pk.text) {
                        rep.violation("impl-vs-impl:C02", format!("backtracking [{}] vs PikeVM [{}]", bt.text, pk.text), label.clone());
                    }
                    if crate::ops_engine::differ(&bt.text, &btn.text) {
                        rep.violation("impl-vs-impl:C03", format!("optimized [{}] vs no_opt [{}]", bt.text, btn.text), label.clone());
                    }
                }
            }
        }
    }
}

/// C01 / C02: size boundaries. (1) Haystacks around 2^16 and 2^18 characters with closed-form expected
/// matches for lazy and greedy one-character loops, literal search and look-behind; (2) quantifier
/// bounds around 2^16, 2^31, 2^32 and 2^64 on loops that are not unrolled; (3) a first element nested
/// 99..255 deep. Both executors, optimized and not, must give the expected / the same answer.
pub fn size_scope(rep: &mut Report, focus: &str) {
    // (1) long haystacks
    for n in [65535usize, 65536, 65537, 262143, 262144, 262145, 300000] {
        let hay = format!("a{}b", "x".repeat(n));
        let cases: Vec<(&str, &str, Option<(usize, usize)>)> = vec![
            ("a.*?b", "", Some((0, n + 2))),
            ("a.*b", "", Some((0, n + 2))),
            ("a[^b]*?b", "", Some((0, n + 2))),
            ("ax+?b", "", Some((0, n + 2))),
            ("x{3,}?b", "", Some((1, n + 2))),
            ("(?<=a.*?)b", "s", Some((n + 1, n + 2))),
            ("a.{0,5}?b", "", None),
            ("xb", "", Some((n, n + 2))),
            ("a(?:x)*?b", "", Some((0, n + 2))),
        ];
        for (pat, fs, want) in cases {
            for no_opt in [false, true] {
                let Ok(re) = compile(pat, fs, no_opt) else { continue };
                for exec in [Exec::Bt, Exec::Pk] {
                    regress::verif::fuel::reset(50_000_000);
                    let got = guarded(std::panic::AssertUnwindSafe(|| find_all(&re, exec, &hay, 0, 1).0.first().map(|m| (m.range.start, m.range.end))));
                    let (_, _, ex) = regress::verif::fuel::report();
                    regress::verif::fuel::reset(u64::MAX);
                    rep.case(&format!("/{}/{} on a x^{} b {:?} no_opt={}", pat, fs, n, exec, no_opt), true);
                    rep.count("size:long-haystack");
                    if ex {
                        continue;
                    }
                    match got {
                        Err(m) => rep.violation("panic:C06", format!("search panicked: {}", m), format!("/{}/{} on \"a\" + \"x\"*{} + \"b\"", pat, fs, n)),
                        Ok(g) => {
                            if g != want {
                                let tag = if focus == "C02" { "impl-vs-impl:C02" } else { "impl-vs-spec:C01" };
                                rep.violation(tag, format!("{} (no_opt={}) finds {:?}, expected {:?}", exec.name(), no_opt, g, want), format!("/{}/{} on \"a\" + \"x\"*{} + \"b\"", pat, fs, n));
                            }
                        }
                    }
                }
            }
        }
    }
    // (2) large quantifier bounds
    let bounds: [(u128, u128); 9] = [
        (0, 65535), (0, 65536), (0, 1 << 31), (0, 1 << 32), (2, (1 << 32) + 2), (1, (1 << 32) + 1), (0, (1 << 63)), (0, u64::MAX as u128), (0, (u64::MAX as u128) + 5),
    ];
    for body in ["(?:ab)", "(a)", "(?:a|b)", "(a|bc)", "a"] {
        for (m, n) in bounds {
            for lazy in ["", "?"] {
                for tail in ["", "$", "c"] {
                    let pat = format!("x{}{{{},{}}}{}{}", body, m, n, lazy, tail);
                    let (Ok(opt), Ok(noopt)) = (compile(&pat, "", false), compile(&pat, "", true)) else { continue };
                    for h in ["xababab", "xabc", "x", "xaaaa", "xbcac", ""] {
                        let label = format!("/{}/ on {:?} from 0", pat, h);
                        let bt = run_exec(&opt, Exec::Bt, h, 0, 8);
                        let pk = run_exec(&opt, Exec::Pk, h, 0, 8);
                        let btn = run_exec(&noopt, Exec::Bt, h, 0, 8);
                        rep.case(&label, !bt.text.is_empty());
                        rep.count("size:big-bounds");
                        if crate::ops_engine::differ(&bt.text, &pk.text) {
                            rep.violation("impl-vs-impl:C02", format!("backtracking [{}] vs PikeVM [{}]", bt.text, pk.text), label.clone());
                        }
                        if crate::ops_engine::differ(&bt.text, &btn.text) {
                            rep.violation("impl-vs-impl:C03", format!("optimized [{}] vs no_opt [{}]", bt.text, btn.text), label.clone());
                        }
                    }
                }
            }
        }
    }
}

/// C04: a first element nested 99..255 levels deep (capture groups, non-capturing groups, quantified
/// groups): the start predicate must still be sound.
pub fn deep_first_scope(rep: &mut Report) {
    for d in [1usize, 50, 99, 100, 101, 150, 254] {
        for (open, close) in [("(", ")"), ("(?:", ")"), ("(?:", ")+"), ("(", "){1,2}")] {
            for (inner, tail) in [("a", "b"), ("a", ""), ("[ab]", "c"), ("a|b", "c")] {
                let pat = format!("{}{}{}{}", open.repeat(d), inner, close.repeat(d), tail);
                let Ok(re) = compile(&pat, "", false) else {
                    rep.count("deepfirst:rejected");
                    continue;
                };
                let mut arb = re.clone();
                regress::verif::set_start_pred_arbitrary(&mut arb);
                let pred = regress::verif::dump_program(&re).lines().nth(1).unwrap_or("").split(' ').nth(1).unwrap_or("").to_string();
                for h in ["ab", "xab", "b", "ac", "bc", "xxbc", "c", ""] {
                    let label = format!("/{}…{}… depth {}/ on {:?}", open, inner, d, h);
                    let bt = run_exec(&re, Exec::Bt, h, 0, 8);
                    let a = run_exec(&arb, Exec::Bt, h, 0, 8);
                    let pk = run_exec(&re, Exec::Pk, h, 0, 8);
                    rep.case(&label, !bt.text.is_empty());
                    rep.count("deepfirst");
                    if crate::ops_engine::differ(&bt.text, &a.text) {
                        rep.violation("impl-vs-impl:C04", format!("with prefilter ({}) [{}] vs Arbitrary [{}]", pred, bt.text, a.text), format!("/{}/ on {:?}", pat, h));
                    }
                    if crate::ops_engine::differ(&bt.text, &pk.text) {
                        rep.violation("impl-vs-impl:C04", format!("backtracking with prefilter ({}) [{}] vs PikeVM [{}]", pred, bt.text, pk.text), format!("/{}/ on {:?}", pat, h));
                    }
                }
            }
        }
    }
}

/// Deep single attempts, UNBUDGETED (the verification budget is off, so production limits are what runs):
/// an attempt at offset 0 that consumes the whole haystack through a capturing loop (several backtrack
/// entries per character, N up to 720 000, thorough 3 000 000), fails at the very end, and is followed by a
/// match elsewhere through another alternative. The expected result is known in closed form; the four
/// entry points must agree, and groups that did not participate in the reported match must be None.
pub fn deep_attempt_scope(rep: &mut Report, tag: &str, thorough: bool) {
    use crate::util::*;
    let sizes: &[usize] = if thorough { &[1_000, 100_000, 720_000, 3_000_000, 6_000_000] } else { &[1_000, 100_000, 720_000, 3_000_000] };
    // (pattern, number of groups, index of the group that holds the final "b" or usize::MAX)
    let pats: [(&str, usize, usize); 5] = [
        ("x(y)(?:(a)|b)*c|b", 2, usize::MAX),
        ("x(?<head>y)(?:(?<n>a)|b)+c|(?<n>b)", 3, 3),
        ("x(y)(?:(a)|(b))*?c|b", 3, usize::MAX),
        ("x(y)(?:(?=(a))a)*c|(b)", 3, 3),
        ("x(y)(a)*c|b", 2, usize::MAX),
    ];
    // the deep attempt SUCCEEDS and the iteration goes on with the same matcher: the state left behind by a huge match
    // (backtrack stack, capture slots) must not leak into the next one
    for &n in sizes {
        let hay = format!("{}b-aab-b", "a".repeat(n));
        for (p, groups) in [("(a)*b", 1usize), ("(?:(a)|(c))*b", 2), ("((a))*?b", 2)] {
            let re = compile(p, "", false).unwrap();
            let label = format!("/{}/ on \"a\"*{} + \"b-aab-b\"", p, n);
            rep.case(&label, true);
            rep.count("deep-attempt-then-more");
            let cap = |at: Option<usize>| -> String {
                (1..=groups)
                    .map(|g| match at {
                        Some(a) if g == 1 || p.starts_with("((") => format!("{}-{}", a, a + 1),
                        _ => "_".to_string(),
                    })
                    .collect::<Vec<_>>()
                    .join(";")
            };
            let want = format!(
                "0-{}[{}] {}-{}[{}] {}-{}[{}]",
                n + 1, cap(if n > 0 { Some(n - 1) } else { None }),
                n + 2, n + 5, cap(Some(n + 3)),
                n + 6, n + 7, cap(None)
            );
            for e in [Exec::Bt, Exec::BtAscii, Exec::Pk] {
                if matches!(e, Exec::Pk) && n > 720_000 {
                    continue;
                }
                let got = find_all_deadline(&re, e, &hay, 180);
                if got != want {
                    rep.violation(&format!("impl-vs-oracle:{}", tag), format!("{}: expected [{}], got [{}]", e.name(), want, if got.len() > 300 { &got[..300] } else { &got }), label.clone());
                    if got.starts_with("timeout") {
                        // the abandoned thread keeps a core busy: one such report is enough
                        return;
                    }
                }
            }
        }
    }
    for &n in sizes {
        let hay = format!("xy{}b", "a".repeat(n));
        for (p, groups, bgroup) in pats {
            let re = compile(p, "", false).unwrap();
            let label = format!("/{}/ on \"xy\" + \"a\"*{} + \"b\"", p, n);
            rep.case(&label, true);
            rep.count("deep-attempt");
            let mut want = format!("{}-{}[", n + 2, n + 3);
            for g in 1..=groups {
                if g > 1 {
                    want.push(';');
                }
                if g == bgroup {
                    want.push_str(&format!("{}-{}", n + 2, n + 3));
                } else {
                    want.push('_');
                }
            }
            want.push(']');
            for e in [Exec::Bt, Exec::BtAscii, Exec::Pk] {
                if matches!(e, Exec::Pk) && n > 720_000 {
                    continue;
                }
                let got = find_all_deadline(&re, e, &hay, 180);
                if got != want {
                    rep.violation(
                        &format!("impl-vs-oracle:{}", tag),
                        format!("{}: expected [{}] (only the final b matches, through the last alternative; no other group participates), got [{}]", e.name(), want, if got.len() > 200 { &got[..200] } else { &got }),
                        label.clone(),
                    );
                    if got.starts_with("timeout") {
                        return;
                    }
                }
            }
        }
    }
}

/// Long literals (around and beyond the 16-byte chunk size of `ByteSeq`) in every position relative to nested
/// look-arounds of both directions: (pattern, flags, haystacks). The emitter decides the chunk order from the
/// direction it believes it is in; the nested shapes are where that belief can be wrong.
pub fn nested_look_literal_cases() -> Vec<(String, &'static str, Vec<String>)> {
    let lits: Vec<String> = vec![
        "0123456789abcde".into(),                    // 15
        "0123456789abcdef".into(),                   // 16
        "0123456789abcdefX".into(),                  // 17
        "0123456789abcdefXYZ".into(),                // 19
        "0123456789abcdefGHIJKLMNOPQRSTUV".into(),   // 32
        "0123456789abcdefGHIJKLMNOPQRSTUVw".into(),  // 33
        "abcdefghijklmn\u{e9}qrstu".into(),            // 16-byte boundary inside a 2-byte character
        "\u{4e2d}\u{6587}abcdefghij\u{20ac}klmnopq".into(),
    ];
    let templates: [&str; 14] = [
        "L", "(?=L)\\w", "(?<=L)!", "(?<=#(?=L))\\w", "(?=.*(?<=L))#", "(?<=L(?!z))!", "(?<=L(?=!))!", "(?<!#(?!L))\\w", "(?<=(?<=L)!)$",
        "(?=(?=L)\\w)", "(?<=#(?=(L)))\\w", "(?<=#(?=L)(\\w+))!", "(?<=(?=#)#L)!", "(?<!L(?=!))!",
    ];
    let mut out = vec![];
    for l in &lits {
        // the literal with its two halves swapped at byte 16 (what a reversed chunk order would match)
        let swapped = {
            let b = l.as_bytes();
            if b.len() > 16 && l.is_char_boundary(16) { format!("{}{}", &l[16..], &l[..16]) } else { l.chars().rev().collect() }
        };
        let mut miss: Vec<char> = l.chars().collect();
        let k = miss.len() - 2;
        miss[k] = '~';
        let miss: String = miss.into_iter().collect();
        let hays = vec![
            format!("id #{}!", l),
            format!("#{}!", swapped),
            format!("id #{}! #{}!", miss, l),
            format!("{}", l),
            format!("#{}!#{}!", l.to_uppercase(), l),
        ];
        for t in templates {
            for fl in ["", "i", "u", "iu"] {
                out.push((t.replace('L', l), fl, hays.clone()));
            }
        }
    }
    // multi-piece class strings under v+i are emitted piece by piece in the same direction-dependent way
    for t in ["(?<=x(?=[\\q{ab|c}]))", "(?<=[\\q{ab|c}](?!z))!", "(?<=x(?=[\\q{abc|de}]))\\w", "(?=x(?<=[\\q{xab}]))"] {
        for fl in ["v", "iv"] {
            out.push((t.to_string(), fl, vec!["xAb!".into(), "xbA!".into(), "xab!".into(), "ab!".into(), "xabc".into(), "xcba".into(), "xde!".into(), "xaB".into()]));
        }
    }
    out
}

/// Runs the family above: optimized vs unoptimized, backtracker vs PikeVM, the IR semantics model (`semfind`)
/// and the emitter model (`emit`).
pub fn nested_look_literal_scope(rep: &mut Report, focus: &str) {
    use crate::util::*;
    for (pat, fl, hays) in nested_look_literal_cases() {
        let (Ok(opt), Ok(noopt)) = (compile(&pat, fl, false), compile(&pat, fl, true)) else {
            rep.violation(&format!("impl-vs-spec:{}", focus), format!("valid pattern rejected: /{}/{}", pat, fl), pat.clone());
            continue;
        };
        let cps: Vec<u32> = pat.chars().map(|c| c as u32).collect();
        let ftok = if fl.is_empty() { "-" } else { fl };
        let ir0 = regress::verif::dump_ir_canon(cps.iter().copied(), make_flags(fl, true)).unwrap().replace(' ', "~");
        let ir1 = regress::verif::dump_ir_canon(cps.iter().copied(), make_flags(fl, false)).unwrap().replace(' ', "~");
        rep.tie(format!("emit {} {}", ftok, ir1), prog_token(&opt));
        rep.tie(format!("emit {}O {}", if ftok == "-" { "" } else { ftok }, ir0), prog_token(&noopt));
        for h in &hays {
            let label = format!("/{}/{} on {:?}", pat, fl, h);
            rep.count("nested-look-literal");
            let a = crate::ops_engine::run_exec(&opt, Exec::Bt, h, 0, 64);
            rep.case(&label, !a.text.is_empty());
            for (re, e, name) in [(&noopt, Exec::Bt, "backtracker, no_opt"), (&opt, Exec::Pk, "PikeVM"), (&noopt, Exec::Pk, "PikeVM, no_opt")] {
                let b = crate::ops_engine::run_exec(re, e, h, 0, 64);
                if crate::ops_engine::differ(&a.text, &b.text) {
                    rep.violation(&format!("impl-vs-impl:{}", focus), format!("backtracker (optimized) [{}] vs {} [{}]", a.text, name, b.text), label.clone());
                }
            }
            let first = a.text.split(' ').next().unwrap_or("").to_string();
            let want = if first.is_empty() { "none".to_string() } else { format!("m {}", first) };
            rep.tie(format!("semfind {} {} {} 0", ftok, ir1, crate::ast::bytes_hex(h.as_bytes())), want.clone());
            rep.tie(format!("semfind {} {} {} 0", ftok, ir0, crate::ast::bytes_hex(h.as_bytes())), want);
        }
    }
}

/// Dense candidates: every position of a long run is a prefilter candidate whose attempt fails, and the only
/// match starts right after the run. Run lengths: EVERY n up to 4200 and n = 2^k - 2 ..= 2^k + 2 up to 2^17
/// (heuristics that switch strategy after "many" candidates have their thresholds somewhere); searches from
/// offset 0, 1 and n/2; closed-form expected match; backtracker (prefix search) vs PikeVM vs closed form.
pub fn dense_candidate_scope(rep: &mut Report, tag: &str) {
    use crate::util::*;
    let mut ns: Vec<usize> = (1..=4200).collect();
    for k in 13..=17 {
        for d in 0..5usize {
            ns.push((1usize << k) + d - 2);
        }
    }
    // (pattern, run character, tail, length of the match counted from the last run character)
    let pats: [(&str, char, &str, usize); 4] = [("a[bc]", 'a', "b", 2), ("ab", 'a', "b", 2), ("[ab]c", 'a', "c", 2), ("\\u{e9}x", '\u{e9}', "x", 3)];
    for (p, run, tail, mlen) in pats {
        let re = compile(p, "", false).unwrap();
        let w = run.len_utf8();
        for &n in &ns {
            if run != 'a' && n % 7 != 0 && n < 4000 {
                continue;
            }
            let hay = format!("{}{}", run.to_string().repeat(n), tail);
            let ms = (n - 1) * w;
            let want = format!("{}-{}[]", ms, ms + mlen);
            rep.count("dense-candidates");
            for start in [0usize, w, (n / 2) * w] {
                if start > ms {
                    continue;
                }
                for e in [Exec::Bt, Exec::Pk] {
                    if matches!(e, Exec::Pk) && (n % 64 != 0 || start != 0) {
                        continue;
                    }
                    regress::verif::fuel::reset(u64::MAX);
                    let got = match guarded(std::panic::AssertUnwindSafe(|| fmt_matches(&find_all(&re, e, &hay, start, 0).0))) {
                        Ok(t) => t,
                        Err(m) => format!("panic: {}", m),
                    };
                    if got != want {
                        rep.violation(
                            &format!("impl-vs-oracle:{}", tag),
                            format!("{}: expected [{}], got [{}]", e.name(), want, got),
                            format!("/{}/ on {:?}*{} + {:?} from {}", p, run, n, tail, start),
                        );
                    }
                }
            }
        }
    }
    rep.case("dense candidates", true);
}

/// Leading classes whose complement (or whose own last interval) ends exactly at, one below or two below the ends
/// of the UTF-8 encoding ranges and of the code space: `[^b-X]`, `q|[^\0-X]`, `[\0-aX]`, `[X-\u{10FFFF}]` for X around
/// 7F / 7FF / FFFF / 10FFFF / the surrogate gap. The start predicate (first-byte bitmap) must admit the lead byte of
/// every character the class accepts: prefiltered backtracker vs PikeVM vs the start-predicate model.
pub fn class_edge_prefix_scope(rep: &mut Report) {
    use crate::util::*;
    let edges: [u32; 16] = [0x7E, 0x7F, 0x80, 0x7FE, 0x7FF, 0x800, 0xD7FF, 0xE000, 0xFFFD, 0xFFFE, 0xFFFF, 0x10000, 0x10FFFD, 0x10FFFE, 0x10FFFF, 0xFF];
    let mut probe: Vec<u32> = vec![0x61, 0x62, 0x71, 0x0];
    for e in edges {
        for d in [0i64, -1, 1] {
            let v = e as i64 + d;
            if (0..=0x10FFFF).contains(&v) && char::from_u32(v as u32).is_some() {
                probe.push(v as u32);
            }
        }
    }
    probe.sort();
    probe.dedup();
    for x in edges {
        if char::from_u32(x).is_none() {
            continue;
        }
        let pats = [
            format!("[^b-\\u{{{:X}}}]", x),
            format!("q|[^\\0-\\u{{{:X}}}]", x),
            format!("[\\0-a\\u{{{:X}}}]", x),
            format!("[\\u{{{:X}}}-\\u{{10FFFF}}]", x),
            format!("[^\\u{{{:X}}}-\\u{{10FFFF}}b]", x),
            format!("(?:[^b-\\u{{{:X}}}]|z)w", x),
        ];
        for pat in pats.iter() {
            for fl in ["u", "iu", "v"] {
                let Ok(re) = compile(pat, fl, false) else { continue };
                let cps: Vec<u32> = pat.chars().map(|c| c as u32).collect();
                if let (Ok(ir1), Ok(sp)) = (
                    regress::verif::dump_ir_canon(cps.iter().copied(), make_flags(fl, false)),
                    regress::verif::dump_start_predicate(cps.iter().copied(), make_flags(fl, false)),
                ) {
                    rep.tie(format!("startpred {} {}", fl, ir1.replace(' ', "~")), sp);
                }
                for &c in &probe {
                    let ch = char::from_u32(c).unwrap();
                    let hay = format!("bcd{}w", ch);
                    rep.count("class-edge-prefix");
                    let a = crate::ops_engine::run_exec(&re, Exec::Bt, &hay, 0, 4);
                    let b = crate::ops_engine::run_exec(&re, Exec::Pk, &hay, 0, 4);
                    if crate::ops_engine::differ(&a.text, &b.text) {
                        rep.violation(
                            "impl-vs-impl:C04",
                            format!("backtracking with prefilter [{}] vs PikeVM [{}]", a.text, b.text),
                            format!("/{}/{} on {:?}", pat, fl, hay),
                        );
                    }
                }
                rep.case(&format!("/{}/{}", pat, fl), true);
            }
        }
    }
}

/// Run an UNBUDGETED search in its own thread with a wall-clock limit: a change that makes a linear search
/// quadratic or worse on a multi-million character haystack shows as a timeout (the thread is abandoned).
pub fn find_all_deadline(re: &regress::Regex, e: crate::util::Exec, hay: &str, secs: u64) -> String {
    use crate::util::*;
    let (tx, rx) = std::sync::mpsc::channel();
    let re2 = re.clone();
    let hay2 = hay.to_string();
    std::thread::Builder::new()
        .stack_size(64 << 20)
        .spawn(move || {
            regress::verif::fuel::reset(u64::MAX);
            let r = match guarded(std::panic::AssertUnwindSafe(|| fmt_matches(&find_all(&re2, e, &hay2, 0, 0).0))) {
                Ok(t) => t,
                Err(m) => format!("panic: {}", m),
            };
            let _ = tx.send(r);
        })
        .expect("thread");
    match rx.recv_timeout(std::time::Duration::from_secs(secs)) {
        Ok(t) => t,
        Err(_) => format!("timeout: no answer within {} s", secs),
    }
}
