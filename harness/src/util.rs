//! Shared helpers: running the real engine, formatting results in the line protocol.

use regress::{Match, Regex};
use std::fmt::Write;

#[derive(Clone, Copy, Debug, PartialEq, Eq)]
pub enum Exec {
    Bt,
    Pk,
    BtAscii,
    PkAscii,
}

impl Exec {
    pub fn name(&self) -> &'static str {
        match self {
            Exec::Bt => "bt",
            Exec::Pk => "pk",
            Exec::BtAscii => "bt-ascii",
            Exec::PkAscii => "pk-ascii",
        }
    }
}

pub fn make_flags(s: &str, no_opt: bool) -> regress::Flags {
    let mut f = regress::Flags::from(s);
    f.no_opt = no_opt;
    f
}

pub fn compile(pat: &str, flags: &str, no_opt: bool) -> Result<Regex, regress::Error> {
    Regex::with_flags(pat, make_flags(flags, no_opt))
}

pub fn compile_cps(pat: &[u32], flags: &str, no_opt: bool) -> Result<Regex, regress::Error> {
    Regex::from_unicode(pat.iter().copied(), make_flags(flags, no_opt))
}

/// All matches from `start` (which must be ≤ len and on a char boundary for UTF-8 executors),
/// plus `extra` further calls of `next()` after the first `None`.
pub fn find_all(re: &Regex, exec: Exec, text: &str, start: usize, extra: usize) -> (Vec<Match>, Vec<bool>) {
    use regress::backends as b;
    fn drain<I: Iterator<Item = Match>>(mut it: I, extra: usize) -> (Vec<Match>, Vec<bool>) {
        let mut ms = vec![];
        loop {
            match it.next() {
                Some(m) => ms.push(m),
                None => break,
            }
            if ms.len() > 100_000 {
                break;
            }
        }
        let mut more = vec![];
        for _ in 0..extra {
            more.push(it.next().is_some());
        }
        (ms, more)
    }
    match exec {
        Exec::Bt => drain(b::find::<b::BacktrackExecutor>(re, text, start), extra),
        Exec::Pk => drain(b::find::<b::PikeVMExecutor>(re, text, start), extra),
        Exec::BtAscii => drain(b::find_ascii::<b::BacktrackExecutor>(re, text, start), extra),
        Exec::PkAscii => drain(b::find_ascii::<b::PikeVMExecutor>(re, text, start), extra),
    }
}

pub fn fmt_caps(out: &mut String, caps: &[Option<std::ops::Range<usize>>]) {
    out.push('[');
    for (i, c) in caps.iter().enumerate() {
        if i > 0 {
            out.push(';');
        }
        match c {
            Some(r) => {
                let _ = write!(out, "{}-{}", r.start, r.end);
            }
            None => out.push('_'),
        }
    }
    out.push(']');
}

pub fn fmt_match(out: &mut String, m: &Match) {
    let _ = write!(out, "{}-{}", m.range.start, m.range.end);
    fmt_caps(out, &m.captures);
}

pub fn fmt_matches(ms: &[Match]) -> String {
    let mut out = String::new();
    for (i, m) in ms.iter().enumerate() {
        if i > 0 {
            out.push(' ');
        }
        fmt_match(&mut out, m);
    }
    out
}

pub fn boundaries(text: &str) -> Vec<usize> {
    let mut v: Vec<usize> = text.char_indices().map(|(i, _)| i).collect();
    v.push(text.len());
    v
}

/// The canonical one-line transport form of a program dump.
pub fn prog_token(re: &Regex) -> String {
    regress::verif::dump_program(re).trim_end().replace('\n', "|").replace(' ', "~")
}

pub fn json_str(s: &str) -> String {
    let mut out = String::from("\"");
    for c in s.chars() {
        match c {
            '"' => out.push_str("\\\""),
            '\\' => out.push_str("\\\\"),
            '\n' => out.push_str("\\n"),
            '\r' => out.push_str("\\r"),
            '\t' => out.push_str("\\t"),
            c if (c as u32) < 0x20 => {
                let _ = write!(out, "\\u{:04x}", c as u32);
            }
            c => out.push(c),
        }
    }
    out.push('"');
    out
}

/// Run `f`, turning a panic into `Err(message)`.
pub fn guarded<T, F: FnOnce() -> T + std::panic::UnwindSafe>(f: F) -> Result<T, String> {
    match std::panic::catch_unwind(f) {
        Ok(v) => Ok(v),
        Err(e) => {
            let msg = if let Some(s) = e.downcast_ref::<&str>() {
                s.to_string()
            } else if let Some(s) = e.downcast_ref::<String>() {
                s.clone()
            } else {
                "panic".to_string()
            };
            Err(msg)
        }
    }
}
