//! Output of one harness run: request lines for the Lean driver, the implementation's reply
//! lines, violations found by the harness itself (implementation vs implementation / oracle),
//! and coverage statistics.

use crate::util::json_str;
use std::collections::{BTreeMap, BTreeSet};
use std::io::Write;

pub struct Violation {
    pub kind: String, // e.g. "impl-vs-impl", "impl-vs-oracle", "panic"
    pub what: String,
    pub case: String,
}

#[derive(Default)]
pub struct Report {
    /// request / reply lines are streamed to `req.txt` / `impl.txt` (a thorough run has millions)
    req_w: Option<std::io::BufWriter<std::fs::File>>,
    imp_w: Option<std::io::BufWriter<std::fs::File>>,
    pub nreq: usize,
    pub violations: Vec<Violation>,
    pub samples: Vec<String>,
    pub dist: BTreeMap<String, u64>,
    pub evaluations: u64,
    pub distinct: BTreeSet<u64>,
    pub nontrivial: u64,
    pub notes: Vec<String>,
}

fn hash(s: &str) -> u64 {
    let mut h: u64 = 0xcbf29ce484222325;
    for b in s.bytes() {
        h ^= b as u64;
        h = h.wrapping_mul(0x100000001b3);
    }
    h
}

impl Report {
    pub fn new(dir: &str) -> Report {
        std::fs::create_dir_all(dir).expect("output directory");
        let mut r = Report::default();
        r.req_w = Some(std::io::BufWriter::new(std::fs::File::create(format!("{}/req.txt", dir)).expect("req.txt")));
        r.imp_w = Some(std::io::BufWriter::new(std::fs::File::create(format!("{}/impl.txt", dir)).expect("impl.txt")));
        r
    }

    /// A request for the Lean driver and the implementation's reply to the same request.
    pub fn tie(&mut self, req: String, imp: String) {
        if self.samples.len() < 12 && (self.nreq % 97 == 0) {
            self.samples.push(format!("{} => {}", req, imp));
        }
        self.nreq += 1;
        writeln!(self.req_w.as_mut().expect("report has an output directory"), "{}", req).expect("write req.txt");
        writeln!(self.imp_w.as_mut().expect("report has an output directory"), "{}", imp).expect("write impl.txt");
    }

    pub fn count(&mut self, key: &str) {
        *self.dist.entry(key.to_string()).or_insert(0) += 1;
    }

    pub fn count_n(&mut self, key: &str, n: u64) {
        *self.dist.entry(key.to_string()).or_insert(0) += n;
    }

    /// Record one explored case; `nontrivial` by the check's stated rule.
    pub fn case(&mut self, key: &str, nontrivial: bool) {
        self.evaluations += 1;
        if nontrivial && self.distinct.insert(hash(key)) {
            self.nontrivial += 1;
        }
    }

    pub fn sample(&mut self, s: String) {
        if self.samples.len() < 24 {
            self.samples.push(s);
        }
    }

    pub fn violation(&mut self, kind: &str, what: String, case: String) {
        self.violations.push(Violation { kind: kind.to_string(), what, case });
    }

    /// enough violations collected: the generators stop early (a broken build can make every case slow)
    pub fn saturated(&self) -> bool {
        self.violations.len() >= 300
    }

    pub fn write(&mut self, dir: &str) -> std::io::Result<()> {
        std::fs::create_dir_all(dir)?;
        if let Some(w) = self.req_w.as_mut() {
            w.flush()?;
        }
        if let Some(w) = self.imp_w.as_mut() {
            w.flush()?;
        }
        let mut f = std::io::BufWriter::new(std::fs::File::create(format!("{}/report.json", dir))?);
        write!(f, "{{\"evaluations\":{},\"distinct_nontrivial\":{},\"requests\":{},", self.evaluations, self.nontrivial, self.nreq)?;
        write!(f, "\"violations\":[")?;
        for (i, v) in self.violations.iter().enumerate() {
            if i > 0 {
                write!(f, ",")?;
            }
            write!(f, "{{\"kind\":{},\"what\":{},\"case\":{}}}", json_str(&v.kind), json_str(&v.what), json_str(&v.case))?;
        }
        write!(f, "],\"samples\":[")?;
        for (i, s) in self.samples.iter().enumerate() {
            if i > 0 {
                write!(f, ",")?;
            }
            write!(f, "{}", json_str(s))?;
        }
        write!(f, "],\"notes\":[")?;
        for (i, s) in self.notes.iter().enumerate() {
            if i > 0 {
                write!(f, ",")?;
            }
            write!(f, "{}", json_str(s))?;
        }
        write!(f, "],\"dist\":{{")?;
        for (i, (k, v)) in self.dist.iter().enumerate() {
            if i > 0 {
                write!(f, ",")?;
            }
            write!(f, "{}:{}", json_str(k), v)?;
        }
        writeln!(f, "}}}}")?;
        f.flush()
    }
}
