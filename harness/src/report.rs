//! Output of one harness run: request lines for the Lean driver, the implementation's reply
//! lines, violations found by the harness itself (implementation vs implementation / oracle),
//! and coverage statistics.

use crate::util::json_str;
use std::collections::{BTreeMap, BTreeSet};
use std::io::Write;

pub struct Violation {
    pub kind: String, // e.g. "impl-vs-impl", "impl-vs-oracle", "panic"
    pub what: String,
    pub case: String,
}

#[derive(Default)]
pub struct Report {
    pub req: Vec<String>,
    pub imp: Vec<String>,
    pub violations: Vec<Violation>,
    pub samples: Vec<String>,
    pub dist: BTreeMap<String, u64>,
    pub evaluations: u64,
    pub distinct: BTreeSet<u64>,
    pub nontrivial: u64,
    pub notes: Vec<String>,
}

fn hash(s: &str) -> u64 {
    let mut h: u64 = 0xcbf29ce484222325;
    for b in s.bytes() {
        h ^= b as u64;
        h = h.wrapping_mul(0x100000001b3);
    }
    h
}

impl Report {
    pub fn new() -> Report {
        Report::default()
    }

    /// A request for the Lean driver and the implementation's reply to the same request.
    pub fn tie(&mut self, req: String, imp: String) {
        if self.samples.len() < 12 && (self.req.len() % 97 == 0) {
            self.samples.push(format!("{} => {}", req, imp));
        }
        self.req.push(req);
        self.imp.push(imp);
    }

    pub fn count(&mut self, key: &str) {
        *self.dist.entry(key.to_string()).or_insert(0) += 1;
    }

    pub fn count_n(&mut self, key: &str, n: u64) {
        *self.dist.entry(key.to_string()).or_insert(0) += n;
    }

    /// Record one explored case; `nontrivial` by the check's stated rule.
    pub fn case(&mut self, key: &str, nontrivial: bool) {
        self.evaluations += 1;
        if nontrivial && self.distinct.insert(hash(key)) {
            self.nontrivial += 1;
        }
    }

    pub fn sample(&mut self, s: String) {
        if self.samples.len() < 24 {
            self.samples.push(s);
        }
    }

    pub fn violation(&mut self, kind: &str, what: String, case: String) {
        self.violations.push(Violation { kind: kind.to_string(), what, case });
    }

    /// enough violations collected: the generators stop early (a broken build can make every case slow)
    pub fn saturated(&self) -> bool {
        self.violations.len() >= 300
    }

    pub fn write(&self, dir: &str) -> std::io::Result<()> {
        std::fs::create_dir_all(dir)?;
        let mut f = std::io::BufWriter::new(std::fs::File::create(format!("{}/req.txt", dir))?);
        for l in &self.req {
            writeln!(f, "{}", l)?;
        }
        f.flush()?;
        let mut f = std::io::BufWriter::new(std::fs::File::create(format!("{}/impl.txt", dir))?);
        for l in &self.imp {
            writeln!(f, "{}", l)?;
        }
        f.flush()?;
        let mut f = std::io::BufWriter::new(std::fs::File::create(format!("{}/report.json", dir))?);
        write!(f, "{{\"evaluations\":{},\"distinct_nontrivial\":{},\"requests\":{},", self.evaluations, self.nontrivial, self.req.len())?;
        write!(f, "\"violations\":[")?;
        for (i, v) in self.violations.iter().enumerate() {
            if i > 0 {
                write!(f, ",")?;
            }
            write!(f, "{{\"kind\":{},\"what\":{},\"case\":{}}}", json_str(&v.kind), json_str(&v.what), json_str(&v.case))?;
        }
        write!(f, "],\"samples\":[")?;
        for (i, s) in self.samples.iter().enumerate() {
            if i > 0 {
                write!(f, ",")?;
            }
            write!(f, "{}", json_str(s))?;
        }
        write!(f, "],\"notes\":[")?;
        for (i, s) in self.notes.iter().enumerate() {
            if i > 0 {
                write!(f, ",")?;
            }
            write!(f, "{}", json_str(s))?;
        }
        write!(f, "],\"dist\":{{")?;
        for (i, (k, v)) in self.dist.iter().enumerate() {
            if i > 0 {
                write!(f, ",")?;
            }
            write!(f, "{}:{}", json_str(k), v)?;
        }
        writeln!(f, "}}}}")?;
        f.flush()
    }
}
