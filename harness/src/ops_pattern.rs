//! C20: the Pattern-trait searcher (needs `--features pattern` and a nightly toolchain).

use crate::ast::{self, Gen, GenCfg, Flags};
use crate::ops_api::API_PATTERNS;
use crate::report::Report;
use crate::rng::Rng;
use crate::util::*;
use core::str::pattern::{Pattern, ReverseSearcher, SearchStep, Searcher};
use regress::Regex;

fn step_tok(s: &SearchStep) -> String {
    match s {
        SearchStep::Match(a, b) => format!("M{}-{}", a, b),
        SearchStep::Reject(a, b) => format!("R{}-{}", a, b),
        SearchStep::Done => "D".into(),
    }
}

const ALPHA: &[u32] = &['a' as u32, 'b' as u32, '1' as u32, '2' as u32, 'x' as u32, 'y' as u32, ' ' as u32, 0xE9, 0x20AC, 0x1F600, '\n' as u32, 'k' as u32];

pub fn c20(rep: &mut Report, n: usize, seed: u64) {
    let mut rng = Rng::new(seed);
    let mut done = 0;
    while done < n {
        let (flags, pat, re): (String, String, Regex) = if rng.chance(1, 2) {
            let (f, p) = *rng.pick(API_PATTERNS);
            match compile(p, f, false) {
                Ok(re) => (f.to_string(), p.to_string(), re),
                Err(_) => continue,
            }
        } else {
            let fl = Flags::random(&mut rng);
            let cfg = GenCfg { max_depth: 3, wide_alphabet: false, ..GenCfg::default() };
            let node = Gen::new(&mut rng, fl, &cfg).pattern();
            let p = ast::pattern_string(&node, fl);
            match compile(&p, &fl.to_string(), false) {
                Ok(re) => (fl.to_string(), p, re),
                Err(_) => continue,
            }
        };
        for _ in 0..3 {
            let l = rng.below(8);
            let hay: String = (0..l).map(|_| char::from_u32(*rng.pick(ALPHA)).unwrap()).collect();
            let label = format!("/{}/{} on {:?}", pat, flags, hay);
            let label2 = label.clone();
            let mut body = || {
            let ms: Vec<(usize, usize)> = re.find_iter(&hay).map(|m| (m.start(), m.end())).collect();
            let bounds = boundaries(&hay);
            // find_from table at every boundary
            let ff: Vec<String> = bounds
                .iter()
                .map(|&p| match re.find_from(&hay, p).next() {
                    Some(m) => format!("{}:{}-{}", p, m.start(), m.end()),
                    None => format!("{}:x", p),
                })
                .collect();
            // an interleaving: all-forward, all-backward, and random ones
            let mut op_strings: Vec<String> = vec!["n".repeat(40), "b".repeat(40)];
            for _ in 0..3 {
                op_strings.push((0..40).map(|_| if rng.chance(1, 2) { 'n' } else { 'b' }).collect());
            }
            let mut forward: Vec<SearchStep> = vec![];
            for (oi, ops) in op_strings.iter().enumerate() {
                let mut s = (&re).into_searcher(&hay);
                let mut front: Vec<SearchStep> = vec![];
                let mut back: Vec<SearchStep> = vec![];
                let mut toks = vec![];
                let mut fdone = false;
                let mut bdone = false;
                for ch in ops.chars() {
                    let st = if ch == 'n' { s.next() } else { s.next_back() };
                    toks.push(step_tok(&st));
                    match (ch, st) {
                        ('n', SearchStep::Done) => fdone = true,
                        ('b', SearchStep::Done) => bdone = true,
                        ('n', st) => {
                            if fdone {
                                rep.violation("impl-vs-spec:C20", "next() returned a step after Done".into(), label.clone());
                            }
                            front.push(st)
                        }
                        (_, st) => {
                            if bdone {
                                rep.violation("impl-vs-spec:C20", "next_back() returned a step after Done".into(), label.clone());
                            }
                            back.push(st)
                        }
                    }
                }
                done += 1;
                rep.tie(
                    format!("search {} {} {} {}", hay.len(), bounds.iter().map(|b| b.to_string()).collect::<Vec<_>>().join(","), ff.join(","), ops),
                    toks.join(" "),
                );
                let has_empty = ms.iter().any(|m| m.0 == m.1);
                rep.case(&format!("{} {}", label, ops), !ms.is_empty());
                rep.count(if ms.is_empty() { "no-match" } else if has_empty { "with-empty-match" } else { "nonempty-matches" });
                // the contract: front steps ++ reverse(back steps) tile [0, len) on char boundaries
                let mut all = front.clone();
                all.extend(back.iter().rev().cloned());
                let complete = (fdone || bdone) && ops.len() >= 40;
                let mut pos = 0usize;
                let mut ok = true;
                let mut found: Vec<(usize, usize)> = vec![];
                for st in &all {
                    let (a, b, is_match) = match st {
                        SearchStep::Match(a, b) => (*a, *b, true),
                        SearchStep::Reject(a, b) => (*a, *b, false),
                        SearchStep::Done => continue,
                    };
                    if a != pos || b < a || b > hay.len() || !hay.is_char_boundary(a) || !hay.is_char_boundary(b) || (!is_match && a == b) {
                        ok = false;
                    }
                    pos = b;
                    if is_match {
                        found.push((a, b));
                    }
                }
                if fdone && bdone || (fdone && back.is_empty()) || (bdone && front.is_empty()) {
                    if pos != hay.len() {
                        ok = false;
                    }
                    if found != ms {
                        rep.violation("impl-vs-spec:C20", format!("Match steps {:?} are not the find_iter matches {:?} (ops {})", found, ms, ops), label.clone());
                    }
                }
                let _ = complete;
                if !ok {
                    rep.violation("impl-vs-spec:C20", format!("steps do not tile the haystack: {} (ops {})", toks.join(" "), ops), label.clone());
                }
                if oi == 0 {
                    forward = front.clone();
                }
                if oi == 1 {
                    let mut rev = back.clone();
                    rev.reverse();
                    if rev != forward {
                        rep.violation("impl-vs-spec:C20", "backward steps are not the reverse of the forward steps".into(), label.clone());
                    }
                }
            }
            // the provided methods (next_match / next_reject and their _back forms, which an implementation may
            // override) mixed with next() / next_back(): each must behave as the loop over next() / next_back() that
            // the trait defines, i.e. as a walk over the ONE list of forward steps from its two ends
            for _ in 0..4 {
                let ops: String = (0..24).map(|_| *rng.pick(&['n', 'b', 'm', 'r', 'M', 'R', 'm', 'M'])).collect();
                let mut s = (&re).into_searcher(&hay);
                let (mut i, mut j) = (0usize, forward.len());
                let mut got = vec![];
                let mut want = vec![];
                for ch in ops.chars() {
                    let opt_tok = |o: Option<(usize, usize)>| match o {
                        Some((a, b)) => format!("S{}-{}", a, b),
                        None => "N".to_string(),
                    };
                    let g = match ch {
                        'n' => step_tok(&s.next()),
                        'b' => step_tok(&s.next_back()),
                        'm' => opt_tok(s.next_match()),
                        'r' => opt_tok(s.next_reject()),
                        'M' => opt_tok(s.next_match_back()),
                        _ => opt_tok(s.next_reject_back()),
                    };
                    let is_m = |st: &SearchStep| matches!(st, SearchStep::Match(..));
                    let pair = |st: &SearchStep| match st {
                        SearchStep::Match(a, b) | SearchStep::Reject(a, b) => Some((*a, *b)),
                        SearchStep::Done => None,
                    };
                    let w = match ch {
                        'n' => {
                            if i < j {
                                i += 1;
                                step_tok(&forward[i - 1])
                            } else {
                                "D".into()
                            }
                        }
                        'b' => {
                            if i < j {
                                j -= 1;
                                step_tok(&forward[j])
                            } else {
                                "D".into()
                            }
                        }
                        'm' | 'r' => {
                            let mut out = None;
                            while i < j {
                                i += 1;
                                if is_m(&forward[i - 1]) == (ch == 'm') {
                                    out = pair(&forward[i - 1]);
                                    break;
                                }
                            }
                            opt_tok(out)
                        }
                        _ => {
                            let mut out = None;
                            while i < j {
                                j -= 1;
                                if is_m(&forward[j]) == (ch == 'M') {
                                    out = pair(&forward[j]);
                                    break;
                                }
                            }
                            opt_tok(out)
                        }
                    };
                    got.push(g);
                    want.push(w);
                }
                done += 1;
                rep.count("provided-method-interleaving");
                // the Lean model of the provided methods (loops over next / next_back) answers the same sequence
                rep.tie(
                    format!("search2 {} {} {} {}", hay.len(), bounds.iter().map(|b| b.to_string()).collect::<Vec<_>>().join(","), ff.join(","), ops),
                    got.join(" "),
                );
                if got != want {
                    rep.violation(
                        "impl-vs-spec:C20",
                        format!("ops {} (n next, b next_back, m next_match, r next_reject, M next_match_back, R next_reject_back) returned {} but the forward step list {} walked from both ends gives {}",
                            ops, got.join(" "), forward.iter().map(step_tok).collect::<Vec<_>>().join(" "), want.join(" ")),
                        label.clone(),
                    );
                }
            }
            // the std string API built on the searcher
            let first = ms.first().cloned();
            let last = ms.last().cloned();
            if hay.find(&re) != first.map(|m| m.0) {
                rep.violation("impl-vs-spec:C20", format!("str::find = {:?}, first match {:?}", hay.find(&re), first), label.clone());
            }
            if hay.rfind(&re) != last.map(|m| m.0) {
                rep.violation("impl-vs-spec:C20", format!("str::rfind = {:?}, last match {:?}", hay.rfind(&re), last), label.clone());
            }
            if hay.contains(&re) != first.is_some() {
                rep.violation("impl-vs-spec:C20", "str::contains disagrees with find_iter".into(), label.clone());
            }
            let want: Vec<&str> = ms.iter().map(|m| &hay[m.0..m.1]).collect();
            let got: Vec<&str> = hay.matches(&re).collect();
            if got != want {
                rep.violation("impl-vs-spec:C20", format!("str::matches {:?} vs find_iter {:?}", got, want), label.clone());
            }
            let mut gotr: Vec<&str> = hay.rmatches(&re).collect();
            gotr.reverse();
            if gotr != want {
                rep.violation("impl-vs-spec:C20", format!("str::rmatches {:?} vs find_iter {:?}", gotr, want), label.clone());
            }
            // split: pieces between consecutive matches
            let mut pieces: Vec<&str> = vec![];
            let mut lastp = 0;
            for m in &ms {
                pieces.push(&hay[lastp..m.0]);
                lastp = m.1;
            }
            pieces.push(&hay[lastp..]);
            let gots: Vec<&str> = hay.split(&re).collect();
            if gots != pieces {
                rep.violation("impl-vs-spec:C20", format!("str::split {:?} vs {:?}", gots, pieces), label.clone());
            }
            let mut gotrs: Vec<&str> = hay.rsplit(&re).collect();
            gotrs.reverse();
            if gotrs != pieces {
                rep.violation("impl-vs-spec:C20", format!("str::rsplit {:?} vs {:?}", gotrs, pieces), label.clone());
            }
            };
            // a panic anywhere in the searcher or in std's adapters over it is a contract violation with this input
            let r = guarded(std::panic::AssertUnwindSafe(&mut body));
            drop(body);
            if let Err(m) = r {
                rep.violation("panic:C20", format!("searcher panicked: {}", m), label2);
            }
        }
    }
}
