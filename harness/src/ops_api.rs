//! Case generation for the table / set / API-layer properties: C09, C11, C12, C16, C17, C18.

use crate::ast::{self, Flags, Gen, GenCfg};
use crate::report::Report;
use crate::rng::Rng;
use crate::util::*;
use regress::Regex;
use std::fmt::Write;

// ------------------------------------------------------------------ C11

fn name_nat_hex(s: &str) -> String {
    let mut r = String::from("1");
    for b in s.bytes() {
        r.push_str(&format!("{:02x}", b));
    }
    r
}

fn ivs_text(ivs: &[(u32, u32)]) -> String {
    if ivs.is_empty() {
        return "-".into();
    }
    ivs.iter().map(|(a, b)| format!("{:x}-{:x}", a, b)).collect::<Vec<_>>().join(",")
}

fn parse_ir_intervals(ir: &str) -> Vec<(u32, u32)> {
    let mut out = vec![];
    let b = ir.as_bytes();
    let mut i = 0;
    while i + 2 < b.len() {
        if b[i] == b'U' && b[i + 1] == b'+' {
            let mut j = i + 2;
            while j < b.len() && b[j].is_ascii_hexdigit() {
                j += 1;
            }
            let a = u32::from_str_radix(&ir[i + 2..j], 16).unwrap();
            if j + 2 < b.len() && b[j] == b'-' && b[j + 1] == b'U' && b[j + 2] == b'+' {
                let mut k = j + 3;
                while k < b.len() && b[k].is_ascii_hexdigit() {
                    k += 1;
                }
                let c = u32::from_str_radix(&ir[j + 3..k], 16).unwrap();
                out.push((a, c));
                i = k;
                continue;
            }
            i = j;
        } else {
            i += 1;
        }
    }
    out
}

fn all_scalars() -> String {
    let mut s = String::with_capacity(4_400_000);
    for c in 0..=0x10FFFFu32 {
        if let Some(ch) = char::from_u32(c) {
            s.push(ch);
        }
    }
    s
}

fn matched_set(re: &Regex, hay: &str) -> Vec<(u32, u32)> {
    // every match must be exactly one char (the pattern is a single class)
    let mut out: Vec<(u32, u32)> = vec![];
    for m in re.find_iter(hay) {
        let c = hay[m.range()].chars().next().unwrap() as u32;
        match out.last_mut() {
            Some(last) if last.1 + 1 == c || (last.1 == 0xD7FF && c == 0xE000) => last.1 = c,
            _ => out.push((c, c)),
        }
    }
    out
}

fn minus_surrogates(ivs: &[(u32, u32)]) -> Vec<(u32, u32)> {
    // as observed through a haystack without surrogates, with D7FF/E000 treated as adjacent
    let mut pts: Vec<(u32, u32)> = vec![];
    for &(a, b) in ivs {
        let mut parts = vec![];
        if a <= 0xD7FF {
            parts.push((a, b.min(0xD7FF)));
        }
        if b >= 0xE000 {
            parts.push((a.max(0xE000), b));
        }
        for (x, y) in parts {
            match pts.last_mut() {
                Some(last) if last.1 + 1 == x || (last.1 == 0xD7FF && x == 0xE000) => last.1 = y,
                _ => pts.push((x, y)),
            }
        }
    }
    pts
}

/// `aux` = file with lines `<kind> <name> <accepted 0|1>` (the oracle's candidate universe).
pub fn c11(rep: &mut Report, aux: &str, thorough: bool, seed: u64) {
    let text = std::fs::read_to_string(aux).expect("candidate file");
    let hay = all_scalars();
    let mut rng = Rng::new(seed);
    let prefixes = ["", "gc=", "sc=", "scx="];
    let long_prefixes = ["", "General_Category=", "Script=", "Script_Extensions="];
    for line in text.lines() {
        let mut it = line.splitn(3, ' ');
        let kind: usize = it.next().unwrap().parse().unwrap();
        let accepted_oracle = it.next().unwrap() == "1";
        let name = it.next().unwrap_or("");
        let pat = format!("\\p{{{}{}}}", prefixes[kind], name);
        let r = compile(&pat, "u", true);
        let r_long = compile(&format!("\\p{{{}{}}}", long_prefixes[kind], name), "u", true);
        rep.case(line, accepted_oracle);
        rep.count(if r.is_ok() { "accepted" } else { "rejected" });
        if r.is_ok() != r_long.is_ok() {
            rep.violation("impl-vs-impl", format!("short and long property-name prefixes disagree for kind {} name {:?}", kind, name), line.to_string());
        }
        if r.is_ok() != accepted_oracle {
            rep.violation(
                "impl-vs-oracle",
                format!("\\p{{{}{}}} under u: regress {} but ICU 78.2 {}", prefixes[kind], name,
                    if r.is_ok() { "accepts" } else { "rejects" }, if accepted_oracle { "accepts" } else { "rejects" }),
                line.to_string(),
            );
        }
        // without u the escape is not a property escape at all: must compile (identity escape `p`)
        let req = format!("prop {} {}", kind, name_nat_hex(name));
        match &r {
            Err(_) => rep.tie(req, "none".into()),
            Ok(re) => {
                let ir = regress::verif::dump_ir(pat.chars().map(u32::from), make_flags("u", true)).unwrap();
                let ivs = parse_ir_intervals(&ir);
                rep.tie(req, format!("cc {}", ivs_text(&ivs)));
                rep.count_n("intervals", ivs.len() as u64);
                // the same property twice in one pattern, in both polarities: each occurrence keeps its own meaning
                let member = ivs.iter().map(|iv| iv.0).find(|c| char::from_u32(*c).is_some());
                let mut non = 0u32;
                for &(a, b) in &ivs {
                    if non < a {
                        break;
                    }
                    non = b + 1;
                }
                if let (Some(m), Some(nm)) = (member.and_then(char::from_u32), char::from_u32(non)) {
                    let neg = pat.replace("\\p", "\\P");
                    let combos: [(String, [bool; 4]); 4] = [
                        (format!("^{}{}$", pat, neg), [false, true, false, false]),
                        (format!("^{}{}$", neg, pat), [false, false, true, false]),
                        (format!("^[^{}]{}$", pat, pat), [false, false, true, false]),
                        (format!("^(?:{}|{}){}$", pat, neg, pat), [true, false, true, false]),
                    ];
                    let hays = [format!("{}{}", m, m), format!("{}{}", m, nm), format!("{}{}", nm, m), format!("{}{}", nm, nm)];
                    for (cp, want) in combos.iter() {
                        for opt in [false, true] {
                            let Ok(cre) = compile(cp, "u", opt) else {
                                rep.violation("impl-vs-oracle", format!("{} rejected", cp), line.to_string());
                                continue;
                            };
                            for (h, w) in hays.iter().zip(want.iter()) {
                                rep.count("combination-probes");
                                if cre.find(h).is_some() != *w {
                                    rep.violation("impl-vs-impl", format!("{} (no_opt={}) on {:?}: expected {}, the two occurrences of the property do not keep their own meaning", cp, opt, h, w), line.to_string());
                                }
                            }
                        }
                    }
                }
                // run-time path: the set of chars the engine matches is the table (minus surrogates)
                if thorough || rng.chance(1, 8) {
                    rep.count("runtime-sweep");
                    let got = matched_set(re, &hay);
                    let want = minus_surrogates(&ivs);
                    if got != want {
                        let diff = got.iter().zip(want.iter()).find(|(a, b)| a != b).map(|(a, b)| format!("{:x?} vs {:x?}", a, b)).unwrap_or("length".into());
                        rep.violation("impl-vs-impl", format!("{}: matched set differs from parsed table: {}", pat, diff), line.to_string());
                    }
                    // \P is the complement
                    let neg = compile(&pat.replace("\\p", "\\P"), "u", false).unwrap();
                    let gotn = matched_set(&neg, &hay);
                    let mut all: Vec<(u32, u32)> = vec![];
                    let mut start = 0u32;
                    for &(a, b) in &want {
                        if start < a {
                            all.push((start, a - 1));
                        }
                        start = b + 1;
                    }
                    if start <= 0x10FFFF {
                        all.push((start, 0x10FFFF));
                    }
                    let wantn = minus_surrogates(&all);
                    // `minus_surrogates` glues D7FF/E000; the complement computed above may split there
                    if minus_surrogates(&gotn) != wantn {
                        rep.violation("impl-vs-impl", format!("\\P{{…}} is not the complement for {}", pat), line.to_string());
                    }
                }
            }
        }
    }
    // chains: every expression with two or more `=` is outside the grammar, whatever the pieces are
    {
        let toks = crate::ops_syntax::PROP_TOKENS;
        for a in toks {
            for b in toks {
                for c in toks {
                    for (esc, fl) in [("\\p", "u"), ("\\P", "v")] {
                        let pat = format!("{}{{{}={}={}}}", esc, a, b, c);
                        rep.case(&pat, false);
                        rep.count("chain");
                        if compile(&pat, fl, false).is_ok() {
                            rep.violation("impl-vs-oracle", format!("/{}/{} accepted: a property expression has at most one `=` (UnicodePropertyValueExpression :: Name = Value | LoneNameOrValue)", pat, fl), pat.clone());
                        }
                    }
                }
            }
        }
        crate::ops_syntax::prop_expr_family(rep, "C08", if thorough { 20000 } else { 2000 }, &mut rng);
    }
    // properties of strings at run time: `^\\p{P}$` under v on every candidate sequence of the committed ICU snapshot
    {
        let sp = std::path::Path::new(aux).with_file_name("c11_strings.txt");
        if let Ok(text) = std::fs::read_to_string(&sp) {
            let mut cur: Option<(String, Regex)> = None;
            for line in text.lines() {
                let mut it = line.splitn(3, ' ');
                let (prop, want, cps) = (it.next().unwrap_or(""), it.next().unwrap_or("") == "1", it.next().unwrap_or(""));
                if cur.as_ref().map(|c| c.0 != prop).unwrap_or(true) {
                    match compile(&format!("^\\p{{{}}}$", prop), "v", false) {
                        Ok(re) => cur = Some((prop.to_string(), re)),
                        Err(_) => {
                            rep.violation("impl-vs-oracle", format!("\\p{{{}}} rejected under v", prop), prop.to_string());
                            continue;
                        }
                    }
                }
                let s: String = cps.split('.').filter_map(|h| u32::from_str_radix(h, 16).ok()).filter_map(char::from_u32).collect();
                let got = cur.as_ref().unwrap().1.find(&s).is_some();
                rep.count("string-property-runtime");
                if got != want {
                    rep.violation(
                        "impl-vs-oracle",
                        format!("/^\\p{{{}}}$/v on <{}>: regress {} but ICU 78.2 {}", prop, cps, if got { "matches" } else { "does not match" }, if want { "matches" } else { "does not" }),
                        line.to_string(),
                    );
                }
            }
            rep.case("string properties at run time", true);
        }
    }
    // properties of strings need v; and are rejected under u and when negated
    for n in ["Basic_Emoji", "Emoji_Keycap_Sequence", "RGI_Emoji", "RGI_Emoji_Flag_Sequence", "RGI_Emoji_Modifier_Sequence", "RGI_Emoji_Tag_Sequence", "RGI_Emoji_ZWJ_Sequence"] {
        let p = format!("\\p{{{}}}", n);
        rep.case(&p, true);
        if compile(&p, "u", false).is_ok() {
            rep.violation("impl-vs-oracle", format!("{} accepted under u (property of strings needs v)", p), p.clone());
        }
        if compile(&p, "v", false).is_err() {
            rep.violation("impl-vs-oracle", format!("{} rejected under v", p), p.clone());
        }
        let np = format!("\\P{{{}}}", n);
        if compile(&np, "v", false).is_ok() {
            rep.violation("impl-vs-oracle", format!("{} accepted (negated property of strings)", np), np.clone());
        }
        let nc = format!("[^\\p{{{}}}]", n);
        if compile(&nc, "v", false).is_ok() {
            rep.violation("impl-vs-oracle", format!("{} accepted (negated class with strings)", nc), nc.clone());
        }
    }
}

// ------------------------------------------------------------------ C12 (set algebra tie)

fn random_set(rng: &mut Rng, universe: u32, max_ivs: usize) -> Vec<(u32, u32)> {
    let n = rng.below(max_ivs + 1);
    let mut out: Vec<(u32, u32)> = vec![];
    let mut lo = if rng.chance(1, 4) { 0 } else { rng.below(4) as u32 };
    for _ in 0..n {
        if lo > universe {
            break;
        }
        let len = if rng.chance(1, 2) { 0 } else { rng.below(((universe - lo) as usize / 3).max(1)) as u32 };
        let hi = (lo + len).min(universe);
        out.push((lo, hi));
        // gap of at least 2 so that the set stays non-abutting
        lo = hi + 2 + if rng.chance(1, 2) { 0 } else { rng.below(((universe.saturating_sub(hi)) as usize / 4).max(1)) as u32 };
    }
    out
}

fn random_iv(rng: &mut Rng, universe: u32) -> (u32, u32) {
    let a = rng.below(universe as usize + 1) as u32;
    let b = if rng.chance(1, 3) { a } else { a + rng.below((universe - a) as usize + 1) as u32 };
    (a, b)
}

pub fn c12_sets(rep: &mut Report, n: usize, seed: u64) {
    use regress::verif as v;
    let mut rng = Rng::new(seed);
    for k in 0..n {
        let universe: u32 = *rng.pick(&[12u32, 40, 40, 300, 0x10FFFF, 0x10FFFF]);
        let s = random_set(&mut rng, universe, 6);
        let t = random_set(&mut rng, universe, 6);
        let iv = random_iv(&mut rng, universe);
        let c = rng.below(universe as usize + 1) as u32;
        let st = ivs_text(&s);
        let tt = ivs_text(&t);
        let nontrivial = !s.is_empty();
        match k % 7 {
            0 => {
                rep.tie(format!("cps add {} {:x}-{:x}", st, iv.0, iv.1), ivs_text(&v::cps_add(&s, iv)));
                rep.case(&format!("add {} {:?}", st, iv), nontrivial);
                rep.count("add");
            }
            1 => {
                rep.tie(format!("cps addset {} {}", st, tt), ivs_text(&v::cps_add_set(&s, &t)));
                rep.case(&format!("addset {} {}", st, tt), nontrivial && !t.is_empty());
                rep.count("add_set");
            }
            2 => {
                rep.tie(format!("cps inv {}", st), ivs_text(&v::cps_inverted(&s)));
                rep.case(&format!("inv {}", st), nontrivial);
                rep.count("inverted");
            }
            3 => {
                rep.tie(format!("cps invcount {}", st), format!("{}", v::cps_inverted_interval_count(&s)));
                rep.case(&format!("invcount {}", st), nontrivial);
                rep.count("inverted_interval_count");
            }
            4 => {
                rep.tie(format!("cps remove {} {}", st, tt), ivs_text(&v::cps_remove(&s, &t)));
                rep.case(&format!("remove {} {}", st, tt), nontrivial && !t.is_empty());
                rep.count("remove");
            }
            5 => {
                rep.tie(format!("cps inter {} {}", st, tt), ivs_text(&v::cps_intersect(&s, &t)));
                rep.case(&format!("inter {} {}", st, tt), nontrivial && !t.is_empty());
                rep.count("intersect");
            }
            _ => {
                rep.tie(format!("cps contains {} {:x}", st, c), format!("{}", v::cps_contains(&s, c) as u8));
                rep.case(&format!("contains {} {}", st, c), nontrivial);
                rep.count("contains");
            }
        }
    }
}

// ------------------------------------------------------------------ pattern pool for API-level checks

pub const API_PATTERNS: &[(&str, &str)] = &[
    ("", "(?<a>x)|(?<a>y)"),
    ("", "(?<y>\\d{4})-(?<m>\\d\\d)(-(?<d>\\d\\d))?"),
    ("", "(?<=(?<a>x)(?<b>y))z"),
    ("", "(a)|(b)|(?<n>c)"),
    ("", "(?:(?<a>x)|(?<a>y)|(?<b>z))\\k<a>?"),
    ("", "\\d*"),
    ("", ""),
    ("", "a*?"),
    ("", "(\\w)(\\w)?"),
    ("i", "(?<k>k)|(?<s>s+)"),
    ("u", "(?<é>é+)|(?<e>e)"),
    ("", "\\b"),
    ("", "$"),
    ("m", "^"),
    ("", "(?<=a)"),
    ("", "x{0}"),
    ("u", "."),
    ("", "(?<a>a)(?<b>b)?(?<c>c)?|(?<c>d)"),
    ("", "((a)|(b))+"),
    ("", "(?<first>\\w+)\\s+(?<second>\\w+)"),
    ("", "^a"),
    ("", "(?<q>)"),
    // a leading greedy group that a back-reference constrains (no start shortcut applies)
    ("s", "(.*)=\\1"),
    ("s", "(.*)a\\1"),
    ("s", "(?<g>.*);\\k<g>"),
    ("", "(.*)=\\1"),
    ("s", "(.+?)\\1"),
    // groups in branches that can never match, or are never entered
    ("", "(a)?(?:(?!(b))[]|z)"),
    ("", "(?:(?!(?<n>b))[]|z)(?<t>w)"),
    ("", "(?:[](x))?(y)"),
    ("", "(?:(?<d>a)[^\\s\\S]|b)(c)"),
    ("", "(?<a>a){0}(b)"),
    ("", "(?:(a)|b){0}c(d)"),
    ("", "(?=(?<l>a))?a(?!(?<m>b)b)"),
    ("", "[(](x)[)\\](]"),
    ("v", "[[(]--[)]](x)"),
];

const API_ALPHABET: &[u32] = &[
    'a' as u32, 'b' as u32, 'c' as u32, 'd' as u32, 'x' as u32, 'y' as u32, 'z' as u32, '1' as u32, '2' as u32, '-' as u32,
    ' ' as u32, 'k' as u32, 's' as u32, 'K' as u32, 0xE9, 0x20AC, 0x1F600, '\n' as u32, 'e' as u32,
];

fn random_text(rng: &mut Rng, maxlen: usize) -> String {
    let l = rng.below(maxlen + 1);
    (0..l).map(|_| char::from_u32(*rng.pick(API_ALPHABET)).unwrap()).collect()
}

/// A (flags, pattern, regex, haystacks) tuple: from the fixed pool or generated. The haystacks are
/// derived from the pattern (sampled from the AST, or random strings over the pattern's own
/// characters) so that most of them match.
/// Patterns in which one match of an iteration sets a group (inside a look-around, or capturing the
/// empty string) that a *later* match of the same iteration does not take part in but refers to or
/// reports: state carried from one `next()` to the next becomes visible.
fn carried_state_family() -> Vec<String> {
    let mut v = vec![];
    for look in ["(?=", "(?<=", "(?!", "(?<!", "(?:"] {
        for g in ["a", "b", "", "a|b", "a*"] {
            for t in ["b", "a", "", "ab"] {
                for u in ["", "a", "b"] {
                    v.push(format!("{}({}))|{}\\1{}", look, g, t, u));
                    v.push(format!("{}({})){}|{}(c)?{}", look, g, u, t, u));
                    v.push(format!("(?:{}({}))|{})\\1{}", look, g, t, u));
                }
            }
        }
    }
    v
}

/// Capture groups inside (nested) look-arounds inside an alternation whose other arm matches: the
/// shape in which capture save/restore around a look-around becomes visible in the reported slots.
fn lookaround_capture_pattern(rng: &mut Rng) -> String {
    let looks = ["(?=", "(?!", "(?<=", "(?<!"];
    let inner = ["", "(?=", "(?!", "(?<=", "(?<!"];
    let groups = ["(a)", "(b)", "(a|b)", "(a)?", "(.)", "(?<p>a)", "(?<q>b)"];
    let l1 = *rng.pick(&looks);
    let l2 = *rng.pick(&inner);
    let g1 = *rng.pick(&groups);
    let g2 = *rng.pick(&groups);
    let t1 = *rng.pick(&["", "a", "b"]);
    let t2 = *rng.pick(&["", "a", "b", "ac", "."]);
    let t3 = *rng.pick(&["ab", "a", "(c)|b", "", "(?<q>a)"]);
    let inn = if l2.is_empty() { g2.to_string() } else { format!("{}{})", l2, g2) };
    let body = if rng.chance(1, 2) { format!("{}{}{}", g1, inn, t1) } else { format!("{}{}{}", inn, g1, t1) };
    format!("(?:{}{}){}|{})", l1, body, t2, t3)
}

/// The API-level ops call `find_iter`, `replace_all`, … without a step budget: keep only the haystacks
/// on which a budgeted search of both executors finishes (the rest is counted by the engine-level checks).
fn api_regex(rng: &mut Rng) -> Option<(String, String, Regex, Vec<String>)> {
    let (f, p, re, hays) = api_regex_unfiltered(rng)?;
    let hays = hays
        .into_iter()
        .filter(|h| {
            [Exec::Bt, Exec::Pk].iter().all(|e| {
                regress::verif::fuel::reset(1_000_000);
                let _ = guarded(std::panic::AssertUnwindSafe(|| find_all(&re, *e, h, 0, 0).0.len()));
                let (_, _, exhausted) = regress::verif::fuel::report();
                regress::verif::fuel::reset(u64::MAX);
                !exhausted
            })
        })
        .collect();
    Some((f, p, re, hays))
}

fn api_regex_unfiltered(rng: &mut Rng) -> Option<(String, String, Regex, Vec<String>)> {
    if rng.chance(1, 2) {
        let fam;
        let lk;
        let (f, p): (&str, &str) = if rng.chance(1, 3) {
            fam = carried_state_family();
            ("", rng.pick(&fam).as_str())
        } else if rng.chance(1, 3) {
            lk = lookaround_capture_pattern(rng);
            ("", lk.as_str())
        } else {
            *rng.pick(API_PATTERNS)
        };
        let re = compile(p, f, false).ok()?;
        let mut alpha: Vec<char> = p.chars().filter(|c| c.is_alphanumeric()).collect();
        alpha.extend("12 -ab".chars());
        if p.contains("\\d") {
            alpha.extend("0123456789".chars());
        }
        let mut hays = vec![];
        for _ in 0..4 {
            let l = rng.below(11);
            hays.push((0..l).map(|_| *rng.pick(&alpha)).collect::<String>());
        }
        hays.push(random_text(rng, 8));
        if p.contains("\\1") || p.contains("\\k<") {
            // text that repeats itself around each literal of the pattern, after a character that spoils the
            // attempt at the cursor: a back-reference succeeds later but not at the first position tried
            for sep in p.chars().filter(|c| "=;a".contains(*c)) {
                let w: String = (0..rng.range(1, 2)).map(|_| *rng.pick(&alpha)).collect();
                hays.push(format!("{}{}{}{}", rng.pick(&alpha), w, sep, w));
                hays.push(format!("{}{}{}{}{}{}", w, sep, w, rng.pick(&alpha), sep, rng.pick(&alpha)));
            }
        }
        Some((f.to_string(), p.to_string(), re, hays))
    } else {
        let flags = Flags::random(rng);
        let cfg = GenCfg { max_depth: 3, wide_alphabet: false, ..GenCfg::default() };
        let n = Gen::new(rng, flags, &cfg).pattern();
        let p = ast::pattern_string(&n, flags);
        let re = compile(&p, &flags.to_string(), false).ok()?;
        let hays = ast::haystacks(&n, flags, rng, 4).iter().map(|h| ast::to_string(h)).collect();
        Some((flags.to_string(), p, re, hays))
    }
}

/// The capture groups of a pattern in left-parenthesis order ("" = unnamed), read off the source
/// text alone — the property speaks about the groups *of the pattern*, not of the compiled program.
pub fn source_groups(pat: &str, vmode: bool) -> Vec<String> {
    let cs: Vec<char> = pat.chars().collect();
    let mut out = vec![];
    let mut i = 0;
    let mut depth = 0usize;
    while i < cs.len() {
        let c = cs[i];
        if c == '\\' {
            i += 2;
            continue;
        }
        if depth > 0 {
            if c == ']' {
                depth -= 1;
            } else if c == '[' && vmode {
                depth += 1;
            }
        } else if c == '[' {
            depth = 1;
        } else if c == '(' {
            if cs.get(i + 1) == Some(&'?') {
                if cs.get(i + 2) == Some(&'<') && !matches!(cs.get(i + 3), Some('=') | Some('!')) {
                    let mut j = i + 3;
                    let mut name = String::new();
                    while j < cs.len() && cs[j] != '>' {
                        name.push(cs[j]);
                        j += 1;
                    }
                    out.push(name);
                }
            } else {
                out.push(String::new());
            }
        }
        i += 1;
    }
    out
}

fn names_token(re: &Regex) -> String {
    // second field of the P line of the dump
    let d = regress::verif::dump_program(re);
    let first = d.lines().next().unwrap();
    first.split(' ').nth(4).unwrap_or("-").to_string()
}

fn names_of(re: &Regex) -> Vec<String> {
    let t = names_token(re);
    if t == "-" {
        return vec![];
    }
    t.split(',')
        .map(|n| {
            if n == "-" {
                String::new()
            } else {
                n.split('.').map(|h| char::from_u32(u32::from_str_radix(h, 16).unwrap()).unwrap()).collect()
            }
        })
        .collect()
}

fn range_tok(r: &Option<std::ops::Range<usize>>) -> String {
    match r {
        Some(r) => format!("{}-{}", r.start, r.end),
        None => "_".into(),
    }
}

fn name_hex(s: &str) -> String {
    if s.is_empty() {
        return "-".into();
    }
    s.chars().map(|c| format!("{:x}", c as u32)).collect::<Vec<_>>().join(".")
}

// ------------------------------------------------------------------ C16

pub fn c16(rep: &mut Report, n: usize, seed: u64) {
    let mut rng = Rng::new(seed);
    crate::scope::deep_attempt_scope(rep, "C16", n > 10_000);
    let mut done = 0;
    while done < n {
        let Some((flags, pat, re, hays)) = api_regex(&mut rng) else { continue };
        let names = names_of(&re);
        let mut qnames: Vec<String> = names.iter().filter(|s| !s.is_empty()).cloned().collect();
        qnames.sort();
        qnames.dedup();
        qnames.push("nosuch".into());
        qnames.push(String::new());
        for text in hays.iter() {
            let text = text.clone();
            for m in re.find_iter(&text) {
                done += 1;
                let nt = names_token(&re);
                let mut capstr = String::new();
                fmt_caps(&mut capstr, &m.captures);
                let req = format!(
                    "access {} {}-{} {} {}",
                    nt,
                    m.range.start,
                    m.range.end,
                    capstr,
                    qnames.iter().map(|q| name_hex(q)).collect::<Vec<_>>().join(",")
                );
                let mut out = String::new();
                // group(i) for i in 0..=len+1
                out.push_str("g:");
                for i in 0..=m.captures.len() + 1 {
                    if i > 0 {
                        out.push(',');
                    }
                    out.push_str(&range_tok(&m.group(i)));
                }
                out.push_str(" gs:");
                let mut gi = m.groups();
                let mut first = true;
                loop {
                    let hint = gi.len();
                    match gi.next() {
                        Some(g) => {
                            if !first {
                                out.push(',');
                            }
                            first = false;
                            let _ = write!(out, "{}/{}", range_tok(&g), hint);
                        }
                        None => break,
                    }
                }
                out.push_str(" ng:");
                for (i, q) in qnames.iter().enumerate() {
                    if i > 0 {
                        out.push(',');
                    }
                    out.push_str(&range_tok(&m.named_group(q)));
                }
                out.push_str(" ngs:");
                let mut first = true;
                for (name, r) in m.named_groups() {
                    if !first {
                        out.push(',');
                    }
                    first = false;
                    let _ = write!(out, "{}={}", name_hex(name), range_tok(&r));
                }
                if first {
                    out.push('-');
                }
                rep.tie(req, out);
                // the iterator protocol of groups() / named_groups(): provided adaptors an implementation may override
                // (nth, skip, step_by, last, count, size_hint) after PARTIAL consumption must agree with the plain
                // sequence of next() calls
                {
                    let all: Vec<Option<std::ops::Range<usize>>> = m.groups().collect();
                    let alln: Vec<(String, Option<std::ops::Range<usize>>)> = m.named_groups().map(|(a, b)| (a.to_string(), b)).collect();
                    for pre in 0..=all.len().min(3) {
                        for k in 0..=all.len().min(3) {
                            let mut it = m.groups();
                            for _ in 0..pre {
                                it.next();
                            }
                            let got = it.nth(k);
                            let want = all.get(pre + k).cloned();
                            let rest: Vec<_> = it.take(all.len() + 2).collect();
                            let want_rest: Vec<_> = all.iter().skip(pre + k + 1).cloned().collect();
                            if got != want || rest != want_rest {
                                rep.violation("impl-vs-spec:C16", format!("groups(): after {} next() calls nth({}) = {:?} then {:?}; the sequence of next() calls gives {:?} then {:?}", pre, k, got, rest, want, want_rest), format!("{} {} {:?}", flags, pat, text));
                            }
                            let mut it = m.groups();
                            for _ in 0..pre {
                                it.next();
                            }
                            let sk: Vec<_> = it.skip(k).step_by(2).take(all.len() + 2).collect();
                            let want_sk: Vec<_> = all.iter().skip(pre + k).step_by(2).cloned().collect();
                            if sk != want_sk {
                                rep.violation("impl-vs-spec:C16", format!("groups(): after {} next() calls skip({}).step_by(2) = {:?}, expected {:?}", pre, k, sk, want_sk), format!("{} {} {:?}", flags, pat, text));
                            }
                        }
                        let mut it = m.groups();
                        for _ in 0..pre {
                            it.next();
                        }
                        let (lo, hi) = it.size_hint();
                        let cnt = it.clone().take(all.len() + 2).count();
                        let last = it.take(all.len() + 2).last();
                        let want_cnt = all.len().saturating_sub(pre);
                        if cnt != want_cnt || lo > want_cnt || hi.map(|h| h < want_cnt).unwrap_or(false) || last != all.iter().skip(pre).last().cloned() {
                            rep.violation("impl-vs-spec:C16", format!("groups(): after {} next() calls count {} size_hint ({}, {:?}) last {:?}; expected count {}", pre, cnt, lo, hi, last, want_cnt), format!("{} {} {:?}", flags, pat, text));
                        }
                        let mut itn = m.named_groups();
                        for _ in 0..pre.min(alln.len()) {
                            itn.next();
                        }
                        let gotn: Vec<(String, Option<std::ops::Range<usize>>)> = itn.skip(1).take(alln.len() + 2).map(|(a, b)| (a.to_string(), b)).collect();
                        let wantn: Vec<_> = alln.iter().skip(pre.min(alln.len()) + 1).cloned().collect();
                        if gotn != wantn {
                            rep.violation("impl-vs-spec:C16", format!("named_groups(): after {} next() calls skip(1) = {:?}, expected {:?}", pre, gotn, wantn), format!("{} {} {:?}", flags, pat, text));
                        }
                    }
                    rep.count("iterator-protocol");
                }
                let dup = {
                    let mut v: Vec<&String> = names.iter().filter(|s| !s.is_empty()).collect();
                    let l = v.len();
                    v.sort();
                    v.dedup();
                    v.len() != l
                };
                rep.case(&format!("{}/{}/{}/{}", flags, pat, text, m.range.start), !names.is_empty());
                rep.count(if names.is_empty() { "unnamed-only" } else if dup { "duplicate-names" } else { "named" });
                // the slots themselves: the other executor reports the same captures for this match
                let pk = find_all(&re, Exec::Pk, &text, 0, 0).0;
                if let Some(pm) = pk.iter().find(|pm| pm.range == m.range) {
                    if pm.captures != m.captures {
                        rep.violation("impl-vs-impl", format!("captures {:?} but the PikeVM executor reports {:?} for the same match", m.captures, pm.captures), format!("{} {} {:?}", flags, pat, text));
                    }
                }
                // the pattern's own groups, read off its source
                let src = source_groups(&pat, flags.contains('v'));
                if !src.iter().any(|n| n.contains('\\')) {
                    if m.captures.len() != src.len() {
                        rep.violation("impl-vs-spec", format!("captures.len() = {} but the pattern has {} capturing groups", m.captures.len(), src.len()), format!("{} {} {:?}", flags, pat, text));
                    }
                    let mut want: Vec<&String> = vec![];
                    for n in src.iter().filter(|n| !n.is_empty()) {
                        if !want.contains(&n) {
                            want.push(n);
                        }
                    }
                    let mut got: Vec<&str> = vec![];
                    for (n, _) in m.named_groups() {
                        if !got.contains(&n) {
                            got.push(n);
                        }
                    }
                    if want.iter().map(|s| s.as_str()).collect::<Vec<_>>() != got {
                        rep.violation("impl-vs-spec", format!("named_groups() names {:?} are not the pattern's names in source order {:?}", got, want), format!("{} {} {:?}", flags, pat, text));
                    }
                }
                // property-level identities on the implementation itself
                if m.captures.len() != count_groups_of(&re) {
                    rep.violation("impl-vs-spec", "captures.len() != number of groups".into(), format!("{} {} {:?}", flags, pat, text));
                }
                let gl: Vec<_> = m.groups().collect();
                if gl.len() != m.captures.len() + 1 || gl[0] != Some(m.range()) || gl[1..] != m.captures[..] {
                    rep.violation("impl-vs-spec", "groups() != range :: captures".into(), format!("{} {} {:?}", flags, pat, text));
                }
                for (name, r) in m.named_groups() {
                    if m.named_group(name) != r {
                        rep.violation("impl-vs-spec", format!("named_group({:?}) != named_groups() entry", name), format!("{} {} {:?}", flags, pat, text));
                    }
                    // participating preference
                    let any_some = names.iter().zip(m.captures.iter()).filter(|(nm, _)| nm.as_str() == name).find_map(|(_, c)| c.clone());
                    if r != any_some {
                        rep.violation("impl-vs-spec", format!("named access for {:?} does not report the participating group", name), format!("{} {} {:?}", flags, pat, text));
                    }
                }
            }
        }
    }
}

fn count_groups_of(re: &Regex) -> usize {
    let d = regress::verif::dump_program(re);
    d.lines().next().unwrap().split(' ').nth(2).unwrap().parse().unwrap()
}

// ------------------------------------------------------------------ C17

const TEMPLATE_ATOMS: &[&str] = &[
    "$", "$$", "$0", "$1", "$2", "$9", "$10", "$01", "$65535", "$65536", "$655361", "$99999999999999999999", "${a}", "${b}", "${n1}",
    "${d1}", "${nosuch}", "${", "${a", "${}", "{", "}", "x", "é", "😀", " ", "$x", "$é", "${y}", "${m}", "${first}", "$-", "1", "0", "$$1", "${é}", "${k}",
    // characters that are numeric / digits in Unicode but not ASCII digits, letters that are not ASCII letters
    "$²", "$½", "$\u{663}", "$\u{ff11}", "$\u{1d7d7}", "$\u{2167}", "²", "$\u{6f5}1", "${\u{ff11}}", "$1\u{663}", "$\u{ff21}", "${n\u{ff11}}",
];

fn random_template(rng: &mut Rng, names: &[String], ngroups: usize) -> String {
    let n = rng.below(6);
    let mut s = String::new();
    for _ in 0..n {
        // half of the atoms refer to the regex's own groups
        if !names.is_empty() && rng.chance(1, 3) {
            s.push_str(&format!("${{{}}}", rng.pick(names)));
        } else if rng.chance(1, 4) {
            s.push_str(&format!("${}", rng.below(ngroups + 2)));
        } else {
            s.push_str(*rng.pick(TEMPLATE_ATOMS));
        }
    }
    s
}

fn matches_token(ms: &[regress::Match]) -> String {
    if ms.is_empty() {
        "-".into()
    } else {
        fmt_matches(ms).replace(' ', ",")
    }
}

/// `$` followed by EVERY character of the BMP blocks up to U+30FF, the half/full-width forms, the mathematical digits
/// and a stretch of the supplementary planes (digit and letter tests on a template character must be the ASCII
/// ones): templates `[$c]` and `$c$1`, against the oracle and the Lean template model.
fn c17_dollar_sweep(rep: &mut Report) {
    let re = compile("(b)", "", false).unwrap();
    let text = "abc";
    let ms: Vec<_> = re.find_iter(text).collect();
    let nt = names_token(&re);
    let base = format!("{} {} {}", nt, ast::bytes_hex(text.as_bytes()), matches_token(&ms));
    let ranges: [(u32, u32); 5] = [(0, 0x30FF), (0xA620, 0xA62F), (0xFF00, 0xFFFF), (0x1D7C0, 0x1D7FF), (0x10000, 0x100FF)];
    for (a, b) in ranges {
        for cp in a..=b {
            let Some(c) = char::from_u32(cp) else { continue };
            for tmpl in [format!("[${}]", c), format!("${}$1", c)] {
                rep.count("dollar-sweep");
                let got = re.replace_all(text, &tmpl);
                let want = oracle_replace_all(&re, text, &tmpl, &ms, usize::MAX);
                if got != want {
                    rep.violation("impl-vs-oracle", format!("replace_all: expected {:?} got {:?}", want, got), format!("- (b) {:?} {:?}", text, tmpl));
                }
                if cp % 16 == 0 || c.is_numeric() {
                    let tc: Vec<u32> = tmpl.chars().map(|c| c as u32).collect();
                    rep.tie(format!("replace all {} {}", base, ast::cps_hex(&tc)), ast::bytes_hex(got.as_bytes()));
                }
            }
        }
    }
    rep.case("dollar sweep", true);
}

pub fn c17(rep: &mut Report, n: usize, seed: u64) {
    let mut rng = Rng::new(seed);
    let mut done = 0;
    c17_dollar_sweep(rep);
    while done < n {
        let Some((flags, pat, re, hays)) = api_regex(&mut rng) else { continue };
        let re_names: Vec<String> = names_of(&re).into_iter().filter(|n| !n.is_empty()).collect();
        let ngroups = count_groups_of(&re);
        for text in hays.iter() {
            let text = text.clone();
            let tmpl = random_template(&mut rng, &re_names, ngroups);
            let ms: Vec<_> = re.find_iter(&text).collect();
            let nt = names_token(&re);
            let tmpl_cps: Vec<u32> = tmpl.chars().map(|c| c as u32).collect();
            let base = format!("{} {} {}", nt, ast::bytes_hex(text.as_bytes()), matches_token(&ms));
            rep.tie(format!("replace one {} {}", base, ast::cps_hex(&tmpl_cps)), ast::bytes_hex(re.replace(&text, &tmpl).as_bytes()));
            rep.tie(format!("replace all {} {}", base, ast::cps_hex(&tmpl_cps)), ast::bytes_hex(re.replace_all(&text, &tmpl).as_bytes()));
            // closure variants: f(m) = "<" + text[m] + ">"
            let f = |m: &regress::Match| format!("<{}>", &text[m.range()]);
            rep.tie(format!("replace onewith {} -", base), ast::bytes_hex(re.replace_with(&text, f).as_bytes()));
            rep.tie(format!("replace allwith {} -", base), ast::bytes_hex(re.replace_all_with(&text, f).as_bytes()));
            done += 1;
            rep.case(&format!("{}/{}/{}/{}", flags, pat, text, tmpl), !ms.is_empty() && tmpl.contains('$'));
            rep.count(if ms.is_empty() { "no-match" } else if ms.len() == 1 { "one-match" } else { "many-matches" });
            if tmpl.contains("${") {
                rep.count("template-named");
            }
            if tmpl.contains("$$") {
                rep.count("template-dollar-dollar");
            }
            // property-level identities on the implementation itself
            let id = re.replace_all_with(&text, |m| text[m.range()].to_string());
            if id != text {
                rep.violation("impl-vs-spec", "replace_all_with(identity) != text".into(), format!("{} {} {:?}", flags, pat, text));
            }
            if ms.is_empty() && (re.replace(&text, &tmpl) != text || re.replace_all(&text, &tmpl) != text) {
                rep.violation("impl-vs-spec", "no match but text changed".into(), format!("{} {} {:?} {:?}", flags, pat, text, tmpl));
            }
            // independent splice-and-expand oracle
            let want = oracle_replace_all(&re, &text, &tmpl, &ms, usize::MAX);
            if want != re.replace_all(&text, &tmpl) {
                rep.violation("impl-vs-oracle", format!("replace_all: expected {:?} got {:?}", want, re.replace_all(&text, &tmpl)), format!("{} {} {:?} {:?}", flags, pat, text, tmpl));
            }
            let want1 = oracle_replace_all(&re, &text, &tmpl, &ms, 1);
            if want1 != re.replace(&text, &tmpl) {
                rep.violation("impl-vs-oracle", format!("replace: expected {:?} got {:?}", want1, re.replace(&text, &tmpl)), format!("{} {} {:?} {:?}", flags, pat, text, tmpl));
            }
        }
    }
}

/// Independent statement of the template language (the property's own words).
fn oracle_expand(re: &Regex, m: &regress::Match, text: &str, tmpl: &str) -> String {
    let names = names_of(re);
    let t: Vec<char> = tmpl.chars().collect();
    let mut out = String::new();
    let mut i = 0;
    while i < t.len() {
        if t[i] != '$' {
            out.push(t[i]);
            i += 1;
            continue;
        }
        if i + 1 < t.len() && t[i + 1] == '$' {
            out.push('$');
            i += 2;
        } else if i + 1 < t.len() && t[i + 1].is_ascii_digit() {
            let mut j = i + 1;
            let mut num: u128 = 0;
            while j < t.len() && t[j].is_ascii_digit() {
                num = num * 10 + (t[j] as u128 - '0' as u128);
                j += 1;
                if num > 65535 {
                    break;
                }
            }
            let g = if num == 0 { Some(m.range()) } else if (num as usize) <= m.captures.len() { m.captures[num as usize - 1].clone() } else { None };
            if let Some(r) = g {
                out.push_str(&text[r]);
            }
            i = j;
        } else if i + 1 < t.len() && t[i + 1] == '{' {
            match t[i + 2..].iter().position(|c| *c == '}') {
                Some(k) => {
                    let name: String = t[i + 2..i + 2 + k].iter().collect();
                    if !name.is_empty() {
                        let r = names.iter().zip(m.captures.iter()).filter(|(nm, _)| **nm == name).find_map(|(_, c)| c.clone());
                        if let Some(r) = r {
                            out.push_str(&text[r]);
                        }
                    }
                    i = i + 3 + k;
                }
                None => {
                    out.extend(t[i..].iter());
                    i = t.len();
                }
            }
        } else {
            out.push('$');
            i += 1;
        }
    }
    out
}

fn oracle_replace_all(re: &Regex, text: &str, tmpl: &str, ms: &[regress::Match], limit: usize) -> String {
    let mut out = String::new();
    let mut last = 0;
    for m in ms.iter().take(limit) {
        out.push_str(&text[last..m.start()]);
        out.push_str(&oracle_expand(re, m, text, tmpl));
        last = m.end();
    }
    out.push_str(&text[last..]);
    out
}

// ------------------------------------------------------------------ C09

pub fn c09(rep: &mut Report, n: usize, seed: u64) {
    let mut rng = Rng::new(seed);
    let mut done = 0;
    c09_periodic(rep, &mut done);
    crate::scope::deep_attempt_scope(rep, "C09", false);
    crate::scope::dense_candidate_scope(rep, "C09");
    while done < n {
        let Some((flags, pat, re, hays)) = api_regex(&mut rng) else { continue };
        let dump = regress::verif::dump_program(&re);
        let anchored = dump.lines().nth(1) == Some("S anchored");
        for text in hays.iter().take(3).chain(hays.iter().skip(5)) {
            let text: String = text.chars().take(10).collect();
            c09_one(rep, &flags, &pat, &re, &text, anchored, &mut done);
        }
    }
}

/// Self-overlapping long literals: the literal is a periodic string (period 1..=20 over distinct characters) cut
/// at every length up to 36, followed by a continuation that rejects some occurrences (`\\b`, `$`, a negative
/// lookahead for the character that continues the period, a literal terminator); the haystack is a longer stretch
/// of the same periodic string, so that occurrences overlap at every distance. After a rejected candidate the
/// search has to resume at the very next position.
fn c09_periodic(rep: &mut Report, done: &mut usize) {
    let alphabet: Vec<char> = "abcdefghijklmnopqrstuvwxyz".chars().collect();
    for period in [1usize, 2, 3, 5, 8, 15, 16, 17, 20] {
        for len in [period + 1, 15, 16, 17, 18, 24, 32, 33, 36] {
            if len <= period {
                continue;
            }
            let lit: String = (0..len).map(|k| alphabet[k % period]).collect();
            let next = alphabet[len % period];
            for cont in ["\\b".to_string(), "$".to_string(), format!("(?!{})", next), "!".to_string(), String::new()] {
                let pat = format!("{}{}", lit, cont);
                let Ok(re) = compile(&pat, "", false) else { continue };
                let dump = regress::verif::dump_program(&re);
                let anchored = dump.lines().nth(1) == Some("S anchored");
                for extra in [0usize, 1, 2] {
                    let total = len + period * (1 + extra) + extra;
                    let mut text: String = (0..total).map(|k| alphabet[k % period]).collect();
                    if extra == 1 {
                        text.push('!');
                    }
                    if extra == 2 {
                        text.push_str(" !");
                        text.push_str(&lit);
                    }
                    rep.count("periodic-literal");
                    c09_one(rep, "", &pat, &re, &text, anchored, done);
                }
            }
        }
    }
}

fn c09_one(rep: &mut Report, flags: &str, pat: &str, re: &Regex, text: &str, anchored: bool, done: &mut usize) {
    let text: String = text.to_string();
    let bounds = boundaries(&text);
    for exec in [Exec::Bt, Exec::Pk] {
        // the attempt table of this executor
        let mut att = String::new();
        for (i, &p) in bounds.iter().enumerate() {
            if i > 0 {
                att.push(',');
            }
            let r = match exec {
                Exec::Bt => regress::verif::bt_attempt(re, &text, p, false),
                _ => regress::verif::pk_attempt(re, &text, p, false),
            };
            match r {
                Some((e, caps)) => {
                    let mut c = String::new();
                    fmt_caps(&mut c, &caps);
                    let _ = write!(att, "{}:{}:{}", p, e, c);
                }
                None => {
                    let _ = write!(att, "{}:x", p);
                }
            }
        }
        let kind = match (exec, anchored) {
            (Exec::Bt, false) => "prefix",
            (Exec::Bt, true) => "anchored",
            (_, false) => "pike",
            (_, true) => "pikeanch",
        };
        // every start on a boundary, plus len+1 and len+5
        let mut starts = bounds.clone();
        starts.push(text.len() + 1);
        starts.push(text.len() + 5);
        for &start in &starts {
            let (ms, more) = find_all(re, exec, &text, start, 3);
            let req = format!(
                "iter {} {} {} {} {}",
                kind,
                start,
                text.len(),
                bounds.iter().map(|b| b.to_string()).collect::<Vec<_>>().join(","),
                att
            );
            let mut out = fmt_matches(&ms);
            out.push_str(" |");
            for m in &more {
                out.push_str(if *m { " some" } else { " none" });
            }
            rep.tie(req, out);
            *done += 1;
            let has_empty = ms.iter().any(|m| m.range.is_empty());
            rep.case(&format!("{}/{}/{}/{}/{:?}", flags, pat, text, start, exec), ms.len() >= 1);
            rep.count(if ms.is_empty() { "no-match" } else if has_empty { "with-empty-match" } else { "nonempty-matches" });
            if start > text.len() {
                rep.count("start-beyond-end");
            }
            // property-level invariants on the implementation itself
            if start > text.len() && !ms.is_empty() {
                rep.violation("impl-vs-spec", "start beyond the end yields matches".into(), format!("{} {} {:?} start={}", flags, pat, text, start));
            }
            if more.iter().any(|x| *x) {
                rep.violation("impl-vs-spec", "iterator not fused".into(), format!("{} {} {:?} start={}", flags, pat, text, start));
            }
            let mut prev: Option<&regress::Match> = None;
            for m in &ms {
                if m.start() < start || m.end() > text.len() || !text.is_char_boundary(m.start()) || !text.is_char_boundary(m.end()) {
                    rep.violation("impl-vs-spec", "match out of range or off boundary".into(), format!("{} {} {:?} start={}", flags, pat, text, start));
                }
                if let Some(p) = prev {
                    let ok = p.end() <= m.start() && p.start() < m.start() && (!p.range.is_empty() || m.start() > p.end());
                    if !ok {
                        rep.violation("impl-vs-spec", "matches overlap or do not progress".into(), format!("{} {} {:?} start={}", flags, pat, text, start));
                    }
                }
                prev = Some(m);
            }
            if ms.len() > bounds.iter().filter(|b| **b >= start).count() {
                rep.violation("impl-vs-spec", "more matches than positions".into(), format!("{} {} {:?} start={}", flags, pat, text, start));
            }
            // unfold oracle from the attempt table
            let want = unfold_oracle(re, &text, &bounds, start, exec, anchored);
            if want != fmt_matches(&ms) {
                rep.violation("impl-vs-oracle", format!("iteration differs from lastIndex unfold: want [{}] got [{}]", want, fmt_matches(&ms)), format!("{} {} {:?} start={} {:?}", flags, pat, text, start, exec));
            }
        }
    }

}

/// The property's own words: repeatedly take the first match at or after a cursor.
fn unfold_oracle(re: &Regex, text: &str, bounds: &[usize], start: usize, exec: Exec, anchored: bool) -> String {
    let mut out: Vec<String> = vec![];
    if start > text.len() {
        return String::new();
    }
    let mut cursor = Some(start);
    while let Some(c) = cursor {
        // first boundary q >= c at which an attempt succeeds
        let mut found = None;
        for &q in bounds.iter().filter(|q| **q >= c) {
            let r = match exec {
                Exec::Bt => regress::verif::bt_attempt(re, text, q, false),
                _ => regress::verif::pk_attempt(re, text, q, false),
            };
            if let Some((e, caps)) = r {
                found = Some((q, e, caps));
                break;
            }
            // no shortcut for start-anchored programs: if the anchoring is sound every later attempt fails
            // anyway, and if it is not, this is where it shows
            let _ = anchored;
        }
        match found {
            None => break,
            Some((s, e, caps)) => {
                let mut m = format!("{}-{}", s, e);
                fmt_caps(&mut m, &caps);
                out.push(m);
                cursor = if e != s { Some(e) } else { bounds.iter().copied().find(|b| *b > e) };
            }
        }
    }
    out.join(" ")
}

// ------------------------------------------------------------------ C18

const ESC_ALPHABET: &[u32] = &[
    '\\' as u32, '^' as u32, '$' as u32, '.' as u32, '|' as u32, '?' as u32, '*' as u32, '+' as u32, '(' as u32, ')' as u32,
    '[' as u32, ']' as u32, '{' as u32, '}' as u32, '-' as u32, '/' as u32, ',' as u32, '<' as u32, '=' as u32, '!' as u32,
    ':' as u32, '&' as u32, 'a' as u32, 'k' as u32, 0xE9, 0x1F600, '\n' as u32, '1' as u32, 'p' as u32, 'u' as u32, 'K' as u32, 0x17F,
    // the ends of the encoding ranges
    0x80, 0xA9, 0xFF, 0x100, 0x7FF, 0x800, 0xFFFF, 0x10000, 0x10FFFF, 0x0, 0x7F,
];

fn substring_occurrences(hay: &str, needle: &str) -> Vec<(usize, usize)> {
    // lastIndex semantics: non-overlapping, empty needle matches at every char boundary
    let mut out = vec![];
    let mut pos = 0;
    while pos <= hay.len() {
        match hay[pos..].find(needle) {
            None => break,
            Some(i) => {
                let s = pos + i;
                let e = s + needle.len();
                out.push((s, e));
                if e != s {
                    pos = e;
                } else {
                    match hay[e..].chars().next() {
                        Some(c) => pos = e + c.len_utf8(),
                        None => break,
                    }
                }
            }
        }
    }
    out
}

pub fn c18(rep: &mut Report, thorough: bool, n: usize, seed: u64) {
    let mut rng = Rng::new(seed);
    let mut strings: Vec<Vec<u32>> = vec![vec![]];
    // exhaustive short strings over the syntax characters (+ a few others)
    let maxlen = if thorough { 3 } else { 2 };
    let small: Vec<u32> = ESC_ALPHABET[..24].to_vec();
    let mut cur: Vec<Vec<u32>> = vec![vec![]];
    for _ in 0..maxlen {
        let mut nxt = vec![];
        for p in &cur {
            for &c in &small {
                let mut q = p.clone();
                q.push(c);
                nxt.push(q);
            }
        }
        strings.extend(nxt.iter().cloned());
        cur = nxt;
    }
    for _ in 0..n {
        let l = rng.range(1, 8);
        strings.push((0..l).map(|_| *rng.pick(ESC_ALPHABET)).collect());
    }
    let flag_sets = ["", "i", "m", "s", "u", "v", "iu", "iv", "ms", "imsu", "imsv", "is"];
    for s in &strings {
        let st = ast::to_string(s);
        let esc = regress::escape(&st);
        rep.tie(format!("escape {}", ast::cps_hex(s)), ast::bytes_hex(esc.as_bytes()));
        rep.case(&st, s.iter().any(|c| ESC_ALPHABET[..14].contains(c)));
        rep.count(&format!("len{}", s.len().min(4)));
        // escape only prefixes backslashes
        let mut un = String::new();
        let mut it = esc.chars();
        while let Some(c) = it.next() {
            if c == '\\' {
                if let Some(d) = it.next() {
                    un.push(d)
                }
            } else {
                un.push(c)
            }
        }
        if un != st {
            rep.violation("impl-vs-spec", "escape changed characters".into(), format!("{:?}", st));
        }
        // haystacks: the string itself in context, twice, case-swapped, and near misses
        let hays = [
            st.clone(),
            format!("x{}y{}", st, st),
            format!("{}{}", st, st),
            st.to_uppercase(),
            st.chars().rev().collect::<String>(),
            format!("\\{}", st),
            String::new(),
            "a".to_string(),
        ];
        for (f, no_opt) in flag_sets.iter().flat_map(|f| [(f, false), (f, true)]) {
            let re = match compile(&esc, f, no_opt) {
                Ok(re) => re,
                Err(e) => {
                    rep.violation("impl-vs-spec", format!("escape({:?}) = {:?} does not compile under flags {:?}: {}", st, esc, f, e), format!("{:?} {}", st, f));
                    continue;
                }
            };
            if f.contains('i') {
                // the literal itself and its upper-/lower-cased forms must be found at offset 0 when case-equivalent
                if !st.is_empty() && re.find(&st).map(|m| m.range()) != Some(0..st.len()) {
                    rep.violation("impl-vs-spec", format!("escape({:?}) under {:?} does not match the string itself", st, f), format!("{:?} {}", st, f));
                }
                continue;
            }
            for h in &hays {
                let got: Vec<(usize, usize)> = re.find_iter(h).map(|m| (m.start(), m.end())).collect();
                let want = substring_occurrences(h, &st);
                if got != want {
                    rep.violation("impl-vs-oracle", format!("escape({:?}) under {:?} (no_opt={}) in {:?}: want {:?} got {:?}", st, f, no_opt, h, want, got), format!("{:?} {} {:?}", st, f, h));
                }
            }
        }
    }
}
