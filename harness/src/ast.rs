//! Pattern ASTs: generation, printing as a pattern string, printing in the canonical text
//! understood by the Lean ES specification, and sampling of haystacks from a pattern.

use crate::rng::Rng;

#[derive(Clone, Debug, PartialEq)]
pub enum ClassItem {
    C(u32),
    R(u32, u32),
    Esc(char),
    Prop(bool, u8, String),
    /// v-mode only: string alternatives
    Q(Vec<Vec<u32>>),
    /// v-mode only: nested class
    Nested(bool, Box<VExpr>),
}

#[derive(Clone, Debug, PartialEq)]
pub enum VExpr {
    Union(Vec<ClassItem>),
    Inter(Vec<ClassItem>),
    Sub(Vec<ClassItem>),
}

#[derive(Clone, Debug, PartialEq)]
pub enum Node {
    Empty,
    Char(u32),
    Dot,
    Bol,
    Eol,
    Wb,
    Nwb,
    Cat(Vec<Node>),
    Alt(Vec<Node>),
    Group(u32, Option<String>, Box<Node>),
    Nc(Box<Node>),
    Mod(String, String, Box<Node>),
    Look { ahead: bool, neg: bool, body: Box<Node> },
    Bref(u32),
    Nref(String),
    Quant { min: u32, max: Option<u32>, greedy: bool, body: Box<Node> },
    Esc(char),
    Prop(bool, u8, String),
    Class(bool, Vec<ClassItem>),
    VClass(bool, VExpr),
}

#[derive(Clone, Copy, Debug, PartialEq, Eq, Default)]
pub struct Flags {
    pub i: bool,
    pub m: bool,
    pub s: bool,
    pub u: bool,
    pub v: bool,
}

impl Flags {
    pub fn to_string(&self) -> String {
        let mut r = String::new();
        if self.i {
            r.push('i')
        }
        if self.m {
            r.push('m')
        }
        if self.s {
            r.push('s')
        }
        if self.u {
            r.push('u')
        }
        if self.v {
            r.push('v')
        }
        r
    }
    pub fn to_token(&self) -> String {
        let s = self.to_string();
        if s.is_empty() {
            "-".into()
        } else {
            s
        }
    }
    pub fn unicode(&self) -> bool {
        self.u || self.v
    }
    pub fn random(rng: &mut Rng) -> Flags {
        let mode = rng.weighted(&[4, 4, 2]);
        Flags {
            i: rng.chance(2, 5),
            m: rng.chance(1, 5),
            s: rng.chance(1, 5),
            u: mode == 1,
            v: mode == 2,
        }
    }
    pub fn all() -> Vec<Flags> {
        let mut out = vec![];
        for bits in 0..8 {
            for mode in 0..3 {
                out.push(Flags {
                    i: bits & 1 != 0,
                    m: bits & 2 != 0,
                    s: bits & 4 != 0,
                    u: mode == 1,
                    v: mode == 2,
                });
            }
        }
        out
    }
}

/// The literal / haystack alphabet: all UTF-8 widths, case partners with different lead bytes,
/// line terminators, word/non-word characters.
pub const ALPHABET: &[u32] = &[
    'a' as u32, 'b' as u32, 'c' as u32, 'A' as u32, 'B' as u32, 's' as u32, 'S' as u32, 'k' as u32,
    'K' as u32, '0' as u32, '_' as u32, '-' as u32, '\n' as u32, ' ' as u32, 0xE9, 0xC9, 0x17F, 0x212A,
    0xDF, 0x1E9E, 0x1C5, 0x1C4, 0x1C6, 0x1F80, 0x1F88, 0x20AC, 0x2028, 0x1F600, 0x10400, 0x10428,
    0x3C3, 0x3C2, 0x3A3, 0x130, 0x131, 'i' as u32, 'I' as u32,
    // range ends of the code point space and of the encodings
    0x0, 0x7F, 0x80, 0x7FF, 0x800, 0xFFFF, 0x10000, 0x10FFFF, 0x8, 0x9, 0x1B,
];
/// A smaller alphabet used for most literals so that matches are frequent.
pub const CORE: &[u32] = &['a' as u32, 'b' as u32, 'A' as u32, 's' as u32, 'k' as u32, 0xE9, 0x17F, 0x212A, 0x10428];

pub const PROPS: &[(u8, &str)] = &[
    (0, "Lu"), (0, "Ll"), (0, "L"), (0, "Nd"), (0, "Alphabetic"), (0, "ASCII"), (0, "Any"), (0, "Uppercase"),
    (0, "Lowercase"), (0, "White_Space"), (0, "P"), (0, "Cased"), (1, "Lu"), (1, "Letter"), (2, "Latin"),
    (2, "Greek"), (3, "Latin"), (3, "Grek"), (0, "ID_Start"), (0, "Emoji"), (0, "Lt"), (0, "Cs"), (0, "Zs"),
];

pub struct GenCfg {
    pub max_depth: u32,
    pub allow_lookbehind: bool,
    pub allow_backrefs: bool,
    pub allow_props: bool,
    pub allow_named: bool,
    pub allow_modifiers: bool,
    pub wide_alphabet: bool,
    /// C04: make the first term of the pattern one that yields an interesting start predicate.
    pub first_term_bias: bool,
}

impl Default for GenCfg {
    fn default() -> Self {
        GenCfg {
            max_depth: 4,
            allow_lookbehind: true,
            allow_backrefs: true,
            allow_props: true,
            allow_named: true,
            allow_modifiers: true,
            wide_alphabet: true,
            first_term_bias: false,
        }
    }
}

pub struct Gen<'a> {
    pub rng: &'a mut Rng,
    pub flags: Flags,
    pub cfg: &'a GenCfg,
    groups: u32,
    names: Vec<String>,
    fresh: u32,
}

fn pick_char(rng: &mut Rng, wide: bool) -> u32 {
    if wide && rng.chance(1, 4) {
        *rng.pick(ALPHABET)
    } else {
        *rng.pick(CORE)
    }
}

impl<'a> Gen<'a> {
    pub fn new(rng: &'a mut Rng, flags: Flags, cfg: &'a GenCfg) -> Self {
        Gen { rng, flags, cfg, groups: 0, names: vec![], fresh: 0 }
    }

    /// A first term whose set of possible first bytes is interesting: case partners with
    /// different lead bytes, string alternatives, small classes, literal prefixes.
    fn prefix_term(&mut self) -> Node {
        let partners: &[u32] = &['k' as u32, 'K' as u32, 0x212A, 's' as u32, 'S' as u32, 0x17F, 0xE9, 0xC9, 0xDF, 0x1E9E, 0x10400, 0x10428, 0x3C3, 0x3A3, 'a' as u32];
        match self.rng.below(8) {
            // a class whose members start with many different UTF-8 lead bytes, none of them ASCII
            6 | 7 => {
                const WIDE: &[(u32, u32)] = &[(0x400, 0x4FF), (0x370, 0x5FF), (0x100, 0x17F), (0x3040, 0x30FF), (0x80, 0x7FF), (0x800, 0xFFFF), (0x10000, 0x10FFFF), (0x1F600, 0x1F64F), (0xC0, 0x24F)];
                let n = self.rng.range(1, 3);
                let items: Vec<ClassItem> = (0..n).map(|_| { let (a, b) = *self.rng.pick(WIDE); ClassItem::R(a, b) }).collect();
                if self.flags.v { Node::VClass(false, VExpr::Union(items)) } else { Node::Class(false, items) }
            }
            0 if self.flags.v => {
                let n = self.rng.range(1, 3);
                let mut strs = vec![];
                for _ in 0..n {
                    let l = self.rng.range(1, 3);
                    strs.push((0..l).map(|_| *self.rng.pick(partners)).collect());
                }
                let mut items = vec![ClassItem::Q(strs)];
                if self.rng.chance(1, 2) {
                    items.push(ClassItem::C(*self.rng.pick(partners)));
                }
                Node::VClass(false, VExpr::Union(items))
            }
            1 => {
                let n = self.rng.range(1, 3);
                let items: Vec<ClassItem> = (0..n).map(|_| ClassItem::C(*self.rng.pick(partners))).collect();
                if self.flags.v { Node::VClass(false, VExpr::Union(items)) } else { Node::Class(false, items) }
            }
            2 => Node::Cat((0..self.rng.range(1, 4)).map(|_| Node::Char(*self.rng.pick(partners))).collect()),
            3 => Node::Alt((0..self.rng.range(2, 3)).map(|_| Node::Char(*self.rng.pick(partners))).collect()),
            4 => {
                let c = Node::Char(*self.rng.pick(partners));
                self.quantifier(c)
            }
            _ => Node::Char(*self.rng.pick(partners)),
        }
    }

    /// C12: `^E$` for a class expression E (legacy bracket, or a v-mode class set of nesting depth `depth`).
    pub fn class_pattern(&mut self, depth: u32) -> (Node, Node) {
        let cls = if self.flags.v {
            let neg = self.rng.chance(1, 4);
            Node::VClass(neg, self.vexpr(depth, !neg))
        } else {
            let neg = self.rng.chance(1, 3);
            let n = self.rng.range(0, 4);
            Node::Class(neg, (0..n).map(|_| self.class_item(false, false)).collect())
        };
        (Node::Cat(vec![Node::Bol, cls.clone(), Node::Eol]), cls)
    }

    pub fn pattern(&mut self) -> Node {
        let d = self.cfg.max_depth;
        if self.cfg.first_term_bias && self.rng.chance(2, 3) {
            let first = self.prefix_term();
            let rest = self.alternative(d.saturating_sub(1));
            let mut n = Node::Cat(vec![first, rest]);
            let total = self.groups;
            let names = self.names.clone();
            fixup(&mut n, total, &names, self.rng);
            return n;
        }
        let mut n = self.disjunction(d);
        let total = self.groups;
        let names = self.names.clone();
        fixup(&mut n, total, &names, self.rng);
        n
    }

    fn disjunction(&mut self, depth: u32) -> Node {
        let k = if depth == 0 { 1 } else { [1, 1, 1, 2, 2, 3][self.rng.below(6)] };
        if k == 1 {
            return self.alternative(depth);
        }
        // duplicate named groups across alternatives
        if self.cfg.allow_named && self.rng.chance(1, 6) {
            self.fresh += 1;
            let name = format!("d{}", self.fresh);
            let mut alts = vec![];
            for _ in 0..k {
                let pre = self.term(depth.saturating_sub(1));
                self.groups += 1;
                let idx = self.groups;
                let body = self.alternative(depth.saturating_sub(1));
                alts.push(Node::Cat(vec![pre, Node::Group(idx, Some(name.clone()), Box::new(body))]));
            }
            self.names.push(name);
            return Node::Alt(alts);
        }
        let mut alts = vec![];
        for _ in 0..k {
            alts.push(self.alternative(depth.saturating_sub(1)));
        }
        Node::Alt(alts)
    }

    fn alternative(&mut self, depth: u32) -> Node {
        let n = [0, 1, 1, 2, 2, 3, 4][self.rng.below(7)];
        let mut terms = vec![];
        for _ in 0..n {
            terms.push(self.term(depth));
        }
        if terms.len() == 1 {
            terms.pop().unwrap()
        } else {
            Node::Cat(terms)
        }
    }

    fn quantifier(&mut self, body: Node) -> Node {
        let (min, max) = match self.rng.below(16) {
            // around and above the optimizer's unrolling threshold
            12 => (6, Some(8)),
            13 => (5, Some(6)),
            14 => (6, None),
            15 => (7, Some(7)),
            0 => (0, None),
            1 => (1, None),
            2 => (0, Some(1)),
            3 => (0, Some(0)),
            4 => (2, Some(2)),
            5 => (1, Some(2)),
            6 => (2, None),
            7 => (0, Some(2)),
            8 => (1, Some(3)),
            9 => (0, None),
            10 => (1, Some(1)),
            _ => (3, Some(5)),
        };
        Node::Quant { min, max, greedy: !self.rng.chance(1, 3), body: Box::new(body) }
    }

    fn term(&mut self, depth: u32) -> Node {
        let atom_only = depth == 0;
        let w_group = if atom_only { 0 } else { 10 };
        let w_look = if atom_only { 0 } else { 5 };
        let w_bref = if self.cfg.allow_backrefs { 5 } else { 0 };
        let choice = self.rng.weighted(&[
            30,      // 0 char
            6,       // 1 dot
            3,       // 2 bol
            3,       // 3 eol
            3,       // 4 wb / nwb
            w_group, // 5 capturing group
            w_group / 2, // 6 nc group
            w_look,  // 7 lookaround
            w_bref,  // 8 backreference
            5,       // 9 class escape
            8,       // 10 class
            if self.cfg.allow_props && self.flags.unicode() { 3 } else { 0 }, // 11 prop
            if !atom_only && self.cfg.allow_modifiers { 2 } else { 0 }, // 12 modifier group
            1,       // 13 empty
            2,       // 14 long literal (beyond the 16-byte chunk size of byte sequences)
        ]);
        let (node, quantifiable) = match choice {
            0 => (Node::Char(pick_char(self.rng, self.cfg.wide_alphabet)), true),
            1 => (Node::Dot, true),
            2 => (Node::Bol, false),
            3 => (Node::Eol, false),
            4 => (if self.rng.chance(1, 2) { Node::Wb } else { Node::Nwb }, false),
            5 => {
                self.groups += 1;
                let idx = self.groups;
                let name = if self.cfg.allow_named && self.rng.chance(1, 4) {
                    self.fresh += 1;
                    let n = format!("n{}", self.fresh);
                    self.names.push(n.clone());
                    Some(n)
                } else {
                    None
                };
                let body = self.disjunction(depth - 1);
                (Node::Group(idx, name, Box::new(body)), true)
            }
            6 => (Node::Nc(Box::new(self.disjunction(depth - 1))), true),
            7 => {
                let ahead = !self.cfg.allow_lookbehind || self.rng.chance(1, 2);
                let neg = self.rng.chance(1, 3);
                let body = self.disjunction(depth - 1);
                // a lookahead is quantifiable only in legacy (Annex B) mode
                (Node::Look { ahead, neg, body: Box::new(body) }, ahead && !self.flags.unicode())
            }
            8 => {
                if self.cfg.allow_named && !self.names.is_empty() && self.rng.chance(1, 3) {
                    let n = self.rng.pick(&self.names).clone();
                    (Node::Nref(n), true)
                } else {
                    (Node::Bref(1 + self.rng.below(8) as u32), true)
                }
            }
            9 => (Node::Esc(*self.rng.pick(&['d', 'D', 'w', 'W', 's', 'S'])), true),
            10 => {
                if self.flags.v {
                    let neg = self.rng.chance(1, 4);
                    (Node::VClass(neg, self.vexpr(2, !neg)), true)
                } else {
                    let neg = self.rng.chance(1, 3);
                    let n = self.rng.range(0, 3);
                    let mut items = vec![];
                    for _ in 0..n {
                        items.push(self.class_item(false, false));
                    }
                    (Node::Class(neg, items), true)
                }
            }
            11 => {
                let (k, n) = *self.rng.pick(PROPS);
                (Node::Prop(self.rng.chance(1, 3), k, n.to_string()), true)
            }
            12 => {
                let pool = ["i", "s", "m", "is", "im"];
                let a = self.rng.pick(&pool).to_string();
                let (add, rem) = match self.rng.below(3) {
                    0 => (a, String::new()),
                    1 => (String::new(), a),
                    _ => {
                        let r: String = "ims".chars().filter(|c| !a.contains(*c)).take(1).collect();
                        (a, r)
                    }
                };
                (Node::Mod(add, rem, Box::new(self.disjunction(depth - 1))), true)
            }
            14 => {
                let l = self.rng.range(15, 36);
                let pool: Vec<u32> = "0123456789abcdefghijklmnopqrstuvwxyzABCDEFGH".chars().map(|c| c as u32).chain([0xE9, 0x4E2D, 0x20AC]).collect();
                let mut cs: Vec<Node> = vec![];
                for _ in 0..l {
                    cs.push(Node::Char(*self.rng.pick(&pool)));
                }
                (Node::Cat(cs), false)
            }
            _ => (Node::Empty, false),
        };
        if quantifiable && self.rng.chance(3, 10) {
            self.quantifier(node)
        } else {
            node
        }
    }

    fn class_item(&mut self, vmode: bool, allow_strings: bool) -> ClassItem {
        let w_prop = if self.cfg.allow_props && self.flags.unicode() { 2 } else { 0 };
        match self.rng.weighted(&[8, 5, 3, w_prop, if vmode && allow_strings { 2 } else { 0 }]) {
            0 => ClassItem::C(pick_char(self.rng, self.cfg.wide_alphabet)),
            1 => {
                let ranges: &[(u32, u32)] = &[
                    ('a' as u32, 'c' as u32), ('A' as u32, 'Z' as u32), ('a' as u32, 'z' as u32), ('0' as u32, '9' as u32),
                    ('j' as u32, 'l' as u32), (0x100, 0x17F), (0x2000, 0x2FFF), (0x10400, 0x1044F), ('K' as u32, 'S' as u32),
                    (0xE0, 0xFF), ('s' as u32, 's' as u32), (0x3A3, 0x3C3),
                ];
                let (a, b) = *self.rng.pick(ranges);
                ClassItem::R(a, b)
            }
            2 => ClassItem::Esc(*self.rng.pick(&['d', 'D', 'w', 'W', 's', 'S'])),
            3 => {
                let (k, n) = *self.rng.pick(PROPS);
                ClassItem::Prop(self.rng.chance(1, 3), k, n.to_string())
            }
            _ => {
                let n = self.rng.range(1, 3);
                let mut strs = vec![];
                for _ in 0..n {
                    // a small pool of strings in several case variants, so that the same string (up to
                    // case) turns up in different operands of one class set expression
                    if self.rng.chance(1, 3) {
                        const POOL: &[&[u32]] = &[
                            &[0x61, 0x62], &[0x41, 0x42], &[0x61, 0x42], &[0x6B, 0x4B], &[0x212A, 0x6B], &[0x17F, 0x73], &[0x53, 0x73],
                            &[0xE9, 0x61], &[0xC9, 0x41], &[0x10428, 0x61], &[0x10400, 0x41],
                            // ending in a cased Latin-1 letter (whose code point is also a UTF-8 lead byte value)
                            &[0x61, 0xE9], &[0x78, 0xF0], &[0x41, 0xC9], &[0x62, 0xE2],
                        ];
                        strs.push(self.rng.pick(POOL).to_vec());
                        continue;
                    }
                    let l = [0, 1, 2, 2, 3][self.rng.below(5)];
                    let mut s = vec![];
                    for _ in 0..l {
                        s.push(pick_char(self.rng, false));
                    }
                    strs.push(s);
                }
                ClassItem::Q(strs)
            }
        }
    }

    fn voperand(&mut self, depth: u32, allow_strings: bool) -> ClassItem {
        // operands whose case closure matters: properties and class escapes
        if self.flags.i && self.cfg.allow_props && self.rng.chance(1, 4) {
            let (k, n) = *self.rng.pick(PROPS);
            return ClassItem::Prop(self.rng.chance(1, 3), k, n.to_string());
        }
        if depth > 0 && self.rng.chance(1, 3) {
            let neg = self.rng.chance(1, 4);
            return ClassItem::Nested(neg, Box::new(self.vexpr(depth - 1, allow_strings && !neg)));
        }
        match self.class_item(true, allow_strings) {
            // a range is only a ClassUnion member: wrap it
            ClassItem::R(a, b) => ClassItem::Nested(false, Box::new(VExpr::Union(vec![ClassItem::R(a, b)]))),
            x => x,
        }
    }

    fn vexpr(&mut self, depth: u32, allow_strings: bool) -> VExpr {
        match self.rng.weighted(&[6, 2, 2]) {
            0 => {
                let n = self.rng.range(0, 3);
                let mut items = vec![];
                for _ in 0..n {
                    if depth > 0 && self.rng.chance(1, 4) {
                        let neg = self.rng.chance(1, 4);
                        items.push(ClassItem::Nested(neg, Box::new(self.vexpr(depth - 1, allow_strings && !neg))));
                    } else {
                        items.push(self.class_item(true, allow_strings));
                    }
                }
                VExpr::Union(items)
            }
            1 => {
                let n = self.rng.range(2, 3);
                VExpr::Inter((0..n).map(|_| self.voperand(depth, allow_strings)).collect())
            }
            _ => {
                let n = self.rng.range(2, 3);
                VExpr::Sub((0..n).map(|_| self.voperand(depth, allow_strings)).collect())
            }
        }
    }
}

/// Resolve placeholder back-references against the final group count / names.
fn fixup(n: &mut Node, total: u32, names: &[String], rng: &mut Rng) {
    match n {
        Node::Bref(k) => {
            if total == 0 {
                *n = Node::Empty
            } else {
                *k = (*k - 1) % total + 1
            }
        }
        Node::Nref(name) => {
            if !names.contains(name) {
                *n = Node::Empty
            }
        }
        Node::Cat(xs) | Node::Alt(xs) => xs.iter_mut().for_each(|x| fixup(x, total, names, rng)),
        Node::Group(_, _, b) | Node::Nc(b) | Node::Mod(_, _, b) => fixup(b, total, names, rng),
        Node::Look { body, .. } | Node::Quant { body, .. } => fixup(body, total, names, rng),
        _ => {}
    }
}

pub fn count_groups(n: &Node) -> u32 {
    match n {
        Node::Cat(xs) | Node::Alt(xs) => xs.iter().map(count_groups).sum(),
        Node::Group(_, _, b) => 1 + count_groups(b),
        Node::Nc(b) | Node::Mod(_, _, b) => count_groups(b),
        Node::Look { body, .. } | Node::Quant { body, .. } => count_groups(body),
        _ => 0,
    }
}

pub fn node_count(n: &Node) -> usize {
    1 + match n {
        Node::Cat(xs) | Node::Alt(xs) => xs.iter().map(node_count).sum(),
        Node::Group(_, _, b) | Node::Nc(b) | Node::Mod(_, _, b) => node_count(b),
        Node::Look { body, .. } | Node::Quant { body, .. } => node_count(body),
        _ => 0,
    }
}

/// Feature tags of a pattern, for the distribution report.
pub fn features(n: &Node, out: &mut std::collections::BTreeSet<&'static str>) {
    match n {
        Node::Empty => {
            out.insert("empty");
        }
        Node::Char(_) => {
            out.insert("char");
        }
        Node::Dot => {
            out.insert("dot");
        }
        Node::Bol | Node::Eol => {
            out.insert("anchor");
        }
        Node::Wb | Node::Nwb => {
            out.insert("wordb");
        }
        Node::Cat(xs) => xs.iter().for_each(|x| features(x, out)),
        Node::Alt(xs) => {
            out.insert("alt");
            xs.iter().for_each(|x| features(x, out))
        }
        Node::Group(_, name, b) => {
            out.insert(if name.is_some() { "named-group" } else { "group" });
            features(b, out)
        }
        Node::Nc(b) => features(b, out),
        Node::Mod(_, _, b) => {
            out.insert("modifier");
            features(b, out)
        }
        Node::Look { ahead, neg, body } => {
            out.insert(match (ahead, neg) {
                (true, false) => "lookahead",
                (true, true) => "neg-lookahead",
                (false, false) => "lookbehind",
                (false, true) => "neg-lookbehind",
            });
            features(body, out)
        }
        Node::Bref(_) => {
            out.insert("backref");
        }
        Node::Nref(_) => {
            out.insert("named-backref");
        }
        Node::Quant { greedy, body, .. } => {
            out.insert(if *greedy { "greedy-quant" } else { "lazy-quant" });
            features(body, out)
        }
        Node::Esc(_) => {
            out.insert("class-escape");
        }
        Node::Prop(..) => {
            out.insert("prop");
        }
        Node::Class(..) => {
            out.insert("class");
        }
        Node::VClass(..) => {
            out.insert("vclass");
        }
    }
}

// ------------------------------------------------------------------ printing as a pattern

fn is_plain(c: u32) -> bool {
    (c >= 'a' as u32 && c <= 'z' as u32) || (c >= 'A' as u32 && c <= 'Z' as u32) || (c >= '0' as u32 && c <= '9' as u32) || c == '_' as u32
}

/// Whether `out` ends with a numeric back-reference (`\\` followed by digits): a literal digit
/// printed next would extend it.
fn ends_with_backref(out: &str) -> bool {
    let t = out.trim_end_matches(|ch: char| ch.is_ascii_digit());
    t.len() < out.len() && t.ends_with('\\')
}

/// Alternative spellings of a character (same AST): the choice is a deterministic function of the
/// position and the character, so that a pattern prints the same way every time.
fn alt_spelling(out: &str, c: u32, f: Flags) -> Option<String> {
    let h = (c.wrapping_mul(2654435761).wrapping_add((out.len() as u32).wrapping_mul(40503)) >> 7) % 16;
    match h {
        0 if c < 0x100 => Some(format!("\\x{:02X}", c)),
        1 if c < 0x10000 => Some(format!("\\u{:04X}", c)),
        2 if f.unicode() && c <= 0x10FFFF => Some(format!("\\u{{{:04x}}}", c)),
        3 if f.unicode() && c >= 0x10000 && c <= 0x10FFFF => {
            let v = c - 0x10000;
            Some(format!("\\u{:04X}\\u{:04X}", 0xD800 + (v >> 10), 0xDC00 + (v & 0x3FF)))
        }
        4 | 5 if (1..=26).contains(&c) => Some(format!("\\c{}", (b'A' + (c as u8) - 1) as char)),
        6 | 7 | 8 if (9..=13).contains(&c) => Some(format!("\\{}", ['t', 'n', 'v', 'f', 'r'][(c - 9) as usize])),
        _ => None,
    }
}

pub fn print_char(out: &mut String, c: u32, f: Flags) {
    if c >= '0' as u32 && c <= '9' as u32 && ends_with_backref(out) {
        out.push_str(&format!("\\x{:02x}", c));
    } else if let Some(sp) = alt_spelling(out, c, f) {
        out.push_str(&sp);
    } else if is_plain(c) {
        out.push(char::from_u32(c).unwrap());
    } else if "^$\\.*+?()[]{}|/".contains(char::from_u32(c).unwrap_or('a')) && (c.wrapping_add(out.len() as u32)) % 2 == 0 {
        // IdentityEscape of a syntax character: valid in every mode, inside and outside classes
        out.push('\\');
        out.push(char::from_u32(c).unwrap());
    } else if c < 0x80 {
        out.push_str(&format!("\\x{:02x}", c));
    } else if let Some(ch) = char::from_u32(c) {
        // line separators must not appear raw in a pattern source in JS; harmless for regress
        if c == 0x2028 || c == 0x2029 {
            out.push_str(&format!("\\u{:04x}", c));
        } else {
            out.push(ch);
        }
    } else if f.unicode() {
        out.push_str(&format!("\\u{{{:x}}}", c));
    } else {
        out.push_str(&format!("\\u{:04x}", c));
    }
}

fn prop_text(neg: bool, kind: u8, name: &str) -> String {
    let p = if neg { 'P' } else { 'p' };
    let pre = ["", "gc=", "sc=", "scx="][kind as usize];
    format!("\\{}{{{}{}}}", p, pre, name)
}

fn print_item(out: &mut String, it: &ClassItem, f: Flags) {
    match it {
        ClassItem::C(8) if out.len() % 2 == 0 => out.push_str("\\b"),
        ClassItem::C(c) => print_char(out, *c, f),
        ClassItem::R(a, b) => {
            print_char(out, *a, f);
            out.push('-');
            print_char(out, *b, f);
        }
        ClassItem::Esc(x) => {
            out.push('\\');
            out.push(*x);
        }
        ClassItem::Prop(neg, k, n) => out.push_str(&prop_text(*neg, *k, n)),
        ClassItem::Q(strs) => {
            out.push_str("\\q{");
            for (i, s) in strs.iter().enumerate() {
                if i > 0 {
                    out.push('|');
                }
                for c in s {
                    print_char(out, *c, f);
                }
            }
            out.push('}');
        }
        ClassItem::Nested(neg, e) => print_vclass(out, *neg, e, f),
    }
}

fn print_vclass(out: &mut String, neg: bool, e: &VExpr, f: Flags) {
    out.push('[');
    if neg {
        out.push('^');
    }
    let (items, sep) = match e {
        VExpr::Union(xs) => (xs, ""),
        VExpr::Inter(xs) => (xs, "&&"),
        VExpr::Sub(xs) => (xs, "--"),
    };
    for (i, it) in items.iter().enumerate() {
        if i > 0 {
            out.push_str(sep);
        }
        print_item(out, it, f);
    }
    out.push(']');
}

pub fn print_pattern(out: &mut String, n: &Node, f: Flags) {
    match n {
        Node::Empty => {}
        Node::Char(c) => print_char(out, *c, f),
        Node::Dot => out.push('.'),
        Node::Bol => out.push('^'),
        Node::Eol => out.push('$'),
        Node::Wb => out.push_str("\\b"),
        Node::Nwb => out.push_str("\\B"),
        Node::Cat(xs) => xs.iter().for_each(|x| print_term(out, x, f)),
        Node::Alt(xs) => {
            for (i, x) in xs.iter().enumerate() {
                if i > 0 {
                    out.push('|');
                }
                print_pattern(out, x, f);
            }
        }
        Node::Group(_, name, b) => {
            out.push('(');
            if let Some(n) = name {
                out.push_str("?<");
                print_name(out, n);
                out.push('>');
            }
            print_pattern(out, b, f);
            out.push(')');
        }
        Node::Nc(b) => {
            out.push_str("(?:");
            print_pattern(out, b, f);
            out.push(')');
        }
        Node::Mod(a, r, b) => {
            out.push_str("(?");
            out.push_str(a);
            if !r.is_empty() {
                out.push('-');
                out.push_str(r);
            }
            out.push(':');
            print_pattern(out, b, f);
            out.push(')');
        }
        Node::Look { ahead, neg, body } => {
            out.push_str(match (ahead, neg) {
                (true, false) => "(?=",
                (true, true) => "(?!",
                (false, false) => "(?<=",
                (false, true) => "(?<!",
            });
            print_pattern(out, body, f);
            out.push(')');
        }
        Node::Bref(k) => out.push_str(&format!("\\{}", k)),
        Node::Nref(n) => {
            out.push_str("\\k<");
            print_name(out, n);
            out.push('>');
        }
        Node::Quant { min, max, greedy, body } => {
            // the body must be a single atom
            match **body {
                Node::Cat(_) | Node::Alt(_) | Node::Quant { .. } | Node::Empty => {
                    out.push_str("(?:");
                    print_pattern(out, body, f);
                    out.push(')');
                }
                _ => print_pattern(out, body, f),
            }
            match (min, max) {
                (0, None) => out.push('*'),
                (1, None) => out.push('+'),
                (0, Some(1)) => out.push('?'),
                (a, None) => out.push_str(&format!("{{{},}}", a)),
                (a, Some(b)) if a == b => out.push_str(&format!("{{{}}}", a)),
                (a, Some(b)) => out.push_str(&format!("{{{},{}}}", a, b)),
            }
            if !greedy {
                out.push('?');
            }
        }
        Node::Esc(x) => {
            out.push('\\');
            out.push(*x);
        }
        Node::Prop(neg, k, name) => out.push_str(&prop_text(*neg, *k, name)),
        Node::Class(neg, items) => {
            out.push('[');
            if *neg {
                out.push('^');
            }
            items.iter().for_each(|it| print_item(out, it, f));
            out.push(']');
        }
        Node::VClass(neg, e) => print_vclass(out, *neg, e, f),
    }
}

/// A term inside a concatenation: a disjunction must be wrapped; a digit literal directly after a
/// numeric back-reference would extend it, so it is wrapped too.
fn print_term(out: &mut String, n: &Node, f: Flags) {
    match n {
        Node::Alt(_) => {
            out.push_str("(?:");
            print_pattern(out, n, f);
            out.push(')');
        }
        Node::Char(c) if (*c >= '0' as u32 && *c <= '9' as u32) && out.ends_with(|ch: char| ch.is_ascii_digit()) => {
            out.push_str(&format!("\\x{:02x}", c));
        }
        _ => print_pattern(out, n, f),
    }
}

/// A group name, some of its characters spelled as `\uHHHH` / `\u{H}` (both are allowed in a
/// GroupName in every mode; the choice is a function of position and character).
fn print_name(out: &mut String, name: &str) {
    for c in name.chars() {
        let h = ((c as u32).wrapping_mul(2654435761).wrapping_add((out.len() as u32).wrapping_mul(40503)) >> 5) % 8;
        match h {
            0 if (c as u32) < 0x10000 => out.push_str(&format!("\\u{:04X}", c as u32)),
            1 => out.push_str(&format!("\\u{{{:x}}}", c as u32)),
            _ => out.push(c),
        }
    }
}

pub fn pattern_string(n: &Node, f: Flags) -> String {
    let mut s = String::new();
    print_pattern(&mut s, n, f);
    s
}

// ------------------------------------------------------------------ printing as ES AST text

fn name_hex(s: &str) -> String {
    s.chars().map(|c| format!("{:x}", c as u32)).collect::<Vec<_>>().join(".")
}

fn name_nat_hex(s: &str) -> String {
    let mut r = String::from("1");
    for b in s.bytes() {
        r.push_str(&format!("{:02x}", b));
    }
    r
}

fn ast_item(out: &mut String, it: &ClassItem) {
    match it {
        ClassItem::C(c) => out.push_str(&format!("(c {:x})", c)),
        ClassItem::R(a, b) => out.push_str(&format!("(r {:x} {:x})", a, b)),
        ClassItem::Esc(x) => out.push_str(&format!("(esc {})", x)),
        ClassItem::Prop(neg, k, n) => out.push_str(&format!("(prop {} {} {})", *neg as u8, k, name_nat_hex(n))),
        ClassItem::Q(strs) => {
            out.push_str("(q");
            for s in strs {
                out.push(' ');
                if s.is_empty() {
                    out.push('-');
                } else {
                    out.push_str(&s.iter().map(|c| format!("{:x}", c)).collect::<Vec<_>>().join("."));
                }
            }
            out.push(')');
        }
        ClassItem::Nested(neg, e) => {
            out.push_str(&format!("(vclass {} ", *neg as u8));
            ast_vexpr(out, e);
            out.push(')');
        }
    }
}

fn ast_vexpr(out: &mut String, e: &VExpr) {
    let (items, tag) = match e {
        VExpr::Union(xs) => (xs, "union"),
        VExpr::Inter(xs) => (xs, "inter"),
        VExpr::Sub(xs) => (xs, "sub"),
    };
    out.push('(');
    out.push_str(tag);
    for it in items {
        out.push(' ');
        ast_item(out, it);
    }
    out.push(')');
}

pub fn ast_text(out: &mut String, n: &Node) {
    match n {
        Node::Empty => out.push_str("(empty)"),
        Node::Char(c) => out.push_str(&format!("(char {:x})", c)),
        Node::Dot => out.push_str("(dot)"),
        Node::Bol => out.push_str("(bol)"),
        Node::Eol => out.push_str("(eol)"),
        Node::Wb => out.push_str("(wb)"),
        Node::Nwb => out.push_str("(nwb)"),
        Node::Cat(xs) => {
            out.push_str("(cat");
            for x in xs {
                out.push(' ');
                ast_text(out, x);
            }
            out.push(')');
        }
        Node::Alt(xs) => {
            out.push_str("(alt");
            for x in xs {
                out.push(' ');
                ast_text(out, x);
            }
            out.push(')');
        }
        Node::Group(idx, name, b) => {
            out.push_str(&format!("(group {} {} ", idx, name.as_ref().map(|n| name_hex(n)).unwrap_or("-".into())));
            ast_text(out, b);
            out.push(')');
        }
        Node::Nc(b) => {
            out.push_str("(nc ");
            ast_text(out, b);
            out.push(')');
        }
        Node::Mod(a, r, b) => {
            let t = |s: &String| if s.is_empty() { "-".to_string() } else { s.clone() };
            out.push_str(&format!("(mod {} {} ", t(a), t(r)));
            ast_text(out, b);
            out.push(')');
        }
        Node::Look { ahead, neg, body } => {
            out.push_str(&format!("(look {} {} ", *ahead as u8, *neg as u8));
            ast_text(out, body);
            out.push(')');
        }
        Node::Bref(k) => out.push_str(&format!("(bref {})", k)),
        Node::Nref(n) => out.push_str(&format!("(nref {})", name_hex(n))),
        Node::Quant { min, max, greedy, body } => {
            out.push_str(&format!(
                "(quant {} {} {} ",
                min,
                max.map(|m| m.to_string()).unwrap_or("inf".into()),
                *greedy as u8
            ));
            ast_text(out, body);
            out.push(')');
        }
        Node::Esc(x) => out.push_str(&format!("(esc {})", x)),
        Node::Prop(neg, k, n) => out.push_str(&format!("(prop {} {} {})", *neg as u8, k, name_nat_hex(n))),
        Node::Class(neg, items) => {
            out.push_str(&format!("(class {}", *neg as u8));
            for it in items {
                out.push(' ');
                ast_item(out, it);
            }
            out.push(')');
        }
        Node::VClass(neg, e) => {
            out.push_str(&format!("(vclass {} ", *neg as u8));
            ast_vexpr(out, e);
            out.push(')');
        }
    }
}

pub fn ast_string(n: &Node) -> String {
    let mut s = String::new();
    ast_text(&mut s, n);
    s.replace(' ', "~")
}

// ------------------------------------------------------------------ haystack sampling

fn swap_case(c: u32, rng: &mut Rng) -> u32 {
    let partners: &[&[u32]] = &[
        &['a' as u32, 'A' as u32], &['b' as u32, 'B' as u32], &['s' as u32, 'S' as u32, 0x17F],
        &['k' as u32, 'K' as u32, 0x212A], &[0xE9, 0xC9], &[0xDF, 0x1E9E], &[0x1C4, 0x1C5, 0x1C6], &[0x1F80, 0x1F88],
        &[0x10400, 0x10428], &[0x3C3, 0x3C2, 0x3A3], &['i' as u32, 'I' as u32, 0x130, 0x131], &['c' as u32, 'C' as u32],
    ];
    for p in partners {
        if p.contains(&c) {
            return *rng.pick(p);
        }
    }
    c
}

fn sample_item(it: &ClassItem, rng: &mut Rng, out: &mut Vec<u32>) {
    match it {
        ClassItem::C(c) => out.push(*c),
        ClassItem::R(a, b) => out.push(match rng.below(3) {
            0 => *a,
            1 => *b,
            _ => {
                let c = *a + rng.below((*b - *a + 1) as usize) as u32;
                if char::from_u32(c).is_some() { c } else { *a }
            }
        }),
        ClassItem::Esc(x) => out.push(match x {
            'd' => '0' as u32,
            'w' => 'a' as u32,
            's' => ' ' as u32,
            'D' => 'a' as u32,
            'W' => '-' as u32,
            _ => 'b' as u32,
        }),
        ClassItem::Prop(..) => out.push(*rng.pick(ALPHABET)),
        ClassItem::Q(strs) => out.extend(rng.pick(strs).iter()),
        ClassItem::Nested(_, e) => {
            let items = match &**e {
                VExpr::Union(x) | VExpr::Inter(x) | VExpr::Sub(x) => x,
            };
            if !items.is_empty() {
                sample_item(&items[0], rng, out)
            }
        }
    }
}

/// Produce a string likely to match `n` (walk the AST choosing branches).
pub fn sample(n: &Node, rng: &mut Rng, icase: bool, caps: &mut Vec<Option<Vec<u32>>>, out: &mut Vec<u32>) {
    // haystacks are cut to 24 characters afterwards; back-references inside nested counted loops would
    // otherwise make the sample grow exponentially
    if out.len() > 64 {
        return;
    }
    match n {
        Node::Char(c) => out.push(if icase && rng.chance(1, 2) { swap_case(*c, rng) } else { *c }),
        Node::Dot => out.push(*rng.pick(ALPHABET)),
        Node::Cat(xs) => xs.iter().for_each(|x| sample(x, rng, icase, caps, out)),
        Node::Alt(xs) => sample(rng.pick(xs), rng, icase, caps, out),
        Node::Group(idx, _, b) => {
            let st = out.len();
            sample(b, rng, icase, caps, out);
            let i = *idx as usize;
            if caps.len() <= i {
                caps.resize(i + 1, None);
            }
            caps[i] = Some(out[st..].to_vec());
        }
        Node::Nc(b) => sample(b, rng, icase, caps, out),
        Node::Mod(a, _, b) => sample(b, rng, icase || a.contains('i'), caps, out),
        Node::Look { ahead, neg, body } => {
            // positive lookahead: usually emit text that satisfies it and let the following terms consume it
            if *ahead && !*neg && rng.chance(1, 2) {
                let mut tmp = vec![];
                sample(body, rng, icase, caps, &mut tmp);
            }
        }
        Node::Bref(k) => {
            if let Some(Some(t)) = caps.get(*k as usize) {
                // under i the text a back-reference reads may be another case variant of the capture,
                // possibly of a different encoded length (ſ/s, K/k)
                let t: Vec<u32> = t.iter().map(|c| if icase && rng.chance(1, 2) { swap_case(*c, rng) } else { *c }).collect();
                out.extend(t.iter());
            }
        }
        Node::Quant { min, max, body, .. } => {
            let hi = max.unwrap_or(min + 2).min(min + 2);
            let k = rng.range(*min as usize, hi.max(*min) as usize);
            for _ in 0..k {
                sample(body, rng, icase, caps, out);
            }
        }
        Node::Esc(x) => sample_item(&ClassItem::Esc(*x), rng, out),
        Node::Prop(..) => out.push(*rng.pick(ALPHABET)),
        Node::Class(neg, items) => {
            let st = out.len();
            if *neg || items.is_empty() {
                out.push(*rng.pick(ALPHABET))
            } else {
                let it = rng.pick(items).clone();
                sample_item(&it, rng, out)
            }
            if icase && rng.chance(1, 2) {
                for k in st..out.len() {
                    out[k] = swap_case(out[k], rng);
                }
            }
        }
        Node::VClass(neg, e) => {
            let st = out.len();
            let items = match e {
                VExpr::Union(x) | VExpr::Inter(x) | VExpr::Sub(x) => x,
            };
            if *neg || items.is_empty() {
                out.push(*rng.pick(ALPHABET))
            } else {
                let it = rng.pick(items).clone();
                sample_item(&it, rng, out)
            }
            if icase && rng.chance(1, 2) {
                for k in st..out.len() {
                    out[k] = swap_case(out[k], rng);
                }
            }
        }
        _ => {}
    }
}

/// Haystacks for a pattern: sampled matches embedded in context, mutations, random strings.
pub fn haystacks(n: &Node, f: Flags, rng: &mut Rng, count: usize) -> Vec<Vec<u32>> {
    let mut out: Vec<Vec<u32>> = vec![];
    for k in 0..count {
        let mut h = vec![];
        match k % 4 {
            0 | 1 => {
                let pre = rng.below(3);
                for _ in 0..pre {
                    h.push(*rng.pick(ALPHABET));
                }
                let mut caps = vec![];
                sample(n, rng, f.i, &mut caps, &mut h);
                let post = rng.below(3);
                for _ in 0..post {
                    h.push(*rng.pick(ALPHABET));
                }
                if k % 4 == 1 && !h.is_empty() {
                    // mutate
                    let i = rng.below(h.len());
                    match rng.below(5) {
                        4 => {
                            // a character that aliases h[i] when truncated to 8 or 16 bits, or U+0000
                            let c = h[i];
                            // … or a character whose UTF-8 encoding STARTS with the byte c (for Latin-1 c that is a lead byte)
                            let lead = match c {
                                0xC2..=0xDF => (c - 0xC0) << 6,
                                0xE1..=0xEC | 0xEE..=0xEF => (c - 0xE0) << 12,
                                0xF1..=0xF3 => (c - 0xF0) << 18,
                                0xE0 => 0x800,
                                0xF0 => 0x10000,
                                _ => 0,
                            };
                            let cand = [0x10000 + (c & 0xFFFF), 0x20000 + (c & 0xFFFF), 0x100 + (c & 0xFF), 0x4E00 + (c & 0xFF), 0, lead, lead];
                            let a = *rng.pick(&cand);
                            if char::from_u32(a).is_some() {
                                h[i] = a;
                            }
                        }
                        0 => {
                            h.remove(i);
                        }
                        1 => {
                            let c = h[i];
                            h.insert(i, c);
                        }
                        2 => h[i] = swap_case(h[i], rng),
                        _ => h[i] = *rng.pick(ALPHABET),
                    }
                }
            }
            2 => {
                let l = rng.below(7);
                for _ in 0..l {
                    h.push(*rng.pick(CORE));
                }
            }
            _ => {
                let l = rng.below(5);
                for _ in 0..l {
                    h.push(*rng.pick(ALPHABET));
                }
            }
        }
        if h.len() > 24 {
            h.truncate(24);
        }
        out.push(h);
    }
    out.push(vec![]);
    out
}

pub fn to_string(cps: &[u32]) -> String {
    cps.iter().filter_map(|c| char::from_u32(*c)).collect()
}

pub fn cps_hex(cps: &[u32]) -> String {
    if cps.is_empty() {
        "-".into()
    } else {
        cps.iter().map(|c| format!("{:x}", c)).collect::<Vec<_>>().join(".")
    }
}

pub fn bytes_hex(b: &[u8]) -> String {
    if b.is_empty() {
        "-".into()
    } else {
        b.iter().map(|c| format!("{:02x}", c)).collect()
    }
}

/// Every code point / string literally mentioned by a class expression.
pub fn class_mentions(n: &Node, chars: &mut Vec<u32>, strs: &mut Vec<Vec<u32>>) {
    fn item(it: &ClassItem, chars: &mut Vec<u32>, strs: &mut Vec<Vec<u32>>) {
        match it {
            ClassItem::C(c) => chars.push(*c),
            ClassItem::R(a, b) => {
                chars.push(*a);
                chars.push(*b);
                chars.push((*a + *b) / 2);
                if *a > 0 {
                    chars.push(*a - 1);
                }
                chars.push(*b + 1);
            }
            ClassItem::Q(ss) => {
                for s in ss {
                    strs.push(s.clone());
                    chars.extend(s.iter());
                }
            }
            ClassItem::Nested(_, e) => {
                let items = match &**e {
                    VExpr::Union(x) | VExpr::Inter(x) | VExpr::Sub(x) => x,
                };
                items.iter().for_each(|i| item(i, chars, strs));
            }
            _ => {}
        }
    }
    match n {
        Node::Class(_, items) => items.iter().for_each(|i| item(i, chars, strs)),
        Node::VClass(_, e) => {
            let items = match e {
                VExpr::Union(x) | VExpr::Inter(x) | VExpr::Sub(x) => x,
            };
            items.iter().for_each(|i| item(i, chars, strs));
        }
        _ => {}
    }
}

pub fn case_partners(c: u32) -> Vec<u32> {
    let partners: &[&[u32]] = &[
        &['a' as u32, 'A' as u32], &['b' as u32, 'B' as u32], &['s' as u32, 'S' as u32, 0x17F],
        &['k' as u32, 'K' as u32, 0x212A], &[0xE9, 0xC9], &[0xDF, 0x1E9E], &[0x1C4, 0x1C5, 0x1C6], &[0x1F80, 0x1F88],
        &[0x10400, 0x10428], &[0x3C3, 0x3C2, 0x3A3], &['i' as u32, 'I' as u32, 0x130, 0x131], &['c' as u32, 'C' as u32],
        &['z' as u32, 'Z' as u32], &['j' as u32, 'J' as u32], &['l' as u32, 'L' as u32],
    ];
    for p in partners {
        if p.contains(&c) {
            return p.to_vec();
        }
    }
    vec![c]
}
