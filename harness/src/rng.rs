//! Deterministic PRNG (xoshiro256**) — every random choice of the harness comes from one state.

#[derive(Clone)]
pub struct Rng {
    s: [u64; 4],
}

fn splitmix(x: &mut u64) -> u64 {
    *x = x.wrapping_add(0x9E3779B97F4A7C15);
    let mut z = *x;
    z = (z ^ (z >> 30)).wrapping_mul(0xBF58476D1CE4E5B9);
    z = (z ^ (z >> 27)).wrapping_mul(0x94D049BB133111EB);
    z ^ (z >> 31)
}

impl Rng {
    pub fn new(seed: u64) -> Rng {
        let mut x = seed ^ 0xA076_1D64_78BD_642F;
        let s = [splitmix(&mut x), splitmix(&mut x), splitmix(&mut x), splitmix(&mut x)];
        Rng { s }
    }

    pub fn next(&mut self) -> u64 {
        let result = self.s[1].wrapping_mul(5).rotate_left(7).wrapping_mul(9);
        let t = self.s[1] << 17;
        self.s[2] ^= self.s[0];
        self.s[3] ^= self.s[1];
        self.s[1] ^= self.s[2];
        self.s[0] ^= self.s[3];
        self.s[2] ^= t;
        self.s[3] = self.s[3].rotate_left(45);
        result
    }

    /// Uniform in 0..n (n > 0).
    pub fn below(&mut self, n: usize) -> usize {
        (self.next() % (n as u64)) as usize
    }

    /// Uniform in lo..=hi.
    pub fn range(&mut self, lo: usize, hi: usize) -> usize {
        lo + self.below(hi - lo + 1)
    }

    /// True with probability num/den.
    pub fn chance(&mut self, num: usize, den: usize) -> bool {
        self.below(den) < num
    }

    pub fn pick<'a, T>(&mut self, xs: &'a [T]) -> &'a T {
        &xs[self.below(xs.len())]
    }

    /// Pick an index according to integer weights.
    pub fn weighted(&mut self, weights: &[usize]) -> usize {
        let total: usize = weights.iter().sum();
        let mut r = self.below(total.max(1));
        for (i, w) in weights.iter().enumerate() {
            if r < *w {
                return i;
            }
            r -= *w;
        }
        weights.len() - 1
    }

    /// Derive an independent stream (for sharding).
    pub fn fork(&mut self, k: u64) -> Rng {
        Rng::new(self.next() ^ k.wrapping_mul(0x9E3779B97F4A7C15))
    }
}
