//! C10 (observable form) and the case-insensitive half of C18, against the committed Unicode-17
//! case-folding snapshot (aux file: lines `scf <c> <rep>` / `legacy <c> <canon>` / `d8 <c>` / `x8 <c>`, hex).

use crate::ast;
use crate::report::Report;
use crate::rng::Rng;
use crate::util::*;
use std::collections::{BTreeMap, BTreeSet};

pub struct Fold {
    pub scf: BTreeMap<u32, u32>,
    pub legacy: BTreeMap<u32, u32>,
    pub scf_class: BTreeMap<u32, Vec<u32>>,
    pub legacy_class: BTreeMap<u32, Vec<u32>>,
}

impl Fold {
    pub fn load(path: &str) -> Fold {
        let text = std::fs::read_to_string(path).expect("casefold aux file");
        let mut scf = BTreeMap::new();
        let mut legacy = BTreeMap::new();
        for l in text.lines() {
            let p: Vec<&str> = l.split(' ').collect();
            match p[0] {
                "scf" => {
                    scf.insert(u32::from_str_radix(p[1], 16).unwrap(), u32::from_str_radix(p[2], 16).unwrap());
                }
                "legacy" => {
                    legacy.insert(u32::from_str_radix(p[1], 16).unwrap(), u32::from_str_radix(p[2], 16).unwrap());
                }
                _ => {}
            }
        }
        let classes = |m: &BTreeMap<u32, u32>| {
            let mut by_rep: BTreeMap<u32, BTreeSet<u32>> = BTreeMap::new();
            for (&c, &r) in m {
                by_rep.entry(r).or_default().insert(c);
                by_rep.entry(r).or_default().insert(r);
            }
            let mut out: BTreeMap<u32, Vec<u32>> = BTreeMap::new();
            for (_, s) in by_rep {
                let v: Vec<u32> = s.iter().copied().collect();
                for &c in &v {
                    out.insert(c, v.clone());
                }
            }
            out
        };
        let scf_class = classes(&scf);
        let legacy_class = classes(&legacy);
        Fold { scf, legacy, scf_class, legacy_class }
    }
    pub fn canon(&self, c: u32, unicode: bool) -> u32 {
        if unicode {
            *self.scf.get(&c).unwrap_or(&c)
        } else {
            *self.legacy.get(&c).unwrap_or(&c)
        }
    }
    pub fn class(&self, c: u32, unicode: bool) -> Vec<u32> {
        let m = if unicode { &self.scf_class } else { &self.legacy_class };
        m.get(&c).cloned().unwrap_or_else(|| vec![c])
    }
}

fn ctx(flags: &str, cps: &[u32]) -> String {
    format!("F8CTX flags={} cps={}", if flags.is_empty() { "-" } else { flags }, ast::cps_hex(cps))
}

/// Context for a case whose bracket contains a negated class escape (its raw set then contains
/// every non-ASCII case partner).
fn ctx_negesc(flags: &str, cps: &[u32]) -> String {
    format!("{} negesc=1", ctx(flags, cps))
}

fn lit(c: u32, unicode: bool) -> String {
    // a pattern source for the literal code point c
    if unicode {
        format!("\\u{{{:x}}}", c)
    } else if c < 0x10000 {
        format!("\\u{:04x}", c)
    } else {
        char::from_u32(c).map(|ch| ch.to_string()).unwrap_or_default()
    }
}

/// C10 observable form: for every code point with a non-trivial class in either source (and, in
/// the thorough tier, every pair within the union of both classes), `/c/i`, `/[c]/i`, `/[^c]/i`,
/// `/(c)\1/i` against d, in the modes `i`, `iu`, `iv`.
/// `add_icase_code_points` on INTERVALS: every interval [a, a+k] that starts at, just before or just after
/// a code point with a case class, for several lengths k; against the closure computed from the ICU
/// snapshot classes, and against the Lean model (`cps addicase`).
fn c10_intervals(rep: &mut Report, f: &Fold, thorough: bool, rng: &mut Rng) {
    let mut starts: BTreeSet<u32> = BTreeSet::new();
    for &c in f.scf_class.keys() {
        for d in 0..=2u32 {
            starts.insert(c.saturating_sub(d));
            starts.insert((c + d).min(0x10FFFF));
        }
    }
    for a in starts {
        if !thorough && a >= 0x250 && !rng.chance(1, 3) {
            continue;
        }
        for k in [0u32, 1, 2, 3, 5, 8, 16, 40, 300] {
            let b = (a + k).min(0x10FFFF);
            let got = regress::verif::add_icase_code_points(&[(a, b)]);
            let mut want: BTreeSet<u32> = BTreeSet::new();
            for c in a..=b {
                want.insert(c);
                want.extend(f.class(c, true));
            }
            let mut ivs: Vec<(u32, u32)> = vec![];
            for c in want {
                match ivs.last_mut() {
                    Some(l) if l.1 + 1 == c => l.1 = c,
                    _ => ivs.push((c, c)),
                }
            }
            rep.case(&format!("addicase {:x}-{:x}", a, b), got.len() > 1);
            rep.count("addicase-intervals");
            if got != ivs {
                let miss = ivs
                    .iter()
                    .flat_map(|(x, y)| *x..=*y)
                    .find(|c| !got.iter().any(|(x, y)| x <= c && c <= y))
                    .or_else(|| got.iter().flat_map(|(x, y)| *x..=*y).find(|c| !ivs.iter().any(|(x, y)| x <= c && c <= y)));
                rep.violation(
                    "impl-vs-oracle:C10",
                    format!("add_icase_code_points([{:x}-{:x}]) is not the closure under Unicode 17 simple case folding (first difference at U+{:04X}: missing or extra)", a, b, miss.unwrap_or(0)),
                    format!("F8CTX flags=iu cps={:x}.{:x}", a, b),
                );
            }
            let show = |v: &[(u32, u32)]| if v.is_empty() { "-".to_string() } else { v.iter().map(|(x, y)| format!("{:x}-{:x}", x, y)).collect::<Vec<_>>().join(",") };
            rep.tie(format!("cps addicase {:x}-{:x}", a, b), show(&got));
        }
    }
}

pub fn c10(rep: &mut Report, aux: &str, thorough: bool, seed: u64) {
    let f = Fold::load(aux);
    let mut rng = Rng::new(seed);
    c10_intervals(rep, &f, thorough, &mut rng);
    let mut universe: BTreeSet<u32> = BTreeSet::new();
    universe.extend(f.scf_class.keys());
    universe.extend(f.legacy_class.keys());
    for c in 0x41..=0x7Au32 {
        universe.insert(c);
    }
    let all: Vec<u32> = universe.iter().copied().filter(|c| char::from_u32(*c).is_some()).collect();
    for &c in &all {
        if !thorough && !rng.chance(1, 4) && c >= 0x250 {
            continue;
        }
        for flags in ["i", "iu", "iv"] {
            let unicode = flags != "i";
            // partners to test: both classes, the regress-visible neighbours, and two random others
            let mut ds: BTreeSet<u32> = BTreeSet::new();
            ds.extend(f.class(c, true));
            ds.extend(f.class(c, false));
            ds.insert(c);
            ds.insert(*rng.pick(&all));
            let l = lit(c, unicode);
            if l.is_empty() {
                continue;
            }
            let pats = [
                (format!("^{}$", l), "literal"),
                (format!("^[{}]$", l), "class"),
                (format!("^[^{}]$", l), "negclass"),
                (format!("^({})\\1$", l), "backref"),
            ];
            for (pat, kind) in pats.iter() {
                let re = match compile(pat, flags, false) {
                    Ok(re) => re,
                    Err(e) => {
                        rep.violation("impl-vs-spec:C10", format!("/{}/{} does not compile: {}", pat, flags, e), pat.clone());
                        continue;
                    }
                };
                for &d in &ds {
                    let Some(dch) = char::from_u32(d) else { continue };
                    let equiv = f.canon(c, unicode) == f.canon(d, unicode);
                    let (hay, want) = match *kind {
                        "backref" => {
                            // (c)\1 on "c d": matches iff d ~ c
                            let mut h = String::new();
                            h.push(char::from_u32(c).unwrap());
                            h.push(dch);
                            (h, equiv)
                        }
                        "negclass" => (dch.to_string(), !equiv),
                        _ => (dch.to_string(), equiv),
                    };
                    let got = re.find(&hay).is_some();
                    rep.case(&format!("{}{}{}{}", pat, flags, d, kind), equiv && c != d);
                    rep.count(&format!("{}:{}", flags, kind));
                    if got != want {
                        rep.violation(
                            "impl-vs-oracle:C10",
                            format!("/{}/{} on U+{:04X}: got {} but canonical forms are {}", pat, flags, d, got, if equiv { "equal" } else { "different" }),
                            ctx(flags, &[c, d]),
                        );
                    }
                }
            }
        }
    }
    // \w and \b under i: word characters are closed under the canonical equivalence in u/v mode only
    for flags in ["i", "iu", "iv"] {
        let unicode = flags != "i";
        let w = compile("^\\w$", flags, false).unwrap();
        let nw = compile("^\\W$", flags, false).unwrap();
        let cw = compile("^[\\w]$", flags, false).unwrap();
        let cnw = compile("^[\\W]$", flags, false).unwrap();
        let b = compile("^.\\b.$", flags, false).unwrap();
        let is_basic = |c: u32| (c < 128) && ((c as u8).is_ascii_alphanumeric() || c == '_' as u32);
        for &c in &all {
            let ch = char::from_u32(c).unwrap();
            // ES: WordCharacters(rer) = basic ∪ { c : scf(c) ∈ basic } under u/v + i; basic otherwise
            let want = is_basic(c) || (unicode && is_basic(f.canon(c, true)));
            let s = ch.to_string();
            rep.case(&format!("w{}{}", flags, c), !is_basic(c) && want);
            for (re, expect, name) in [(&w, want, "\\w"), (&nw, !want, "\\W"), (&cw, want, "[\\w]"), (&cnw, !want, "[\\W]")] {
                if re.find(&s).is_some() != expect {
                    let cx = if name == "[\\W]" { ctx_negesc(flags, &[c]) } else { ctx(flags, &[c]) };
                    rep.violation("impl-vs-oracle:C10", format!("/^{}$/{} on U+{:04X}: expected {}", name, flags, c, expect), cx);
                }
            }
            // \b between c and '-' (a non-word char): boundary iff c is a word char
            let hb = format!("{}-", ch);
            if b.find(&hb).is_some() != want {
                rep.violation("impl-vs-oracle:C10", format!("/^.\\b.$/{} on U+{:04X} '-': expected {}", flags, c, want), ctx(flags, &[c]));
            }
        }
    }
}

/// The case-insensitive half of C18: escape(s) under i / iu / iv finds exactly the
/// case-insensitive occurrences of s.
/// Long strings (17..=70 characters: the emitter chunks literals into byte sequences of up to 16 bytes and the
/// start predicate only sees the head): cased characters followed by long caseless runs (digits, punctuation,
/// CJK), searched in a haystack made of a case variant and of near misses that differ from it at ONE position,
/// for EVERY position.
fn c18_long(rep: &mut Report, f: &Fold, rng: &mut Rng, n: usize) {
    let caseless: Vec<u32> = "0123456789-:_ /#@;'\"".chars().map(|c| c as u32).chain([0x4E2D, 0x6587, 0x3042, 0x20AC]).collect();
    let cased: Vec<u32> = vec!['T' as u32, 'k' as u32, 's' as u32, 0xE9, 'A' as u32, 'z' as u32, 0x3C3, 0x10428];
    for round in 0..n {
        let l = 17 + rng.below(54);
        let s: Vec<u32> = (0..l)
            .map(|k| if k == 0 && round % 4 != 3 || rng.chance(1, 12) { *rng.pick(&cased) } else { *rng.pick(&caseless) })
            .collect();
        let st = ast::to_string(&s);
        let esc = regress::escape(&st);
        for flags in ["i", "iu", "iv", "", "u"] {
            let unicode = flags.contains('u') || flags.contains('v');
            let icase = flags.contains('i');
            let Ok(re) = compile(&esc, flags, false) else {
                rep.violation("impl-vs-spec:C18", format!("escape({:?}) does not compile under {:?}", st, flags), st.clone());
                continue;
            };
            let variant: Vec<u32> = if icase { s.iter().map(|c| *rng.pick(&f.class(*c, unicode))).collect() } else { s.clone() };
            let mut hay: Vec<u32> = variant.clone();
            for k in 0..variant.len() {
                let mut miss = variant.clone();
                let c = miss[k];
                let mut r = *rng.pick(&caseless);
                if f.canon(r, unicode) == f.canon(c, unicode) || r == c {
                    r = '~' as u32;
                }
                miss[k] = r;
                hay.push('|' as u32);
                hay.extend(miss.iter());
            }
            hay.push('|' as u32);
            hay.extend(variant.iter());
            let h = ast::to_string(&hay);
            let hc: Vec<(usize, char)> = h.char_indices().collect();
            let same = |a: u32, b: u32| if icase { f.canon(a, unicode) == f.canon(b, unicode) } else { a == b };
            let mut want: Vec<(usize, usize)> = vec![];
            let mut i = 0;
            while i + s.len() <= hc.len() {
                if (0..s.len()).all(|k| same(hc[i + k].1 as u32, s[k])) {
                    let end = if i + s.len() < hc.len() { hc[i + s.len()].0 } else { h.len() };
                    want.push((hc[i].0, end));
                    i += s.len();
                } else {
                    i += 1;
                }
            }
            let got: Vec<(usize, usize)> = re.find_iter(&h).map(|m| (m.start(), m.end())).collect();
            rep.case(&format!("long {}/{}", st, flags), true);
            rep.count(&format!("long:{}", flags));
            if got != want {
                let mut all = s.clone();
                all.extend(hay.iter());
                rep.violation(
                    "impl-vs-oracle:C18",
                    format!("escape({:?}) under {:?}: occurrences among the one-position near misses {:?}, found {:?}", st, flags, want, got),
                    ctx(flags, &all),
                );
            }
        }
    }
}

pub fn c18_icase(rep: &mut Report, aux: &str, n: usize, seed: u64) {
    let f = Fold::load(aux);
    let mut rng = Rng::new(seed);
    c18_long(rep, &f, &mut rng, (n / 2).max(100));
    let alpha: Vec<u32> = vec![
        'k' as u32, 'K' as u32, 0x212A, 's' as u32, 'S' as u32, 0x17F, 'a' as u32, 'A' as u32, 0xE9, 0xC9, 0xDF, 0x1E9E, '.' as u32, '(' as u32,
        ')' as u32, '$' as u32, '1' as u32, 0x3C3, 0x3C2, 0x3A3, 0x10400, 0x10428, 'i' as u32, 'I' as u32, 0x131, 0x130, ' ' as u32, 0x1C5, 0x1C4,
    ];
    for _ in 0..n {
        let l = rng.range(1, 4);
        let s: Vec<u32> = (0..l).map(|_| *rng.pick(&alpha)).collect();
        let st = ast::to_string(&s);
        let esc = regress::escape(&st);
        for flags in ["i", "iu", "iv", "ims", "isv"] {
            let unicode = flags.contains('u') || flags.contains('v');
            let re = match compile(&esc, flags, false) {
                Ok(re) => re,
                Err(e) => {
                    rep.violation("impl-vs-spec:C18", format!("escape({:?}) does not compile under {:?}: {}", st, flags, e), st.clone());
                    continue;
                }
            };
            // haystack: a case variant of s, embedded, plus a near miss
            let variant: Vec<u32> = s.iter().map(|c| *rng.pick(&f.class(*c, unicode))).collect();
            let mut hay: Vec<u32> = vec!['x' as u32];
            hay.extend(variant.iter());
            hay.push(*rng.pick(&alpha));
            hay.extend(s.iter().map(|c| *rng.pick(&f.class(*c, !unicode))));
            // near misses: a variant with one character replaced by U+0000, by a character that aliases it
            // when truncated to 8 or 16 bits, or by its ASCII case-bit neighbour
            for _ in 0..2 {
                let mut miss = variant.clone();
                let k = rng.below(miss.len());
                let c = miss[k];
                let cand = [0, 0x10000 + (c & 0xFFFF), 0x100 + (c & 0xFF), c ^ 0x20, 0x20000 + (c & 0xFFFF), c + 1];
                miss[k] = *rng.pick(&cand);
                if char::from_u32(miss[k]).is_some() {
                    hay.push('-' as u32);
                    hay.extend(miss.iter());
                }
            }
            let h = ast::to_string(&hay);
            // expected: leftmost non-overlapping windows whose canonical forms equal those of s
            let hc: Vec<(usize, char)> = h.char_indices().collect();
            let mut want: Vec<(usize, usize)> = vec![];
            let mut i = 0;
            while i + s.len() <= hc.len() {
                let ok = (0..s.len()).all(|k| f.canon(hc[i + k].1 as u32, unicode) == f.canon(s[k], unicode));
                if ok {
                    let start = hc[i].0;
                    let end = if i + s.len() < hc.len() { hc[i + s.len()].0 } else { h.len() };
                    want.push((start, end));
                    i += s.len();
                } else {
                    i += 1;
                }
            }
            let got: Vec<(usize, usize)> = re.find_iter(&h).map(|m| (m.start(), m.end())).collect();
            rep.case(&format!("{}/{}/{}", st, flags, h), !want.is_empty());
            rep.count(&format!("icase:{}", flags));
            if got != want {
                let mut all = s.clone();
                all.extend(hay.iter());
                rep.violation(
                    "impl-vs-oracle:C18",
                    format!("escape({:?}) under {:?} in {:?}: case-insensitive occurrences {:?}, found {:?}", st, flags, h, want, got),
                    ctx(flags, &all),
                );
            }
        }
    }
}
