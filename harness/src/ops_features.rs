//! C15 / C14: the same case file replayed by runner binaries built with different feature sets.

use crate::ast::{self, Flags, Gen, GenCfg};
use crate::ops_engine::{gen_case, run_exec};
use crate::report::Report;
use crate::rng::Rng;
use crate::util::*;
use std::io::{BufRead, Write};

/// Write a case file: `<flags> <pattern cps> <haystack cps> <start>` per line (default build only).
pub fn gen_cases(rep: &mut Report, n: usize, seed: u64, out: &str, ascii_ok: bool) {
    let mut rng = Rng::new(seed);
    let cfg = GenCfg { max_depth: 3, first_term_bias: true, ..GenCfg::default() };
    std::fs::create_dir_all(out).unwrap();
    let mut f = std::io::BufWriter::new(std::fs::File::create(format!("{}/cases.txt", out)).unwrap());
    let mut done = 0;
    let _ = ascii_ok;
    while done < n {
        // valid patterns (mostly) …
        let flags = Flags::random(&mut rng);
        let node = Gen::new(&mut rng, flags, &cfg).pattern();
        let mut pat: Vec<u32> = ast::pattern_string(&node, flags).chars().map(|c| c as u32).collect();
        // … and single-token mutations of them, so that rejected patterns are compared too
        if rng.chance(1, 6) && !pat.is_empty() {
            let i = rng.below(pat.len());
            match rng.below(3) {
                0 => {
                    pat.remove(i);
                }
                1 => pat.insert(i, *rng.pick(&['(' as u32, ')' as u32, '[' as u32, '{' as u32, '\\' as u32, '*' as u32, '?' as u32, '|' as u32])),
                _ => {
                    let j = (i + 1) % pat.len().max(1);
                    pat.swap(i, j)
                }
            }
        }
        let hays = ast::haystacks(&node, flags, &mut rng, 4);
        for h in &hays {
            let hs = ast::to_string(h);
            let b = boundaries(&hs);
            let start = if rng.chance(1, 2) { 0 } else { *rng.pick(&b) };
            writeln!(f, "{} {} {} {}", flags.to_token(), ast::cps_hex(&pat), ast::cps_hex(h), start).unwrap();
            done += 1;
            rep.case(&format!("{:?}{:?}{}", pat, h, start), true);
        }
    }
    // back-references whose group lies on the far side of the cursor, with and without a gap (the
    // compared ranges overlap, touch or are apart; read forwards and backwards), case-sensitive and not
    let pats = [
        "(X).*(?<=\\1)", "(X)Y*(?<=\\1)", "(?=..(X))\\1", "(?=.*(X)$)\\1", "(X)\\1", "(XY)\\1", "(?<=(X).*)\\1", "(?<=\\1(X))", "(X+)Y\\1", "(?=(X+))\\1Y",
        "(?<=(?=\\1)(X).)",
    ];
    let letters = ["a", "b", "\u{e9}", "\u{10428}"];
    let mut hs: Vec<String> = vec![String::new()];
    let mut cur = vec![String::new()];
    for _ in 0..4 {
        let mut nxt = vec![];
        for p in &cur {
            for c in ["a", "b", "\u{e9}"] {
                nxt.push(format!("{}{}", p, c));
            }
        }
        hs.extend(nxt.iter().cloned());
        cur = nxt;
    }
    for p in pats {
        for x in letters {
            for y in ["a", "b"] {
                let pat: Vec<u32> = p.replace('X', x).replace('Y', y).chars().map(|c| c as u32).collect();
                for fl in ["-", "i", "u"] {
                    for h in hs.iter() {
                        if h.chars().count() < 2 || !rng.chance(1, 3) {
                            continue;
                        }
                        let hc: Vec<u32> = h.chars().map(|c| c as u32).collect();
                        writeln!(f, "{} {} {} 0", fl, ast::cps_hex(&pat), ast::cps_hex(&hc)).unwrap();
                        rep.case(&format!("{:?}{:?}", pat, hc), true);
                    }
                }
            }
        }
    }
    // long literals around nested look-arounds (byte-literal lowering is a default-build strategy: the utf16 build
    // does not lower, so a wrong chunk order shows as a difference between builds)
    for (pat, fl, hays) in crate::scope::nested_look_literal_cases() {
        let pc: Vec<u32> = pat.chars().map(|c| c as u32).collect();
        for h in hays {
            let hc: Vec<u32> = h.chars().map(|c| c as u32).collect();
            writeln!(f, "{} {} {} 0", if fl.is_empty() { "-" } else { fl }, ast::cps_hex(&pc), ast::cps_hex(&hc)).unwrap();
            rep.case(&format!("{:?}{:?}", pc, hc), true);
        }
    }
    f.flush().unwrap();
}

fn parse_cps(s: &str) -> Vec<u32> {
    if s == "-" {
        vec![]
    } else {
        s.split('.').map(|h| u32::from_str_radix(h, 16).unwrap()).collect()
    }
}

/// Replay a case file through the string APIs of THIS build; one result line per case.
pub fn replay(cases: &str, out: &str) {
    let f = std::io::BufReader::new(std::fs::File::open(cases).unwrap());
    std::fs::create_dir_all(out).unwrap();
    let mut w = std::io::BufWriter::new(std::fs::File::create(format!("{}/replay.txt", out)).unwrap());
    let mut last: Option<(String, String, Result<regress::Regex, ()>, Result<regress::Regex, ()>)> = None;
    for line in f.lines() {
        let line = line.unwrap();
        let p: Vec<&str> = line.split(' ').collect();
        let (fl, pat, hay, start) = (p[0], p[1], p[2], p[3].parse::<usize>().unwrap());
        let flags = if fl == "-" { "" } else { fl };
        let reuse = matches!(&last, Some((a, b, _, _)) if a == fl && b == pat);
        if !reuse {
            let cps = parse_cps(pat);
            let a = guarded(|| compile_cps(&cps, flags, false)).map_err(|_| ()).and_then(|r| r.map_err(|_| ()));
            let b = guarded(|| compile_cps(&cps, flags, true)).map_err(|_| ()).and_then(|r| r.map_err(|_| ()));
            last = Some((fl.to_string(), pat.to_string(), a, b));
        }
        let (_, _, a, b) = last.as_ref().unwrap();
        let h = ast::to_string(&parse_cps(hay));
        let mut res = String::new();
        match (a, b) {
            (Ok(a), Ok(b)) => {
                let x = run_exec(a, Exec::Bt, &h, start, 64).text;
                let y = run_exec(b, Exec::Bt, &h, start, 64).text;
                res.push_str(&format!("ok opt[{}] noopt[{}]", x, y));
                #[cfg(any(feature = "std-default", feature = "alloc-only"))]
                {
                    let z = run_exec(a, Exec::Pk, &h, start, 64).text;
                    res.push_str(&format!(" pk[{}]", z));
                }
            }
            (Err(_), Err(_)) => res.push_str("err"),
            _ => res.push_str("mixed"),
        }
        writeln!(w, "{}", res).unwrap();
    }
    w.flush().unwrap();
}

#[cfg(feature = "utf16")]
/// One (regex, haystack): `find_from_utf16` on the UTF-16 encoding with offsets translated back, and
/// `find_from_ucs2` on BMP-only text, against `find_from` on the string, from every char boundary
/// (`all_starts`) or a sample of them.
fn c14_compare(rep: &mut Report, rng: &mut Rng, opt: &regress::Regex, pat: &str, fs: &str, h: &Vec<u32>, all_starts: bool, done: &mut usize) {
    let hs = ast::to_string(h);
    let units: Vec<u16> = hs.encode_utf16().collect();
    // offset translation tables
    let mut b8 = vec![];
    let mut b16 = vec![];
    let (mut o8, mut o16) = (0usize, 0usize);
    for ch in hs.chars() {
        b8.push(o8);
        b16.push(o16);
        o8 += ch.len_utf8();
        o16 += ch.len_utf16();
    }
    b8.push(o8);
    b16.push(o16);
    let to8 = |p: usize| b16.iter().position(|x| *x == p).map(|i| b8[i]);
    for (ki, &s8) in b8.iter().enumerate() {
        if !all_starts && ki > 1 && !rng.chance(1, 3) {
            continue;
        }
        *done += 1;
        let want = run_exec(opt, Exec::Bt, &hs, s8, 64).text;
        let label = format!("/{}/{} on {:?} from {}", pat, fs, hs, s8);
        rep.case(&label, !want.is_empty());
        let got16 = guarded(std::panic::AssertUnwindSafe(|| {
            let ms: Vec<regress::Match> = opt.find_from_utf16(&units, b16[ki]).take(64).collect();
            ms
        }));
        match got16 {
            Err(msg) => rep.violation("panic:C14", format!("find_from_utf16 panicked: {}", msg), label.clone()),
            Ok(ms) => {
                // translate offsets back
                let mut out = String::new();
                let mut ok = true;
                for (i, m) in ms.iter().enumerate() {
                    if i > 0 {
                        out.push(' ');
                    }
                    let tr = |r: &std::ops::Range<usize>| -> Option<std::ops::Range<usize>> { Some(to8(r.start)?..to8(r.end)?) };
                    match tr(&m.range) {
                        Some(r) => out.push_str(&format!("{}-{}", r.start, r.end)),
                        None => ok = false,
                    }
                    let caps: Vec<Option<std::ops::Range<usize>>> = m
                        .captures
                        .iter()
                        .map(|c| match c {
                            None => None,
                            Some(r) => match tr(r) {
                                Some(x) => Some(x),
                                None => {
                                    ok = false;
                                    None
                                }
                            },
                        })
                        .collect();
                    fmt_caps(&mut out, &caps);
                }
                if !ok {
                    rep.violation("impl-vs-spec:C14", "UTF-16 search reported a range inside a surrogate pair".into(), label.clone());
                } else if out != want && want != "fuel" {
                    rep.violation("impl-vs-impl:C14", format!("UTF-16 [{}] vs UTF-8 [{}]", out, want), label.clone());
                }
            }
        }
        // UCS-2 on BMP-only text and BMP-only pattern behaviour
        if h.iter().all(|c| *c < 0x10000) {
            rep.count("bmp-haystack");
            let got = guarded(std::panic::AssertUnwindSafe(|| {
                let ms: Vec<regress::Match> = opt.find_from_ucs2(&units, b16[ki]).take(64).collect();
                ms
            }));
            match got {
                Err(msg) => rep.violation("panic:C14", format!("find_from_ucs2 panicked: {}", msg), label.clone()),
                Ok(ms) => {
                    let mut out = String::new();
                    for (i, m) in ms.iter().enumerate() {
                        if i > 0 {
                            out.push(' ');
                        }
                        let tr = |r: &std::ops::Range<usize>| to8(r.start).unwrap_or(0)..to8(r.end).unwrap_or(0);
                        let r = tr(&m.range);
                        out.push_str(&format!("{}-{}", r.start, r.end));
                        let caps: Vec<Option<std::ops::Range<usize>>> = m.captures.iter().map(|c| c.as_ref().map(|r| tr(r))).collect();
                        fmt_caps(&mut out, &caps);
                    }
                    if out != want && want != "fuel" {
                        rep.violation("impl-vs-impl:C14", format!("UCS-2 [{}] vs UTF-8 [{}] on BMP text", out, want), label.clone());
                    }
                }
            }
        }
    }
}

#[cfg(feature = "utf16")]
pub fn c14(rep: &mut Report, n: usize, seed: u64) {
    let mut rng = Rng::new(seed);
    let cfg = GenCfg { max_depth: 3, ..GenCfg::default() };
    let mut done = 0;
    while done < n {
        let Some(c) = gen_case(&mut rng, &cfg, rep, None) else { continue };
        let hays = ast::haystacks(&c.node, c.flags, &mut rng, 5);
        for h in &hays {
            c14_compare(rep, &mut rng, &c.opt, &c.pat, &c.flags.to_string(), h, false, &mut done);
        }
        // the UTF-16 IR semantics model (Sem16) against the utf16 build, on well-formed and on arbitrary units
        {
            let cps: Vec<u32> = c.pat.chars().map(|ch| ch as u32).collect();
            let fs = c.flags.to_string();
            if let Ok(ir) = regress::verif::dump_ir_canon(cps.iter().copied(), make_flags(&fs, false)) {
                let ir = ir.replace(' ', "~");
                let mut unit_sets: Vec<Vec<u16>> = hays.iter().take(2).map(|h| ast::to_string(h).encode_utf16().collect()).collect();
                let l = rng.below(6);
                unit_sets.push((0..l).map(|_| *rng.pick(&[0xD83Du16, 0xDE00, 0x41, 0x61, 0x6B, 0x212A, 0xD801, 0xDC28])).collect());
                for units in unit_sets.iter() {
                    let start = rng.below(units.len() + 1);
                    for ucs2 in [false, true] {
                        regress::verif::fuel::reset(1_000_000);
                        let r = guarded(std::panic::AssertUnwindSafe(|| if ucs2 { c.opt.find_from_ucs2(units, start).next() } else { c.opt.find_from_utf16(units, start).next() }));
                        let (_, _, exhausted) = regress::verif::fuel::report();
                        regress::verif::fuel::reset(u64::MAX);
                        let reply = match r {
                            Err(_) => "panic".to_string(),
                            Ok(_) if exhausted => "fuel".to_string(),
                            Ok(None) => "none".to_string(),
                            Ok(Some(m)) => format!("m {}", fmt_matches(&[m])),
                        };
                        let hex = if units.is_empty() { "-".to_string() } else { units.iter().map(|u| format!("{:04x}", u)).collect::<String>() };
                        rep.tie(format!("{} {} {} {} {}", if ucs2 { "semfind16ucs2" } else { "semfind16" }, c.flags.to_token(), ir, hex, start), reply);
                    }
                }
            }
        }
        // arbitrary u16 input incl. lone surrogates: no panic, ranges within the slice
        for _ in 0..4 {
            let l = rng.below(8);
            let units: Vec<u16> = (0..l)
                .map(|_| match rng.below(6) {
                    0 => 0xD800 + rng.below(0x400) as u16,
                    1 => 0xDC00 + rng.below(0x400) as u16,
                    2 => 0xD83D,
                    3 => 0xDE00,
                    _ => *rng.pick(&[0x61u16, 0x62, 0x41, 0x6B, 0x212A, 0x17F, 0xE9, 0x0A, 0x30]),
                })
                .collect();
            for start in 0..=units.len() + 1 {
                done += 1;
                rep.count("arbitrary-u16");
                let label = format!("/{}/{} on u16 {:x?} from {}", c.pat, c.flags.to_string(), units, start);
                rep.case(&label, true);
                for ucs2 in [false, true] {
                    let r = guarded(std::panic::AssertUnwindSafe(|| {
                        let ms: Vec<regress::Match> =
                            if ucs2 { c.opt.find_from_ucs2(&units, start).take(64).collect() } else { c.opt.find_from_utf16(&units, start).take(64).collect() };
                        ms
                    }));
                    match r {
                        Err(msg) => rep.violation("panic:C14", format!("{} panicked: {}", if ucs2 { "find_from_ucs2" } else { "find_from_utf16" }, msg), label.clone()),
                        Ok(ms) => {
                            for m in ms {
                                let bad = |r: &std::ops::Range<usize>| !(r.start <= r.end && r.end <= units.len());
                                if bad(&m.range) || m.captures.iter().flatten().any(|r| bad(r)) {
                                    rep.violation("impl-vs-spec:C14", "range outside the u16 slice".into(), label.clone());
                                }
                            }
                        }
                    }
                }
            }
        }
    }

    // ill-formed UTF-16 around back-references and one-character loops: every unit array up to length 5 over
    // {lead surrogate, trail surrogate, 'A'}, every start: no panic, termination within a step budget,
    // ranges inside the slice and never between the halves of a pair
    let mut arrays: Vec<Vec<u16>> = vec![vec![]];
    let mut cur: Vec<Vec<u16>> = vec![vec![]];
    for _ in 0..5 {
        let mut nxt = vec![];
        for p in &cur {
            for u in [0xD83Du16, 0xDE00, 0x41] {
                let mut q = p.clone();
                q.push(u);
                nxt.push(q);
            }
        }
        arrays.extend(nxt.iter().cloned());
        cur = nxt;
    }
    for pat in ["(.)A\\1.*X", "(.)\\1+", "(?:(.)A\\1.*)*Z", "(..)\\1", "(.)(?<=\\1.)", "(.).*\\1", "(?<=(.))A\\1*", "(.)\\1.*?$", "(?:(.)\\1?)+A", "(.)A(?!\\1.)"] {
        for fs in ["", "u", "i", "iu"] {
            let Ok(re) = compile(pat, fs, false) else { continue };
            let ir16 = regress::verif::dump_ir_canon(pat.chars().map(|ch| ch as u32), make_flags(fs, false)).ok().map(|s| s.replace(' ', "~"));
            for units in arrays.iter() {
                for start in 0..=units.len() {
                    for ucs2 in [false, true] {
                        done += 1;
                        rep.count("illformed-u16");
                        // the UTF-16 semantics model answers the same question (a third of the family)
                        if let (Some(ir), true) = (&ir16, (units.len() + start) % 3 == 0) {
                            regress::verif::fuel::reset(1_000_000);
                            let r = guarded(std::panic::AssertUnwindSafe(|| if ucs2 { re.find_from_ucs2(units, start).next() } else { re.find_from_utf16(units, start).next() }));
                            let (_, _, ex) = regress::verif::fuel::report();
                            regress::verif::fuel::reset(u64::MAX);
                            let reply = match r {
                                Err(_) => "panic".to_string(),
                                Ok(_) if ex => "fuel".to_string(),
                                Ok(None) => "none".to_string(),
                                Ok(Some(m)) => format!("m {}", fmt_matches(&[m])),
                            };
                            let hex = if units.is_empty() { "-".to_string() } else { units.iter().map(|u| format!("{:04x}", u)).collect::<String>() };
                            rep.tie(format!("{} {} {} {} {}", if ucs2 { "semfind16ucs2" } else { "semfind16" }, if fs.is_empty() { "-" } else { fs }, ir, hex, start), reply);
                        }
                        let label = format!("/{}/{} on u16 {:x?} from {} ({})", pat, fs, units, start, if ucs2 { "ucs2" } else { "utf16" });
                        regress::verif::fuel::reset(1_000_000);
                        let r = guarded(std::panic::AssertUnwindSafe(|| {
                            let ms: Vec<regress::Match> = if ucs2 { re.find_from_ucs2(units, start).take(16).collect() } else { re.find_from_utf16(units, start).take(16).collect() };
                            ms
                        }));
                        let (_, _, exhausted) = regress::verif::fuel::report();
                        regress::verif::fuel::reset(u64::MAX);
                        rep.case(&label, true);
                        if exhausted {
                            rep.violation("impl-vs-spec:C14", "search did not finish within 1 000 000 steps".into(), label.clone());
                        }
                        match r {
                            Err(msg) => rep.violation("panic:C14", format!("search panicked: {}", msg), label.clone()),
                            Ok(ms) => {
                                for m in ms {
                                    let split = |p: usize| !ucs2 && p > 0 && p < units.len() && (0xD800..0xDC00).contains(&units[p - 1]) && (0xDC00..0xE000).contains(&units[p]);
                                    let bad = |r: &std::ops::Range<usize>| !(r.start <= r.end && r.end <= units.len()) || split(r.start) || split(r.end);
                                    if bad(&m.range) || m.captures.iter().flatten().any(|r| bad(r)) {
                                        rep.violation("impl-vs-spec:C14", format!("range {:?} / captures {:?} outside the slice or inside a surrogate pair", m.range, m.captures), label.clone());
                                    }
                                }
                            }
                        }
                    }
                }
            }
        }
    }
    // the edges of the surrogate blocks: well-formed text over the code points next to them (every string up to
    // length 3), under patterns that walk LEFTWARDS over the text (lookbehind, loops that give back a character),
    // string search vs UTF-16 search; and every unit array up to length 3 over the block edges against the
    // UTF-16 semantics model
    {
        let edge_cps: [u32; 9] = [0x41, 0xD7FF, 0xE000, 0xE001, 0xFFFF, 0x10000, 0x103FF, 0x10400, 0x10FFFF];
        let mut texts: Vec<Vec<u32>> = vec![vec![]];
        let mut cur: Vec<Vec<u32>> = vec![vec![]];
        for _ in 0..3 {
            let mut nxt = vec![];
            for p in &cur {
                for c in edge_cps {
                    let mut q = p.clone();
                    q.push(c);
                    nxt.push(q);
                }
            }
            texts.extend(nxt.iter().cloned());
            cur = nxt;
        }
        let edge_pats = ["(?<=(.))$", "^(.*)(.)$", "(?<=\\u{E000})$", "(.+)(.)$", "(?<!\\p{Co})$", "(?<=(..))$", "(.)\\1$", "(?<=[\\u{10000}-\\u{10FFFF}])[^A]", "\\B.$", "(?<=^.*?)(.)"];
        for pat in edge_pats {
            for fs in ["su", "isu", "sv"] {
                let Ok(re) = compile(pat, fs, false) else { continue };
                for h in texts.iter() {
                    rep.count("surrogate-edge-text");
                    c14_compare(rep, &mut rng, &re, pat, fs, h, true, &mut done);
                }
            }
        }
        let edge_units: [u16; 8] = [0x41, 0xD7FF, 0xD800, 0xDBFF, 0xDC00, 0xDFFF, 0xE000, 0xFFFF];
        let mut arrays: Vec<Vec<u16>> = vec![vec![]];
        let mut cur: Vec<Vec<u16>> = vec![vec![]];
        for _ in 0..3 {
            let mut nxt = vec![];
            for p in &cur {
                for u in edge_units {
                    let mut q = p.clone();
                    q.push(u);
                    nxt.push(q);
                }
            }
            arrays.extend(nxt.iter().cloned());
            cur = nxt;
        }
        for pat in ["(?<=(.))$", "^(.*)(.)$", "(.)(?<=\\1)$", "(?<!.)(.)|(?<=(.)).$"] {
            for fs in ["su", "s"] {
                let Ok(re) = compile(pat, fs, false) else { continue };
                let Ok(ir) = regress::verif::dump_ir_canon(pat.chars().map(|ch| ch as u32), make_flags(fs, false)) else { continue };
                let ir = ir.replace(' ', "~");
                for units in arrays.iter() {
                    for ucs2 in [false, true] {
                        rep.count("surrogate-edge-units");
                        done += 1;
                        regress::verif::fuel::reset(1_000_000);
                        let r = guarded(std::panic::AssertUnwindSafe(|| if ucs2 { re.find_from_ucs2(units, 0).next() } else { re.find_from_utf16(units, 0).next() }));
                        let (_, _, ex) = regress::verif::fuel::report();
                        regress::verif::fuel::reset(u64::MAX);
                        let reply = match r {
                            Err(_) => "panic".to_string(),
                            Ok(_) if ex => "fuel".to_string(),
                            Ok(None) => "none".to_string(),
                            Ok(Some(m)) => format!("m {}", fmt_matches(&[m])),
                        };
                        let hex = if units.is_empty() { "-".to_string() } else { units.iter().map(|u| format!("{:04x}", u)).collect::<String>() };
                        rep.tie(format!("{} {} {} {} 0", if ucs2 { "semfind16ucs2" } else { "semfind16" }, fs, ir, hex), reply);
                    }
                }
            }
        }
    }
    // case-insensitive back-references over characters whose case partners differ in encoded length or
    // fold differently under the legacy and the Unicode relation, through all three entry points
    let classes: &[&[u32]] = &[
        &['s' as u32, 'S' as u32, 0x17F], &['k' as u32, 'K' as u32, 0x212A], &[0xDF, 0x1E9E], &[0x3C9, 0x3A9, 0x2126], &[0xE5, 0xC5, 0x212B],
        &['i' as u32, 'I' as u32, 0x130, 0x131], &[0x10400, 0x10428], &[0xFF, 0x178], &[0xB5, 0x39C, 0x3BC],
    ];
    for class in classes {
        for &a in class.iter() {
            let a = char::from_u32(a).unwrap();
            for pat in [format!("({})\\1", a), format!("^({})\\1$", a), format!("[{}]{{2}}", a), format!("(?<=\\1({}))$", a)] {
                for fs in ["i", "iu", "iv", "u"] {
                    let Ok(re) = compile(&pat, fs, false) else { continue };
                    for &x in class.iter() {
                        for &y in class.iter() {
                            let h: Vec<u32> = vec!['x' as u32, x, y, 'y' as u32];
                            c14_compare(rep, &mut rng, &re, &pat, fs, &h, true, &mut done);
                        }
                    }
                }
            }
        }
    }
}
