//! C07 (compilation is total) and C08 (accepted language = ES grammar): malformed / mutated /
//! exhaustive short pattern streams, and adversarially large patterns in a worker process.

use crate::ast::{self, Flags, Gen, GenCfg};
use crate::report::Report;
use crate::rng::Rng;
use crate::util::*;

pub const SYNTAX_ALPHABET: &[char] = &[
    '(', ')', '[', ']', '{', '}', '|', '?', '*', '+', '^', '$', '\\', '.', '-', ',', '<', '>', '=', '!', ':', '&', 'a', 'k', '1', '0', 'p', 'q', 'u',
    'x', 'c', 'b', 'B', 'd', 'w', 'P', '2', '9', '_', 'n', 'i', 's', 'm', 'v', 'L', 'é', '\u{1F600}', '\u{17F}', 'D', 'W', 'S', 'f', '~', '#', '%', '@',
];

/// The small core used for exhaustive enumeration.
pub const CORE_SYNTAX: &[char] = &['(', ')', '[', ']', '{', '}', '|', '?', '*', '+', '^', '$', '\\', '.', '-', ',', '<', '>', '=', '!', ':', 'a', 'k', '1', 'b'];

fn classify(pat: &[u32], flags: &str) -> (String, Option<String>) {
    // (outcome, canonical IR if ok)
    let r = guarded(|| regress::verif::dump_ir_canon(pat.iter().copied(), make_flags(flags, true)));
    match r {
        Err(m) => (format!("panic {}", m), None),
        Ok(Err(_)) => ("err".into(), None),
        Ok(Ok(ir)) => {
            // the rest of the pipeline must not panic either
            let full = guarded(|| compile_cps(pat, flags, false).map(|_| ()).is_ok());
            match full {
                Err(m) => (format!("panic {}", m), None),
                Ok(_) => ("ok".into(), Some(ir)),
            }
        }
    }
}

fn emit_case(rep: &mut Report, pat: &[u32], flags: &str, want_valid: Option<bool>, origin: &str, focus: &str) {
    let (out, ir) = classify(pat, flags);
    let ftok = if flags.is_empty() { "-" } else { flags };
    let label = format!("/{}/{} [{}]", ast::to_string(pat), flags, ast::cps_hex(pat));
    rep.case(&label, out == "ok");
    rep.count(&format!("{}:{}", origin, if out.starts_with("panic") { "panic" } else { &out }));
    if out.starts_with("panic") {
        rep.violation("panic:C07", format!("compilation panicked: {}", out), label.clone());
    }
    // parser model tie: accept/reject and the IR itself
    rep.tie(
        format!("parse {} {}", ftok, ast::cps_hex(pat)),
        match &ir {
            Some(ir) => format!("ok {}", ir),
            None => {
                if out.starts_with("panic") {
                    "panic".into()
                } else {
                    "err".into()
                }
            }
        },
    );
    // specification: the ES grammar recognizer
    if focus == "C08" {
        rep.tie(format!("esvalid {} {}", ftok, ast::cps_hex(pat)), if out == "ok" { "valid".into() } else { "invalid".into() });
    }
    if let Some(v) = want_valid {
        if v && out == "err" {
            rep.violation("impl-vs-spec:C08", format!("valid pattern rejected ({})", origin), label);
        }
    }
}

/// Property expressions assembled from names, values and `=` signs: `\\p{t1=t2=…}` with 0..3 `=`.
/// Only `Name=Value` and `LoneName` are in the grammar; everything with two or more `=` is a syntax error.
pub const PROP_TOKENS: &[&str] = &[
    "gc", "sc", "scx", "General_Category", "Script", "Script_Extensions", "Lu", "L", "Greek", "Latin", "", "Any", "ASCII",
];

pub fn prop_expr_family(rep: &mut Report, focus: &str, n: usize, rng: &mut Rng) {
    for _ in 0..n {
        let k = 1 + rng.below(4);
        let body: Vec<&str> = (0..k).map(|_| *rng.pick(PROP_TOKENS)).collect();
        let esc = if rng.chance(1, 4) { "\\P" } else { "\\p" };
        let core = format!("{}{{{}}}", esc, body.join("="));
        let pat = match rng.below(4) {
            0 => format!("[{}]", core),
            1 => format!("a{}+", core),
            _ => core,
        };
        let cps: Vec<u32> = pat.chars().map(|c| c as u32).collect();
        let fs = *rng.pick(&["u", "v", "iu", "", "v"]);
        emit_case(rep, &cps, fs, None, "propexpr", focus);
    }
}

fn mode_flags() -> Vec<&'static str> {
    vec!["", "u", "v", "i", "iu", "iv"]
}

/// C08 / C07 stream. `exhaustive_len`: all strings up to that length over CORE_SYNTAX.
pub fn syntax(rep: &mut Report, focus: &str, n: usize, seed: u64, thorough: bool) {
    let mut rng = Rng::new(seed);
    prop_expr_family(rep, focus, (n / 40).max(300), &mut rng);
    // (1) exhaustive short strings
    let maxlen = if thorough { 4 } else { 3 };
    let mut cur: Vec<Vec<u32>> = vec![vec![]];
    let mut all: Vec<Vec<u32>> = vec![vec![]];
    for _ in 0..maxlen {
        let mut nxt = vec![];
        for p in &cur {
            for &c in CORE_SYNTAX {
                let mut q = p.clone();
                q.push(c as u32);
                nxt.push(q);
            }
        }
        all.extend(nxt.iter().cloned());
        cur = nxt;
    }
    for p in &all {
        for f in ["", "u", "v"] {
            emit_case(rep, p, f, None, "exhaustive", focus);
        }
    }
    // (2) generated valid patterns (must be accepted) and single-token mutations of them
    let cfg = GenCfg { max_depth: 3, ..GenCfg::default() };
    let mut done = 0;
    while done < n {
        let flags = Flags::random(&mut rng);
        let node = Gen::new(&mut rng, flags, &cfg).pattern();
        let pat: Vec<u32> = ast::pattern_string(&node, flags).chars().map(|c| c as u32).collect();
        let fs = flags.to_string();
        emit_case(rep, &pat, &fs, Some(true), "generated-valid", focus);
        done += 1;
        for _ in 0..3 {
            let mut q = pat.clone();
            if q.is_empty() {
                continue;
            }
            let i = rng.below(q.len());
            match rng.below(5) {
                4 => {
                    // a multi-character fragment: constructs whose validity depends on where they stand
                    const FRAGMENTS: &[&str] = &[
                        "\\u{3e}", "\\u003E", "\\u{+41}", "\\u{110000}", "\\k<a>", "(?<a>", "(?<a\\u{62}>", "(?i-i:", "(?-:", "(?ii:", "\\08", "\\00", "{,1}", "{1,0}",
                        "{2}", "\\p{Lu}", "\\p{sc=gc=Lu}", "\\p{gc=Lu=Lu}", "\\P{Script=Script_Extensions=Latin}", "\\p{gc=Lu}", "\\p{=Lu}", "\\p{Lu=}", "\\P{RGI_Emoji}", "\\p{RGI_Emoji}", "[^", "&&", "--", "\\q{", "\\c1", "\\x4", "(?<=", "(?<!", "\\b", "\\B", "\\-",
                        "\\uD83D", "\\uDE00", "\\1", "\\9", "(?:", "?", "*?", "]", "}", "[]", "[^]", "\\d-a", "a-\\d",
                    ];
                    let frag: Vec<u32> = rng.pick(FRAGMENTS).chars().map(|c| c as u32).collect();
                    for (k, c) in frag.into_iter().enumerate() {
                        q.insert(i + k, c);
                    }
                }
                0 => {
                    q.remove(i);
                }
                1 => q.insert(i, *rng.pick(SYNTAX_ALPHABET) as u32),
                2 => {
                    let j = rng.below(q.len());
                    q.swap(i, j)
                }
                _ => q[i] = *rng.pick(SYNTAX_ALPHABET) as u32,
            }
            emit_case(rep, &q, &fs, None, "mutated", focus);
            done += 1;
        }
        // (3) random strings over the syntax alphabet, incl. surrogate code points
        let l = rng.range(1, 10);
        let mut r: Vec<u32> = (0..l).map(|_| *rng.pick(SYNTAX_ALPHABET) as u32).collect();
        if rng.chance(1, 10) {
            let i = rng.below(r.len());
            r[i] = *rng.pick(&[0xD800u32, 0xDBFF, 0xDC00, 0xDFFF, 0x10FFFF, 0]);
        }
        emit_case(rep, &r, *rng.pick(&mode_flags()), None, "random-syntax", focus);
        done += 1;
    }
}

/// One adversarially large pattern, compiled (and searched once) in THIS process: run as a
/// child so that an abort (stack overflow) or a hang is an observation.
/// Every nesting construct at depth n (around the optimizer's and the parser's depth limits) under every
/// quantifier shape: acceptance must not depend on the optimizer, and nothing may panic.
fn nestquant(n: usize) {
    let nests: [(&str, &str, &str); 7] = [
        ("(?=", "a", ")"), ("(?!", "a", ")"), ("(?<=", "a", ")"), ("(?:a|", "b", ")"), ("(?:", "a", ")"), ("(?i:", "a", ")"), ("(?:(?=", "a", "))"),
    ];
    let quants = ["+", "{2}", "{1,3}", "{5}", "{2,}?", "*", "{6}", "?", "{0,2}", "{3,}"];
    let mut count = 0;
    for (open, core, close) in nests {
        for q in quants {
            for wrap in [false, true] {
                let inner = format!("{}{}{}", open.repeat(n), core, close.repeat(n));
                let pat = if wrap { format!("(?:{}){}", inner, q) } else { format!("{}{}", inner, q) };
                let a = regress::Regex::with_flags(&pat, "").is_ok();
                let b = regress::Regex::with_flags(&pat, regress::Flags { no_opt: true, ..Default::default() }).is_ok();
                if a != b {
                    println!("mismatch optimized={} no_opt={} {}x{} {}", a, b, open, n, q);
                    return;
                }
                if a {
                    count += 1;
                }
            }
        }
    }
    println!("ok {}", count);
}

pub fn big(kind: &str, n: usize) {
    if kind == "nestquant" {
        return nestquant(n);
    }
    let pat: String = match kind {
        "alt" => vec!["a"; n].join("|"),
        "altgroups" => vec!["(a)"; n].join("|"),
        "nest" => format!("{}a{}", "(".repeat(n), ")".repeat(n)),
        "ncnest" => format!("{}a{}", "(?:".repeat(n), ")".repeat(n)),
        "looknest" => format!("{}a{}", "(?=".repeat(n), ")".repeat(n)),
        "lookbehindnest" => format!("{}a{}", "(?<=".repeat(n), ")".repeat(n)),
        "groups" => "()".repeat(n),
        "loops" => "a*".repeat(n),
        "quantnest" => format!("{}a{}", "(?:".repeat(n), ")*".repeat(n)),
        "count" => format!("a{{{}}}", "9".repeat(n)),
        "countrange" => format!("a{{1,{}}}", "9".repeat(n)),
        "literal" => "a".repeat(n),
        "literalmb" => "€".repeat(n),
        "classranges" => format!("[{}]", "a-b".repeat(n)),
        "classnest" => format!("{}a{}", "[".repeat(n), "]".repeat(n)),
        "qstrings" => format!("[\\q{{{}}}]", vec!["ab"; n].join("|")),
        "backrefs" => format!("(a){}", "\\1".repeat(n)),
        "named" => (0..n).map(|i| format!("(?<n{}>a)", i)).collect::<Vec<_>>().join(""),
        "dupnamed" => (0..n).map(|_| "(?<n>a)".to_string()).collect::<Vec<_>>().join("|"),
        "catnest" => format!("{}{}", "(?:a".repeat(n), ")".repeat(n)),
        // counted loops nested n deep around a literal: the optimizer may unroll each level once, not re-unroll what it merged
        // many SIBLINGS of every nesting construct: depth counters must come back down
        "sibgroups" => "(a)".repeat(n),
        "sibnc" => "(?:a)".repeat(n),
        "siblook" => "(?=a)(?<!b)".repeat(n),
        "sibclass" => "[a]".repeat(n),
        "sibvclass" => format!("[{}]", "[a]".repeat(n)),
        "sibvnclass" => format!("[{}]", "[^b]".repeat(n)),
        "sibvclasstop" => "[[a]][^[^b]]".repeat(n),
        "sibquant" => "(?:a)*".repeat(n),
        "sibmod" => "(?i:a)".repeat(n),
        "countnest" => format!("{}a{{5}}{}", "(?:".repeat(n), "){5}".repeat(n)),
        "countnest2" => format!("{}ab{{2,3}}{}", "(?:".repeat(n), "){2}".repeat(n)),
        "altnest" => format!("{}a{}", "(?:b|".repeat(n), ")".repeat(n)),
        // the same name in two DIFFERENT groups (both can participate: early error) with n groups in between: the
        // enclosing-group ordinals of the duplicate-name pre-scan must not alias (e.g. modulo 2^16)
        "dupwrap" => format!("(?:(?<a>x)|y){}(?:y|(?<a>x))", "(?:)".repeat(n)),
        "dupwraplook" => format!("(?:(?<a>x)|y){}(?:y|(?<a>x))", "(?=)".repeat(n)),
        // control: the same name in two alternatives of ONE group, n groups inside the second alternative: valid
        "dupwrapok" => format!("(?:(?<a>x)|{}(?<a>y))", "(?:)".repeat(n)),
        _ => panic!("unknown kind"),
    };
    let flags = if kind == "classnest" || kind == "qstrings" || kind.starts_with("sibv") { "v" } else { "" };
    let r = regress::Regex::with_flags(&pat, flags);
    match r {
        Ok(re) => {
            let m = re.find("aaaa").is_some();
            println!("ok {}", m as u8);
            // dropping the regex must not overflow the stack either
            drop(re);
        }
        Err(_) => println!("err"),
    }
}
