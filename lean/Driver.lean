import RegressModel
def main : IO Unit := IO.println "ok"
