import RegressModel
import Proofs.Lemmas.SafetyBt
import Proofs.Lemmas.TerminationBt
/-!
# Line-protocol driver

Reads one request per line on stdin, answers one line per request on stdout, by *running the model*.
The harness (`/verif/harness`) sends the same requests to the real implementation; the two reply
streams are diffed by `verif.py`.  Anything the driver cannot parse is answered `bad-request`
(never a default value).
-/
open Regress

namespace Drv

def hexVal (c : Char) : Option Nat :=
  if '0' ≤ c ∧ c ≤ '9' then some (c.toNat - '0'.toNat)
  else if 'a' ≤ c ∧ c ≤ 'f' then some (c.toNat - 'a'.toNat + 10)
  else if 'A' ≤ c ∧ c ≤ 'F' then some (c.toNat - 'A'.toNat + 10)
  else none

def parseHex (s : String) : Option Nat :=
  if s.isEmpty then none
  else s.toList.foldl (fun acc c => match acc, hexVal c with
    | some a, some v => some (a * 16 + v)
    | _, _ => none) (some 0)

def toHex (n : Nat) : String := String.ofList (Nat.toDigits 16 n)

def allSome {α} : List (Option α) → Option (List α)
  | [] => some []
  | none :: _ => none
  | some x :: xs => (allSome xs).map (x :: ·)

/-- `a-b,c-d` (hex) or `-`. -/
def parseIvs (s : String) : Option (List (Nat × Nat)) :=
  if s == "-" then some []
  else allSome <| (s.splitOn ",").map fun p =>
    match p.splitOn "-" with
    | [a, b] => match parseHex a, parseHex b with
      | some x, some y => some (x, y)
      | _, _ => none
    | _ => none

def showIvs (l : List (Nat × Nat)) : String :=
  if l.isEmpty then "-" else ",".intercalate (l.map fun iv => s!"{toHex iv.1}-{toHex iv.2}")

def toCps (l : List (Nat × Nat)) : CPS.IvList := l.map fun iv => { first := iv.1, last := iv.2 }
def ofCps (l : CPS.IvList) : List (Nat × Nat) := l.map fun iv => (iv.first, iv.last)

/-- code points `hex.hex…` or `-`. -/
def parseCps (s : String) : Option (List Nat) :=
  if s == "-" then some [] else allSome ((s.splitOn ".").map parseHex)

/-- bytes as two-digit hex, concatenated, or `-`. -/
def parseBytes (s : String) : Option (List Nat) :=
  if s == "-" then some []
  else
    let rec go : List Char → Option (List Nat)
      | [] => some []
      | [_] => none
      | a :: b :: rest => match hexVal a, hexVal b, go rest with
        | some x, some y, some r => some ((x * 16 + y) :: r)
        | _, _, _ => none
    go s.toList

def showBytes (l : List Nat) : String :=
  if l.isEmpty then "-" else String.ofList (l.flatMap fun b =>
    let d := Nat.toDigits 16 b
    if d.length == 1 then '0' :: d else d)

/-- `a-b` or `_`. -/
def parseRange (s : String) : Option (Option (Nat × Nat)) :=
  if s == "_" then some none
  else match s.splitOn "-" with
    | [a, b] => match a.toNat?, b.toNat? with
      | some x, some y => some (some (x, y))
      | _, _ => none
    | _ => none

def showRange : Option (Nat × Nat) → String
  | none => "_"
  | some (a, b) => s!"{a}-{b}"

/-- `[c;c;…]` -/
def parseCaps (s : String) : Option Api.Caps :=
  if !(s.startsWith "[" && s.endsWith "]") then none
  else
    let inner := (s.drop 1).dropEnd 1
    if inner.isEmpty then some [] else allSome ((inner.toString.splitOn ";").map parseRange)

def showCaps (c : Api.Caps) : String := "[" ++ ";".intercalate (c.map showRange) ++ "]"

def showMatch (m : Api.MatchR) : String := s!"{m.range.1}-{m.range.2}{showCaps m.captures}"

/-- `s-e[caps]` -/
def parseMatch (names : List (List Nat)) (s : String) : Option Api.MatchR :=
  match s.splitOn "[" with
  | [r, c] => match parseRange r, parseCaps ("[" ++ c) with
    | some (some rg), some caps => some { range := rg, captures := caps, names := names }
    | _, _ => none
  | _ => none

/-- names token of the program dump: `-` or `n,n,…` with `n` = `-` or `hex.hex` -/
def parseNames (s : String) : Option (List (List Nat)) :=
  if s == "-" then some [] else allSome ((s.splitOn ",").map parseCps)

def showName (n : List Nat) : String :=
  if n.isEmpty then "-" else ".".intercalate (n.map toHex)

-- ---------------------------------------------------------------- ops

def opProp (args : List String) : String :=
  match args with
  | [k, nm] =>
    match k.toNat?, parseHex nm with
    | some kind, some name =>
      match Props.resolve kind name with
      | none => "none"
      | some (p, l) => "cc " ++ showIvs (Packed.decode l p)
    | _, _ => "bad-request"
  | _ => "bad-request"

def opCps (args : List String) : String :=
  match args with
  | ["add", s, iv] => match parseIvs s, parseIvs iv with
    | some s, some [iv] => showIvs (ofCps (CPS.add (toCps s) { first := iv.1, last := iv.2 }))
    | _, _ => "bad-request"
  | ["addset", s, t] => match parseIvs s, parseIvs t with
    | some s, some t => showIvs (ofCps (CPS.addSet (toCps s) (toCps t)))
    | _, _ => "bad-request"
  | ["inv", s] => match parseIvs s with
    | some s => showIvs (ofCps (CPS.inverted (toCps s)))
    | _ => "bad-request"
  | ["invcount", s] => match parseIvs s with
    | some s => toString (CPS.invertedIntervalCount (toCps s))
    | _ => "bad-request"
  | ["remove", s, t] => match parseIvs s, parseIvs t with
    | some s, some t => showIvs (ofCps (CPS.remove (toCps s) (toCps t)))
    | _, _ => "bad-request"
  | ["inter", s, t] => match parseIvs s, parseIvs t with
    | some s, some t => showIvs (ofCps (CPS.intersect (toCps s) (toCps t)))
    | _, _ => "bad-request"
  | ["addicase", s] => match parseIvs s with
    | some s => showIvs (ofCps (Fold.addIcaseCodePoints (toCps s)))
    | _ => "bad-request"
  | ["contains", s, c] => match parseIvs s, parseHex c with
    | some s, some c =>
      -- the faithful binary search must agree with the linear model (and never index out of bounds)
      match CPS.containsBin (toCps s) c with
      | some b => if b == CPS.contains (toCps s) c then (if b then "1" else "0") else "model-inconsistent"
      | none => "error"
    | _, _ => "bad-request"
  | _ => "bad-request"

/-- attempt table entry `p:e:[caps]` or `p:x` -/
def parseAttempt (s : String) : Option (Nat × Option (Nat × Api.Caps)) :=
  match s.splitOn ":" with
  | [p, "x"] => p.toNat?.map fun p => (p, none)
  | [p, e, c] => match p.toNat?, e.toNat?, parseCaps c with
    | some p, some e, some c => some (p, some (e, c))
    | _, _, _ => none
  | _ => none

def opIter (args : List String) : String :=
  match args with
  | [kind, start, len, bounds, att] =>
    let k : Option Api.Kind := match kind with
      | "prefix" => some .btPrefix
      | "anchored" => some .btAnchored
      | "pike" => some (.pike false)
      | "pikeanch" => some (.pike true)
      | _ => none
    match k, start.toNat?, len.toNat?, allSome ((bounds.splitOn ",").map String.toNat?),
          allSome ((att.splitOn ",").map parseAttempt) with
    | some k, some start, some len, some bounds, some att =>
      let env : Api.SearchEnv :=
        { len := len
          attempt := fun p => match att.find? (·.1 == p) with
            | some (_, r) => r
            | none => none
          nextRightPos := fun p => if p ≥ len then none else bounds.find? (· > p)
          findBytes := some }
      -- `find_from` with a start that is not a boundary panics; the harness only sends boundaries
      let it0 := Api.Matches.new env start
      let rec drain (fuel : Nat) (it : Api.Matches) (acc : List Api.MatchR) : List Api.MatchR × Api.Matches :=
        match fuel with
        | 0 => (acc.reverse, it)
        | f+1 => match it.next env k with
          | (none, it') => (acc.reverse, it')
          | (some m, it') => drain f it' (m :: acc)
      let (ms, it1) := drain (len + 3) it0 []
      let (r1, it2) := it1.next env k
      let (r2, it3) := it2.next env k
      let (r3, _) := it3.next env k
      let sh (r : Option Api.MatchR) := if r.isSome then "some" else "none"
      " ".intercalate (ms.map showMatch) ++ s!" | {sh r1} {sh r2} {sh r3}"
    | _, _, _, _, _ => "bad-request"
  | _ => "bad-request"

def opAccess (args : List String) : String :=
  match args with
  | [names, range, caps, qs] =>
    match parseNames names, parseRange range, parseCaps caps, allSome ((qs.splitOn ",").map parseCps) with
    | some names, some (some rg), some caps, some qs =>
      let m : Api.MatchR := { range := rg, captures := caps, names := names }
      let g := ",".intercalate ((List.range (caps.length + 2)).map fun i => showRange (m.group i))
      -- groups() with the size hint observed before each next()
      let rec gs (fuel : Nat) (it : Api.Groups) (acc : List String) : List String :=
        match fuel with
        | 0 => acc.reverse
        | f+1 => match it.next m with
          | (none, _) => acc.reverse
          | (some x, it') => gs f it' (s!"{showRange x}/{it.sizeHint}" :: acc)
      let gsS := ",".intercalate (gs (caps.length + 3) (Api.Groups.new m) [])
      let ng := ",".intercalate (qs.map fun q => showRange (m.namedGroup q))
      match m.namedGroups with
      | .error () => "error"
      | .ok l =>
        let ngs := if l.isEmpty then "-" else ",".intercalate (l.map fun p => s!"{showName p.1}={showRange p.2}")
        s!"g:{g} gs:{gsS} ng:{ng} ngs:{ngs}"
    | _, _, _, _ => "bad-request"
  | _ => "bad-request"

def opReplace (args : List String) : String :=
  match args with
  | [kind, names, text, ms, tmpl] =>
    match parseNames names, parseBytes text,
          (if ms == "-" then some [] else
            match parseNames names with
            | some nm => allSome ((ms.splitOn ",").map (parseMatch nm))
            | none => none),
          parseCps tmpl with
    | some _, some text, some ms, some tmpl =>
      let f (m : Api.MatchR) : List Nat := [0x3C] ++ Api.slice text m.range.1 m.range.2 ++ [0x3E]
      match kind with
      | "one" => showBytes (Api.replace text ms tmpl)
      | "all" => showBytes (Api.replaceAll text ms tmpl)
      | "onewith" => showBytes (Api.replaceWith text ms f)
      | "allwith" => showBytes (Api.replaceAllWith text ms f)
      | _ => "bad-request"
    | _, _, _, _ => "bad-request"
  | _ => "bad-request"

def opEscape (args : List String) : String :=
  match args with
  | [s] => match parseCps s with
    | some cps => showBytes (Api.escape cps)
    | none => "bad-request"
  | _ => "bad-request"

def opRunProg (args : List String) : String :=
  match args with
  | [exec, kind, prog, hay, start] =>
    match start.toNat? with
    | some st =>
      let r := VM.runProgLine exec kind prog hay st 3200000
      -- a reported well-formedness failure of the dumped program is part of the answer
      -- the decidable hypotheses of the C06 safety theorems, evaluated on the dumped program:
      -- wfProg, the boundary certificate, look-around confinement, the capture-ordering certificate
      match VM.parseProg prog with
      | .ok p =>
        if !VM.wfProg p then "not-wf " ++ r
        else if !(VM.Safety.checkCert p (VM.Safety.mkCert p)) then "no-boundary-cert " ++ r
        else if !(VM.Bt.lookConfined p) then "not-look-confined " ++ r
        else if !(VM.Safety.checkOrd p (VM.Safety.mkOrd p)) then "no-order-cert " ++ r
        -- the decidable hypotheses of the C02 simulation and the C05 termination bound
        else if !(VM.Sim.loopsStructured p) then "not-loops-structured " ++ r
        else if !(VM.Sim.looksStructured p) then "not-looks-structured " ++ r
        else if !(VM.Pk.lookLoopProg p) then "not-look-loop-prog " ++ r
        else r
      | .error _ => r
    | none => "bad-request"
  | _ => "bad-request"

def opEsFind (iter : Bool) (args : List String) : String :=
  match args with
  | [flags, ast, hay, start] =>
    match start.toNat? with
    | some st => if iter then ES.esIterLine flags ast hay st 100000 else ES.esFindLine flags ast hay st 100000
    | none => "bad-request"
  | _ => "bad-request"

/-- `search <len> <bounds> <findFrom table p:s-e|p:x,…> <ops n/b…>` → the step returned by each call -/
def opSearch (provided : Bool) (args : List String) : String :=
  match args with
  | [len, bounds, ff, ops] =>
    let parseFF (s : String) : Option (Nat × Option (Nat × Nat)) :=
      match s.splitOn ":" with
      | [p, "x"] => p.toNat?.map fun p => (p, none)
      | [p, r] => match p.toNat?, parseRange r with
        | some p, some (some rg) => some (p, some rg)
        | _, _ => none
      | _ => none
    match len.toNat?, allSome ((bounds.splitOn ",").map String.toNat?), allSome ((ff.splitOn ",").map parseFF) with
    | some len, some bounds, some ff =>
      let ctx : Api.SearchCtx :=
        { len := len
          findFrom := fun p => match ff.find? (·.1 == p) with
            | some (_, r) => r
            | none => none
          isBoundary := fun p => bounds.contains p
          nextBoundary := fun e => if e ≥ len then none else bounds.find? (· > e) }
      if provided then
        match Api.SOp.ofString ops with
        | none => "bad-request"
        | some opsL => Api.showCallOps (Api.callOps ctx opsL Api.RegexSearcher.new)
      else
      let opsL := ops.toList.map (· == 'n')
      match Api.callSteps ctx opsL Api.RegexSearcher.new with
      | .error _ => "error"
      | .ok steps => " ".intercalate (steps.map fun
          | .match s e => s!"M{s}-{e}"
          | .reject s e => s!"R{s}-{e}"
          | .done => "D")
    | _, _, _ => "bad-request"
  | _ => "bad-request"

def answer (line : String) : String :=
  match line.trimAscii.toString.splitOn " " with
  | ["parse", flags, pat] =>
    -- the canonical IR is compared in the transport form (`~` for spaces) on the Rust side too
    Parse.parseLine flags pat
  | ["optimize", flags, ir] => IR.optimizeLine flags ir
  | ["startpred", flags, ir] => IR.startPredLine flags ir
  | ["emit", flags, ir] => IR.emitLine flags ir
  | ["semfind", flags, ir, hay, start] =>
    (match start.toNat? with
     | some st => IR.semFindLine flags ir hay st
     | none => "bad-request")
  | ["semfind16", flags, ir, hay, start] =>
    (match start.toNat? with
     | some st => IR.semFind16Line flags ir hay st
     | none => "bad-request")
  | ["semfind16ucs2", flags, ir, hay, start] =>
    (match start.toNat? with
     | some st => IR.semFind16Line flags ir hay st true
     | none => "bad-request")
  | ["bitmapfind", set, hay, off] => ByteSearch.bitmapFindSetLine set hay off
  | ["print", flags, ast] => Print.printLine flags ast
  | ["lower", flags, ast] => Lower.lowerLine flags ast
  | ["esvalid", flags, pat] => ESG.esValidLine flags pat
  | "search" :: args => opSearch false args
  | "search2" :: args => opSearch true args
  | "esfind" :: args => opEsFind false args
  | "esiter" :: args => opEsFind true args
  | "runprog" :: args => opRunProg args
  | "prop" :: args => opProp args
  | "cps" :: args => opCps args
  | "iter" :: args => opIter args
  | "access" :: args => opAccess args
  | "replace" :: args => opReplace args
  | "escape" :: args => opEscape args
  | _ => "bad-request"

end Drv

partial def loop (h : IO.FS.Stream) (out : IO.FS.Stream) : IO Unit := do
  let line ← h.getLine
  if line.isEmpty then return ()
  out.putStrLn (Drv.answer line)
  out.flush
  loop h out

def main : IO Unit := do
  let stdin ← IO.getStdin
  let stdout ← IO.getStdout
  loop stdin stdout
