-- Root of the model library. Model files import nothing outside core Lean/Std so the
-- driver can be linked as an executable.
import RegressModel.Basic
import RegressModel.Text.Utf8
import RegressModel.Text.Utf16
import RegressModel.Sets.CodePointSet
import RegressModel.Unicode.Packed
import RegressModel.Unicode.Props
import RegressModel.Api.Iter
import RegressModel.Api.Match
import RegressModel.Api.Replace
import RegressModel.Api.Escape
import RegressModel.Api.Searcher
import RegressModel.Unicode.Fold
import RegressModel.Api.Threads
import RegressModel.IR.Node
import RegressModel.VM.Insn
import RegressModel.VM.Input
import RegressModel.VM.Backtrack
import RegressModel.VM.Pike
import RegressModel.VM.Search
import RegressModel.VM.WfProg
import RegressModel.Spec.ESAst
import RegressModel.Spec.ESCharSet
import RegressModel.Spec.ESMatch
