import RegressModel.IR.Walk
import RegressModel.Sets.CodePointSet
import RegressModel.Text.Utf8
import RegressModel.VM.Insn
/-!
# Start-predicate analysis (`src/startpredicate.rs`)

with `ByteBitmap` of `src/bytesearch.rs` and `utf8_first_byte` / `add_utf8_first_bytes_to_bitmap`
of `src/util.rs` (`utf8_first_byte` is `Utf8.firstByte`).

`ByteBitmap([u16; 16])` is modelled by the 256-bit number whose bit `v` is the bit `v & 0xF` of the
word `v >> 4`. Bytes are `Nat`s `< 256`.

The resolved predicate is a `VM.StartPred`: `ByteSet1/2/3` and `ByteBracket` all become
`StartPred.set` of the ascending list of bytes contained (that is what the program dump prints),
`ByteSeq(Finder)` becomes `StartPred.seq needle`.
-/
namespace Regress.IR

open Regress.VM (StartPred)

/-! ## `ByteBitmap` -/

/-- `bytesearch::ByteBitmap`. -/
structure ByteBitmap where
  bits : Nat
deriving Repr, DecidableEq, Inhabited

namespace ByteBitmap

/-- `ByteBitmap::default()`. -/
def empty : ByteBitmap := ⟨0⟩

/-- `ByteBitmap::contains`. -/
def contains (bm : ByteBitmap) (val : Nat) : Bool := bm.bits.testBit val

/-- `ByteBitmap::set`. -/
def set (bm : ByteBitmap) (val : Nat) : ByteBitmap := ⟨bm.bits ||| (1 <<< val)⟩

/-- `ByteBitmap::new(bytes)`. -/
def new (bytes : List Nat) : ByteBitmap := bytes.foldl set empty

/-- `ByteBitmap::bitor`. -/
def bitor (bm rhs : ByteBitmap) : ByteBitmap := ⟨bm.bits ||| rhs.bits⟩

/-- `ByteBitmap::as_array` without the length: the bytes contained, ascending
(`for byte in 0..=255 { if self.contains(byte) { … } }`). -/
def toList (bm : ByteBitmap) : List Nat := (List.range 256).filter bm.contains

/-- `ByteBitmap::count_bits`. -/
def countBits (bm : ByteBitmap) : Nat := bm.toList.length

end ByteBitmap

/-! ## `util::add_utf8_first_bytes_to_bitmap` -/

/-- `for byte in lo..=hi { bitmap.set(byte) }`. -/
def setByteRange (bm : ByteBitmap) (lo hi : Nat) : ByteBitmap :=
  (List.range' lo (hi + 1 - lo)).foldl ByteBitmap.set bm

/-- `add_utf8_first_bytes_to_bitmap(interval, bitmap)`. -/
def addUtf8FirstBytesToBitmap (first last : Nat) (bitmap : ByteBitmap) : ByteBitmap :=
  let ranges : List (Nat × Nat) :=
    [ (first, min last 0x7F),
      (max first 0x80, min last 0x7FF),
      (max first 0x800, min last 0xFFFF),
      (max first 0x10000, last) ]
  ranges.foldl (fun bm r =>
    if r.1 ≤ r.2 then setByteRange bm (Utf8.firstByte r.1) (Utf8.firstByte r.2) else bm) bitmap

/-- `cps_to_first_byte_bitmap`. -/
def cpsToFirstByteBitmap (ivs : List (Nat × Nat)) : ByteBitmap :=
  ivs.foldl (fun bm iv => addUtf8FirstBytesToBitmap iv.1 iv.2 bm) ByteBitmap.empty

/-! ## `is_start_anchored` -/

/-- `is_start_anchored`. -/
def isStartAnchored : Node → Bool
  | .anchor true multiline => !multiline
  | .cat (first :: _) => isStartAnchored first       -- nodes.first().is_some_and(is_start_anchored)
  | .group _ _ contents => isStartAnchored contents
  | .alt left right => isStartAnchored left && isStartAnchored right
  | _ => false

/-! ## `AbstractStartPredicate` -/

/-- `startpredicate::AbstractStartPredicate`. -/
inductive AbstractStartPredicate where
  | arbitrary
  | sequence (bytes : List Nat)
  | set (bm : ByteBitmap)
deriving Repr, DecidableEq, Inhabited

/-- Panic sites of the start-predicate computation. -/
inductive SPErr where
  /-- `s1[0]` / `s2[0]` on an empty `Sequence` in `disjunction` (slice index out of bounds) -/
  | emptySequenceIndex
deriving Repr, DecidableEq, Inhabited

def SPErr.site : SPErr → String
  | .emptySequenceIndex => "disjunction:index-empty-sequence"

/-- `s1.iter().zip(s2.iter()).take_while(|(a, b)| a == b).count()`. -/
def sharedLen : List Nat → List Nat → Nat
  | a :: as, b :: bs => if a == b then sharedLen as bs + 1 else 0
  | _, _ => 0

namespace AbstractStartPredicate

/-- `AbstractStartPredicate::disjunction`. -/
def disjunction (x y : AbstractStartPredicate) : Except SPErr AbstractStartPredicate :=
  match x, y with
  | .arbitrary, _ => .ok .arbitrary
  | _, .arbitrary => .ok .arbitrary
  | .sequence s1, .sequence s2 =>
    let shared := sharedLen s1 s2
    if shared > 0 then .ok (.sequence (s1.take shared))
    else
      match s1, s2 with
      | a :: _, b :: _ => .ok (.set (ByteBitmap.new [a, b]))
      | _, _ => .error .emptySequenceIndex
  | .set s1, .set s2 => .ok (.set (s1.bitor s2))
  | .set s1, .sequence s2 =>
    match s2 with
    | b :: _ => .ok (.set (s1.set b))
    | [] => .error .emptySequenceIndex
  | .sequence s1, .set s2 =>
    match s1 with
    | a :: _ => .ok (.set (s2.set a))
    | [] => .error .emptySequenceIndex

/-- `AbstractStartPredicate::resolve_to_insn`. -/
def resolveToInsn : AbstractStartPredicate → StartPred
  | .arbitrary => .arbitrary
  | .sequence vals =>
    match vals with
    | [] => .arbitrary
    | [v] => .set [v]                 -- ByteSet1([vals[0]])
    | _ => .seq vals                  -- ByteSeq(Finder::new(&vals))
  | .set bm =>
    match bm.countBits with
    | 0 => .arbitrary
    | 1 => .set bm.toList             -- ByteSet1(bm.as_array())
    | 2 => .set bm.toList             -- ByteSet2
    | 3 => .set bm.toList             -- ByteSet3
    | _ => .set bm.toList             -- ByteBracket(*bm)

end AbstractStartPredicate

/-! ## `compute_start_predicate` -/

open AbstractStartPredicate in
mutual
/-- `compute_start_predicate`; `.ok none` is Rust's `None`. -/
def computeStartPredicate : Node → Except SPErr (Option AbstractStartPredicate)
  | .byteSeq bytevec => .ok (some (.sequence bytevec))
  | .byteSet bytes => .ok (some (.set (ByteBitmap.new bytes)))
  | .empty => .ok (some .arbitrary)
  | .goal => .ok (some .arbitrary)
  | .backRef _ _ => .ok (some .arbitrary)
  | .charSet chars => .ok (some (.set (ByteBitmap.new (chars.map Utf8.firstByte))))
  | .stringSet _ _ => .ok (some .arbitrary)
  | .char _ => .ok (some .arbitrary)
  | .cat nodes => firstStartPredicate nodes
  | .matchAny => .ok (some .arbitrary)
  | .matchAnyExceptLT => .ok (some .arbitrary)
  | .anchor _ _ => .ok (some .arbitrary)
  | .wordBoundary _ _ => .ok (some .arbitrary)
  | .group _ _ contents => computeStartPredicate contents
  | .look _ _ _ _ _ => .ok none
  | .loop loopee quant _ _ =>
    if quant.min > 0 then computeStartPredicate loopee else .ok (some .arbitrary)
  | .loop1 loopee quant =>
    if quant.min > 0 then computeStartPredicate loopee else .ok (some .arbitrary)
  | .alt left right =>
    match computeStartPredicate left with
    | .error e => .error e
    | .ok x =>
      match computeStartPredicate right with
      | .error e => .error e
      | .ok y =>
        match x, y with
        | some x, some y =>
          match disjunction x y with
          | .error e => .error e
          | .ok d => .ok (some d)
        | _, _ => .ok (some .arbitrary)
  | .bracket bc =>
    let cps := if bc.invert
      then (CPS.inverted (bc.ivs.map fun iv => { first := iv.1, last := iv.2 })).map
        fun iv => (iv.first, iv.last)
      else bc.ivs
    .ok (some (.set (cpsToFirstByteBitmap cps)))
/-- `nodes.iter().filter_map(compute_start_predicate).next()`. -/
def firstStartPredicate : List Node → Except SPErr (Option AbstractStartPredicate)
  | [] => .ok none
  | n :: ns =>
    match computeStartPredicate n with
    | .error e => .error e
    | .ok (some p) => .ok (some p)
    | .ok none => firstStartPredicate ns
end

/-- `predicate_for_re`. -/
def predicateForRe (re : Regex) : Except SPErr StartPred :=
  if isStartAnchored re.node && !re.flags.multiline then .ok .anchored else
  match computeStartPredicate re.node with
  | .error e => .error e
  | .ok p => .ok (p.getD .arbitrary).resolveToInsn

/-! ## Printing (the payload of the `S` line of the program dump) -/

/-- `hexlist`. -/
def hexList (vals : List Nat) : String := " ".intercalate (vals.map hexDigits)

/-- `bitmap_bytes` applied to the list of bytes contained. -/
def bitmapBytesText (vals : List Nat) : String := if vals.isEmpty then "-" else hexList vals

/-- `dump_start_pred`. -/
def startPredText : StartPred → String
  | .arbitrary => "arbitrary"
  | .anchored => "anchored"
  | .set bytes => "set " ++ bitmapBytesText bytes
  | .seq bytes => "seq " ++ hexList bytes

end Regress.IR
