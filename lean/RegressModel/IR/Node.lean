import RegressModel.Basic
/-!
# The IR (`src/ir.rs`)

`Node` mirrors `ir::Node` constructor for constructor.  `toCanon` prints the canonical
s-expression that the hook `regress::verif::dump_ir_canon` prints for the real IR, and
`parseCanon` reads it back, so that the optimizer / emitter / start-predicate models can be run on
IR produced by the real parser and compared with what the real passes produce.

Text form (tokens separated by one space; in transport every space is replaced by `~`):
```
(empty) (goal) (char HEX) (bytes HEX*) (byteset HEX*) (charset HEX*) (cat N*) (alt N N) (any) (anynl)
(anchor sol|eol M) (wb INV UNICODE_ICASE) (group ID NAME N)      NAME = - | hex.hex…
(backref GROUP ICASE) (bracket INVERT IVS)                        IVS = - | a-b,c-d (hex)
(strset ICASE STR*)                                               STR = - | hex.hex…
(look NEGATE BACKWARDS START_GROUP END_GROUP N)
(loop MIN MAX GREEDY G0 G1 N) (loop1 MIN MAX GREEDY N)            MAX = decimal | inf
```
Numbers other than the HEX payloads are decimal; booleans are `0`/`1`.
-/
namespace Regress.IR

structure Quant where
  min : Nat
  max : Option Nat
  greedy : Bool
deriving Repr, DecidableEq, BEq, Inhabited

/-- `types::BracketContents` (`cps` as its interval list). -/
structure Bracket where
  invert : Bool
  ivs : List (Nat × Nat)
deriving Repr, DecidableEq, BEq, Inhabited

inductive Node where
  | empty
  | goal
  | char (c : Nat)
  | byteSeq (bs : List Nat)
  | byteSet (bs : List Nat)
  | charSet (cs : List Nat)
  | cat (ns : List Node)
  | alt (l r : Node)
  | matchAny
  | matchAnyExceptLT
  | anchor (sol : Bool) (multiline : Bool)          -- sol = StartOfLine, otherwise EndOfLine
  | wordBoundary (invert unicodeIcase : Bool)
  | group (id : Nat) (name : Option (List Nat)) (contents : Node)
  | backRef (group : Nat) (icase : Bool)
  | bracket (bc : Bracket)
  | stringSet (alts : List (List Nat)) (icase : Bool)
  | look (negate backwards : Bool) (startGroup endGroup : Nat) (contents : Node)
  | loop (loopee : Node) (q : Quant) (g0 g1 : Nat)
  | loop1 (loopee : Node) (q : Quant)
deriving Repr, Inhabited

/-- `ir::Regex` (flags as in `api::Flags`). -/
structure Flags where
  icase : Bool := false
  multiline : Bool := false
  dotAll : Bool := false
  noOpt : Bool := false
  unicode : Bool := false
  unicodeSets : Bool := false
deriving Repr, DecidableEq, BEq, Inhabited

structure Regex where
  node : Node
  flags : Flags
deriving Repr, Inhabited

def hexDigits (n : Nat) : String := String.ofList (Nat.toDigits 16 n)

def b01 (b : Bool) : String := if b then "1" else "0"

def dotted (l : List Nat) : String :=
  if l.isEmpty then "-" else ".".intercalate (l.map hexDigits)

def ivsText (l : List (Nat × Nat)) : String :=
  if l.isEmpty then "-" else ",".intercalate (l.map fun iv => s!"{hexDigits iv.1}-{hexDigits iv.2}")

def quantText (q : Quant) : String :=
  let m := match q.max with | some m => toString m | none => "inf"
  s!"{q.min} {m} {b01 q.greedy}"

mutual
def toCanon : Node → String
  | .empty => "(empty)"
  | .goal => "(goal)"
  | .char c => s!"(char {hexDigits c})"
  | .byteSeq bs => "(bytes" ++ String.join (bs.map fun b => " " ++ hexDigits b) ++ ")"
  | .byteSet bs => "(byteset" ++ String.join (bs.map fun b => " " ++ hexDigits b) ++ ")"
  | .charSet cs => "(charset" ++ String.join (cs.map fun b => " " ++ hexDigits b) ++ ")"
  | .cat ns => "(cat" ++ toCanonList ns ++ ")"
  | .alt l r => s!"(alt {toCanon l} {toCanon r})"
  | .matchAny => "(any)"
  | .matchAnyExceptLT => "(anynl)"
  | .anchor sol m => s!"(anchor {if sol then "sol" else "eol"} {b01 m})"
  | .wordBoundary i u => s!"(wb {b01 i} {b01 u})"
  | .group id name c =>
    let nm := match name with | none => "-" | some n => dotted n
    s!"(group {id} {nm} {toCanon c})"
  | .backRef g i => s!"(backref {g} {b01 i})"
  | .bracket bc => s!"(bracket {b01 bc.invert} {ivsText bc.ivs})"
  | .stringSet alts i => s!"(strset {b01 i}" ++ String.join (alts.map fun a => " " ++ dotted a) ++ ")"
  | .look n b sg eg c => s!"(look {b01 n} {b01 b} {sg} {eg} {toCanon c})"
  | .loop l q g0 g1 => s!"(loop {quantText q} {g0} {g1} {toCanon l})"
  | .loop1 l q => s!"(loop1 {quantText q} {toCanon l})"
def toCanonList : List Node → String
  | [] => ""
  | n :: ns => " " ++ toCanon n ++ toCanonList ns
end

/-! ## Reading the canonical text -/

inductive Tok where
  | lp | rp | atom (s : String)
deriving Repr, DecidableEq, BEq, Inhabited

/-- Tokenize: `(`, `)` and atoms separated by spaces or `~`. -/
def tokenize (s : String) : List Tok :=
  let flush (cur : List Char) (acc : List Tok) : List Tok :=
    if cur.isEmpty then acc else Tok.atom (String.ofList cur.reverse) :: acc
  let rec go : List Char → List Char → List Tok → List Tok
    | [], cur, acc => (flush cur acc).reverse
    | c :: cs, cur, acc =>
      if c == '(' then go cs [] (Tok.lp :: flush cur acc)
      else if c == ')' then go cs [] (Tok.rp :: flush cur acc)
      else if c == ' ' || c == '~' then go cs [] (flush cur acc)
      else go cs (c :: cur) acc
  go s.toList [] []

def hexVal (c : Char) : Option Nat :=
  if '0' ≤ c ∧ c ≤ '9' then some (c.toNat - '0'.toNat)
  else if 'a' ≤ c ∧ c ≤ 'f' then some (c.toNat - 'a'.toNat + 10)
  else if 'A' ≤ c ∧ c ≤ 'F' then some (c.toNat - 'A'.toNat + 10)
  else none

def parseHex (s : String) : Option Nat :=
  if s.isEmpty then none
  else s.toList.foldl (fun acc c => match acc, hexVal c with
    | some a, some v => some (a * 16 + v)
    | _, _ => none) (some 0)

def allSome {α} : List (Option α) → Option (List α)
  | [] => some []
  | none :: _ => none
  | some x :: xs => (allSome xs).map (x :: ·)

def parseDotted (s : String) : Option (List Nat) :=
  if s == "-" then some [] else allSome ((s.splitOn ".").map parseHex)

def parseIvs (s : String) : Option (List (Nat × Nat)) :=
  if s == "-" then some []
  else allSome <| (s.splitOn ",").map fun p =>
    match p.splitOn "-" with
    | [a, b] => match parseHex a, parseHex b with
      | some x, some y => some (x, y)
      | _, _ => none
    | _ => none

def parseBool (s : String) : Option Bool :=
  if s == "1" then some true else if s == "0" then some false else none

def parseMax (s : String) : Option (Option Nat) :=
  if s == "inf" then some none else s.toNat?.map some

/-- Leading atoms of a token list. -/
def takeAtoms : List Tok → List String × List Tok
  | Tok.atom a :: rest => let r := takeAtoms rest; (a :: r.1, r.2)
  | rest => ([], rest)

mutual
/-- Parse one node; `fuel` bounds the recursion (the token count suffices). -/
def parseNode : Nat → List Tok → Option (Node × List Tok)
  | 0, _ => none
  | fuel+1, Tok.lp :: Tok.atom head :: rest =>
    let (atoms, rest1) := takeAtoms rest
    match head, atoms, rest1 with
    | "empty", [], Tok.rp :: r => some (.empty, r)
    | "goal", [], Tok.rp :: r => some (.goal, r)
    | "any", [], Tok.rp :: r => some (.matchAny, r)
    | "anynl", [], Tok.rp :: r => some (.matchAnyExceptLT, r)
    | "char", [c], Tok.rp :: r => (parseHex c).map fun c => (.char c, r)
    | "bytes", bs, Tok.rp :: r => (allSome (bs.map parseHex)).map fun l => (.byteSeq l, r)
    | "byteset", bs, Tok.rp :: r => (allSome (bs.map parseHex)).map fun l => (.byteSet l, r)
    | "charset", bs, Tok.rp :: r => (allSome (bs.map parseHex)).map fun l => (.charSet l, r)
    | "anchor", [t, m], Tok.rp :: r =>
      match parseBool m with
      | some m => if t == "sol" then some (.anchor true m, r) else if t == "eol" then some (.anchor false m, r) else none
      | none => none
    | "wb", [i, u], Tok.rp :: r =>
      match parseBool i, parseBool u with
      | some i, some u => some (.wordBoundary i u, r)
      | _, _ => none
    | "backref", [g, i], Tok.rp :: r =>
      match g.toNat?, parseBool i with
      | some g, some i => some (.backRef g i, r)
      | _, _ => none
    | "bracket", [i, ivs], Tok.rp :: r =>
      match parseBool i, parseIvs ivs with
      | some i, some ivs => some (.bracket { invert := i, ivs := ivs }, r)
      | _, _ => none
    | "strset", i :: strs, Tok.rp :: r =>
      match parseBool i, allSome (strs.map parseDotted) with
      | some i, some alts => some (.stringSet alts i, r)
      | _, _ => none
    | "cat", [], r =>
      match parseNodes fuel r with
      | some (ns, r') => some (.cat ns, r')
      | none => none
    | "alt", [], r =>
      match parseNode fuel r with
      | some (l, r1) =>
        match parseNode fuel r1 with
        | some (rn, Tok.rp :: r2) => some (.alt l rn, r2)
        | _ => none
      | none => none
    | "group", [id, nm], r =>
      match id.toNat?, (if nm == "-" then some none else (parseDotted nm).map some), parseNode fuel r with
      | some id, some name, some (c, Tok.rp :: r') => some (.group id name c, r')
      | _, _, _ => none
    | "look", [n, b, sg, eg], r =>
      match parseBool n, parseBool b, sg.toNat?, eg.toNat?, parseNode fuel r with
      | some n, some b, some sg, some eg, some (c, Tok.rp :: r') => some (.look n b sg eg c, r')
      | _, _, _, _, _ => none
    | "loop", [mn, mx, g, g0, g1], r =>
      match mn.toNat?, parseMax mx, parseBool g, g0.toNat?, g1.toNat?, parseNode fuel r with
      | some mn, some mx, some g, some g0, some g1, some (c, Tok.rp :: r') =>
        some (.loop c { min := mn, max := mx, greedy := g } g0 g1, r')
      | _, _, _, _, _, _ => none
    | "loop1", [mn, mx, g], r =>
      match mn.toNat?, parseMax mx, parseBool g, parseNode fuel r with
      | some mn, some mx, some g, some (c, Tok.rp :: r') =>
        some (.loop1 c { min := mn, max := mx, greedy := g }, r')
      | _, _, _, _ => none
    | _, _, _ => none
  | _, _ => none
/-- Parse nodes up to the closing parenthesis (which is consumed). -/
def parseNodes : Nat → List Tok → Option (List Node × List Tok)
  | 0, _ => none
  | _, Tok.rp :: r => some ([], r)
  | fuel+1, toks =>
    match parseNode fuel toks with
    | some (n, r) =>
      match parseNodes fuel r with
      | some (ns, r') => some (n :: ns, r')
      | none => none
    | none => none
end

def parseCanon (s : String) : Option Node :=
  let toks := tokenize s
  match parseNode (toks.length + 1) toks with
  | some (n, []) => some n
  | _ => none

end Regress.IR
