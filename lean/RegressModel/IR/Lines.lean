import RegressModel.IR.Optimize
import RegressModel.IR.StartPred
import RegressModel.VM.Emit
/-!
# Line functions for the driver: optimizer, start predicate, emitter

Input of all three: the flag letters (`i m s u v O` in any order, or `-`; `O` = `no_opt`) as given
by the user, and the canonical IR text of `RegressModel/IR/Node.lean` (spaces or `~`).
As in `parse::try_parse`, `v` implies `u` in the flags of the `ir::Regex`.

* `optimizeLine` — `ok <optimized canonical IR, spaces as ~>` | `panic <site>` | `fuel`
* `startPredLine` — the payload of the `S` line (`arbitrary`, `anchored`, `set 41 61`, `seq 61 62`)
  | `panic <site>`
* `emitLine` — the program dump in one-token transport form (`\n` ↦ `|`, ` ` ↦ `~`)
  | `panic <site>`
* `emitStackLine` — the same through the literal work-stack formulation of `emit_node`.

Anything unparsable is answered `bad-request`.
-/
namespace Regress.IR

/-- `Flags::new` on the flag letters, then `if flags.unicode_sets { flags.unicode = true }`. -/
def parseFlagLetters (s : String) : Option Flags :=
  if s == "-" then some {} else
  s.toList.foldl (fun acc c =>
    match acc with
    | none => none
    | some (f : Flags) =>
      if c == 'i' then some { f with icase := true }
      else if c == 'm' then some { f with multiline := true }
      else if c == 's' then some { f with dotAll := true }
      else if c == 'u' then some { f with unicode := true }
      else if c == 'v' then some { f with unicodeSets := true, unicode := true }
      else if c == 'O' then some { f with noOpt := true }
      else none) (some {})

def parseRegexLine (flags ir : String) : Option Regex :=
  match parseFlagLetters flags, parseCanon ir with
  | some f, some n => some { node := n, flags := f }
  | _, _ => none

/-- Fuel for `Pass::run_to_fixpoint` and the outer loop of `optimize`. -/
def OPT_FUEL : Nat := 100000

def tilde (s : String) : String := s.replace " " "~"

def optimizeLine (flags ir : String) : String :=
  match parseRegexLine flags ir with
  | none => "bad-request"
  | some r =>
    match optimize OPT_FUEL r with
    | .error e => e.site
    | .ok r => "ok " ++ tilde (toCanon r.node)

def startPredLine (flags ir : String) : String :=
  match parseRegexLine flags ir with
  | none => "bad-request"
  | some r =>
    match predicateForRe r with
    | .error e => "panic " ++ e.site
    | .ok sp => startPredText sp

def transport (s : String) : String := (s.replace "\n" "|").replace " " "~"

def emitLine (flags ir : String) : String :=
  match parseRegexLine flags ir with
  | none => "bad-request"
  | some r =>
    match VM.emit r with
    | .error e => e.site
    | .ok p => transport (VM.progToCanon p)

/-- Fuel for the work-stack loop of `emit_node`. -/
def EMIT_FUEL : Nat := 100000000

def emitStackLine (flags ir : String) : String :=
  match parseRegexLine flags ir with
  | none => "bad-request"
  | some r =>
    match VM.emitViaStack EMIT_FUEL r with
    | .error e => e.site
    | .ok p => transport (VM.progToCanon p)

end Regress.IR
