import RegressModel.IR.Sem
import RegressModel.IR.Optimize
/-!
# Executable well-formedness check of an IR tree

`wfNode n = true` implies the predicate `WF n` (`Proofs/Lemmas/SemWalk.lean`, lemma `wfNode_sound`
in `Proofs/Lemmas/SemWf.lean`) that the theorems about the optimizer (C03) and the start predicate
(C04) assume of the IR: quantifiers have `min ≤ max`; the group range `g0..g1` of a loop is empty
iff the loop body contains no capture group; a `Loop1CharBody` contains no capture group; brackets
are well-formed code point sets; byte sequences are the UTF-8 encoding of scalar values; byte sets
are ASCII.
-/
namespace Regress.IR

/-- Best-effort UTF-8 decoding of a byte list (`fuel` ≥ the length). Its result is only used through
the re-encoding test of `validUtf8`, so nothing needs to be known about it. -/
def decodeBytes : Nat → List Nat → List Nat
  | 0, _ => []
  | _, [] => []
  | fuel + 1, b0 :: rest =>
    if b0 < 128 then b0 :: decodeBytes fuel rest
    else
      match Utf8.seqLen b0, rest with
      | 2, b1 :: r => Utf8.w2 b0 b1 :: decodeBytes fuel r
      | 3, b1 :: b2 :: r => Utf8.w3 b0 b1 b2 :: decodeBytes fuel r
      | 4, b1 :: b2 :: b3 :: r => Utf8.w4 b0 b1 b2 b3 :: decodeBytes fuel r
      | _, _ => []

/-- The byte list is the UTF-8 encoding of a list of scalar values. -/
def validUtf8 (bs : List Nat) : Bool :=
  let cs := decodeBytes bs.length bs
  cs.all Utf8.isScalar && Utf8.encodeAll cs == bs

/-- `min ≤ max`. -/
def quantOkB (q : Quant) : Bool :=
  match q.max with
  | none => true
  | some m => decide (q.min ≤ m)

mutual
/-- Executable version of `WF`. -/
def wfNode : Node → Bool
  | .cat ns => wfNodeList ns
  | .alt l r => wfNode l && wfNode r
  | .group _ _ c => wfNode c
  | .look _ _ _ _ c => wfNode c
  | .loop b q g0 g1 => wfNode b && quantOkB q && (decide (numGroups b = 0) == decide (g1 ≤ g0))
  | .loop1 b q => wfNode b && quantOkB q && decide (numGroups b = 0)
  | .bracket bc => CPS.wf (toIvList bc.ivs)
  | .byteSeq bs => validUtf8 bs
  | .byteSet bs => bs.all (fun b => decide (b < 128))
  | _ => true
def wfNodeList : List Node → Bool
  | [] => true
  | n :: ns => wfNode n && wfNodeList ns
end

/-- `wfir IR`: `wf` / `not-wf` for canonical IR text (spaces as `~`), `bad-request` if unparsable. -/
def wfIRLine (ir : String) : String :=
  match parseCanon ir with
  | some n => if wfNode n then "wf" else "not-wf"
  | none => "bad-request"

end Regress.IR
