import RegressModel.IR.Node
/-!
# IR helpers of `src/ir.rs`: `walk_mut`, `Node::{is_empty, is_cat, matches_exactly_one_char,
match_always_fails, try_duplicate, make_always_fails, reverse_cats}`

`walk_mut` is modelled functionally: the Rust visitor `FnMut(&mut Node, &mut Walk)` (which may also
mutate the state captured by the closure) is a function
`Node → Walk → σ → Except ε (Node × Walk × σ)` returning the new node, the new `Walk` and the new
captured state (or a panic `ε`).

Two formulations are given:

* `walkMut postorder unicode fuel n f s` — `MutWalker::process` for both orders. In pre-order the
  visitor may replace the node before its children are visited, so the recursion is not structural
  in the node; a fuel argument (one unit per nesting level) bounds it, with the distinct result
  `WalkErr.fuel`.
* `walkMutPost unicode n f s` — the post-order instance (`postorder = true`), structurally recursive
  in the node, no fuel. This is the one `optimizer::Pass::run_postorder` uses.

`debug_assert!`s are not modelled (release build).
-/
namespace Regress.IR

/-- `ir::Walk`. -/
structure Walk where
  skipChildren : Bool
  depth : Nat
  inLookbehind : Bool
  unicode : Bool
deriving Repr, DecidableEq, Inhabited

/-- `Walk::new`. -/
def Walk.new (unicode : Bool) : Walk :=
  { skipChildren := false, depth := 0, inLookbehind := false, unicode := unicode }

/-- The visitor of `walk_mut`. -/
abbrev Visitor (σ ε : Type) := Node → Walk → σ → Except ε (Node × Walk × σ)

inductive WalkErr (ε : Type) where
  /-- the fuel of the model ran out (not a behaviour of the Rust code) -/
  | fuel
  /-- the visitor panicked -/
  | visitor (e : ε)
deriving Repr

/-! ## Simple predicates -/

/-- `Node::make_always_fails`. -/
def makeAlwaysFails : Node := .charSet []

/-- `Node::is_empty`. -/
def Node.isEmpty : Node → Bool
  | .empty => true
  | _ => false

/-- `Node::is_cat`. -/
def Node.isCat : Node → Bool
  | .cat _ => true
  | _ => false

/-- `CodePointSet::contains_all_codepoints`. -/
def ivsContainsAll (ivs : List (Nat × Nat)) : Bool :=
  match ivs with
  | [iv] => iv.1 == 0 && iv.2 == Regress.CODE_POINT_MAX
  | _ => false

/-- `BracketContents::is_empty`. -/
def Bracket.isEmpty (bc : Bracket) : Bool :=
  match bc.invert with
  | false => bc.ivs.isEmpty
  | true => ivsContainsAll bc.ivs

/-- `Node::matches_exactly_one_char`. -/
def Node.matchesExactlyOneChar : Node → Bool
  | .char _ => true
  | .charSet contents => !contents.isEmpty
  | .bracket contents => !contents.isEmpty
  | .matchAny => true
  | .matchAnyExceptLT => true
  | _ => false

/-- `Node::match_always_fails`. -/
def Node.matchAlwaysFails : Node → Bool
  | .byteSet bytes => bytes.isEmpty
  | .charSet contents => contents.isEmpty
  | .bracket contents => contents.isEmpty
  | _ => false

/-! ## `try_duplicate` -/

/-- The `assert!` / `panic!` sites of `Node::try_duplicate`. -/
inductive DupErr where
  /-- `assert!(enclosed_groups.start >= enclosed_groups.end, "Cannot duplicate a loop with enclosed groups")` -/
  | loopWithEnclosedGroups
  /-- `panic!("Refusing to duplicate a capture group")` -/
  | captureGroup
  /-- `assert!(start_group >= end_group, "Cannot duplicate an assertion with enclosed groups")` -/
  | assertionWithEnclosedGroups
deriving Repr, DecidableEq, Inhabited

def DupErr.site : DupErr → String
  | .loopWithEnclosedGroups => "try_duplicate:loop-with-enclosed-groups"
  | .captureGroup => "try_duplicate:capture-group"
  | .assertionWithEnclosedGroups => "try_duplicate:assertion-with-enclosed-groups"

mutual
/-- `Node::try_duplicate(&self, depth)`: `.ok none` is Rust's `None` (depth cap 100 exceeded, or a
`StringSet` was met); `.error` is a panic. The order of evaluation is that of the Rust code (the
first failing child, left to right, decides). The initial `if depth > 100 { return None }` is
repeated in every arm (the recursion is structural in the node); children get `depth + 1`. -/
def Node.tryDuplicate (depth : Nat) : Node → Except DupErr (Option Node)
  | .empty => if depth > 100 then .ok none else .ok (some .empty)
  | .goal => if depth > 100 then .ok none else .ok (some .goal)
  | .char c => if depth > 100 then .ok none else .ok (some (.char c))
  | .byteSeq bs => if depth > 100 then .ok none else .ok (some (.byteSeq bs))
  | .byteSet bs => if depth > 100 then .ok none else .ok (some (.byteSet bs))
  | .charSet cs => if depth > 100 then .ok none else .ok (some (.charSet cs))
  | .stringSet _ _ => .ok none
  | .cat nodes =>
    if depth > 100 then .ok none else
    match tryDuplicateList (depth + 1) nodes with
    | .error e => .error e
    | .ok none => .ok none
    | .ok (some newNodes) => .ok (some (.cat newNodes))
  | .alt left right =>
    if depth > 100 then .ok none else
    match Node.tryDuplicate (depth + 1) left with
    | .error e => .error e
    | .ok none => .ok none
    | .ok (some l) =>
      match Node.tryDuplicate (depth + 1) right with
      | .error e => .error e
      | .ok none => .ok none
      | .ok (some r) => .ok (some (.alt l r))
  | .matchAny => if depth > 100 then .ok none else .ok (some .matchAny)
  | .matchAnyExceptLT => if depth > 100 then .ok none else .ok (some .matchAnyExceptLT)
  | .anchor t m => if depth > 100 then .ok none else .ok (some (.anchor t m))
  | .loop loopee quant g0 g1 =>
    if depth > 100 then .ok none else
    if !(g0 ≥ g1) then .error .loopWithEnclosedGroups else
    match Node.tryDuplicate (depth + 1) loopee with
    | .error e => .error e
    | .ok none => .ok none
    | .ok (some l) => .ok (some (.loop l quant g0 g1))
  | .loop1 loopee quant =>
    if depth > 100 then .ok none else
    match Node.tryDuplicate (depth + 1) loopee with
    | .error e => .error e
    | .ok none => .ok none
    | .ok (some l) => .ok (some (.loop1 l quant))
  | .group _ _ _ => if depth > 100 then .ok none else .error .captureGroup
  | .wordBoundary i u => if depth > 100 then .ok none else .ok (some (.wordBoundary i u))
  | .backRef g i => if depth > 100 then .ok none else .ok (some (.backRef g i))
  | .bracket bc => if depth > 100 then .ok none else .ok (some (.bracket bc))
  | .look negate backwards sg eg contents =>
    if depth > 100 then .ok none else
    if !(sg ≥ eg) then .error .assertionWithEnclosedGroups else
    match Node.tryDuplicate (depth + 1) contents with
    | .error e => .error e
    | .ok none => .ok none
    | .ok (some c) => .ok (some (.look negate backwards sg eg c))
/-- The `for n in nodes { new_nodes.push(n.try_duplicate(depth)?) }` loop. -/
def tryDuplicateList (depth : Nat) : List Node → Except DupErr (Option (List Node))
  | [] => .ok (some [])
  | n :: ns =>
    match Node.tryDuplicate depth n with
    | .error e => .error e
    | .ok none => .ok none
    | .ok (some n') =>
      match tryDuplicateList depth ns with
      | .error e => .error e
      | .ok none => .ok none
      | .ok (some ns') => .ok (some (n' :: ns'))
end

/-! ## `walk_mut`, post-order, structural -/

section Post
variable {σ ε : Type} (f : Visitor σ ε)

/-- Entering `process` in post-order: `skip_children = false`, then (as `skip_children` is false)
`depth += 1` before `process_children`. -/
def Walk.enter (w : Walk) : Walk := { w with skipChildren := false, depth := w.depth + 1 }

/-- Leaving `process` in post-order: `depth -= 1`, then `(self.func)(n, &mut self.walk)`. -/
def postVisit (r : Except ε (Node × Walk × σ)) : Except ε (Node × Walk × σ) :=
  match r with
  | .error e => .error e
  | .ok (n, w, s) => f n { w with depth := w.depth - 1 } s

mutual
/-- `MutWalker::process` with `postorder = true` (`process_children` inlined, one arm per node
kind with children; all other nodes have no children). -/
def processPost : Node → Walk → σ → Except ε (Node × Walk × σ)
  | .cat nodes, w, s =>
    postVisit f <|
      match processPostList nodes w.enter s with
      | .error e => .error e
      | .ok (nodes', w, s) => .ok (.cat nodes', w, s)
  | .alt left right, w, s =>
    postVisit f <|
      match processPost left w.enter s with
      | .error e => .error e
      | .ok (l, w, s) =>
        match processPost right w s with
        | .error e => .error e
        | .ok (r, w, s) => .ok (.alt l r, w, s)
  | .loop loopee q g0 g1, w, s =>
    postVisit f <|
      match processPost loopee w.enter s with
      | .error e => .error e
      | .ok (l, w, s) => .ok (.loop l q g0 g1, w, s)
  | .loop1 loopee q, w, s =>
    postVisit f <|
      match processPost loopee w.enter s with
      | .error e => .error e
      | .ok (l, w, s) => .ok (.loop1 l q, w, s)
  | .group id name contents, w, s =>
    postVisit f <|
      match processPost contents w.enter s with
      | .error e => .error e
      | .ok (c, w, s) => .ok (.group id name c, w, s)
  | .look negate backwards sg eg contents, w, s =>
    -- let saved = self.walk.in_lookbehind; self.walk.in_lookbehind = *backwards; …; … = saved;
    let saved := w.enter.inLookbehind
    postVisit f <|
      match processPost contents { w.enter with inLookbehind := backwards } s with
      | .error e => .error e
      | .ok (c, w, s) => .ok (.look negate backwards sg eg c, { w with inLookbehind := saved }, s)
  | n, w, s => postVisit f (.ok (n, w.enter, s))
/-- `nodes.iter_mut().for_each(|node| self.process(node))`. -/
def processPostList : List Node → Walk → σ → Except ε (List Node × Walk × σ)
  | [], w, s => .ok ([], w, s)
  | n :: ns, w, s =>
    match processPost n w s with
    | .error e => .error e
    | .ok (n', w, s) =>
      match processPostList ns w s with
      | .error e => .error e
      | .ok (ns', w, s) => .ok (n' :: ns', w, s)
end

/-- `walk_mut(true, unicode, n, func)`. -/
def walkMutPost (unicode : Bool) (n : Node) (s : σ) : Except ε (Node × σ) :=
  match processPost f n (Walk.new unicode) s with
  | .error e => .error e
  | .ok (n, _, s) => .ok (n, s)

end Post

/-! ## `walk_mut`, both orders, with fuel -/

section General
variable {σ ε : Type} (f : Visitor σ ε) (postorder : Bool)

/-- Thread `(Walk, σ)` through a list of nodes, left to right. -/
def mapNodesM (g : Node → Walk → σ → Except (WalkErr ε) (Node × Walk × σ)) :
    List Node → Walk → σ → Except (WalkErr ε) (List Node × Walk × σ)
  | [], w, s => .ok ([], w, s)
  | n :: ns, w, s =>
    match g n w s with
    | .error e => .error e
    | .ok (n', w, s) =>
      match mapNodesM g ns w s with
      | .error e => .error e
      | .ok (ns', w, s) => .ok (n' :: ns', w, s)

/-- `MutWalker::process` (with `process_children` inlined); one unit of fuel per nesting level. -/
def process : Nat → Node → Walk → σ → Except (WalkErr ε) (Node × Walk × σ)
  | 0, _, _, _ => .error .fuel
  | fuel + 1, n, w, s =>
    let w := { w with skipChildren := false }
    let pre : Except (WalkErr ε) (Node × Walk × σ) :=
      if !postorder then
        match f n w s with
        | .error e => .error (.visitor e)
        | .ok r => .ok r
      else .ok (n, w, s)
    match pre with
    | .error e => .error e
    | .ok (n, w, s) =>
      let mid : Except (WalkErr ε) (Node × Walk × σ) :=
        if !w.skipChildren then
          let w := { w with depth := w.depth + 1 }
          let r : Except (WalkErr ε) (Node × Walk × σ) :=
            match n with
            | .cat nodes =>
              match mapNodesM (process fuel) nodes w s with
              | .error e => .error e
              | .ok (nodes', w, s) => .ok (.cat nodes', w, s)
            | .alt left right =>
              match process fuel left w s with
              | .error e => .error e
              | .ok (l, w, s) =>
                match process fuel right w s with
                | .error e => .error e
                | .ok (r, w, s) => .ok (.alt l r, w, s)
            | .loop loopee q g0 g1 =>
              match process fuel loopee w s with
              | .error e => .error e
              | .ok (l, w, s) => .ok (.loop l q g0 g1, w, s)
            | .loop1 loopee q =>
              match process fuel loopee w s with
              | .error e => .error e
              | .ok (l, w, s) => .ok (.loop1 l q, w, s)
            | .group id name contents =>
              match process fuel contents w s with
              | .error e => .error e
              | .ok (c, w, s) => .ok (.group id name c, w, s)
            | .look negate backwards sg eg contents =>
              let saved := w.inLookbehind
              let w := { w with inLookbehind := backwards }
              match process fuel contents w s with
              | .error e => .error e
              | .ok (c, w, s) =>
                .ok (.look negate backwards sg eg c, { w with inLookbehind := saved }, s)
            | n => .ok (n, w, s)
          match r with
          | .error e => .error e
          | .ok (n, w, s) => .ok (n, { w with depth := w.depth - 1 }, s)
        else .ok (n, w, s)
      match mid with
      | .error e => .error e
      | .ok (n, w, s) =>
        if postorder then
          match f n w s with
          | .error e => .error (.visitor e)
          | .ok r => .ok r
        else .ok (n, w, s)

/-- `walk_mut(postorder, unicode, n, func)`. -/
def walkMut (unicode : Bool) (fuel : Nat) (n : Node) (s : σ) : Except (WalkErr ε) (Node × σ) :=
  match process f postorder fuel n (Walk.new unicode) s with
  | .error e => .error e
  | .ok (n, _, s) => .ok (n, s)

end General

mutual
/-- Nesting depth of a node (`1` for a leaf): enough fuel for `walkMut` when the visitor does not
grow the tree. -/
def Node.height : Node → Nat
  | .cat ns => heightList ns + 1
  | .alt l r => max l.height r.height + 1
  | .group _ _ c => c.height + 1
  | .look _ _ _ _ c => c.height + 1
  | .loop l _ _ _ => l.height + 1
  | .loop1 l _ => l.height + 1
  | _ => 1
def heightList : List Node → Nat
  | [] => 0
  | n :: ns => max n.height (heightList ns)
end

/-! ## `Node::reverse_cats` (the visitor the parser passes to `walk_mut(false, …)`) -/

/-- `panic!("Should not be reversing literal bytes")`. -/
inductive ReverseErr where
  | literalBytes
deriving Repr, DecidableEq, Inhabited

/-- `Node::reverse_cats` as a `Visitor` (no captured state). -/
def reverseCats : Visitor Unit ReverseErr := fun n w s =>
  match n with
  | .cat nodes => if w.inLookbehind then .ok (.cat nodes.reverse, w, s) else .ok (n, w, s)
  | .byteSeq _ => .error .literalBytes
  | n => .ok (n, w, s)

end Regress.IR
