import RegressModel.IR.Walk
import RegressModel.Sets.CodePointSet
import RegressModel.Text.Utf8
import RegressModel.Gen.Consts
/-!
# The IR optimizer (`src/optimizer.rs`)

Every pass is a function `Node → Walk → Except OptErr PassAction`, transliterated arm by arm.

The Rust passes take `&mut Node` and may mutate the node in place before returning
`PassAction::Modified`; here `PassAction.modified n'` carries the node as it is after the in-place
mutation. Every `Keep` path of the Rust passes returns before any mutation, and `Remove` /
`Replace` overwrite the node, so nothing else needs to be carried.

`usize` is taken to be 64 bits wide (the only place where it matters is the wrapping subtraction
`quant.max.map(|v| v - quant.min)` of `unroll_loops` in a release build).
`debug_assert!`s are not modelled (release build).
-/
namespace Regress.IR

open Regress.Gen

/-- `optimizer::PassAction`; `modified n'`: "we modified the node in place" (to `n'`). -/
inductive PassAction where
  | keep
  | modified (n' : Node)
  | remove
  | replace (n' : Node)
deriving Repr, Inhabited

/-- Panic sites reachable from `optimizer::optimize`, and the model's own out-of-fuel results. -/
inductive OptErr where
  /-- a panic in `Node::try_duplicate` (called from `unroll_loops`) -/
  | dup (e : DupErr)
  /-- `assert!(enclosed_groups.start >= enclosed_groups.end, "Should have no enclosed groups")`
  in `promote_1char_loops` -/
  | promoteEnclosedGroups
  /-- model only: the fuel of `Pass::run_to_fixpoint` ran out -/
  | fuelFixpoint
  /-- model only: the fuel of the outer `loop` of `optimize` ran out -/
  | fuelOuter
deriving Repr, Inhabited

def OptErr.site : OptErr → String
  | .dup e => "panic " ++ e.site
  | .promoteEnclosedGroups => "panic promote_1char_loops:enclosed-groups"
  | .fuelFixpoint => "fuel"
  | .fuelOuter => "fuel"

abbrev PassFn := Node → Walk → Except OptErr PassAction

/-! ## `is_unrollable` -/

mutual
/-- `is_unrollable(node, &mut budget)`: the result and the remaining budget. The initial
`if *budget == 0 { return false }  *budget -= 1` is repeated in every arm (the recursion is
structural in the node). -/
def isUnrollable : Node → Nat → Bool × Nat
  | .loop _ _ _ _, budget => if budget == 0 then (false, budget) else (false, budget - 1)
  | .loop1 _ _, budget => if budget == 0 then (false, budget) else (false, budget - 1)
  | .cat nodes, budget =>
    if budget == 0 then (false, budget) else allUnrollable nodes (budget - 1)
  | .alt left right, budget =>
    if budget == 0 then (false, budget) else
    match isUnrollable left (budget - 1) with
    | (false, b) => (false, b)
    | (true, b) => isUnrollable right b
  | .group _ _ contents, budget =>
    if budget == 0 then (false, budget) else isUnrollable contents (budget - 1)
  | .look _ _ _ _ contents, budget =>
    if budget == 0 then (false, budget) else isUnrollable contents (budget - 1)
  | _, budget => if budget == 0 then (false, budget) else (true, budget - 1)
/-- `nodes.iter().all(|n| is_unrollable(n, budget))` (short-circuiting). -/
def allUnrollable : List Node → Nat → Bool × Nat
  | [], budget => (true, budget)
  | n :: ns, budget =>
    match isUnrollable n budget with
    | (false, b) => (false, b)
    | (true, b) => allUnrollable ns b
end

/-! ## `remove_empties` -/

/-- `remove_empties`. -/
def removeEmpties : PassFn := fun n _w =>
  match n with
  | .empty | .goal | .char _ => .ok .keep
  | .byteSeq v => if v.isEmpty then .ok .remove else .ok .keep
  | .byteSet _ | .charSet _ | .stringSet _ _ => .ok .keep
  | .cat nodes =>
    let blen := nodes.length
    -- nodes.retain(|nn| !nn.is_empty());
    let nodes := nodes.filter (fun nn => !nn.isEmpty)
    if nodes.length == blen then .ok .keep
    else
      match nodes with
      | [] => .ok .remove
      | [x] => .ok (.replace x)                       -- nodes.pop().unwrap()
      | _ => .ok (.modified (.cat nodes))
  | .alt left right =>
    if left.isEmpty && right.isEmpty then .ok .remove else .ok .keep
  | .matchAny | .matchAnyExceptLT | .anchor _ _ => .ok .keep
  | .loop loopee quant g0 g1 =>
    if loopee.isEmpty || (quant.max == some 0 && g0 == g1) then .ok .remove else .ok .keep
  | .loop1 _ _ => .ok .keep
  | .group _ _ _ => .ok .keep
  | .wordBoundary _ _ | .backRef _ _ | .bracket _ => .ok .keep
  | .look negate _ _ _ contents =>
    if !negate && contents.isEmpty then .ok .remove else .ok .keep

/-! ## `propagate_early_fails` -/

mutual
/-- `contains_capture_groups`. -/
def containsCaptureGroups : Node → Bool
  | .group _ _ _ => true
  | .cat nodes => anyContainsCaptureGroups nodes
  | .alt left right => containsCaptureGroups left || containsCaptureGroups right
  | .loop loopee _ _ _ => containsCaptureGroups loopee
  | .look _ _ _ _ contents => containsCaptureGroups contents
  | _ => false
/-- `nodes.iter().any(contains_capture_groups)`. -/
def anyContainsCaptureGroups : List Node → Bool
  | [] => false
  | n :: ns => containsCaptureGroups n || anyContainsCaptureGroups ns
end

/-- `propagate_early_fails`. -/
def propagateEarlyFails : PassFn := fun n _w =>
  if containsCaptureGroups n then .ok .keep else
  match n with
  | .cat nodes =>
    if nodes.any (fun nn => nn.matchAlwaysFails) then .ok (.replace makeAlwaysFails) else .ok .keep
  | .alt left right =>
    let leftFails := left.matchAlwaysFails
    let rightFails := right.matchAlwaysFails
    match leftFails, rightFails with
    | true, true => .ok (.replace makeAlwaysFails)
    | false, false => .ok .keep
    | true, false => .ok (.replace right)     -- "steal" the other side
    | false, true => .ok (.replace left)
  | .loop loopee quant g0 g1 =>
    if g0 < g1 then .ok .keep else
    if quant.min > 0 && loopee.matchAlwaysFails then .ok (.replace makeAlwaysFails) else .ok .keep
  | _ => .ok .keep

/-! ## `decat` -/

/-- The `for nn in catted { match nn { Cat(nnodes) => decatted.append(nnodes), _ => decatted.push(nn) } }`
loop. -/
def decatLoop : List Node → List Node → List Node
  | [], decatted => decatted
  | .cat nnodes :: rest, decatted => decatLoop rest (decatted ++ nnodes)
  | nn :: rest, decatted => decatLoop rest (decatted ++ [nn])

/-- `decat`. -/
def decat : PassFn := fun n _w =>
  match n with
  | .cat nodes =>
    match nodes with
    | [] => .ok .remove
    | [x] => .ok (.replace x)
    | _ =>
      if nodes.any (fun nn => nn.isCat) then .ok (.replace (.cat (decatLoop nodes [])))
      else .ok .keep
  | _ => .ok .keep

/-! ## `unroll_loops` -/

/-- `2^64` (`usize::MAX + 1`). -/
def USIZE_MOD : Nat := 18446744073709551616

/-- `v - m` on `usize` in a release build (wrapping). -/
def usizeSub (v m : Nat) : Nat := if m ≤ v then v - m else v + USIZE_MOD - m

/-- `for _ in 0..quant.min { let Some(node) = loopee.try_duplicate(0) else { return Keep }; unrolled.push(node) }`:
`.ok none` is the early `return PassAction::Keep`. -/
def unrollDup (loopee : Node) : Nat → List Node → Except OptErr (Option (List Node))
  | 0, unrolled => .ok (some unrolled)
  | k + 1, unrolled =>
    match loopee.tryDuplicate 0 with
    | .error e => .error (.dup e)
    | .ok none => .ok none
    | .ok (some node) => unrollDup loopee k (unrolled ++ [node])

/-- `unroll_loops`. -/
def unrollLoops : PassFn := fun n _w =>
  match n with
  | .loop loopee quant g0 g1 =>
    if g0 < g1 then .ok .keep else
    if quant.min == 0 || quant.min > LOOP_UNROLL_THRESHOLD then .ok .keep else
    if !(isUnrollable loopee UNROLL_BODY_BUDGET).1 then .ok .keep else
    match unrollDup loopee quant.min [] with
    | .error e => .error e
    | .ok none => .ok .keep
    | .ok (some unrolled) =>
      let quant : Quant := { quant with max := quant.max.map (fun v => usizeSub v quant.min) }
      let quant : Quant := { quant with min := 0 }
      let unrolled :=
        if quant.max != some 0 then unrolled ++ [.loop loopee quant g0 g1] else unrolled
      .ok (.modified (.cat unrolled))
  | _ => .ok .keep

/-! ## `promote_1char_loops` -/

/-- `promote_1char_loops`. -/
def promote1CharLoops : PassFn := fun n _w =>
  match n with
  | .loop loopee quant g0 g1 =>
    if !loopee.matchesExactlyOneChar then .ok .keep else
    if !(g0 ≥ g1) then .error .promoteEnclosedGroups else
    .ok (.modified (.loop1 loopee quant))
  | _ => .ok .keep

/-! ## `form_literal_bytes` (the crate is built without the `utf16` feature) -/

/-- The `for idx in 1..nodes.len()` loop of the `Cat` arm, as a left-to-right sweep:
`prev` is `nodes[idx-1]` *as left by the previous iteration*, the list is `nodes[idx..]`. Returns
the nodes from `idx-1` on, and whether something was merged.

One iteration on two adjacent non-empty byte sequences `p`, `c`:
* in a look-behind: `curr_bytes.append(prev_bytes)` — `curr = c ++ p`, `prev = []`;
* otherwise: `prev_bytes.append(curr_bytes); swap(prev_bytes, curr_bytes)` — `curr = p ++ c`, `prev = []`.
The emptied `prev` stays in the vector (removed later by `remove_empties`). -/
def mergeLiteralBytes (inLookbehind : Bool) : Node → List Node → List Node × Bool
  | prev, [] => ([prev], false)
  | prev, curr :: rest =>
    match prev, curr with
    | .byteSeq prevBytes, .byteSeq currBytes =>
      if !prevBytes.isEmpty && !currBytes.isEmpty then
        let currBytes' := if inLookbehind then currBytes ++ prevBytes else prevBytes ++ currBytes
        let r := mergeLiteralBytes inLookbehind (.byteSeq currBytes') rest
        (.byteSeq [] :: r.1, true)
      else
        let r := mergeLiteralBytes inLookbehind curr rest
        (prev :: r.1, r.2)
    | _, _ =>
      let r := mergeLiteralBytes inLookbehind curr rest
      (prev :: r.1, r.2)

/-- `form_literal_bytes`. -/
def formLiteralBytes : PassFn := fun n walk =>
  match n with
  | .char c =>
    if Utf8.isScalar c then .ok (.replace (.byteSeq (Utf8.encode c))) else .ok .keep
  | .charSet chars =>
    if chars.all (fun c => c ≤ 0x7F) then .ok (.replace (.byteSet chars)) else .ok .keep
  | .cat nodes =>
    match nodes with
    | [] => .ok .keep
    | first :: rest =>
      let r := mergeLiteralBytes walk.inLookbehind first rest
      if r.2 then .ok (.modified (.cat r.1)) else .ok .keep
  | _ => .ok .keep

/-! ## `simplify_brackets` -/

def toIvList (ivs : List (Nat × Nat)) : CPS.IvList := ivs.map fun iv => { first := iv.1, last := iv.2 }
def ofIvList (ivs : CPS.IvList) : List (Nat × Nat) := ivs.map fun iv => (iv.first, iv.last)

/-- `iv.codepoints()` = `first..(last + 1)`. -/
def ivCodepoints (iv : Nat × Nat) : List Nat := List.range' iv.1 (iv.2 + 1 - iv.1)

/-- `try_reduce_bracket`. -/
def tryReduceBracket (bc : Bracket) : Option Node :=
  if bc.invert then none else
  let cpsCount := bc.ivs.foldl (fun acc iv => acc + (iv.2 - iv.1 + 1)) 0
  if cpsCount > MAX_CHAR_SET_LENGTH then none else
  some (.charSet (bc.ivs.flatMap ivCodepoints))

/-- `simplify_brackets`. -/
def simplifyBrackets : PassFn := fun n _w =>
  match n with
  | .bracket bc =>
    match tryReduceBracket bc with
    | some newNode => .ok (.replace newNode)
    | none =>
      let cps := toIvList bc.ivs
      if cps.length > CPS.invertedIntervalCount cps then
        .ok (.modified (.bracket { invert := !bc.invert, ivs := ofIvList (CPS.inverted cps) }))
      else .ok .keep
  | _ => .ok .keep

/-! ## `Pass` -/

/-- The closure `Pass::run_postorder` hands to `walk_mut`; the captured state is `self.changed`. -/
def passVisitor (func : PassFn) : Visitor Bool OptErr := fun n walk changed =>
  match func n walk with
  | .error e => .error e
  | .ok .keep => .ok (n, walk, changed)
  | .ok (.modified n') => .ok (n', walk, true)
  | .ok .remove => .ok (.empty, walk, true)
  | .ok (.replace newnode) => .ok (newnode, walk, true)

/-- `Pass::run_postorder`: the new tree and the new `self.changed`. -/
def runPostorder (func : PassFn) (unicode : Bool) (start : Node) (changed : Bool) :
    Except OptErr (Node × Bool) :=
  walkMutPost (passVisitor func) unicode start changed

/-- `Pass::run_to_fixpoint` (`loop { changed = false; run_postorder; if !changed { break } }`);
returns the tree and `self.changed` as it is on exit. -/
def runToFixpoint (func : PassFn) (unicode : Bool) : Nat → Node → Except OptErr (Node × Bool)
  | 0, _ => .error .fuelFixpoint
  | fuel + 1, n =>
    match runPostorder func unicode n false with
    | .error e => .error e
    | .ok (n, changed) =>
      if !changed then .ok (n, changed) else runToFixpoint func unicode fuel n

/-- `run_pass`: returns `p.changed`. (NB: `run_to_fixpoint` only exits with `changed == false`, so
this is always `false` — see `runPass_changed`.) -/
def runPass (func : PassFn) (fuel : Nat) (r : Regex) : Except OptErr (Regex × Bool) :=
  match runToFixpoint func r.flags.unicode fuel r.node with
  | .error e => .error e
  | .ok (n, changed) => .ok ({ r with node := n }, changed)

/-- One iteration of the body of the `loop` of `optimize`: `changed |= run_pass(…)` six times. -/
def optimizeRound (fuel : Nat) (r : Regex) : Except OptErr (Regex × Bool) :=
  let changed := false
  match runPass decat fuel r with
  | .error e => .error e
  | .ok (r, c) =>
    let changed := changed || c
    match runPass unrollLoops fuel r with
    | .error e => .error e
    | .ok (r, c) =>
      let changed := changed || c
      match runPass promote1CharLoops fuel r with
      | .error e => .error e
      | .ok (r, c) =>
        let changed := changed || c
        match runPass formLiteralBytes fuel r with
        | .error e => .error e
        | .ok (r, c) =>
          let changed := changed || c
          match runPass removeEmpties fuel r with
          | .error e => .error e
          | .ok (r, c) =>
            let changed := changed || c
            match runPass propagateEarlyFails fuel r with
            | .error e => .error e
            | .ok (r, c) => .ok (r, changed || c)

/-- The `loop { …; if !changed { break } }` of `optimize`. -/
def optimizeLoop (fuel : Nat) : Nat → Regex → Except OptErr Regex
  | 0, _ => .error .fuelOuter
  | outer + 1, r =>
    match optimizeRound fuel r with
    | .error e => .error e
    | .ok (r, changed) => if !changed then .ok r else optimizeLoop fuel outer r

/-- `optimizer::optimize`. `fuel` bounds each `run_to_fixpoint` and the outer loop. -/
def optimize (fuel : Nat) (r : Regex) : Except OptErr Regex :=
  match runPass simplifyBrackets fuel r with
  | .error e => .error e
  | .ok (r, _) => optimizeLoop fuel fuel r

/-- `run_to_fixpoint` exits only with `changed == false`; hence `run_pass` always returns `false`
and the outer `loop` of `optimize` never runs its body a second time. -/
theorem runToFixpoint_changed (func : PassFn) (unicode : Bool) (fuel : Nat) (n n' : Node) (c : Bool)
    (h : runToFixpoint func unicode fuel n = .ok (n', c)) : c = false := by
  induction fuel generalizing n with
  | zero => simp [runToFixpoint] at h
  | succ k ih =>
    unfold runToFixpoint at h
    split at h
    · simp at h
    · rename_i n1 changed _
      cases hc : changed with
      | false => simp [hc] at h; exact h.2
      | true => simp [hc] at h; exact ih _ h

theorem runPass_changed (func : PassFn) (fuel : Nat) (r r' : Regex) (c : Bool)
    (h : runPass func fuel r = .ok (r', c)) : c = false := by
  unfold runPass at h
  split at h
  · simp at h
  · rename_i n changed heq
    simp at h
    rw [← h.2]
    exact runToFixpoint_changed _ _ _ _ _ _ heq

/-- The body of the `loop` of `optimize` always computes `changed == false` … -/
theorem optimizeRound_changed (fuel : Nat) (r r' : Regex) (c : Bool)
    (h : optimizeRound fuel r = .ok (r', c)) : c = false := by
  unfold optimizeRound at h
  repeat' split at h
  all_goals try (simp at h; done)
  rename_i _ r1 c1 h1 _ r2 c2 h2 _ r3 c3 h3 _ r4 c4 h4 _ r5 c5 h5 _ r6 c6 h6
  have e1 := runPass_changed _ _ _ _ _ h1
  have e2 := runPass_changed _ _ _ _ _ h2
  have e3 := runPass_changed _ _ _ _ _ h3
  have e4 := runPass_changed _ _ _ _ _ h4
  have e5 := runPass_changed _ _ _ _ _ h5
  have e6 := runPass_changed _ _ _ _ _ h6
  simp at h
  rw [← h.2, e1, e2, e3, e4, e5, e6]
  rfl

/-- … so the outer `loop` of `optimize` runs its body exactly once: every pass is run to its own
fixpoint once, in the order `decat`, `unroll_loops`, `promote_1char_loops`, `form_literal_bytes`,
`remove_empties`, `propagate_early_fails`, and e.g. the nested `Cat`s that `unroll_loops` creates
are never flattened by `decat`. -/
theorem optimizeLoop_once (fuel outer : Nat) (r : Regex) :
    optimizeLoop fuel (outer + 1) r =
      match optimizeRound fuel r with
      | .error e => .error e
      | .ok (r', _) => .ok r' := by
  unfold optimizeLoop
  split
  · rfl
  · rename_i r' c h
    have := optimizeRound_changed _ _ _ _ h
    subst this
    rfl

end Regress.IR
