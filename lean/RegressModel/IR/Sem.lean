import RegressModel.IR.Node
import RegressModel.VM.Input
import RegressModel.Unicode.Fold
/-!
# A denotational ("list of successes") semantics of the IR

`sem inp n fwd st` is the list of all the states in which the code that `emit.rs` emits for the IR
node `n` can be left, when it is entered in state `st` and run in direction `fwd` (`true`: the
cursor moves right, `false`: the code sits in a look-behind and the cursor moves left), **in the
priority order in which the two executors explore them** (the first element is the outcome the
backtracking executor reaches first / the PikeVM's highest-priority thread).  The first success of
the whole pattern is therefore `(sem inp n true st₀).head?`.

A state is a position (byte offset) and the capture-group table, a group being a pair
`(start, end)` of options that are set separately, as in `types::GroupData`.

The semantics is *total and structurally recursive in the node*; no global fuel.  The only
iteration is the loop, which is a separate higher-order function (`loopIter`, `loop1Iter`) taking
the semantics of the loop body as an argument and a local iteration budget.  The budget that `sem`
hands to it, `q.min + (distance to the end of the input in the direction of travel) + 2`, is never
exhausted (`Proofs/Lemmas/Sem.lean`, `loopIter_fuel`): an iteration beyond the minimum that does not
move the cursor is rejected by the engine's empty-iteration rule, and every node moves the cursor
only in the direction of travel.

All input accesses go through the primitives of `VM/Input.lean` (the ones the interpreter models
use).  An `.error ()` of a primitive (a read that the Rust code performs unchecked; impossible on
well-formed UTF-8 at a char boundary) counts as "no match".

Correspondence with `emit.rs` / the executors, node by node:

* `Cat` — children in list order, whatever the direction (the parser has already reversed the
  children of every `Cat` inside a look-behind).
* `Alt` — successes of the left arm, then those of the right arm.
* `Char`, `CharSet`, `Bracket`, `MatchAny…` — `cursor::next` in the direction of travel, then the
  test.  (`Bracket` is emitted as the byte-level `AsciiBracket` when it is a non-inverted ASCII set;
  on UTF-8 text at a char boundary that is the same test.)
* `ByteSet` — `cursor::next_byte`, membership.  `ByteSequence` — `match_bytes` of the whole block
  (forward: the block starts at `pos`; backward: it ends at `pos`), which is what the chunks of 16
  (emitted in reverse order inside a look-behind) do one after the other.
* `CaptureGroup` — forward: `start := pos` before, `end := pos` after; backward: `end` before,
  `start` after.
* `BackRef {group}` — group index `group - 1`; a group whose `as_range()` is `None` matches empty.
* `LookaroundAssertion` — the body runs in direction `!backwards` from the current position;
  positive: first success of the body, position restored, captures of that success kept; negative:
  succeeds iff the body has no success, state unchanged.
* `Loop` — `run_loop` of both executors: `iters` completed iterations; *first* the empty check
  (`entry == pos && iters > min` ⇒ this path fails), then enter iff `iters < max`, leave iff
  `iters ≥ min`, greedy ⇒ enter first.  Entering resets the groups `g0..g1`.
* `Loop1CharBody` — `min..max` repetitions of the (single-instruction) body; greedy: longest first.
* `StringSet` — alternatives in order; an alternative is its code points one after the other (in
  reverse order when travelling backward), each lowered as `literal::lower_code_point_sequence` does.
-/
namespace Regress.IR

open Regress.VM

abbrev Cap := Option Nat × Option Nat

/-- A matcher state: position and capture groups (`GroupData { start, end }`). -/
structure St where
  pos : Nat
  caps : List Cap
deriving Repr, DecidableEq, Inhabited

/-- `groups[g].start = Some(p)`. -/
def St.setStart (st : St) (g p : Nat) : St :=
  { st with caps := st.caps.modify g (fun c => (some p, c.2)) }

/-- `groups[g].end = Some(p)`. -/
def St.setEnd (st : St) (g p : Nat) : St :=
  { st with caps := st.caps.modify g (fun c => (c.1, some p)) }

/-- `ResetCaptureGroup(g)` for `g0 ≤ g < g1` (`i` is the index of the head of the list). -/
def resetFrom : List Cap → (i g0 g1 : Nat) → List Cap
  | [], _, _, _ => []
  | c :: cs, i, g0, g1 => (if g0 ≤ i && i < g1 then (none, none) else c) :: resetFrom cs (i + 1) g0 g1

def St.resetGroups (st : St) (g0 g1 : Nat) : St := { st with caps := resetFrom st.caps 0 g0 g1 }

/-- `cursor::next` in direction `fwd`, then the test `p` on the element. -/
def charStep (inp : Input) (fwd : Bool) (pos : Nat) (p : Nat → Bool) : Option Nat :=
  match Cursor.next inp fwd pos with
  | .ok (some (c, pos')) => if p c then some pos' else none
  | _ => none

/-- `cursor::next_byte` in direction `fwd`, then the test `p` on the byte. -/
def byteStep (inp : Input) (fwd : Bool) (pos : Nat) (p : Nat → Bool) : Option Nat :=
  match Cursor.nextByte inp fwd pos with
  | .ok (some (b, pos')) => if p b then some pos' else none
  | _ => none

/-- Zero or one success, at a new position. -/
def optSt (st : St) : Option Nat → List St
  | none => []
  | some p => [{ st with pos := p }]

/-- A zero-width test. -/
def guardSt (st : St) (b : Bool) : List St := if b then [st] else []

/-- `Insn::StartOfLine { multiline }`. -/
def startOfLine (inp : Input) (multiline : Bool) (pos : Nat) : Bool :=
  match inp.peekLeft pos with
  | .ok none => true
  | .ok (some c) => multiline && isLineTerminator c
  | .error _ => false

/-- `Insn::EndOfLine { multiline }`. -/
def endOfLine (inp : Input) (multiline : Bool) (pos : Nat) : Bool :=
  match inp.peekRight pos with
  | .ok none => true
  | .ok (some c) => multiline && isLineTerminator c
  | .error _ => false

/-- `peek_left(pos).is_some_and(p)`; `none` is an unchecked read gone wrong. -/
def peekTest (r : Except Unit (Option Nat)) (p : Nat → Bool) : Option Bool :=
  match r with
  | .ok none => some false
  | .ok (some c) => some (p c)
  | .error _ => none

/-- `Insn::WordBoundary { invert }` / `Insn::WordBoundaryUnicodeICase { invert }`. -/
def wordBoundary (inp : Input) (invert unicodeIcase : Bool) (pos : Nat) : Bool :=
  let p := if unicodeIcase then isWordCharUnicodeIcase else isWordChar
  match peekTest (inp.peekLeft pos) p, peekTest (inp.peekRight pos) p with
  | some prev, some curr => (prev != curr) != invert
  | _, _ => false

/-- `Insn::BackRef { group: g - 1, icase }`: the new position, or `none`. -/
def backRefStep (inp : Input) (icase fwd : Bool) (rs re pos : Nat) : Option Nat :=
  if icase then
    match backrefIcase inp fwd rs re pos with
    | .ok r => r
    | .error _ => none
  else backref inp fwd rs re pos

/-- One code point of a `StringSet` alternative, lowered as `lower_code_point_sequence` lowers it:
one expansion ⇒ its UTF-8 bytes (or a `Char` if it is not a scalar value); several, all ASCII ⇒ a
`ByteSet`; otherwise a `CharSet`. -/
def cpStep (inp : Input) (icase fwd : Bool) (pos : Nat) (cp : Nat) : Option Nat :=
  match Fold.expandCodePoint cp icase inp.unicode with
  | [c] =>
    if Utf8.isScalar c then inp.matchBytes fwd pos (Utf8.encode c)
    else charStep inp fwd pos (fun c2 => c2 == c)
  | chars =>
    if chars.all (fun c => c ≤ 0x7F) then byteStep inp fwd pos (fun b => chars.contains b)
    else charStep inp fwd pos (charsetContains chars)

/-- A sequence of steps, each from the position the previous one reached. -/
def stepSeq (step : Nat → Nat → Option Nat) : List Nat → Nat → Option Nat
  | [], pos => some pos
  | c :: cs, pos =>
    match step pos c with
    | none => none
    | some pos' => stepSeq step cs pos'

/-- One alternative of a `StringSet` (`emit_code_point_sequence`): the pieces are emitted in
reverse order inside a look-behind. -/
def cpSeq (inp : Input) (icase fwd : Bool) (cps : List Nat) (pos : Nat) : Option Nat :=
  stepSeq (cpStep inp icase fwd) (if fwd then cps else cps.reverse) pos

/-- `iters < max_iters` (`max_iters = usize::MAX` for an unbounded loop). -/
def maxOk (q : Quant) (iter : Nat) : Bool :=
  match q.max with
  | none => true
  | some m => iter < m

/-- Distance from `pos` to the end of the input in the direction of travel. -/
def mu (inp : Input) (fwd : Bool) (pos : Nat) : Nat := if fwd then inp.len - pos else pos

/-- `run_loop`, as a function of the semantics `body` of the loop body. `iter` = completed
iterations, `entry` = position at which the last iteration was entered; the first argument is the
iteration budget. -/
def loopIter (body : St → List St) (q : Quant) (g0 g1 : Nat) : Nat → Nat → Nat → St → List St
  | 0, _, _, _ => []
  | k + 1, iter, entry, st =>
    if entry == st.pos && decide (iter > q.min) then []
    else
      match maxOk q iter, decide (iter ≥ q.min) with
      | false, false => []
      | false, true => [st]
      | true, false =>
        (body (st.resetGroups g0 g1)).flatMap (loopIter body q g0 g1 k (iter + 1) st.pos)
      | true, true =>
        if q.greedy then
          (body (st.resetGroups g0 g1)).flatMap (loopIter body q g0 g1 k (iter + 1) st.pos) ++ [st]
        else
          st :: (body (st.resetGroups g0 g1)).flatMap (loopIter body q g0 g1 k (iter + 1) st.pos)

/-- `Insn::Loop1CharBody` (in the PikeVM's formulation; `run_scm_loop` of the backtracking executor
visits the same positions in the same order). The body is a single-character matcher: only its
first (and only) success is used. -/
def loop1Iter (body : St → List St) (q : Quant) : Nat → Nat → St → List St
  | 0, _, _ => []
  | k + 1, iter, st =>
    let taken : Option St := if maxOk q iter then (body st).head? else none
    match taken, decide (iter ≥ q.min) with
    | none, false => []
    | none, true => [st]
    | some st', false => loop1Iter body q k (iter + 1) st'
    | some st', true =>
      if q.greedy then loop1Iter body q k (iter + 1) st' ++ [st]
      else st :: loop1Iter body q k (iter + 1) st'

/-- The iteration budget `sem` gives to a loop entered in state `st`. -/
def loopBudget (inp : Input) (q : Quant) (fwd : Bool) (st : St) : Nat := q.min + mu inp fwd st.pos + 2

mutual
/-- All successes of `n` entered in state `st`, travelling in direction `fwd`, in priority order. -/
def sem (inp : Input) : Node → Bool → St → List St
  | .empty, _, st => [st]
  | .goal, _, st => [st]
  | .char c, fwd, st => optSt st (charStep inp fwd st.pos (fun c2 => c2 == c))
  | .byteSeq bs, fwd, st => optSt st (inp.matchBytes fwd st.pos bs)
  | .byteSet bs, fwd, st => optSt st (byteStep inp fwd st.pos (fun b => bs.contains b))
  | .charSet cs, fwd, st => optSt st (charStep inp fwd st.pos (charsetContains cs))
  | .cat ns, fwd, st => semCat inp ns fwd st
  | .alt l r, fwd, st => sem inp l fwd st ++ sem inp r fwd st
  | .matchAny, fwd, st => optSt st (charStep inp fwd st.pos (fun _ => true))
  | .matchAnyExceptLT, fwd, st => optSt st (charStep inp fwd st.pos (fun c => !isLineTerminator c))
  | .anchor sol multiline, _, st =>
    guardSt st (if sol then startOfLine inp multiline st.pos else endOfLine inp multiline st.pos)
  | .wordBoundary invert unicodeIcase, _, st => guardSt st (wordBoundary inp invert unicodeIcase st.pos)
  | .group id _ c, fwd, st =>
    (sem inp c fwd (if fwd then st.setStart id st.pos else st.setEnd id st.pos)).map
      (fun s => if fwd then s.setEnd id s.pos else s.setStart id s.pos)
  | .backRef g icase, fwd, st =>
    if g == 0 then [] else         -- `group - 1` underflows: an out-of-bounds group index
    match st.caps[g - 1]? with
    | none => []                   -- an out-of-bounds group index (a panic in the engine)
    | some (some rs, some re) => optSt st (backRefStep inp icase fwd rs re st.pos)
    | some _ => [st]
  | .bracket bc, fwd, st => optSt st (charStep inp fwd st.pos (bracketTest { invert := bc.invert, ivs := bc.ivs }))
  | .stringSet alts icase, fwd, st => alts.flatMap (fun a => optSt st (cpSeq inp icase fwd a st.pos))
  | .look negate backwards _ _ c, _, st =>
    match sem inp c (!backwards) st with
    | [] => if negate then [st] else []
    | s :: _ => if negate then [] else [{ pos := st.pos, caps := s.caps }]
  | .loop body q g0 g1, fwd, st =>
    loopIter (fun s => sem inp body fwd s) q g0 g1 (loopBudget inp q fwd st) 0 0 st
  | .loop1 body q, fwd, st =>
    loop1Iter (fun s => sem inp body fwd s) q (loopBudget inp q fwd st) 0 st
/-- The children of a `Cat`, in list order. -/
def semCat (inp : Input) : List Node → Bool → St → List St
  | [], _, st => [st]
  | n :: ns, fwd, st => (sem inp n fwd st).flatMap (fun s => semCat inp ns fwd s)
end

/-! ## The first match -/

mutual
/-- The number of `CaptureGroup` nodes (`CompiledRegex::groups`). -/
def numGroups : Node → Nat
  | .cat ns => numGroupsList ns
  | .alt l r => numGroups l + numGroups r
  | .group _ _ c => numGroups c + 1
  | .look _ _ _ _ c => numGroups c
  | .loop b _ _ _ => numGroups b
  | .loop1 b _ => numGroups b
  | _ => 0
def numGroupsList : List Node → Nat
  | [] => 0
  | n :: ns => numGroups n + numGroupsList ns
end

/-- The state in which an attempt at offset `p` starts. -/
def initSt (n : Node) (p : Nat) : St := { pos := p, caps := List.replicate (numGroups n) (none, none) }

/-- One anchored attempt at offset `p` (`try_at_pos(inp, 0, p, Forward)`): the final state. -/
def firstMatch (inp : Input) (n : Node) (p : Nat) : Option St := (sem inp n true (initSt n p)).head?

/-- The leftmost search: attempts at the char boundaries `p, p+1, …, len` (`k` bounds the scan). -/
def semFindFrom (inp : Input) (n : Node) : Nat → Nat → Option (Nat × St)
  | 0, _ => none
  | k + 1, p =>
    if p > inp.len then none
    else if Utf8.isBoundary inp.bytes p then
      match firstMatch inp n p with
      | some s => some (p, s)
      | none => semFindFrom inp n k (p + 1)
    else semFindFrom inp n k (p + 1)

/-- The first match at or after `start`: its start offset and final state. -/
def semFind (inp : Input) (n : Node) (start : Nat) : Option (Nat × St) :=
  semFindFrom inp n (inp.len + 1 - start) start

/-! ## Driver interface -/

/-- `GroupData::as_range` printed as `a-b` or `_`. -/
def capText : Cap → String
  | (some a, some b) => s!"{a}-{b}"
  | _ => "_"

/-- `s-e[c;c;…]`. -/
def matchText (start : Nat) (st : St) : String :=
  s!"{start}-{st.pos}[" ++ ";".intercalate (st.caps.map capText) ++ "]"

/-- Bytes as two-digit hex, concatenated, or `-`. -/
def parseHexBytes (s : String) : Option (List Nat) :=
  if s == "-" then some []
  else
    let rec go : List Char → Option (List Nat)
      | [] => some []
      | [_] => none
      | a :: b :: rest => match hexVal a, hexVal b, go rest with
        | some x, some y, some r => some ((x * 16 + y) :: r)
        | _, _, _ => none
    go s.toList

/-- `semfind FLAGS IR HAYHEX START`: `flags` is the flag string (`-` for none; only `u`/`v`
matter: they are `Utf8Input::unicode`), `ir` the canonical IR (spaces as `~`), `hayHex` the
haystack bytes. Answers `none`, `m s-e[c;c;…]` or `bad-request`. -/
def semFindLine (flags ir : String) (hayHex : String) (start : Nat) : String :=
  match parseCanon ir, parseHexBytes hayHex with
  | some n, some bytes =>
    let unicode := flags.toList.contains 'u' || flags.toList.contains 'v'
    let inp : Input := { kind := .utf8, bytes := bytes.toArray, unicode := unicode }
    match semFind inp n start with
    | none => "none"
    | some (s, st) => "m " ++ matchText s st
  | _, _ => "bad-request"

end Regress.IR
