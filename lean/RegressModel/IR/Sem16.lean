import RegressModel.IR.Sem
import RegressModel.IR.Optimize
import RegressModel.Text.Utf16
/-!
# The denotational semantics of the IR over UTF-16 / UCS-2 input (feature `utf16`)

`sem16` is `sem` (`IR/Sem.lean`) with the input read through `Utf16Input` / `Ucs2Input`
(`src/indexing.rs`, modelled in `Text/Utf16.lean`) instead of `Utf8Input`.  The `utf16` build runs
**only the backtracking executor** (`find_from_utf16` / `find_from_ucs2` in `src/api.rs` build a
`BacktrackExecutor` directly), has **no prefilter** (`next_match` always uses `EmptyString`; with
`CODE_UNITS_ARE_BYTES == false` `find_bytes` is never called) and executes IR **without byte-level
nodes**: `form_literal_bytes` is compiled out of `optimizer::optimize` (`optimize16` below) and
`emit_code_point_sequence` emits `Char` / `CharSet` for the code points of a `StringSet`.

Differences with the UTF-8 path that this file reproduces (all in the Rust code):

* `Element = u32`.  `next_right` / `next_left` return a **lone surrogate as itself** (an unpaired
  high or low unit is an element `0xD800..0xDFFF`); `Ucs2Input` never pairs.
* `Insn::Char(c)`: `<u32 as ElementType>::try_from(c)` is always `Some`, so `Char(0xD800)` matches a
  lone surrogate unit (on UTF-8 input it can never match).
* `Utf16CharProperties::fold` is `unicode::fold_code_point(c, unicode)` itself (no
  `char::from_u32(..).unwrap_or(c)`).
* `AsciiBracket` (a non-inverted bracket with all intervals below 128) goes through
  `scm::MatchByteSet` with `CODE_UNITS_ARE_BYTES == false`: decode the element, `u8::try_from`, then
  the bitmap.
* `subrange_eq` (plain back-reference) compares **raw code units** and moves by the number of units
  of the captured range (since 7fc34e1 `Utf16Input::subrange_eq` refuses a range whose far end lies
  between the halves of a surrogate pair; `Input16.pairCheck = false` is the code before that fix);
  `backref_icase` decodes the captured sub-slice (`subinput`) on its own.
* `Loop1CharBody` is run by `run_scm_loop`: the positions between `min_pos` and `max_pos` are not
  recorded but recomputed on backtracking with `next_left_pos` / `next_right_pos`
  (`GreedyLoop1Char` / `NonGreedyLoop1Char`), until the position **equals** the other end; if the
  decoder returns `None` first, `rs_unreachable!` is hit.  On input where the cursor can stand
  between the two halves of a surrogate pair the walk back jumps over its end point: before
  7fc34e1 this was reachable (a plain back-reference to a lone high surrogate could end inside a
  pair), see `Proofs/C14Sem.lean`.  The `PikeVM` formulation used by `sem` is therefore *not* used here.
* The scan of `next_match_with_prefix_search` advances with `next_right_pos` (a pair is skipped as a
  whole); `find_from_utf16` first moves a start index that is between the halves of a pair back to
  the pair (fix of F18); `find_from_ucs2` does not.

## Outcomes

The backtracking executor explores the successes of a node in priority order, each with the
continuation, so a node denotes a list as in `sem`; but an element of the list can also be an
*abort* of the whole run, reached iff every earlier element fails in the continuation:

* `Out.panic` — a panic site of the engine is reached (`rs_unreachable!` in the walk back of a
  one-character loop: `unreachable!()` with `prohibit-unsafe`, `unreachable_unchecked` otherwise; the
  `unreachable!("Missing SCM")` of a `Loop1CharBody` whose body is not a one-character instruction;
  the `panic!`s of the byte primitives of `Utf16Input`).
* `Out.budget` — the iteration budget that the model gives to a `Loop` ran out.  With the budget of
  `sem` (`min + distance to the end + 2`) this cannot happen as long as the cursor only moves in the
  direction of travel; on UTF-16 input that was false in the situation described above (before
  7fc34e1), and the real engine then recursed without bound.

As in `sem`, the *precondition violations* that the emitted programs never commit (a group index
out of range, a captured range with `start > end` or beyond the input) count as "no match".

Positions are code-unit offsets.
-/
namespace Regress.IR

open Regress.VM Regress

/-- `Utf16Input { input, unicode }` (`ucs2 = false`) / `Ucs2Input { input, unicode }` (`ucs2 = true`). -/
structure Input16 where
  ucs2 : Bool
  units : Array Nat
  unicode : Bool
  /-- The revision of `Utf16Input::subrange_eq`: `true` = with the check of commit 7fc34e1 (a compared
  range may not end between the halves of a surrogate pair); `false` = the code before it, kept for
  the regression theorems of `Proofs/C14Sem.lean`. -/
  pairCheck : Bool := true
deriving Repr, Inhabited

namespace Input16

/-- `right_end` as an offset. -/
def len (inp : Input16) : Nat := inp.units.size

/-- `next_right`. -/
def nextRight (inp : Input16) (pos : Nat) : Option (Nat × Nat) :=
  if inp.ucs2 then Utf16.Ucs2.nextRight inp.units pos else Utf16.nextRight inp.units pos

/-- `next_left`. -/
def nextLeft (inp : Input16) (pos : Nat) : Option (Nat × Nat) :=
  if inp.ucs2 then Utf16.Ucs2.nextLeft inp.units pos else Utf16.nextLeft inp.units pos

/-- `next_right_pos`. -/
def nextRightPos (inp : Input16) (pos : Nat) : Option Nat :=
  if inp.ucs2 then Utf16.Ucs2.nextRightPos inp.units pos else Utf16.nextRightPos inp.units pos

/-- `next_left_pos`. -/
def nextLeftPos (inp : Input16) (pos : Nat) : Option Nat :=
  if inp.ucs2 then Utf16.Ucs2.nextLeftPos inp.units pos else Utf16.nextLeftPos inp.units pos

/-- `cursor::next`. -/
def next (inp : Input16) (fwd : Bool) (pos : Nat) : Option (Nat × Nat) :=
  if fwd then inp.nextRight pos else inp.nextLeft pos

/-- `next_right_pos` / `next_left_pos` according to the direction. -/
def nextPos (inp : Input16) (fwd : Bool) (pos : Nat) : Option Nat :=
  if fwd then inp.nextRightPos pos else inp.nextLeftPos pos

/-- `peek_right`. -/
def peekRight (inp : Input16) (pos : Nat) : Option Nat := (inp.nextRight pos).map (·.1)

/-- `peek_left`. -/
def peekLeft (inp : Input16) (pos : Nat) : Option Nat := (inp.nextLeft pos).map (·.1)

/-- `Utf16CharProperties::fold(c, unicode)` = `unicode::fold_code_point(c, unicode)`. -/
def fold (inp : Input16) (c : Nat) : Nat := Fold.foldCodePoint c inp.unicode

/-- `InputIndexer::fold_equals`. -/
def foldEquals (inp : Input16) (c1 c2 : Nat) : Bool := c1 == c2 || inp.fold c1 == inp.fold c2

end Input16

/-! ## Single-character tests -/

/-- `cursor::next` in direction `fwd`, then the test `p` on the element. -/
def charStep16 (inp : Input16) (fwd : Bool) (pos : Nat) (p : Nat → Bool) : Option Nat :=
  match inp.next fwd pos with
  | some (c, pos') => if p c then some pos' else none
  | none => none

/-- `emit::bracket_as_ascii(bc).is_some()`: not inverted and every interval ends below 128. -/
def bracketIsAscii (bc : Bracket) : Bool := !bc.invert && bc.ivs.all (fun iv => iv.2 < 128)

/-- The test of `Insn::AsciiBracket` on non-byte input (`scm::MatchByteSet`, the
`!CODE_UNITS_ARE_BYTES` branch): `u8::try_from(c)`, then `AsciiBitmap::contains`, the bitmap having
the bits of `r.first..=r.last` for every interval. -/
def asciiBracketTest16 (bc : Bracket) (c : Nat) : Bool :=
  c < 256 && (c < 128 && bc.ivs.any (fun iv => iv.1 ≤ c && c ≤ iv.2))

/-- `Node::Bracket` as emitted: `AsciiBracket` if `bracket_as_ascii` succeeds, else `Bracket`
(`CharProperties::bracket`). -/
def bracketTest16 (bc : Bracket) (c : Nat) : Bool :=
  if bracketIsAscii bc then asciiBracketTest16 bc c
  else bracketTest { invert := bc.invert, ivs := bc.ivs } c

/-- The test of a node that is emitted as one single-character instruction (what may follow an
`Insn::Loop1CharBody`): `Char`, `CharSet` (non-empty: an empty one is emitted as `JustFail`),
`Bracket` / `AsciiBracket`, `MatchAny`, `MatchAnyExceptLineTerminator`. -/
def scmPred16 : Node → Option (Nat → Bool)
  | .char c => some (fun c2 => c2 == c)
  | .charSet cs => if cs.isEmpty then none else some (charsetContains cs)
  | .bracket bc => some (bracketTest16 bc)
  | .matchAny => some (fun _ => true)
  | .matchAnyExceptLT => some (fun c => !isLineTerminator c)
  | _ => none

/-! ## Zero-width tests -/

/-- `Insn::StartOfLine { multiline }`. -/
def startOfLine16 (inp : Input16) (multiline : Bool) (pos : Nat) : Bool :=
  match inp.peekLeft pos with
  | none => true
  | some c => multiline && isLineTerminator c

/-- `Insn::EndOfLine { multiline }`. -/
def endOfLine16 (inp : Input16) (multiline : Bool) (pos : Nat) : Bool :=
  match inp.peekRight pos with
  | none => true
  | some c => multiline && isLineTerminator c

/-- `peek.is_some_and(p)`. -/
def peekTest16 (r : Option Nat) (p : Nat → Bool) : Bool :=
  match r with
  | none => false
  | some c => p c

/-- `Insn::WordBoundary { invert }` / `Insn::WordBoundaryUnicodeICase { invert }`. -/
def wordBoundary16 (inp : Input16) (invert unicodeIcase : Bool) (pos : Nat) : Bool :=
  let p := if unicodeIcase then isWordCharUnicodeIcase else isWordChar
  (peekTest16 (inp.peekLeft pos) p != peekTest16 (inp.peekRight pos) p) != invert

/-! ## Back-references -/

/-- The offset `far` lies between a high and a low surrogate:
`far > 0 && far < len && is_high(input[far - 1]) && is_low(input[far])`. -/
def splitsPair (units : Array Nat) (far : Nat) : Bool :=
  decide (far > 0) && decide (far < units.size) &&
    (match units[far - 1]?, units[far]? with
     | some a, some b => Utf16.isHighSurrogate a && Utf16.isLowSurrogate b
     | _, _ => false)

/-- `matchers::backref` = `subrange_eq`: raw code units.
`range.end - range.start` with `end < start` wraps (a debug assertion otherwise), so that
`try_move_*` fails: `false`.  `Utf16Input` (since 7fc34e1): after the `try_move`, the comparison
fails if the far end of the compared range (`end` going forward, `start` going backward) lies
between the halves of a surrogate pair.  `Ucs2Input` has no such check. -/
def backref16 (inp : Input16) (fwd : Bool) (rs re pos : Nat) : Option Nat :=
  if re < rs then none
  else if inp.ucs2 || !inp.pairCheck then Utf16.subrangeEq inp.units fwd pos rs re
  else
    match (if fwd then Utf16.tryMoveRight inp.units pos (re - rs) else Utf16.tryMoveLeft pos (re - rs)) with
    | none => none
    | some far => if splitsPair inp.units far then none else Utf16.subrangeEq inp.units fwd pos rs re

/-- The `while let Some(c1) = cursor::next(&ref_input, dir, &mut ref_pos)` loop of `backref_icase`
(every iteration consumes at least one unit of `ref`: `fuel = ref.len + 1` is never exhausted). -/
def backrefIcaseLoop16 (inp ref : Input16) (fwd : Bool) : Nat → Nat → Nat → Option Nat
  | 0, _, _ => none
  | fuel + 1, refPos, pos =>
    match ref.next fwd refPos with
    | none => some pos                      -- loop ends: `true`
    | some (c1, refPos') =>
      match inp.next fwd pos with
      | none => none                        -- `matched` stays false
      | some (c2, pos') =>
        if inp.foldEquals c1 c2 then backrefIcaseLoop16 inp ref fwd fuel refPos' pos'
        else none

/-- `matchers::backref_icase`: the captured units are decoded **as an input of their own**
(`subinput` = `&self.input[rs..re]`, a checked slice: `rs > re` or `re > len` would panic; such
ranges count as "no match", as in `sem`). -/
def backrefIcase16 (inp : Input16) (fwd : Bool) (rs re pos : Nat) : Option Nat :=
  if rs > re || re > inp.units.size then none else
  let ref : Input16 := { inp with units := inp.units.extract rs re }
  backrefIcaseLoop16 inp ref fwd (ref.units.size + 1) (if fwd then 0 else ref.units.size) pos

/-- `Insn::BackRef { group: g - 1, icase }`: the new position, or `none`. -/
def backRefStep16 (inp : Input16) (icase fwd : Bool) (rs re pos : Nat) : Option Nat :=
  if icase then backrefIcase16 inp fwd rs re pos else backref16 inp fwd rs re pos

/-! ## `StringSet` -/

/-- One code point of a `StringSet` alternative, as the `utf16` `emit_code_point_sequence` emits
it: one expansion ⇒ `Char`; several ⇒ `CharSet`.  (No expansion: a panic at compile time.) -/
def cpStep16 (inp : Input16) (icase fwd : Bool) (pos : Nat) (cp : Nat) : Option Nat :=
  match Fold.expandCodePoint cp icase inp.unicode with
  | [c] => charStep16 inp fwd pos (fun c2 => c2 == c)
  | chars => charStep16 inp fwd pos (charsetContains chars)

/-- One alternative of a `StringSet`: the code points are emitted in reverse order inside a
look-behind. -/
def cpSeq16 (inp : Input16) (icase fwd : Bool) (cps : List Nat) (pos : Nat) : Option Nat :=
  stepSeq (cpStep16 inp icase fwd) (if fwd then cps else cps.reverse) pos

/-! ## Outcomes -/

/-- One element of the denotation of a node: a success, or an abort of the run (see the header). -/
inductive Out where
  | ok (st : St)
  | panic
  | budget
deriving Repr, DecidableEq, Inhabited

/-- The continuation `k` after every success of `l`; an abort stays an abort. -/
def bindOut (l : List Out) (k : St → List Out) : List Out :=
  l.flatMap (fun o => match o with
    | .ok s => k s
    | .panic => [.panic]
    | .budget => [.budget])

/-- Zero or one success, at a new position. -/
def optOut (st : St) : Option Nat → List Out
  | none => []
  | some p => [.ok { st with pos := p }]

/-- A zero-width test. -/
def guardOut (st : St) (b : Bool) : List Out := if b then [.ok st] else []

/-- Distance from `pos` to the end of the input in the direction of travel. -/
def mu16 (inp : Input16) (fwd : Bool) (pos : Nat) : Nat := if fwd then inp.len - pos else pos

/-- The iteration budget `sem16` gives to a loop entered in state `st` (the one of `sem`). -/
def loopBudget16 (inp : Input16) (q : Quant) (fwd : Bool) (st : St) : Nat := q.min + mu16 inp fwd st.pos + 2

/-- `run_loop` (see `loopIter`); an exhausted budget is the outcome `Out.budget`. -/
def loopIter16 (body : St → List Out) (q : Quant) (g0 g1 : Nat) : Nat → Nat → Nat → St → List Out
  | 0, _, _, _ => [.budget]
  | k + 1, iter, entry, st =>
    if entry == st.pos && decide (iter > q.min) then []
    else
      match maxOk q iter, decide (iter ≥ q.min) with
      | false, false => []
      | false, true => [.ok st]
      | true, false =>
        bindOut (body (st.resetGroups g0 g1)) (loopIter16 body q g0 g1 k (iter + 1) st.pos)
      | true, true =>
        if q.greedy then
          bindOut (body (st.resetGroups g0 g1)) (loopIter16 body q g0 g1 k (iter + 1) st.pos) ++ [.ok st]
        else
          .ok st :: bindOut (body (st.resetGroups g0 g1)) (loopIter16 body q g0 g1 k (iter + 1) st.pos)

/-! ## `run_scm_loop` -/

/-- The first loop of `run_scm_loop_impl`: `n` mandatory iterations of the matcher. -/
def scmRun (step : Nat → Option Nat) : Nat → Nat → Option Nat
  | 0, pos => some pos
  | n + 1, pos =>
    match step pos with
    | none => none
    | some p => scmRun step n p

/-- The second loop of `run_scm_loop_impl` / `compute_max_pos`: up to `limit` further iterations
(`none`: `usize::MAX - min`, never reached), stopping at the first failure.  The first argument
bounds the recursion (every iteration consumes a unit: `len + 1` is enough). -/
def scmMax (step : Nat → Option Nat) : Nat → Option Nat → Nat → Nat
  | 0, _, pos => pos
  | fuel + 1, limit, pos =>
    if limit == some 0 then pos
    else
      match step pos with
      | none => pos
      | some p => scmMax step fuel (limit.map (· - 1)) p

/-- Backtracking into `GreedyLoop1Char` / `NonGreedyLoop1Char`.  The loop first continues at
`cur`; every time the continuation fails: if `cur == target` the entry is popped (no more
outcomes), otherwise `cur := back(cur)`; `None` there is `rs_unreachable!`.  (`target` is `min_pos`
and `back` is the decoder *against* the direction of travel for a greedy loop; `target` is
`max_pos` and `back` the decoder *in* the direction of travel for a non-greedy one.)
The first argument bounds the recursion (`back` moves strictly: `len + 2` is enough). -/
def scmWalk (back : Nat → Option Nat) (st : St) (target : Nat) : Nat → Nat → List Out
  | 0, _ => []
  | fuel + 1, cur =>
    .ok { st with pos := cur } ::
      (if cur == target then []
       else match back cur with
         | none => [.panic]
         | some p => scmWalk back st target fuel p)

/-- `min_iters > max_iters`. -/
def quantBad (q : Quant) : Bool :=
  match q.max with
  | some m => decide (m < q.min)
  | none => false

/-- `Insn::Loop1CharBody { min_iters, max_iters, greedy }` followed by the one-character
instruction with test `p` (`run_scm_loop`).  `min_iters > max_iters` (excluded by the parser; a
debug assertion) counts as "no match", as in `loop1Iter`. -/
def loop1Scm16 (inp : Input16) (p : Nat → Bool) (q : Quant) (fwd : Bool) (st : St) : List Out :=
  let step := fun pos => charStep16 inp fwd pos p
  if quantBad q then []
  else
    match scmRun step q.min st.pos with
    | none => []
    | some minPos =>
      let maxPos := scmMax step (inp.len + 1) (q.max.map (· - q.min)) minPos
      if q.greedy then scmWalk (inp.nextPos (!fwd)) st minPos (inp.len + 2) maxPos
      else scmWalk (inp.nextPos fwd) st maxPos (inp.len + 2) minPos

/-! ## The semantics -/

mutual
/-- All outcomes of `n` entered in state `st`, travelling in direction `fwd`, in priority order. -/
def sem16 (inp : Input16) : Node → Bool → St → List Out
  | .empty, _, st => [.ok st]
  | .goal, _, st => [.ok st]
  | .char c, fwd, st => optOut st (charStep16 inp fwd st.pos (fun c2 => c2 == c))
  -- `match_bytes` of `Utf16Input` / `Ucs2Input` panics; an empty sequence emits no instruction
  | .byteSeq bs, _, st => if bs.isEmpty then [.ok st] else [.panic]
  -- empty: `JustFail`; otherwise `ByteSeq1` / `ByteSet2..4`: `match_bytes` / `cursor::next_byte` panic
  | .byteSet bs, _, _ => if bs.isEmpty then [] else [.panic]
  | .charSet cs, fwd, st => optOut st (charStep16 inp fwd st.pos (charsetContains cs))
  | .cat ns, fwd, st => semCat16 inp ns fwd st
  | .alt l r, fwd, st => sem16 inp l fwd st ++ sem16 inp r fwd st
  | .matchAny, fwd, st => optOut st (charStep16 inp fwd st.pos (fun _ => true))
  | .matchAnyExceptLT, fwd, st => optOut st (charStep16 inp fwd st.pos (fun c => !isLineTerminator c))
  | .anchor sol multiline, _, st =>
    guardOut st (if sol then startOfLine16 inp multiline st.pos else endOfLine16 inp multiline st.pos)
  | .wordBoundary invert unicodeIcase, _, st => guardOut st (wordBoundary16 inp invert unicodeIcase st.pos)
  | .group id _ c, fwd, st =>
    (sem16 inp c fwd (if fwd then st.setStart id st.pos else st.setEnd id st.pos)).map
      (fun o => match o with
        | .ok s => .ok (if fwd then s.setEnd id s.pos else s.setStart id s.pos)
        | o => o)
  | .backRef g icase, fwd, st =>
    if g == 0 then [] else
    match st.caps[g - 1]? with
    | none => []
    | some (some rs, some re) => optOut st (backRefStep16 inp icase fwd rs re st.pos)
    | some _ => [.ok st]
  | .bracket bc, fwd, st => optOut st (charStep16 inp fwd st.pos (bracketTest16 bc))
  | .stringSet alts icase, fwd, st => alts.flatMap (fun a => optOut st (cpSeq16 inp icase fwd a st.pos))
  | .look negate backwards _ _ c, _, st =>
    match sem16 inp c (!backwards) st with
    | [] => if negate then [.ok st] else []
    | .ok s :: _ => if negate then [] else [.ok { pos := st.pos, caps := s.caps }]
    | .panic :: _ => [.panic]
    | .budget :: _ => [.budget]
  | .loop body q g0 g1, fwd, st =>
    loopIter16 (fun s => sem16 inp body fwd s) q g0 g1 (loopBudget16 inp q fwd st) 0 0 st
  | .loop1 body q, fwd, st =>
    match scmPred16 body with
    | none => [.panic]                       -- `unreachable!("Missing SCM: …")`
    | some p => loop1Scm16 inp p q fwd st
/-- The children of a `Cat`, in list order. -/
def semCat16 (inp : Input16) : List Node → Bool → St → List Out
  | [], _, st => [.ok st]
  | n :: ns, fwd, st => bindOut (sem16 inp n fwd st) (fun s => semCat16 inp ns fwd s)
end

/-! ## The first match and the search -/

/-- One anchored attempt at offset `p` (`try_at_pos(inp, 0, p, Forward)`): `none` = no match. -/
def firstMatch16 (inp : Input16) (n : Node) (p : Nat) : Option Out := (sem16 inp n true (initSt n p)).head?

/-- The result of a search. -/
inductive Find16 where
  | noMatch
  | found (start : Nat) (st : St)
  | panic
  | budget
deriving Repr, DecidableEq, Inhabited

/-- `next_match_with_prefix_search` with `EmptyString` and `!CODE_UNITS_ARE_BYTES`: an attempt at
`p`, then at `next_right_pos(p)`, … (`k` bounds the scan). -/
def semFindFrom16 (inp : Input16) (n : Node) : Nat → Nat → Find16
  | 0, _ => .noMatch
  | k + 1, p =>
    match firstMatch16 inp n p with
    | some (.ok s) => .found p s
    | some .panic => .panic
    | some .budget => .budget
    | none =>
      match inp.nextRightPos p with
      | none => .noMatch
      | some p' => semFindFrom16 inp n k p'

/-- The start index with which `find_from_utf16` builds `Matches` (a start between the halves of a
surrogate pair designates the pair); `find_from_ucs2` passes `start` on. -/
def snapStart (inp : Input16) (start : Nat) : Nat :=
  if inp.ucs2 then start
  else
    match (if start == 0 then none else inp.units[start - 1]?), inp.units[start]? with
    | some a, some b => if Utf16.isHighSurrogate a && Utf16.isLowSurrogate b then start - 1 else start
    | _, _ => start

/-- `find_from_utf16(text, start).next()` / `find_from_ucs2(text, start).next()`:
`initial_position` is `None` for `start > len` (an empty iterator). -/
def semFind16 (inp : Input16) (n : Node) (start : Nat) : Find16 :=
  let s := snapStart inp start
  if s > inp.len then .noMatch else semFindFrom16 inp n (inp.len + 1 - s) s

/-! ## The optimizer of the `utf16` build -/

/-- The body of the `loop` of `optimize` with `form_literal_bytes` compiled out
(`#[cfg(not(feature = "utf16"))]`). -/
def optimizeRound16 (fuel : Nat) (r : Regex) : Except OptErr (Regex × Bool) :=
  let changed := false
  match runPass decat fuel r with
  | .error e => .error e
  | .ok (r, c) =>
    let changed := changed || c
    match runPass unrollLoops fuel r with
    | .error e => .error e
    | .ok (r, c) =>
      let changed := changed || c
      match runPass promote1CharLoops fuel r with
      | .error e => .error e
      | .ok (r, c) =>
        let changed := changed || c
        match runPass removeEmpties fuel r with
        | .error e => .error e
        | .ok (r, c) =>
          let changed := changed || c
          match runPass propagateEarlyFails fuel r with
          | .error e => .error e
          | .ok (r, c) => .ok (r, changed || c)

/-- The `loop { …; if !changed { break } }` of `optimize`. -/
def optimizeLoop16 (fuel : Nat) : Nat → Regex → Except OptErr Regex
  | 0, _ => .error .fuelOuter
  | outer + 1, r =>
    match optimizeRound16 fuel r with
    | .error e => .error e
    | .ok (r, changed) => if !changed then .ok r else optimizeLoop16 fuel outer r

/-- `optimizer::optimize` of the `utf16` build. -/
def optimize16 (fuel : Nat) (r : Regex) : Except OptErr Regex :=
  match runPass simplifyBrackets fuel r with
  | .error e => .error e
  | .ok (r, _) => optimizeLoop16 fuel fuel r

mutual
/-- No `ByteSequence` / `ByteSet` node (what the `utf16` build guarantees), and every
`Loop1CharBody` is followed by a one-character instruction (`promote_1char_loops` only promotes
bodies with `matches_exactly_one_char`). -/
def noByteNodes : Node → Bool
  | .byteSeq _ => false
  | .byteSet _ => false
  | .cat ns => noByteNodesList ns
  | .alt l r => noByteNodes l && noByteNodes r
  | .group _ _ c => noByteNodes c
  | .look _ _ _ _ c => noByteNodes c
  | .loop b _ _ _ => noByteNodes b
  | .loop1 b _ => (scmPred16 b).isSome
  | _ => true
def noByteNodesList : List Node → Bool
  | [] => true
  | n :: ns => noByteNodes n && noByteNodesList ns
end

/-! ## Translating states -/

/-- Apply `f` to every offset of a state. -/
def St.mapPos (f : Nat → Nat) (st : St) : St :=
  { pos := f st.pos, caps := st.caps.map (fun c => (c.1.map f, c.2.map f)) }

/-! ## Driver interface -/

/-- Code units as four-digit hex, concatenated, or `-`. -/
def parseHexUnits (s : String) : Option (List Nat) :=
  if s == "-" then some []
  else
    let rec go : List Char → Option (List Nat)
      | [] => some []
      | a :: b :: c :: d :: rest => match hexVal a, hexVal b, hexVal c, hexVal d, go rest with
        | some x, some y, some z, some w, some r => some ((((x * 16 + y) * 16 + z) * 16 + w) :: r)
        | _, _, _, _, _ => none
      | _ => none
    go s.toList

/-- `semfind16 FLAGS IR UNITSHEX START`: `flags` is the flag string (`-` for none; only `u`/`v`
matter: they are `Utf16Input::unicode`), `ir` the canonical IR (spaces as `~`), `hayUnitsHex` the
code units (four hex digits each, `-` for none), `start` the start index given to
`find_from_utf16` (`ucs2 = true`: `find_from_ucs2`).  Answers `none`, `m s-e[c;c;…]` (offsets in
code units), `panic`, `budget` or `bad-request`. -/
def semFind16Line (flags ir : String) (hayUnitsHex : String) (start : Nat) (ucs2 : Bool := false)
    (pairCheck : Bool := true) : String :=
  match parseCanon ir, parseHexUnits hayUnitsHex with
  | some n, some units =>
    let unicode := flags.toList.contains 'u' || flags.toList.contains 'v'
    let inp : Input16 := { ucs2 := ucs2, units := units.toArray, unicode := unicode, pairCheck := pairCheck }
    match semFind16 inp n start with
    | .noMatch => "none"
    | .found s st => "m " ++ matchText s st
    | .panic => "panic"
    | .budget => "budget"
  | _, _ => "bad-request"

end Regress.IR
