import RegressModel.Unicode.Packed
import RegressModel.Gen.Folds
import RegressModel.Gen.Consts
import RegressModel.Sets.CodePointSet
/-!
# Case folding

Model of the fold machinery of `src/unicode.rs` over the tables generated from
`src/unicodetables.rs` (`Gen.FOLDS`, `Gen.TO_UPPERCASE`): `FoldRange::{apply, add_delta, …}`,
`fold`, `uppercase`, `fold_code_point`, `fold_interval`, `unfold_interval`, `unfold_char`,
`unfold_uppercase_char`, `expand_code_point`, `add_icase_code_points`; of `CharProperties::{fold,
is_word_char, is_word_char_unicode_icase}` (`src/matchers.rs`) and `InputIndexer::fold_equals`
(`src/indexing.rs`).

Modelling conventions (trusted steps):

* `binary_search_by` over the rows is "the first row containing `cu`" (`findRow`); on a table whose
  rows are sorted and disjoint (`Proofs/C10.lean: folds_rows_wf`) that is *the* row containing `cu`.
  The faithful transcription `foldBinWith` (std's `binary_search_by`) is proved equal in
  `Proofs/C10.lean: fold_bin_faithful`.
* `FOLDS.equal_range_by(..)` in `fold_interval` is the linear scan it equals on sorted rows (same
  convention as `CPS.equalRange`): skip the leading rows comparing `Less`, take the following rows
  comparing `Equal`. The faithful transcription is `overlapRowsBin`
  (`Proofs/C10.lean: overlapRows_faithful`).
* `predicate_mask() + 1` is the stored `modulo` (`mask = modulo - 1`, `modulo ≥ 1`).
* `while cu <= last { ..; cu += modulo }` is `strideWalk` with fuel `last + 1 - start` (enough
  whenever `modulo ≥ 1`); `for cu in a..(b + 1)` is a fold over `List.range' a (b + 1 - a)`.
* `Vec::push x` is `res ++ [x]`; `sort_unstable` is an insertion sort (any sort gives the same
  result on `u32`s); `dedup` removes consecutive repeats.
* `unfold_char` and `unfold_uppercase_char` are the same text over `FOLDS`/`fold` and
  `TO_UPPERCASE`/`uppercase`; they are instances of `unfoldCharWith`.  Likewise `fold` and
  `uppercase` are instances of `foldWith` (`fold c = foldWith folds c` by `rfl`).
* `debug_assert!`s are not modelled.
-/
namespace Regress.Fold

/-- One row of `FOLDS` / `TO_UPPERCASE`: `FoldRange::from(start, length, delta, modulo)`. -/
structure FoldRange where
  start : Nat
  len : Nat
  neg : Bool
  absDelta : Nat
  modulo : Nat
deriving Repr, DecidableEq

def P64 : Nat := 18446744073709551616   -- 2^64

/-- Decode the packed rows (layout in `tools/rs2lean.py: pack_folds`). -/
def decodeFolds : (n : Nat) → (p : Nat) → List FoldRange
  | 0, _ => []
  | n+1, p =>
    let w := p % P64
    { start := w % 2097152, len := (w / 2097152) % 8192, neg := (w / 17179869184) % 2 == 1,
      absDelta := (w / 34359738368) % 2097152, modulo := (w / 72057594037927936) % 256 }
      :: decodeFolds n (p / P64)

def folds : List FoldRange := decodeFolds Gen.FOLDS_len Gen.FOLDS
def toUppercase : List FoldRange := decodeFolds Gen.TO_UPPERCASE_len Gen.TO_UPPERCASE

def FoldRange.first (fr : FoldRange) : Nat := fr.start
def FoldRange.last (fr : FoldRange) : Nat := fr.start + fr.len - 1

/-- `add_delta`. -/
def FoldRange.addDelta (fr : FoldRange) (cu : Nat) : Nat :=
  if fr.neg then cu - fr.absDelta else cu + fr.absDelta

/-- `apply` (precondition `first ≤ cu ≤ last`): transforms iff `(cu - first) & (modulo-1) == 0`;
`modulo` is a power of two so that is `(cu - first) % modulo == 0`. -/
def FoldRange.apply (fr : FoldRange) (cu : Nat) : Nat :=
  if (cu - fr.first) % fr.modulo == 0 then fr.addDelta cu else cu

/-- The binary search of `fold` / `uppercase` finds the row containing `cu`, if any
(rows are sorted and disjoint: a proof obligation on the generated table). -/
def findRow (tbl : List FoldRange) (cu : Nat) : Option FoldRange :=
  tbl.find? (fun fr => fr.first ≤ cu && cu ≤ fr.last)

/-- `unicode::fold` (simple case folding). -/
def fold (cu : Nat) : Nat :=
  match findRow folds cu with
  | some fr => fr.apply cu
  | none => cu

/-- `unicode::uppercase`. -/
def uppercase (cu : Nat) : Nat :=
  match findRow toUppercase cu with
  | some fr => fr.apply cu
  | none => cu

/-- `unicode::fold_code_point`. -/
def foldCodePoint (cu : Nat) (unicode : Bool) : Nat :=
  if unicode then fold cu else uppercase cu

/-- `unicodetables::nonascii_folds_to_ascii_word_char`. -/
def nonasciiFoldsToAsciiWordChar (c : Nat) : Bool := Gen.wordFoldExtras.contains c

/-! ## Generic versions over an arbitrary row table -/

/-- The common body of `fold` and `uppercase`. -/
def foldWith (tbl : List FoldRange) (cu : Nat) : Nat :=
  match findRow tbl cu with
  | some fr => fr.apply cu
  | none => cu

/-- The comparator closure of `fold` / `uppercase`'s `binary_search_by`. -/
def rowCmp (cu : Nat) (fr : FoldRange) : Ordering :=
  if fr.first > cu then Ordering.gt
  else if fr.last < cu then Ordering.lt
  else Ordering.eq

/-- `fold` / `uppercase` transcribed with std's `binary_search_by` (`CPS.binarySearchBy`) instead of
`findRow`. `none` is an out-of-bounds `get_unchecked(index)` (resp. the `expect("Invalid index")`
panic). `Proofs/C10.lean: fold_bin_faithful` shows it is `some (foldWith tbl cu)` on both tables. -/
def foldBinWith (tbl : List FoldRange) (cu : Nat) : Option Nat :=
  match CPS.binarySearchBy tbl.toArray (rowCmp cu) with
  | none => none
  | some (.ok index) =>
    match tbl[index]? with
    | some fr => some (fr.apply cu)
    | none => none
  | some (.error _) => some cu

/-- `transformed_to`. -/
def FoldRange.transformedTo (fr : FoldRange) : CPS.Interval :=
  { first := fr.addDelta fr.first, last := fr.addDelta fr.last }

/-- `transformed_from`. -/
def FoldRange.transformedFrom (fr : FoldRange) : CPS.Interval :=
  { first := fr.first, last := fr.last }

/-- `can_apply`. -/
def FoldRange.canApply (fr : FoldRange) (cu : Nat) : Bool := fr.transformedFrom.contains cu

/-- `Interval::codepoints`: the range `first..(last + 1)`. -/
def codepoints (iv : CPS.Interval) : List Nat := List.range' iv.first (iv.last + 1 - iv.first)

/-! ## `sort_unstable` and `dedup` -/

def insertSorted (x : Nat) : List Nat → List Nat
  | [] => [x]
  | y :: ys => if x ≤ y then x :: y :: ys else y :: insertSorted x ys

/-- `sort_unstable` on a `Vec<u32>`. -/
def sortNat : List Nat → List Nat
  | [] => []
  | x :: xs => insertSorted x (sortNat xs)

/-- `Vec::dedup`: remove consecutive repeated elements. -/
def dedup : List Nat → List Nat
  | [] => []
  | [x] => [x]
  | x :: y :: r => if x == y then dedup (y :: r) else x :: dedup (y :: r)

/-! ## `unfold_char`, `unfold_uppercase_char`, `expand_code_point` -/

/-- Body of `for tr in TABLE.iter()` in `unfold_char` / `unfold_uppercase_char`. -/
def unfoldRow (tr : FoldRange) (fcp : Nat) (res : List Nat) : List Nat :=
  if !tr.transformedTo.contains fcp then res   -- continue
  else
    (codepoints tr.transformedFrom).foldl
      (fun res cp => let tcp := tr.apply cp; if tcp == fcp then res ++ [cp] else res) res

/-- `unfold_char` (with `tbl = FOLDS`) / `unfold_uppercase_char` (with `tbl = TO_UPPERCASE`). -/
def unfoldCharWith (tbl : List FoldRange) (c : Nat) : List Nat :=
  let res := [c]
  let fcp := foldWith tbl c
  let res := if fcp != c then res ++ [fcp] else res
  let res := tbl.foldl (fun res tr => unfoldRow tr fcp res) res
  dedup (sortNat res)

/-- `unicode::unfold_char`. -/
def unfoldChar (c : Nat) : List Nat := unfoldCharWith folds c

/-- `unicode::unfold_uppercase_char`. -/
def unfoldUppercaseChar (c : Nat) : List Nat := unfoldCharWith toUppercase c

/-- `unicode::expand_code_point`. -/
def expandCodePoint (c : Nat) (icase unicode : Bool) : List Nat :=
  if !icase then [c]
  else if unicode then unfoldChar c
  else unfoldUppercaseChar c

/-- The check `chars.len() > MAX_CHAR_SET_LENGTH` sites (`emit.rs`, `literal.rs`, `parse.rs`) rely on:
`unfold_char` results have at most `MAX_CHAR_SET_LENGTH` elements (`Proofs/C10.lean: unfold_le_4`). -/
def MAX_CHAR_SET_LENGTH : Nat := Gen.MAX_CHAR_SET_LENGTH

/-! ## `fold_interval`, `unfold_interval`, `add_icase_code_points` -/

/-- `while cu <= last { body(cu); cu += step }`, with `fuel ≥ last + 1 - cu` iterations available
(enough when `step ≥ 1`). -/
def strideWalk (step last : Nat) (body : CPS.IvList → Nat → CPS.IvList) :
    (fuel cu : Nat) → CPS.IvList → CPS.IvList
  | 0, _, recv => recv
  | fuel + 1, cu, recv =>
    if cu ≤ last then strideWalk step last body fuel (cu + step) (body recv cu) else recv

/-- The comparator of `fold_interval`'s `equal_range_by`. -/
def overlapCmp (iv : CPS.Interval) (tr : FoldRange) : Ordering :=
  if tr.first > iv.last then Ordering.gt
  else if tr.last < iv.first then Ordering.lt
  else Ordering.eq

/-- `&TABLE[TABLE.equal_range_by(overlapCmp iv)]` as the linear scan it equals on sorted rows. -/
def overlapRows (tbl : List FoldRange) (iv : CPS.Interval) : List FoldRange :=
  let left := (tbl.takeWhile (fun tr => overlapCmp iv tr == Ordering.lt)).length
  let right := left + ((tbl.drop left).takeWhile (fun tr => overlapCmp iv tr == Ordering.eq)).length
  (tbl.drop left).take (right - left)

/-- `&TABLE[TABLE.equal_range_by(overlapCmp iv)]` with the faithful `equal_range_by`
(`CPS.equalRangeBy`: two `binary_search_by` calls); `none` is a panic. `Proofs/C10.lean:
overlapRows_faithful` shows it is `some (overlapRows tbl iv)` for every non-empty `iv`. -/
def overlapRowsBin (tbl : List FoldRange) (iv : CPS.Interval) : Option (List FoldRange) :=
  match CPS.equalRangeBy tbl (overlapCmp iv) with
  | some (left, right) => some ((tbl.drop left).take (right - left))
  | none => none

/-- Body of `for fr in &FOLDS[overlaps]` in `fold_interval`. -/
def foldIntervalRow (fr : FoldRange) (iv : CPS.Interval) (recv : CPS.IvList) : CPS.IvList :=
  let firstTrans := max fr.first iv.first
  let lastTrans := min fr.last iv.last
  let modulo := fr.modulo
  if modulo == 1 then
    (List.range' firstTrans (lastTrans + 1 - firstTrans)).foldl
      (fun recv cu => let cs := fr.addDelta cu; if cs != cu then CPS.addOne recv cs else recv) recv
  else
    let offsetStart := firstTrans - fr.first
    let startAligned := firstTrans + ((modulo - (offsetStart % modulo)) % modulo)
    strideWalk modulo lastTrans (fun recv cu => CPS.addOne recv (fr.addDelta cu))
      (lastTrans + 1 - startAligned) startAligned recv

def foldIntervalWith (tbl : List FoldRange) (iv : CPS.Interval) (recv : CPS.IvList) : CPS.IvList :=
  (overlapRows tbl iv).foldl (fun recv fr => foldIntervalRow fr iv recv) recv

/-- `unicode::fold_interval`. -/
def foldInterval (iv : CPS.Interval) (recv : CPS.IvList) : CPS.IvList := foldIntervalWith folds iv recv

/-- Body of `for tr in FOLDS.iter()` in `unfold_interval`. -/
def unfoldIntervalRow (tr : FoldRange) (iv : CPS.Interval) (recv : CPS.IvList) : CPS.IvList :=
  if !iv.overlaps tr.transformedTo then recv   -- continue
  else
    let modulo := tr.modulo
    let firstSource := tr.first
    let lastSource := tr.last
    let processCp := fun (recv : CPS.IvList) (cp : Nat) =>
      let tcp := tr.apply cp
      if tcp != cp && iv.contains tcp then CPS.addOne recv cp else recv
    if modulo == 1 then
      (List.range' firstSource (lastSource + 1 - firstSource)).foldl processCp recv
    else
      strideWalk modulo lastSource processCp (lastSource + 1 - firstSource) firstSource recv

def unfoldIntervalWith (tbl : List FoldRange) (iv : CPS.Interval) (recv : CPS.IvList) : CPS.IvList :=
  tbl.foldl (fun recv tr => unfoldIntervalRow tr iv recv) recv

/-- `unicode::unfold_interval`. -/
def unfoldInterval (iv : CPS.Interval) (recv : CPS.IvList) : CPS.IvList :=
  unfoldIntervalWith folds iv recv

def addIcaseCodePointsWith (tbl : List FoldRange) (input : CPS.IvList) : CPS.IvList :=
  -- let mut folded = input.clone(); for iv in input.intervals() { fold_interval(*iv, &mut folded) }
  let folded := input.foldl (fun folded iv => foldIntervalWith tbl iv folded) input
  -- input.clone_from(&folded); for iv in folded.intervals() { unfold_interval(*iv, &mut input) }
  folded.foldl (fun input iv => unfoldIntervalWith tbl iv input) folded

/-- `unicode::add_icase_code_points`. -/
def addIcaseCodePoints (input : CPS.IvList) : CPS.IvList := addIcaseCodePointsWith folds input

/-! ## `CharProperties` (`src/matchers.rs`) and `fold_equals` (`src/indexing.rs`) -/

/-- `u8::to_ascii_lowercase`. -/
def asciiLower (c : Nat) : Nat := if 0x41 ≤ c && c ≤ 0x5A then c + 0x20 else c

/-- `u8::to_ascii_uppercase`. -/
def asciiUpper (c : Nat) : Nat := if 0x61 ≤ c && c ≤ 0x7A then c - 0x20 else c

/-- `ASCIICharProperties::fold`. -/
def asciiFold (c : Nat) (unicode : Bool) : Nat := if unicode then asciiLower c else asciiUpper c

/-- A `char` is a code point that is not a surrogate. -/
def isScalar (c : Nat) : Bool := c < 0xD800 || (0xE000 ≤ c && c ≤ 0x10FFFF)

/-- `UTF8CharProperties::fold`: `char::from_u32(fold_code_point(c, unicode)).unwrap_or(c)`. -/
def utf8Fold (c : Nat) (unicode : Bool) : Nat :=
  let f := foldCodePoint c unicode
  if isScalar f then f else c

/-- `Utf16CharProperties::fold`. -/
def utf16Fold (c : Nat) (unicode : Bool) : Nat := foldCodePoint c unicode

/-- `CharProperties::is_word_char`. -/
def isWordChar (c : Nat) : Bool :=
  (0x61 ≤ c && c ≤ 0x7A) || (0x41 ≤ c && c ≤ 0x5A) || (0x30 ≤ c && c ≤ 0x39) || c == 0x5F

/-- `CharProperties::is_word_char_unicode_icase`. -/
def isWordCharUnicodeIcase (c : Nat) : Bool := isWordChar c || nonasciiFoldsToAsciiWordChar c

/-- `InputIndexer::fold_equals` (for the code-point based indexers). -/
def foldEquals (c1 c2 : Nat) (unicode : Bool) : Bool :=
  c1 == c2 || foldCodePoint c1 unicode == foldCodePoint c2 unicode

/-- `InputIndexer::fold_equals` for the ASCII indexer. -/
def asciiFoldEquals (c1 c2 : Nat) (unicode : Bool) : Bool :=
  c1 == c2 || asciiFold c1 unicode == asciiFold c2 unicode

end Regress.Fold
