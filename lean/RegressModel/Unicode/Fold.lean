import RegressModel.Unicode.Packed
import RegressModel.Gen.Folds
/-!
# Case folding

Model of the fold machinery of `src/unicode.rs` over the tables generated from
`src/unicodetables.rs` (`Gen.FOLDS`, `Gen.TO_UPPERCASE`): `FoldRange::{apply, add_delta, …}`,
`fold`, `uppercase`, `fold_code_point`.
-/
namespace Regress.Fold

/-- One row of `FOLDS` / `TO_UPPERCASE`: `FoldRange::from(start, length, delta, modulo)`. -/
structure FoldRange where
  start : Nat
  len : Nat
  neg : Bool
  absDelta : Nat
  modulo : Nat
deriving Repr, DecidableEq

def P64 : Nat := 18446744073709551616   -- 2^64

/-- Decode the packed rows (layout in `tools/rs2lean.py: pack_folds`). -/
def decodeFolds : (n : Nat) → (p : Nat) → List FoldRange
  | 0, _ => []
  | n+1, p =>
    let w := p % P64
    { start := w % 2097152, len := (w / 2097152) % 8192, neg := (w / 17179869184) % 2 == 1,
      absDelta := (w / 34359738368) % 2097152, modulo := (w / 72057594037927936) % 256 }
      :: decodeFolds n (p / P64)

def folds : List FoldRange := decodeFolds Gen.FOLDS_len Gen.FOLDS
def toUppercase : List FoldRange := decodeFolds Gen.TO_UPPERCASE_len Gen.TO_UPPERCASE

def FoldRange.first (fr : FoldRange) : Nat := fr.start
def FoldRange.last (fr : FoldRange) : Nat := fr.start + fr.len - 1

/-- `add_delta`. -/
def FoldRange.addDelta (fr : FoldRange) (cu : Nat) : Nat :=
  if fr.neg then cu - fr.absDelta else cu + fr.absDelta

/-- `apply` (precondition `first ≤ cu ≤ last`): transforms iff `(cu - first) & (modulo-1) == 0`;
`modulo` is a power of two so that is `(cu - first) % modulo == 0`. -/
def FoldRange.apply (fr : FoldRange) (cu : Nat) : Nat :=
  if (cu - fr.first) % fr.modulo == 0 then fr.addDelta cu else cu

/-- The binary search of `fold` / `uppercase` finds the row containing `cu`, if any
(rows are sorted and disjoint: a proof obligation on the generated table). -/
def findRow (tbl : List FoldRange) (cu : Nat) : Option FoldRange :=
  tbl.find? (fun fr => fr.first ≤ cu && cu ≤ fr.last)

/-- `unicode::fold` (simple case folding). -/
def fold (cu : Nat) : Nat :=
  match findRow folds cu with
  | some fr => fr.apply cu
  | none => cu

/-- `unicode::uppercase`. -/
def uppercase (cu : Nat) : Nat :=
  match findRow toUppercase cu with
  | some fr => fr.apply cu
  | none => cu

/-- `unicode::fold_code_point`. -/
def foldCodePoint (cu : Nat) (unicode : Bool) : Nat :=
  if unicode then fold cu else uppercase cu

/-- `unicodetables::nonascii_folds_to_ascii_word_char`. -/
def nonasciiFoldsToAsciiWordChar (c : Nat) : Bool := Gen.wordFoldExtras.contains c

end Regress.Fold
