import RegressModel.Unicode.Packed
import RegressModel.Gen.Tables
import RegressModel.Gen.Names
import RegressModel.Gen.Strings
/-!
# Unicode property lookup

Model of `unicode::unicode_property_name_from_str`, `unicode::unicode_property_from_str`
(`src/unicode.rs`) and of `Parser::try_consume_unicode_property_escape` (`src/parse.rs`), over the
name tables and interval tables *generated from the source* (`RegressModel/Gen`).
-/
namespace Regress.Props
open Regress.Packed

/-- What a property escape denotes: a code point set (packed table, length) or a set of strings
(index into `Gen.stringTables`). -/
inductive Kind where
  | charClass (packed len : Nat)
  | stringSet (idx : Nat)
deriving Repr, DecidableEq, BEq

def lookup3 (tbl : List (Nat × Nat × Nat)) (nm : Nat) : Option (Nat × Nat) :=
  match tbl.find? (fun e => e.1 == nm) with
  | some e => some e.2
  | none => none

def lookup2 (tbl : List (Nat × Nat)) (nm : Nat) : Option Nat :=
  match tbl.find? (fun e => e.1 == nm) with
  | some e => some e.2
  | none => none

/-- `unicode_property_name_from_str`: 0 = General_Category, 1 = Script, 2 = Script_Extensions. -/
def propertyNameFromStr (nm : Nat) : Option Nat := lookup2 Gen.propertyNames nm

/-- `unicode_property_from_str(s, name, unicode_sets)`. -/
def propertyFromStr (s : Nat) (name : Option Nat) (unicodeSets : Bool) : Option Kind :=
  match name with
  | some 0 => (lookup3 Gen.gcNames s).map fun t => .charClass t.1 t.2
  | some 1 => (lookup3 Gen.scriptNames s).map fun t => .charClass t.1 t.2
  | some _ => (lookup3 Gen.scriptExtNames s).map fun t => .charClass t.1 t.2
  | none =>
    match lookup3 Gen.binaryNames s with
    | some t => some (.charClass t.1 t.2)
    | none =>
      match (if unicodeSets then lookup2 Gen.stringNames s else none) with
      | some i => some (.stringSet i)
      | none => (lookup3 Gen.gcNames s).map fun t => .charClass t.1 t.2

def isAsciiAlnum (c : Nat) : Bool :=
  (0x30 ≤ c && c ≤ 0x39) || (0x41 ≤ c && c ≤ 0x5A) || (0x61 ≤ c && c ≤ 0x7A)

/-- `try_consume_unicode_property_escape`, given the input after `\p` / `\P`.
Returns the denotation and the remaining input, or `none` for a syntax error.
`buf` is the accumulated name (as `nameOfBytes`), `name` the property name seen before `=`. -/
def consumeEscapeLoop (unicodeSets : Bool) : List Nat → (buf : Nat) → (name : Option Nat) →
    Option (Kind × List Nat)
  | [], _, _ => none
  | c :: rest, buf, name =>
    if c == 0x7D then                                   -- '}'
      match propertyFromStr buf name unicodeSets with
      | some k => some (k, rest)
      | none => none
    else if c == 0x3D && name.isNone then               -- '='
      match propertyNameFromStr buf with
      | some n => consumeEscapeLoop unicodeSets rest 1 (some n)
      | none => none
    else if isAsciiAlnum c || c == 0x5F then
      consumeEscapeLoop unicodeSets rest (buf * 256 + c) name
    else none

def consumePropertyEscape (unicodeSets : Bool) (input : List Nat) : Option (Kind × List Nat) :=
  match input with
  | 0x7B :: rest => consumeEscapeLoop unicodeSets rest 1 none
  | _ => none

/-- Resolve `kind` (0 lone, 1 `gc=`, 2 `sc=`, 3 `scx=`) and a value name to a table, under `u`. -/
def resolve (kind : Nat) (nm : Nat) : Option (Nat × Nat) :=
  let name : Option Nat := match kind with | 0 => none | 1 => some 0 | 2 => some 1 | _ => some 2
  match propertyFromStr nm name false with
  | some (.charClass p l) => some (p, l)
  | _ => none

end Regress.Props
