import RegressModel.Basic
/-!
# Packed tables

The translator (`tools/rs2lean.py`) emits every interval table of `src/unicodetables.rs` as one `Nat`:
interval `i` occupies bits `[42 i, 42 i + 42)`, `first` in the low 21 bits and `last` in the high 21.
(One literal per table elaborates in milliseconds; a list literal of the same size takes minutes.)
-/
namespace Regress.Packed

def B21 : Nat := 2097152          -- 2^21
def B42 : Nat := 4398046511104    -- 2^42

/-- Decode `len` packed intervals. -/
def decode : (len : Nat) → (p : Nat) → List (Nat × Nat)
  | 0, _ => []
  | n+1, p => (p % B21, (p / B21) % B21) :: decode n (p / B42)

/-- Well-formedness of an interval list (what `interval_contains`' binary search and
`CodePointSet::from_sorted_disjoint_intervals` rely on): every interval non-empty and
`≤ 0x10FFFF`, consecutive intervals strictly separated (not even abutting). -/
def wfFrom : (lo : Nat) → List (Nat × Nat) → Bool
  | _, [] => true
  | lo, (a, b) :: rest => lo ≤ a && a ≤ b && b ≤ 0x10FFFF && wfFrom (b + 2) rest

/-- Sorted and disjoint but possibly abutting (some generated tables have adjacent intervals). -/
def sortedFrom : (lo : Nat) → List (Nat × Nat) → Bool
  | _, [] => true
  | lo, (a, b) :: rest => lo ≤ a && a ≤ b && b ≤ 0x10FFFF && sortedFrom (b + 1) rest

def wf (l : List (Nat × Nat)) : Bool := wfFrom 0 l
def sorted (l : List (Nat × Nat)) : Bool := sortedFrom 0 l

/-- Membership in an interval list. -/
def mem (l : List (Nat × Nat)) (c : Nat) : Bool := l.any (fun iv => iv.1 ≤ c && c ≤ iv.2)

/-- Merge abutting/overlapping neighbours of a sorted list (normal form). -/
def normalize : List (Nat × Nat) → List (Nat × Nat)
  | [] => []
  | [x] => [x]
  | (a, b) :: (c, d) :: rest =>
    if c ≤ b + 1 then normalize ((a, max b d) :: rest) else (a, b) :: normalize ((c, d) :: rest)
termination_by l => l.length

/-- Number of code points in a list of disjoint intervals. -/
def count (l : List (Nat × Nat)) : Nat := l.foldl (fun acc iv => acc + (iv.2 + 1 - iv.1)) 0

/-- A name as a `Nat`: `0x01` followed by its bytes, big-endian (see `name_nat` in the translator). -/
def nameOfBytes (bs : List Nat) : Nat := bs.foldl (fun acc b => acc * 256 + b) 1

/-- Decode a packed string table: each entry `[len:8][cp:21]*len`. -/
def decodeStrings : (n : Nat) → (p : Nat) → List (List Nat)
  | 0, _ => []
  | n+1, p =>
    let len := p % 256
    let rec cps : (k : Nat) → (q : Nat) → List Nat × Nat
      | 0, q => ([], q)
      | k+1, q => let r := cps k (q / B21); ((q % B21) :: r.1, r.2)
    let r := cps len (p / 256)
    r.1 :: decodeStrings n r.2

end Regress.Packed
