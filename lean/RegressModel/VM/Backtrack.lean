import RegressModel.VM.Input
import RegressModel.Api.Iter
/-!
# The classical backtracking executor (`src/classicalbacktrack.rs`)

A line-by-line transliteration of `MatchAttempter`: `run_loop`, `prepare_to_enter_loop`,
`run_scm_loop_impl`, `compute_max_pos`, `with_scm_loop_impl`, `with_scm_compute_max`,
`run_scm_loop`, `run_lookaround`, `try_backtrack`, `try_at_pos`.

* The backtrack stack `bts : Vec<BacktrackInsn>` is an `Array BtInsn` (top = last element).
* Loop maxima are `Option Nat`, `none` = `usize::MAX`.
* Every site that is undefined behaviour or a panic in Rust (`iat`/`mat` out of range,
  `rs_unreachable!`, `unreachable!`, a checked index out of range, an unchecked read of the input
  out of range) yields `Outcome.error "<site>"`.
* Totality: `run` is structurally recursive on a fuel argument. The *tick budget* is the verification
  hook `verif::fuel`: one tick at the top of every iteration of the `'nextinsn` loop; `steps` counts
  the ticks (summed over nested look-around runs) and `peak` is the maximum of `bts.len()` seen at a
  tick. With `tryAtPos … fuel …`, `Outcome.outOfFuel` is returned exactly when the real engine,
  started with `fuel::reset(fuel)`, would find the budget exhausted at a tick.
-/
namespace Regress.VM.Bt

/-- `types::LoopData`. -/
structure LoopData where
  iters : Nat
  entry : Nat
deriving Repr, DecidableEq, Inhabited

/-- `types::GroupData`. -/
structure GroupData where
  start : Option Nat
  end_ : Option Nat
deriving Repr, DecidableEq, Inhabited

/-- `GroupData::as_range`. -/
def GroupData.asRange (g : GroupData) : Option (Nat × Nat) :=
  match g.start, g.end_ with
  | some s, some e => some (s, e)
  | _, _ => none

/-- `classicalbacktrack::BacktrackInsn`. -/
inductive BtInsn where
  | exhausted
  | setPosition (ip pos : Nat)
  | setLoopData (id : Nat) (data : LoopData)
  | setCaptureGroup (id : Nat) (data : GroupData)
  | enterNonGreedyLoop (ip origPos : Nat) (data : LoopData)
  | greedyLoop1Char (continuation min max : Nat)
  | nonGreedyLoop1Char (continuation min max : Nat)
deriving Repr, DecidableEq, Inhabited

/-- `classicalbacktrack::State`. -/
structure State where
  loops : Array LoopData
  groups : Array GroupData
deriving Repr, DecidableEq, Inhabited

/-- Result of `try_at_pos`. `steps`/`peak` are the values of the `verif::fuel` counters. -/
inductive Outcome where
  | matched (pos : Nat) (st : State) (steps : Nat) (peak : Nat)
  | failed (st : State) (steps : Nat) (peak : Nat)
  | outOfFuel
  | error (site : String)
deriving Repr, Inhabited

/-- `MatchAttempter::new(re, entry)`: the initial `State`. -/
def freshState (prog : Prog) (entry : Nat) : State :=
  { loops := Array.replicate prog.loops { iters := 0, entry := entry },
    groups := Array.replicate prog.groups { start := none, end_ := none } }

/-! ## `run_loop` -/

/-- Result of `run_loop`: the next ip (`none` = backtrack), the state and the stack. -/
inductive LoopRes where
  | ok (next : Option Nat) (st : State) (bts : Array BtInsn)
  | err (site : String)

/-- `iteration < max_iters`. -/
def ltMax (n : Nat) : Option Nat → Bool
  | none => true
  | some m => n < m

/-- `prepare_to_enter_loop(bts, pos, loop_fields, loop_data)`; returns the new stack and loop data. -/
def prepareToEnterLoop (bts : Array BtInsn) (pos id : Nat) (ld : LoopData) :
    Array BtInsn × LoopData :=
  (bts.push (.setLoopData id ld), { iters := ld.iters + 1, entry := pos })

/-- `run_loop(loop_fields, pos, ip)`. -/
def runLoop (st : State) (bts : Array BtInsn) (id min : Nat) (max : Option Nat) (greedy : Bool)
    (exit pos ip : Nat) : LoopRes :=
  -- let loop_data = &mut self.s.loops[loop_fields.loop_id as usize];   (checked index)
  match st.loops[id]? with
  | none => .err "run_loop: self.s.loops[loop_id] out of range"
  | some ld =>
    let iteration := ld.iters
    let doTaken := ltMax iteration max
    let doNotTaken := iteration ≥ min
    let loopTakenIp := ip + 1
    let loopNotTakenIp := exit
    if ld.entry == pos && iteration > min then .ok none st bts
    else
      match doTaken, decide doNotTaken with
      | false, false => .ok none st bts
      | false, true => .ok (some loopNotTakenIp) st bts
      | true, false =>
        let (bts, ld) := prepareToEnterLoop bts pos id ld
        .ok (some loopTakenIp) { st with loops := st.loops.setIfInBounds id ld } bts
      | true, true =>
        if !greedy then
          let origPos := ld.entry
          let ld : LoopData := { ld with entry := pos }
          .ok (some loopNotTakenIp) { st with loops := st.loops.setIfInBounds id ld }
            (bts.push (.enterNonGreedyLoop ip origPos ld))
        else
          let bts := bts.push (.setPosition loopNotTakenIp pos)
          let (bts, ld) := prepareToEnterLoop bts pos id ld
          .ok (some loopTakenIp) { st with loops := st.loops.setIfInBounds id ld } bts

/-! ## Single-char loops -/

/-- `for _ in 0..n { if !matcher.matches(..) { return None } }`: `.ok none` = `return None`. -/
def scmExactly (m : Scm) (inp : Input) (fwd : Bool) : Nat → Nat → Except Unit (Option Nat)
  | 0, pos => .ok (some pos)
  | n + 1, pos =>
    match m.matches inp fwd pos with
    | .error e => .error e
    | .ok none => .ok none
    | .ok (some p) => scmExactly m inp fwd n p

/-- `for _ in 0..limit { let saved = pos; if !matcher.matches(..) { pos = saved; break } }`
(= `compute_max_pos`). `limit = none` is a `usize` so large that it never ends the loop. Every
successful match consumes at least one byte, so `fuel = input length + 1` suffices; running out of
fuel is `.error "…fuel"` (cannot happen). -/
def scmUpTo (m : Scm) (inp : Input) (fwd : Bool) : Nat → Option Nat → Nat → Except String Nat
  | 0, _, _ => .error "compute_max_pos: model fuel exhausted"
  | fuel + 1, limit, pos =>
    if limit == some 0 then .ok pos else
    match m.matches inp fwd pos with
    | .error _ => .error "compute_max_pos: input read out of range"
    | .ok none => .ok pos
    | .ok (some p) => scmUpTo m inp fwd fuel (limit.map (· - 1)) p

/-- `run_scm_loop_impl(input, pos, min, max, dir, matcher)`: `.ok none` = `None`,
`.ok (some (min_pos, max_pos))`. `max - min` underflows when `max < min` (`debug_assert!(min <= max)`;
a panic with overflow checks, a wrap-around to a huge count without): reported as an error. -/
def runScmLoopImpl (m : Scm) (inp : Input) (fwd : Bool) (pos min : Nat) (max : Option Nat) :
    Except String (Option (Nat × Nat)) :=
  match scmExactly m inp fwd min pos with
  | .error _ => .error "run_scm_loop_impl: input read out of range"
  | .ok none => .ok none
  | .ok (some minPos) =>
    let limit : Except String (Option Nat) :=
      match max with
      | none => .ok none
      | some mx => if mx < min then .error "run_scm_loop_impl: max - min underflow" else .ok (some (mx - min))
    match limit with
    | .error e => .error e
    | .ok limit =>
      match scmUpTo m inp fwd (inp.len + 1) limit minPos with
      | .error e => .error e
      | .ok maxPos => .ok (some (minPos, maxPos))

/-- The instruction selection shared by `with_scm_loop_impl` and `with_scm_compute_max`
(`match re.insns.iat(ip + 1)`). -/
inductive ScmSel where
  /-- a matcher was selected -/
  | scm (m : Scm)
  /-- `Insn::Char(c)` with `ElementType::try_from(c) == None` -/
  | charNone
  /-- `re.insns.iat(ip + 1)` out of range -/
  | badIp
  /-- `re.brackets[idx]` out of range (panic) -/
  | badBracket
  /-- the `_ => unreachable!("Missing SCM")` arm -/
  | missing

/-- Exactly the arms of `with_scm_loop_impl` / `with_scm_compute_max`: `Char`, `Bracket`,
`AsciiBracket`, `MatchAny`, `MatchAnyExceptLineTerminator`, `CharSet`, `ByteSet2/3/4`,
`ByteSeq1..=6`; everything else (in particular `ByteSeq7..=16`) is the `unreachable!` arm. -/
def scmSelect (prog : Prog) (kind : InputKind) (ip : Nat) : ScmSel :=
  match prog.insns[ip + 1]? with
  | none => .badIp
  | some i =>
    match i with
    | .char c =>
      match elementTryFrom kind c with
      | some c => .scm (.char c)
      | none => .charNone
    | .bracket idx =>
      match prog.brackets[idx]? with
      | some bc => .scm (.bracket bc)
      | none => .badBracket
    | .asciiBracket bm => .scm (.byteSet bm)
    | .matchAny => .scm .matchAny
    | .matchAnyExceptLineTerminator => .scm .matchAnyExceptLineTerminator
    | .charSet cs => .scm (.charSet cs)
    | .byteSet bs => .scm (.byteArraySet bs)
    | .byteSeq bs => if 1 ≤ bs.length ∧ bs.length ≤ 6 then .scm (.byteSeq bs) else .missing
    | _ => .missing

/-- `with_scm_loop_impl(re, input, pos, min, max, dir, ip)`. -/
def withScmLoopImpl (prog : Prog) (inp : Input) (fwd : Bool) (pos min : Nat) (max : Option Nat)
    (ip : Nat) : Except String (Option (Nat × Nat)) :=
  match scmSelect prog inp.kind ip with
  | .scm m => runScmLoopImpl m inp fwd pos min max
  -- The char cannot appear in this input: the loop matches zero times.
  | .charNone => if min == 0 then .ok (some (pos, pos)) else .ok none
  | .badIp => .error "with_scm_loop_impl: insns.iat(ip + 1) out of range"
  | .badBracket => .error "with_scm_loop_impl: re.brackets[idx] out of range"
  | .missing => .error "with_scm_loop_impl: unreachable!(Missing SCM)"

/-- `with_scm_compute_max(re, input, pos, limit, dir, ip)` (always `Some`). -/
def withScmComputeMax (prog : Prog) (inp : Input) (fwd : Bool) (pos : Nat) (limit : Option Nat)
    (ip : Nat) : Except String Nat :=
  match scmSelect prog inp.kind ip with
  | .scm m => scmUpTo m inp fwd (inp.len + 1) limit pos
  -- The char cannot appear in this input: no further iterations match.
  | .charNone => .ok pos
  | .badIp => .error "with_scm_compute_max: insns.iat(ip + 1) out of range"
  | .badBracket => .error "with_scm_compute_max: re.brackets[idx] out of range"
  | .missing => .error "with_scm_compute_max: unreachable!(Missing SCM)"

/-- `min < max` for a `usize` `min` (never `usize::MAX`) and `max : Option Nat`. -/
def ltOpt (min : Nat) : Option Nat → Bool
  | none => true
  | some mx => min < mx

/-- `run_scm_loop(input, dir, &mut pos, min, max, ip, greedy)`:
`.ok none` = `None`; `.ok (some (next_ip, pos, bts))`. -/
def runScmLoop (prog : Prog) (inp : Input) (fwd : Bool) (bts : Array BtInsn) (pos min : Nat)
    (max : Option Nat) (ip : Nat) (greedy : Bool) :
    Except String (Option (Nat × Nat × Array BtInsn)) :=
  let mm : Except String (Option (Nat × Nat)) :=
    if greedy then withScmLoopImpl prog inp fwd pos min max ip
    else
      match withScmLoopImpl prog inp fwd pos min (some min) ip with
      | .error e => .error e
      | .ok none => .ok none
      | .ok (some (minPos, _)) =>
        if ltOpt min max then
          match withScmComputeMax prog inp fwd minPos (max.map (· - min)) ip with
          | .error e => .error e
          | .ok maxPos => .ok (some (minPos, maxPos))
        else .ok (some (minPos, minPos))
  match mm with
  | .error e => .error e
  | .ok none => .ok none
  | .ok (some (minPos, maxPos)) =>
    let continuation := ip + 2
    let bts :=
      if minPos != maxPos then
        bts.push (if greedy then .greedyLoop1Char continuation minPos maxPos
                  else .nonGreedyLoop1Char continuation minPos maxPos)
      else bts
    .ok (some (continuation, if greedy then maxPos else minPos, bts))

/-! ## `try_backtrack` -/

inductive BtRes where
  /-- `return true` with the new `ip`, `pos`. -/
  | resumed (ip pos : Nat) (st : State) (bts : Array BtInsn)
  /-- `return false` (top of stack is `Exhausted`). -/
  | exhausted (st : State) (bts : Array BtInsn)
  | err (site : String)

/-- `try_backtrack(input, &mut ip, &mut pos, dir)`. The `loop` pops one record per `continue`, so
`n = bts.size + 1` iterations suffice. -/
def tryBacktrackLoop (prog : Prog) (inp : Input) (fwd : Bool) :
    Nat → State → Array BtInsn → BtRes
  | 0, _, _ => .err "try_backtrack: model fuel exhausted"
  | n + 1, st, bts =>
    match bts.back? with
    | none => .err "try_backtrack: rs_unreachable!(BT stack should never be empty)"
    | some bt =>
      match bt with
      | .exhausted => .exhausted st bts
      | .setPosition ip pos => .resumed ip pos st bts.pop
      | .setLoopData id data =>
        if id < st.loops.size then
          tryBacktrackLoop prog inp fwd n { st with loops := st.loops.setIfInBounds id data } bts.pop
        else .err "try_backtrack: SetLoopData loops.mat(id) out of range"
      | .setCaptureGroup id data =>
        if id < st.groups.size then
          tryBacktrackLoop prog inp fwd n { st with groups := st.groups.setIfInBounds id data } bts.pop
        else .err "try_backtrack: SetCaptureGroup groups.mat(id) out of range"
      | .enterNonGreedyLoop loopIp origPos data =>
        -- *ip = loop_ip + 1; *pos = data.entry;
        let ip := loopIp + 1
        let pos := data.entry
        match prog.insns[loopIp]? with
        | none => .err "try_backtrack: EnterNonGreedyLoop insns.iat(loop_ip) out of range"
        | some (.enterLoop id _ _ _ _) =>
          if id < st.loops.size then
            -- *bt = SetLoopData { id, data: LoopData { entry: orig_pos, ..data } };
            let bts := bts.setIfInBounds (bts.size - 1)
              (.setLoopData id { data with entry := origPos })
            -- *loop_data = data; prepare_to_enter_loop(&mut self.bts, *pos, loop_fields, loop_data);
            let (bts, ld) := prepareToEnterLoop bts pos id data
            .resumed ip pos { st with loops := st.loops.setIfInBounds id ld } bts
          else .err "try_backtrack: EnterNonGreedyLoop loops.mat(loop_id) out of range"
        | some _ =>
          .err "try_backtrack: rs_unreachable!(EnterNonGreedyLoop must point at a loop instruction)"
      | .greedyLoop1Char continuation min max =>
        if max == min then
          -- self.bts.pop(); continue;
          tryBacktrackLoop prog inp fwd n st bts.pop
        else
          let newmax := if fwd then inp.nextLeftPos max else inp.nextRightPos max
          match newmax with
          | .error _ => .err "try_backtrack: GreedyLoop1Char input read out of range"
          | .ok none =>
            .err "try_backtrack: rs_unreachable!(Should always be able to advance since min != max)"
          | .ok (some newmax) =>
            .resumed continuation newmax st
              (bts.setIfInBounds (bts.size - 1) (.greedyLoop1Char continuation min newmax))
      | .nonGreedyLoop1Char continuation min max =>
        if max == min then
          tryBacktrackLoop prog inp fwd n st bts.pop
        else
          let newmin := if fwd then inp.nextRightPos min else inp.nextLeftPos min
          match newmin with
          | .error _ => .err "try_backtrack: NonGreedyLoop1Char input read out of range"
          | .ok none =>
            .err "try_backtrack: rs_unreachable!(Should always be able to advance since min != max)"
          | .ok (some newmin) =>
            .resumed continuation newmin st
              (bts.setIfInBounds (bts.size - 1) (.nonGreedyLoop1Char continuation newmin max))

def tryBacktrack (prog : Prog) (inp : Input) (fwd : Bool) (st : State) (bts : Array BtInsn) : BtRes :=
  tryBacktrackLoop prog inp fwd (bts.size + 1) st bts

/-! ## One instruction of `try_at_pos` -/

/-- What the `match re.insns.iat(ip)` of `try_at_pos` does, for every arm except the recursion of
the look-arounds. -/
inductive Act where
  /-- `continue 'nextinsn` -/
  | cont (ip pos : Nat) (st : State) (bts : Array BtInsn)
  /-- `break 'backtrack` -/
  | back (st : State) (bts : Array BtInsn)
  /-- `Insn::Goal`: `return Some(pos)` -/
  | goal (pos : Nat) (st : State)
  /-- `run_lookaround::<Dir>(input, ip + 1, pos, start_group, end_group, negate)` then
  `ip = continuation` -/
  | look (dirFwd negate : Bool) (startGroup endGroup continuation : Nat) (st : State)
      (bts : Array BtInsn)
  | err (site : String)

/-- `next_or_bt!` applied to the result of a matcher that moves the position. -/
def nextOrBt (r : Except Unit (Option Nat)) (site : String) (ip : Nat) (st : State)
    (bts : Array BtInsn) : Act :=
  match r with
  | .error _ => .err site
  | .ok none => .back st bts
  | .ok (some p) => .cont (ip + 1) p st bts

/-- `input.peek_left(pos).is_some_and(f)` / `peek_right`. -/
def peekIs (r : Except Unit (Option Nat)) (f : Nat → Bool) : Except Unit Bool :=
  match r with
  | .error e => .error e
  | .ok none => .ok false
  | .ok (some c) => .ok (f c)

/-- The word boundary arms. -/
def wordBoundaryAct (inp : Input) (f : Nat → Bool) (invert : Bool) (ip pos : Nat) (st : State)
    (bts : Array BtInsn) : Act :=
  match peekIs (inp.peekLeft pos) f with
  | .error _ => .err "try_at_pos: WordBoundary peek_left out of range"
  | .ok prev =>
    match peekIs (inp.peekRight pos) f with
    | .error _ => .err "try_at_pos: WordBoundary peek_right out of range"
    | .ok curr =>
      let isBoundary := prev != curr
      if isBoundary != invert then .cont (ip + 1) pos st bts else .back st bts

/-- `StartOfLine` / `EndOfLine`: `r` is the peeked element. -/
def lineAct (r : Except Unit (Option Nat)) (multiline : Bool) (site : String) (ip pos : Nat)
    (st : State) (bts : Array BtInsn) : Act :=
  match r with
  | .error _ => .err site
  | .ok none => .cont (ip + 1) pos st bts
  | .ok (some c) =>
    if multiline && isLineTerminator c then .cont (ip + 1) pos st bts else .back st bts

/-- The three capture group arms: push `SetCaptureGroup { id, data: *cg }`, then update `cg`. -/
def groupAct (g : Nat) (upd : GroupData → GroupData) (site : String) (ip pos : Nat) (st : State)
    (bts : Array BtInsn) : Act :=
  match st.groups[g]? with
  | none => .err site
  | some cg =>
    .cont (ip + 1) pos { st with groups := st.groups.setIfInBounds g (upd cg) }
      (bts.push (.setCaptureGroup g cg))

def step (prog : Prog) (inp : Input) (ip pos : Nat) (fwd : Bool) (st : State)
    (bts : Array BtInsn) : Act :=
  match prog.insns[ip]? with
  | none => .err "try_at_pos: insns.iat(ip) out of range"
  | some insn =>
    match insn with
    | .char c =>
      match elementTryFrom inp.kind c with
      | some c => nextOrBt ((Scm.char c).matches inp fwd pos) "try_at_pos: Char input read out of range" ip st bts
      | none => .back st bts
    | .charSet cs =>
      nextOrBt ((Scm.charSet cs).matches inp fwd pos) "try_at_pos: CharSet input read out of range" ip st bts
    | .byteSet bs =>
      nextOrBt ((Scm.byteArraySet bs).matches inp fwd pos) "try_at_pos: ByteSet input read out of range" ip st bts
    | .byteSeq bs =>
      nextOrBt (.ok (Cursor.tryMatchLit inp fwd pos bs)) "try_at_pos: ByteSeq" ip st bts
    | .asciiBracket bm =>
      nextOrBt ((Scm.byteSet bm).matches inp fwd pos) "try_at_pos: AsciiBracket input read out of range" ip st bts
    | .bracket idx =>
      match prog.brackets[idx]? with
      | none => .err "try_at_pos: self.re.brackets[idx] out of range"
      | some bc =>
        nextOrBt ((Scm.bracket bc).matches inp fwd pos) "try_at_pos: Bracket input read out of range" ip st bts
    | .matchAny =>
      nextOrBt (Scm.matchAny.matches inp fwd pos) "try_at_pos: MatchAny input read out of range" ip st bts
    | .matchAnyExceptLineTerminator =>
      nextOrBt (Scm.matchAnyExceptLineTerminator.matches inp fwd pos)
        "try_at_pos: MatchAnyExceptLineTerminator input read out of range" ip st bts
    | .wordBoundary invert => wordBoundaryAct inp isWordChar invert ip pos st bts
    | .wordBoundaryUnicodeICase invert => wordBoundaryAct inp isWordCharUnicodeIcase invert ip pos st bts
    | .startOfLine multiline =>
      lineAct (inp.peekLeft pos) multiline "try_at_pos: StartOfLine peek_left out of range" ip pos st bts
    | .endOfLine multiline =>
      lineAct (inp.peekRight pos) multiline "try_at_pos: EndOfLine peek_right out of range" ip pos st bts
    | .jump target => .cont target pos st bts
    | .beginCaptureGroup g =>
      groupAct g (fun cg => if fwd then { cg with start := some pos } else { cg with end_ := some pos })
        "try_at_pos: BeginCaptureGroup groups.mat(id) out of range" ip pos st bts
    | .endCaptureGroup g =>
      groupAct g (fun cg => if fwd then { cg with end_ := some pos } else { cg with start := some pos })
        "try_at_pos: EndCaptureGroup groups.mat(id) out of range" ip pos st bts
    | .resetCaptureGroup g =>
      groupAct g (fun _ => { start := none, end_ := none })
        "try_at_pos: ResetCaptureGroup groups.mat(id) out of range" ip pos st bts
    | .backRef g icase =>
      match st.groups[g]? with
      | none => .err "try_at_pos: BackRef groups.mat(id) out of range"
      | some cg =>
        match cg.asRange with
        | some (rs, re) =>
          if icase then
            nextOrBt (backrefIcase inp fwd rs re pos)
              "try_at_pos: backref_icase subinput / input read out of range" ip st bts
          else
            nextOrBt (.ok (backref inp fwd rs re pos)) "try_at_pos: backref" ip st bts
        | none => .cont (ip + 1) pos st bts
    | .lookahead negate sg eg k => .look true negate sg eg k st bts
    | .lookbehind negate sg eg k => .look false negate sg eg k st bts
    | .alt secondary => .cont (ip + 1) pos st (bts.push (.setPosition secondary pos))
    | .enterLoop id min max greedy exit =>
      -- let loop_data = self.s.loops.mat(id); push SetLoopData { id, data: *loop_data }; iters = 0
      match st.loops[id]? with
      | none => .err "try_at_pos: EnterLoop loops.mat(loop_id) out of range"
      | some ld =>
        let bts := bts.push (.setLoopData id ld)
        let st := { st with loops := st.loops.setIfInBounds id { ld with iters := 0 } }
        match runLoop st bts id min max greedy exit pos ip with
        | .err e => .err e
        | .ok (some nextIp) st bts => .cont nextIp pos st bts
        | .ok none st bts => .back st bts
    | .loopAgain begin_ =>
      match prog.insns[begin_]? with
      | none => .err "try_at_pos: LoopAgain insns.iat(begin) out of range"
      | some (.enterLoop id min max greedy exit) =>
        match runLoop st bts id min max greedy exit pos begin_ with
        | .err e => .err e
        | .ok (some nextIp) st bts => .cont nextIp pos st bts
        | .ok none st bts => .back st bts
      | some _ => .err "try_at_pos: rs_unreachable!(EnterLoop should always refer to loop field)"
    | .loop1 min max greedy =>
      match runScmLoop prog inp fwd bts pos min max ip greedy with
      | .error e => .err e
      | .ok none => .back st bts
      | .ok (some (nextIp, pos, bts)) => .cont nextIp pos st bts
    | .goal => .goal pos st
    | .justFail => .back st bts

/-! ## `run_lookaround` helpers -/

/-- `for (idx, cg) in saved_groups.iter().enumerate() { push SetCaptureGroup { id: idx + start_group, data: *cg } }` -/
def pushSavedGroups : List GroupData → Nat → Array BtInsn → Array BtInsn
  | [], _, bts => bts
  | cg :: rest, id, bts => pushSavedGroups rest (id + 1) (bts.push (.setCaptureGroup id cg))

/-- `self.s.groups.splice(range, saved_groups)` (same length: overwrite in place). -/
def spliceGroups : List GroupData → Nat → Array GroupData → Array GroupData
  | [], _, gs => gs
  | cg :: rest, id, gs => spliceGroups rest (id + 1) (gs.setIfInBounds id cg)

/-! ## `try_at_pos` -/

/-- The `'nextinsn` loop of `try_at_pos(inp, ip, pos, dir)` with backtrack stack `bts`.
`limit` is the tick budget, `steps`/`peak` the counters so far; the first argument is the structural
fuel (it suffices that it is `≥ limit - steps`). -/
def run (prog : Prog) (inp : Input) (limit : Nat) :
    Nat → (ip pos : Nat) → (fwd : Bool) → State → Array BtInsn → (steps peak : Nat) → Outcome
  | 0, _, _, _, _, _, _, _ => .outOfFuel
  | sf + 1, ip, pos, fwd, st, bts, steps, peak =>
    -- #[cfg(regress_verif)] if !crate::verif::fuel::tick(self.bts.len()) { .. return None }
    if steps ≥ limit then .outOfFuel else
    let steps := steps + 1
    let peak := if peak < bts.size then bts.size else peak
    match step prog inp ip pos fwd st bts with
    | .err e => .error e
    | .goal pos st => .matched pos st steps peak
    | .cont ip pos st bts => run prog inp limit sf ip pos fwd st bts steps peak
    | .back st bts =>
      match tryBacktrack prog inp fwd st bts with
      | .err e => .error e
      | .exhausted st _ => .failed st steps peak
      | .resumed ip pos st bts => run prog inp limit sf ip pos fwd st bts steps peak
    | .look dirFwd negate sg eg continuation st bts =>
      -- let saved_groups = self.s.groups.iat(range.clone()).to_vec();   (unchecked slice)
      if sg > eg || eg > st.groups.size then
        .error "run_lookaround: groups.iat(start_group..end_group) out of range"
      else
        let saved := (st.groups.extract sg eg).toList
        -- fresh `bts`, recursive try_at_pos(input, ip + 1, pos, Dir)
        match run prog inp limit sf (ip + 1) pos dirFwd st #[.exhausted] steps peak with
        | .error e => .error e
        | .outOfFuel => .outOfFuel
        | .matched _ st steps peak =>
          if !negate then
            -- retain the groups, set up backtracking; matched != negate
            let bts := pushSavedGroups saved sg bts
            run prog inp limit sf continuation pos fwd st bts steps peak
          else
            let st := { st with groups := spliceGroups saved sg st.groups }
            -- matched != negate is false: break 'backtrack
            match tryBacktrack prog inp fwd st bts with
            | .err e => .error e
            | .exhausted st _ => .failed st steps peak
            | .resumed ip pos st bts => run prog inp limit sf ip pos fwd st bts steps peak
        | .failed st steps peak =>
          let st := { st with groups := spliceGroups saved sg st.groups }
          if negate then
            run prog inp limit sf continuation pos fwd st bts steps peak
          else
            match tryBacktrack prog inp fwd st bts with
            | .err e => .error e
            | .exhausted st _ => .failed st steps peak
            | .resumed ip pos st bts => run prog inp limit sf ip pos fwd st bts steps peak

/-- `MatchAttempter::try_at_pos(inp, ip, pos, dir)` on a matcher whose state is `st` (and whose
`bts` is `[Exhausted]`), with a tick budget of `fuel`. -/
def tryAtPos (prog : Prog) (inp : Input) (fuel : Nat) (ip pos : Nat) (fwd : Bool) (st : State) :
    Outcome :=
  run prog inp fuel fuel ip pos fwd st #[.exhausted] 0 0

/-- One attempt on an existing matcher state: `matcher.try_at_pos(inp, 0, pos, Forward)`. -/
def attemptWith (prog : Prog) (inp : Input) (fuel : Nat) (pos : Nat) (st : State) : Outcome :=
  tryAtPos prog inp fuel 0 pos true st

/-- One attempt on a fresh matcher: `MatchAttempter::new(re, input.left_end())` then
`try_at_pos(inp, 0, pos, Forward)` (= `classicalbacktrack::verif_attempt`). -/
def attemptFresh (prog : Prog) (inp : Input) (fuel : Nat) (pos : Nat) : Outcome :=
  attemptWith prog inp fuel pos (freshState prog 0)

def attempt (prog : Prog) (inp : Input) (fuel : Nat) (pos : Nat) : Outcome :=
  attemptFresh prog inp fuel pos

/-- The capture ranges of a state (`gd.as_range()` per group). -/
def capsOf (st : State) : Api.Caps := st.groups.toList.map GroupData.asRange

/-- The group part of `BacktrackExecutor::successful_match`: every group is cleared
(`gd.start = None; gd.end = None`); the loop data is left as it is. -/
def clearGroups (st : State) : State :=
  { st with groups := st.groups.map (fun _ => { start := none, end_ := none }) }

end Regress.VM.Bt
