/-!
# `src/bytesearch.rs`, line by line

The byte-level prefilter searches used by the backtracking executor's start predicates, and the two
bitmaps (`ByteBitmap([u16; 16])`, `AsciiBitmap([u8; 16])`).

Conventions.

* Bytes (`u8`) are `Nat`s; that they are `< 256` is a hypothesis of the theorems, not of the model.
  A byte slice `&[u8]` is a `List Nat`; indices/offsets are `Nat`.
* Every Rust panic site is an explicit `Except.error` (`Err` names the site); every array access of the
  Rust code is a `l[i]?` in the model, so "no index out of range" is the statement that the model
  returns `.ok`. Accesses to a `[u8; N]` through a *constant* index `< N` (`self[0]`, `byte_idxs[3]`)
  are checked by the Rust type checker; these arrays are tuples / curried arguments here.
* Shifts `x << n` on `uN`: Rust checks only the shift *amount* (`n < N`, a panic with overflow checks,
  masked otherwise); bits shifted out are dropped silently. `shl` models exactly that, with the
  overflowing amount an error (so the theorems show it never happens in either build).
* The three external pieces are *specified*, not modelled: `memchr::memchr/memchr2/memchr3` (first
  index whose byte is one of the needles), `memchr::memmem::Finder::find` (first index at which the
  needle occurs) and `u16::count_ones`. They are the trusted part of this file.
* `unsafe_find_in_slice` depends on `<[u8]>::align_to::<u32>()`, whose split depends on the *address*
  of the slice. The address enters the model as the parameter `off = ptr.align_offset(4)`
  (`0..3` on every real target; `usize::MAX` is allowed by the contract and happens under Miri), and
  on the endianness of the target (`to_ne_bytes`; x86-64 and aarch64 are little-endian).
* The pinned `bytesearch.rs` has no `ByteBitmap::to_vec` and no `From` constructors: the constructors
  are `default()` and `new(&[u8])`, the listings are `as_array::<N>()` and (in `verif.rs` and the
  program dump) `(0..=255).filter(|b| bm.contains(*b))`, modelled as `toVec`.

Validation (2026-09-26, x86-64, release build, default features): `bitmapFindSetLine` against
`regress::verif::bitmap_find_in(set, &buf[k..k+len])` on 3000 random (set, haystack) pairs at the
four alignments `k = 0..3` of an 8-aligned buffer, passing `hay.as_ptr().align_offset(4)` as
`prefixLen` (the probe also asserted that `align_to::<u32>` splits as `alignTo` says); and every
other function of this file against the real `bytesearch.rs` compiled as a `#[path]` module
(`count_bits`, `as_array::<8>` incl. the panic, `bitnot().find_in`, both `Debug` impls, `AsciiBitmap`
`set`/`contains` incl. the panic for `val >= 128`, `[u8; N]`/`ByteArraySet`/`Finder` `find_in`): 0
mismatches on 15000 lines.
-/
namespace Regress.ByteSearch

/-- The panic sites of `bytesearch.rs`. -/
inductive Err where
  /-- `self.0[byte as usize]` / `bm[byte_idxs[k] as usize]` on the `[u16; 16]` of a `ByteBitmap` -/
  | bitmapIndex
  /-- `1 << bit` with `bit ≥` the width of the type ("attempt to shift left with overflow") -/
  | shiftOverflow
  /-- `debug_assert!(val <= 127, "Value should be ASCII")` in `AsciiBitmap::set` -/
  | asciiSetDebugAssert
  /-- `self.0[(val >> 3) as usize]` / `self.0[byte as usize]` on the `[u8; 16]` of an `AsciiBitmap` -/
  | asciiIndex
  /-- `array[idx] = byte` in `ByteBitmap::as_array::<N>` -/
  | asArrayIndex
deriving Repr, DecidableEq, Inhabited

def Err.site : Err → String
  | .bitmapIndex => "ByteBitmap:index"
  | .shiftOverflow => "shl:overflow"
  | .asciiSetDebugAssert => "AsciiBitmap::set:debug_assert"
  | .asciiIndex => "AsciiBitmap:index"
  | .asArrayIndex => "ByteBitmap::as_array:index"

/-- `x << n` on an unsigned type of `width` bits. -/
def shl (width x n : Nat) : Except Err Nat :=
  if n < width then .ok ((x <<< n) % 2 ^ width) else .error .shiftOverflow

/-! ## The specifications of the external searches (trusted) -/

/-- The least index whose byte satisfies `p`. -/
def firstIdx (p : Nat → Bool) : List Nat → Option Nat
  | [] => none
  | b :: rest => if p b then some 0 else (firstIdx p rest).map (· + 1)

/-- `memchr::memchr(n1, haystack)`. -/
def memchr (n1 : Nat) (haystack : List Nat) : Option Nat := firstIdx (fun b => b == n1) haystack

/-- `memchr::memchr2(n1, n2, haystack)`. -/
def memchr2 (n1 n2 : Nat) (haystack : List Nat) : Option Nat :=
  firstIdx (fun b => b == n1 || b == n2) haystack

/-- `memchr::memchr3(n1, n2, n3, haystack)`. -/
def memchr3 (n1 n2 n3 : Nat) (haystack : List Nat) : Option Nat :=
  firstIdx (fun b => b == n1 || b == n2 || b == n3) haystack

/-- `memchr::memmem::Finder::new(needle).find(haystack)`: the least `i` with
`haystack[i .. i + needle.len()] == needle` (`Some(0)` for the empty needle). -/
def memmemFind (needle : List Nat) : List Nat → Option Nat
  | [] => if needle.isPrefixOf [] then some 0 else none
  | b :: rest =>
    if needle.isPrefixOf (b :: rest) then some 0 else (memmemFind needle rest).map (· + 1)

/-- `u16::count_ones`. -/
def countOnes16 (v : Nat) : Nat := (List.range 16).countP (fun i => v.testBit i)

/-! ## `impl ByteSearcher for [u8; 1]`, `[u8; 2]`, `[u8; 3]`, `memmem::Finder` -/

/-- `<[u8; 1] as ByteSearcher>::find_in`. -/
def findIn1 (self0 : Nat) (rhs : List Nat) : Option Nat := memchr self0 rhs

/-- `<[u8; 2] as ByteSearcher>::find_in`. -/
def findIn2 (self0 self1 : Nat) (rhs : List Nat) : Option Nat := memchr2 self0 self1 rhs

/-- `<[u8; 3] as ByteSearcher>::find_in`. -/
def findIn3 (self0 self1 self2 : Nat) (rhs : List Nat) : Option Nat := memchr3 self0 self1 self2 rhs

/-- `<memmem::Finder as ByteSearcher>::find_in`; the finder is given by its needle. -/
def finderFindIn (needle : List Nat) (rhs : List Nat) : Option Nat := memmemFind needle rhs

/-! ## `SmallArraySet` for `[u8; 2]`, `[u8; 3]`, `[u8; 4]` and `ByteArraySet` -/

/-- `<[u8; 2] as SmallArraySet>::contains`. -/
def set2Contains (s : Nat × Nat) (b : Nat) : Bool := b == s.1 || b == s.2

/-- `<[u8; 2] as SmallArraySet>::find_in`. -/
def set2FindIn (s : Nat × Nat) (rhs : List Nat) : Option Nat := memchr2 s.1 s.2 rhs

/-- `<[u8; 3] as SmallArraySet>::contains`. -/
def set3Contains (s : Nat × Nat × Nat) (b : Nat) : Bool := b == s.1 || b == s.2.1 || b == s.2.2

/-- `<[u8; 3] as SmallArraySet>::find_in`. -/
def set3FindIn (s : Nat × Nat × Nat) (rhs : List Nat) : Option Nat := memchr3 s.1 s.2.1 s.2.2 rhs

/-- `<[u8; 4] as SmallArraySet>::contains`. -/
def set4Contains (s : Nat × Nat × Nat × Nat) (b : Nat) : Bool :=
  b == s.1 || b == s.2.1 || b == s.2.2.1 || b == s.2.2.2

/-- The loop of `<[u8; 4] as SmallArraySet>::find_in`:
`for (idx, byte) in rhs.iter().enumerate() { if self.contains(*byte) { return Some(idx) } } None`. -/
def set4FindLoop (s : Nat × Nat × Nat × Nat) : List Nat → Nat → Option Nat
  | [], _ => none
  | byte :: rest, idx => if set4Contains s byte then some idx else set4FindLoop s rest (idx + 1)

/-- `<[u8; 4] as SmallArraySet>::find_in`. -/
def set4FindIn (s : Nat × Nat × Nat × Nat) (rhs : List Nat) : Option Nat := set4FindLoop s rhs 0

/-- `ByteArraySet<A>` is a transparent wrapper: `contains` and `find_in` forward to `A`. -/
inductive ByteArraySet where
  | a2 (s : Nat × Nat)
  | a3 (s : Nat × Nat × Nat)
  | a4 (s : Nat × Nat × Nat × Nat)
deriving Repr, DecidableEq, Inhabited

/-- `ByteArraySet::contains`. -/
def ByteArraySet.contains : ByteArraySet → Nat → Bool
  | .a2 s, b => set2Contains s b
  | .a3 s, b => set3Contains s b
  | .a4 s, b => set4Contains s b

/-- `<ByteArraySet<A> as ByteSearcher>::find_in`. -/
def ByteArraySet.findIn : ByteArraySet → List Nat → Option Nat
  | .a2 s, rhs => set2FindIn s rhs
  | .a3 s, rhs => set3FindIn s rhs
  | .a4 s, rhs => set4FindIn s rhs

/-- The members, in array order. -/
def ByteArraySet.toList : ByteArraySet → List Nat
  | .a2 s => [s.1, s.2]
  | .a3 s => [s.1, s.2.1, s.2.2]
  | .a4 s => [s.1, s.2.1, s.2.2.1, s.2.2.2]

/-- `charset_contains`: `let mut result = false; for &v in set.iter() { result |= (v == c) } result`. -/
def charsetContains (set : List Nat) (c : Nat) : Bool :=
  set.foldl (fun result v => result || v == c) false

/-! ## `AsciiBitmap([u8; 16])` -/

/-- `AsciiBitmap`: the sixteen bytes. -/
structure AsciiBitmap where
  bytes : List Nat
deriving Repr, DecidableEq, Inhabited

namespace AsciiBitmap

/-- `AsciiBitmap::default()`. -/
def default : AsciiBitmap := ⟨List.replicate 16 0⟩

/-- The type invariant: sixteen `u8`s. -/
def WF (bm : AsciiBitmap) : Prop := bm.bytes.length = 16 ∧ ∀ w ∈ bm.bytes, w < 256

instance (bm : AsciiBitmap) : Decidable bm.WF := by unfold WF; exact inferInstance

/-- `AsciiBitmap::set`. `debugAssertions` is `cfg!(debug_assertions)`: for `val > 127` the
`debug_assert!` fires with it, the index `self.0[val >> 3]` (`val >> 3 ≥ 16`) panics without it. -/
def set (debugAssertions : Bool) (bm : AsciiBitmap) (val : Nat) : Except Err AsciiBitmap :=
  if debugAssertions && !(val ≤ 127) then .error .asciiSetDebugAssert
  else
    match bm.bytes[val >>> 3]?, shl 8 1 (val &&& 0x7) with
    | none, _ => .error .asciiIndex
    | some _, .error e => .error e
    | some w, .ok m => .ok ⟨bm.bytes.set (val >>> 3) (w ||| m)⟩

/-- `<AsciiBitmap as ByteSet>::contains`. -/
def contains (bm : AsciiBitmap) (val : Nat) : Except Err Bool :=
  let byte := (val &&& 0x7F) >>> 3
  let bit := val &&& 0x7
  match shl 8 ((val >>> 7) ^^^ 1) bit with
  | .error e => .error e
  | .ok mask =>
    match bm.bytes[byte]? with
    | none => .error .asciiIndex
    | some w => .ok ((w &&& mask) != 0)

end AsciiBitmap

/-! ## `ByteBitmap([u16; 16])` -/

/-- `ByteBitmap`: the sixteen 16-bit words. -/
structure ByteBitmap where
  words : List Nat
deriving Repr, DecidableEq, Inhabited

namespace ByteBitmap

/-- `ByteBitmap::default()`. -/
def default : ByteBitmap := ⟨List.replicate 16 0⟩

/-- The type invariant: sixteen `u16`s. -/
def WF (bm : ByteBitmap) : Prop := bm.words.length = 16 ∧ ∀ w ∈ bm.words, w < 65536

instance (bm : ByteBitmap) : Decidable bm.WF := by unfold WF; exact inferInstance

/-- `(bm[byteIdx as usize] & (1 << bitIdx)) != 0` — the probe shared by `contains` and the chunk
loop of `unsafe_find_in_slice`. -/
def probe (bm : ByteBitmap) (byteIdx bitIdx : Nat) : Except Err Bool :=
  match bm.words[byteIdx]?, shl 16 1 bitIdx with
  | none, _ => .error .bitmapIndex
  | some _, .error e => .error e
  | some w, .ok m => .ok ((w &&& m) != 0)

/-- `ByteBitmap::contains`: `let byte = val >> 4; let bit = val & 0xF;
(self.0[byte as usize] & (1 << bit)) != 0`. -/
def contains (bm : ByteBitmap) (val : Nat) : Except Err Bool :=
  let byte := val >>> 4
  let bit := val &&& 0xF
  bm.probe byte bit

/-- `ByteBitmap::set`: `self.0[byte as usize] |= 1 << bit`. -/
def set (bm : ByteBitmap) (val : Nat) : Except Err ByteBitmap :=
  let byte := val >>> 4
  let bit := val &&& 0xF
  match bm.words[byte]?, shl 16 1 bit with
  | none, _ => .error .bitmapIndex
  | some _, .error e => .error e
  | some w, .ok m => .ok ⟨bm.words.set byte (w ||| m)⟩

/-- `for &b in bytes { bb.set(b) }`. -/
def newLoop : List Nat → ByteBitmap → Except Err ByteBitmap
  | [], bb => .ok bb
  | b :: rest, bb =>
    match bb.set b with
    | .error e => .error e
    | .ok bb' => newLoop rest bb'

/-- `ByteBitmap::new(bytes)`. -/
def new (bytes : List Nat) : Except Err ByteBitmap := newLoop bytes default

/-- `for idx in 0..self.0.len() { self.0[idx] |= rhs.0[idx] }`. -/
def bitorLoop (rhs : ByteBitmap) : List Nat → ByteBitmap → Except Err ByteBitmap
  | [], self => .ok self
  | idx :: rest, self =>
    match self.words[idx]?, rhs.words[idx]? with
    | some a, some b => bitorLoop rhs rest ⟨self.words.set idx (a ||| b)⟩
    | _, _ => .error .bitmapIndex

/-- `ByteBitmap::bitor`. -/
def bitor (self rhs : ByteBitmap) : Except Err ByteBitmap :=
  bitorLoop rhs (List.range self.words.length) self

/-- `ByteBitmap::bitnot`: `for val in self.0.iter_mut() { *val = !*val }` (`!` on `u16`). -/
def bitnot (bm : ByteBitmap) : ByteBitmap := ⟨bm.words.map (fun val => val ^^^ 0xFFFF)⟩

/-- `ByteBitmap::count_bits`: `self.0.iter().map(|v| v.count_ones()).sum()` (a `u32`; at most 256). -/
def countBits (bm : ByteBitmap) : Nat := (bm.words.map countOnes16).sum

/-- The loop of `as_array`: `for byte in 0..=255 { if self.contains(byte) { array[idx] = byte;
idx += 1 } }`. -/
def asArrayLoop (bm : ByteBitmap) : List Nat → List Nat → Nat → Except Err (List Nat)
  | [], array, _ => .ok array
  | byte :: rest, array, idx =>
    match bm.contains byte with
    | .error e => .error e
    | .ok true =>
      if idx < array.length then asArrayLoop bm rest (array.set idx byte) (idx + 1)
      else .error .asArrayIndex
    | .ok false => asArrayLoop bm rest array idx

/-- `ByteBitmap::as_array::<N>()` ("Panics if the array is not large enough"). -/
def asArray (bm : ByteBitmap) (N : Nat) : Except Err (List Nat) :=
  asArrayLoop bm (List.range 256) (List.replicate N 0) 0

/-- The loop of `toVec`. -/
def toVecLoop (bm : ByteBitmap) : List Nat → Except Err (List Nat)
  | [] => .ok []
  | b :: rest =>
    match bm.contains b, toVecLoop bm rest with
    | .error e, _ => .error e
    | _, .error e => .error e
    | .ok c, .ok l => .ok (if c then b :: l else l)

/-- `(0..=255u8).filter(|b| bm.contains(*b)).collect::<Vec<u8>>()` — the pinned `bytesearch.rs` has
no `to_vec`; this is how `verif::utf8_first_bytes` and the program dump list a bitmap. -/
def toVec (bm : ByteBitmap) : Except Err (List Nat) := toVecLoop bm (List.range 256)

end ByteBitmap

/-! ## `ByteBitmap::unsafe_find_in_slice` -/

/-- Target endianness (`to_ne_bytes`, and the reading of four bytes of memory as a `u32`). -/
inductive Endian where
  /-- x86-64, aarch64, riscv, wasm: every tier-1 target -/
  | little
  /-- s390x, powerpc64, mips -/
  | big
deriving Repr, DecidableEq, Inhabited

/-- The `u32` that the four consecutive bytes `b0 b1 b2 b3` (in address order) are, read through the
`&[u32]` that `align_to` returns. -/
def u32OfNeBytes (e : Endian) (b0 b1 b2 b3 : Nat) : Nat :=
  match e with
  | .little => b0 + 256 * b1 + 65536 * b2 + 16777216 * b3
  | .big => b3 + 256 * b2 + 65536 * b1 + 16777216 * b0

/-- `u32::to_ne_bytes` ("index 0 is the earliest address"). -/
def u32ToNeBytes (e : Endian) (x : Nat) : Nat × Nat × Nat × Nat :=
  match e with
  | .little => (x % 256, (x >>> 8) % 256, (x >>> 16) % 256, (x >>> 24) % 256)
  | .big => ((x >>> 24) % 256, (x >>> 16) % 256, (x >>> 8) % 256, x % 256)

/-- A byte list of length `4 * n` seen as `n` `u32`s (a trailing partial chunk is dropped; there is
none in `alignTo`). -/
def chunksU32 (e : Endian) : List Nat → List Nat
  | b0 :: b1 :: b2 :: b3 :: rest => u32OfNeBytes e b0 b1 b2 b3 :: chunksU32 e rest
  | _ => []

/-- `bytes.align_to::<u32>()` as implemented in `core` (`slice/mod.rs`): with
`offset = ptr.align_offset(4)`, `if offset > self.len() { (self, &[], &[]) } else { let (left, rest)
= self.split_at(offset); let (us_len, ts_len) = rest.align_to_offsets::<u32>(); (left,
from_raw_parts(rest.as_ptr() as *const u32, us_len), from_raw_parts(rest.as_ptr().add(rest.len() -
ts_len), ts_len)) }`, `us_len = rest.len() / 4`, `ts_len = rest.len() % 4`.
The body is returned as `u32` values. -/
def alignTo (e : Endian) (bytes : List Nat) (offset : Nat) : List Nat × List Nat × List Nat :=
  if offset > bytes.length then (bytes, [], [])
  else
    let left := bytes.take offset
    let rest := bytes.drop offset
    let usLen := rest.length / 4
    let tsLen := rest.length % 4
    (left, chunksU32 e (rest.take (4 * usLen)), rest.drop (rest.length - tsLen))

/-- The result of one of the three loops: an early `return Some(i)` or the running `offset`. -/
inductive Scan where
  | found (i : Nat)
  | cont (offset : Nat)
deriving Repr, DecidableEq, Inhabited

/-- `for &byte in prefix.iter() { if self.contains(byte) { return Some(offset) } offset += 1 }`
(also the suffix loop). -/
def byteLoop (bm : ByteBitmap) : List Nat → Nat → Except Err Scan
  | [], offset => .ok (.cont offset)
  | byte :: rest, offset =>
    match bm.contains byte with
    | .error e => .error e
    | .ok true => .ok (.found offset)
    | .ok false => byteLoop bm rest (offset + 1)

/-- `((chunk >> 4) & 0x0F0F0F0F).to_ne_bytes()`. -/
def byteIdxs (e : Endian) (chunk : Nat) : Nat × Nat × Nat × Nat :=
  u32ToNeBytes e ((chunk >>> 4) &&& 0x0F0F0F0F)

/-- `(chunk & 0x0F0F0F0F).to_ne_bytes()`. -/
def bitIdxs (e : Endian) (chunk : Nat) : Nat × Nat × Nat × Nat :=
  u32ToNeBytes e (chunk &&& 0x0F0F0F0F)

/-- `for &chunk in body { … four probes … offset += 4 }`. -/
def chunkLoop (e : Endian) (bm : ByteBitmap) : List Nat → Nat → Except Err Scan
  | [], offset => .ok (.cont offset)
  | chunk :: rest, offset =>
    let byte_idxs := byteIdxs e chunk
    let bit_idxs := bitIdxs e chunk
    match bm.probe byte_idxs.1 bit_idxs.1 with
    | .error err => .error err
    | .ok true => .ok (.found offset)
    | .ok false =>
    match bm.probe byte_idxs.2.1 bit_idxs.2.1 with
    | .error err => .error err
    | .ok true => .ok (.found (offset + 1))
    | .ok false =>
    match bm.probe byte_idxs.2.2.1 bit_idxs.2.2.1 with
    | .error err => .error err
    | .ok true => .ok (.found (offset + 2))
    | .ok false =>
    match bm.probe byte_idxs.2.2.2 bit_idxs.2.2.2 with
    | .error err => .error err
    | .ok true => .ok (.found (offset + 3))
    | .ok false => chunkLoop e bm rest (offset + 4)

/-- The three loops of `unsafe_find_in_slice` on a given `(prefix, body, suffix)`. -/
def unsafeFindInParts (e : Endian) (bm : ByteBitmap) (pre body suffix : List Nat) :
    Except Err (Option Nat) :=
  match byteLoop bm pre 0 with
  | .error err => .error err
  | .ok (.found i) => .ok (some i)
  | .ok (.cont offset) =>
    match chunkLoop e bm body offset with
    | .error err => .error err
    | .ok (.found i) => .ok (some i)
    | .ok (.cont offset) =>
      match byteLoop bm suffix offset with
      | .error err => .error err
      | .ok (.found i) => .ok (some i)
      | .ok (.cont _) => .ok none

/-- `ByteBitmap::unsafe_find_in_slice(bytes)`, for a slice whose address has
`align_offset(4) = alignOffset`. -/
def unsafeFindInSlice (e : Endian) (bm : ByteBitmap) (bytes : List Nat) (alignOffset : Nat) :
    Except Err (Option Nat) :=
  let (pre, body, suffix) := alignTo e bytes alignOffset
  unsafeFindInParts e bm pre body suffix

/-- The `prohibit-unsafe` branch of `find_in`:
`for (idx, byte) in bytes.iter().enumerate() { if self.contains(*byte) { return Some(idx) } } None`. -/
def safeFindLoop (bm : ByteBitmap) : List Nat → Nat → Except Err (Option Nat)
  | [], _ => .ok none
  | byte :: rest, idx =>
    match bm.contains byte with
    | .error e => .error e
    | .ok true => .ok (some idx)
    | .ok false => safeFindLoop bm rest (idx + 1)

/-- `<ByteBitmap as ByteSearcher>::find_in`; `prohibitUnsafe` is `cfg!(feature = "prohibit-unsafe")`. -/
def ByteBitmap.findIn (prohibitUnsafe : Bool) (e : Endian) (bm : ByteBitmap) (bytes : List Nat)
    (alignOffset : Nat) : Except Err (Option Nat) :=
  if prohibitUnsafe then safeFindLoop bm bytes 0
  else unsafeFindInSlice e bm bytes alignOffset

/-- `<EmptyString as ByteSearcher>::find_in`. -/
def emptyStringFindIn (_bytes : List Nat) : Option Nat := some 0

/-! ## `format_bitmap` (the `Debug` impls) -/

/-- `while end <= 256 && contains(end as u8) { end += 1 }`; `fuel ≥ 257 - end`. -/
def formatScanEnd (contains : Nat → Bool) : Nat → Nat → Nat
  | 0, e => e
  | fuel + 1, e => if e ≤ 256 && contains (e % 256) then formatScanEnd contains fuel (e + 1) else e

/-- The outer loop `while idx <= 256 { … idx = end + 1 }`: the list of `(idx, end)` with
`end > idx`, i.e. the items written (`idx` if `end - idx = 1`, else `idx-(end-1)`). `fuel ≥ 257`. -/
def formatItems (contains : Nat → Bool) : Nat → Nat → List (Nat × Nat)
  | 0, _ => []
  | fuel + 1, idx =>
    if idx ≤ 256 then
      let e := formatScanEnd contains 257 idx
      if e > idx then (idx, e) :: formatItems contains fuel (e + 1)
      else formatItems contains fuel (e + 1)
    else []

/-- `format_bitmap(name, f, contains)`. -/
def formatBitmap (name : String) (contains : Nat → Bool) : String :=
  let items := (formatItems contains 258 0).map (fun (p : Nat × Nat) =>
    if p.2 - p.1 == 1 then toString p.1 else toString p.1 ++ "-" ++ toString (p.2 - 1))
  name ++ "[" ++ " ".intercalate items ++ "]"

/-! ## Driver hooks -/

def hexDigit (c : Char) : Option Nat :=
  if '0' ≤ c ∧ c ≤ '9' then some (c.toNat - '0'.toNat)
  else if 'a' ≤ c ∧ c ≤ 'f' then some (c.toNat - 'a'.toNat + 10)
  else none

/-- Two hex digits per byte. -/
def hexBytes : List Char → Option (List Nat)
  | [] => some []
  | a :: b :: rest =>
    match hexDigit a, hexDigit b, hexBytes rest with
    | some x, some y, some l => some ((x * 16 + y) :: l)
    | _, _, _ => none
  | [_] => none

/-- Four hex digits per 16-bit word (`{:04x}`). -/
def hexWords : List Char → Option (List Nat)
  | [] => some []
  | a :: b :: c :: d :: rest =>
    match hexDigit a, hexDigit b, hexDigit c, hexDigit d, hexWords rest with
    | some x, some y, some z, some w, some l => some ((((x * 16 + y) * 16 + z) * 16 + w) :: l)
    | _, _, _, _, _ => none
  | _ => none

/-- A byte string: two lower-case hex digits per byte, `-` for the empty string. -/
def parseHex (s : String) : Option (List Nat) :=
  if s == "-" then some [] else if s.isEmpty then none else hexBytes s.toList

def fmtFind : Except Err (Option Nat) → String
  | .error e => "error:" ++ e.site
  | .ok none => "none"
  | .ok (some i) => toString i

/-- `ByteBitmap(words).find_in(hay)` (default features, little-endian target) for a haystack whose
address has `align_offset(4) = prefixLen`. `bitsHex16Words`: the sixteen words `self.0[0] …
self.0[15]`, four hex digits each (64 digits); `hayHex`: two hex digits per byte, `-` if empty;
`prefixLen`: decimal. Result: the index, `none`, `error:<site>` or `bad-input`. -/
def bitmapFindLine (bitsHex16Words hayHex prefixLen : String) : String :=
  match hexWords bitsHex16Words.toList, parseHex hayHex, prefixLen.toNat? with
  | some ws, some hay, some p =>
    if ws.length = 16 then fmtFind (unsafeFindInSlice .little ⟨ws⟩ hay p) else "bad-input"
  | _, _, _ => "bad-input"

/-- `regress::verif::bitmap_find_in(set, hay)` = `ByteBitmap::new(set).find_in(hay)`, same
conventions; `setHex` is the byte list handed to `ByteBitmap::new`. -/
def bitmapFindSetLine (setHex hayHex prefixLen : String) : String :=
  match parseHex setHex, parseHex hayHex, prefixLen.toNat? with
  | some set, some hay, some p =>
    match ByteBitmap.new set with
    | .error e => "error:" ++ e.site
    | .ok bm => fmtFind (unsafeFindInSlice .little bm hay p)
  | _, _, _ => "bad-input"

/-- The same through the `prohibit-unsafe` branch (the safe loop). -/
def bitmapFindSetSafeLine (setHex hayHex : String) : String :=
  match parseHex setHex, parseHex hayHex with
  | some set, some hay =>
    match ByteBitmap.new set with
    | .error e => "error:" ++ e.site
    | .ok bm => fmtFind (safeFindLoop bm hay 0)
  | _, _ => "bad-input"

end Regress.ByteSearch
