import RegressModel.VM.Backtrack
/-!
# The PikeVM executor (`src/pikevm.rs`)

A transliteration of `run_loop`, `try_match_state` and `MatchAttempter::try_at_pos`.
(Despite its name the executor explores an explicit *stack* of states depth first.)

* `State` is `pikevm::State`; `LoopData`/`GroupData` are the types of `types.rs` (shared with the
  backtracker, `Regress.VM.Bt.LoopData`, `Regress.VM.Bt.GroupData`).
* `try_match_state` mutates `*s` in place, also when it returns `Fail`; the model returns the mutated
  state in every case (it is observable by the caller in the `Loop1CharBody` arm).
* `steps` = number of iterations of `while !self.states.is_empty()` (one `verif::fuel::tick` each),
  summed over nested look-around runs; `peak` = max of `states.len()` at the ticks.
  The recursive `try_match_state` call of the `Loop1CharBody` arm is not a tick.
-/
namespace Regress.VM.Pk

open Regress.VM.Bt (LoopData GroupData)

/-- `pikevm::State`. -/
structure State where
  pos : Nat
  ip : Nat
  loop1Iters : Nat
  loops : Array LoopData
  groups : Array GroupData
deriving Repr, DecidableEq, Inhabited

/-- Result of `try_at_pos`: on success the state handed back to the caller
(`core::mem::swap(init_state, s)`), whose `pos` is the end of the match. -/
inductive Outcome where
  | matched (pos : Nat) (st : State) (steps : Nat) (peak : Nat)
  | failed (steps : Nat) (peak : Nat)
  | outOfFuel
  | error (site : String)
deriving Repr, Inhabited

/-- `pikevm::StateMatch`, together with the (mutated) `*s` and the tick counters (which change only
in the look-around arms). -/
inductive SM where
  | fail (s : State) (steps peak : Nat)
  | cont (s : State) (steps peak : Nat)
  | split (s new : State) (steps peak : Nat)
  | complete (s : State) (steps peak : Nat)
  | outOfFuel
  | err (site : String)

/-- `lf.max_iters > 0`. -/
def maxPos : Option Nat → Bool
  | none => true
  | some m => m > 0

/-- `pikevm::run_loop(s, lf, is_initial_entry)`. -/
def runLoop (s : State) (id min : Nat) (max : Option Nat) (greedy : Bool) (exit : Nat)
    (isInitialEntry : Bool) (steps peak : Nat) : SM :=
  -- let ld = &mut s.loops[lf.loop_id as usize];   (checked index)
  match s.loops[id]? with
  | none => .err "pikevm::run_loop: s.loops[loop_id] out of range"
  | some ld =>
    if isInitialEntry then
      let ld : LoopData := { iters := 0, entry := s.pos }
      let s := { s with loops := s.loops.setIfInBounds id ld, ip := s.ip + 1 }
      let enterOk := maxPos max
      let skipOk := min == 0
      if !enterOk && !skipOk then .fail s steps peak
      else if !enterOk then .cont { s with ip := exit } steps peak
      else if !skipOk then .cont s steps peak
      else
        let newstate := s
        if greedy then .split { s with ip := exit } newstate steps peak
        else .split s { newstate with ip := exit } steps peak
    else
      let iters := ld.iters + 1
      let enterOk := Bt.ltMax iters max
      let skipOk := iters ≥ min
      if iters > min && ld.entry == s.pos then
        .fail { s with loops := s.loops.setIfInBounds id { ld with iters := iters } } steps peak
      else
        let ld : LoopData := { iters := iters, entry := s.pos }
        let s := { s with loops := s.loops.setIfInBounds id ld, ip := s.ip + 1 }
        if !enterOk && !skipOk then .fail s steps peak
        else if !enterOk then .cont { s with ip := exit } steps peak
        else if !skipOk then .cont s steps peak
        else
          let newstate := s
          if greedy then .split { s with ip := exit } newstate steps peak
          else .split s { newstate with ip := exit } steps peak

/-- `nextinsn_or_fail!`. -/
def nextOrFail (b : Bool) (s : State) (steps peak : Nat) : SM :=
  if b then .cont { s with ip := s.ip + 1 } steps peak else .fail s steps peak

/-- An arm of the form `match cursor::next(input, dir, &mut s.pos) { Some(c) => nextinsn_or_fail!(f c), _ => Fail }`. -/
def nextElemArm (inp : Input) (fwd : Bool) (s : State) (f : Nat → Except String Bool) (site : String)
    (steps peak : Nat) : SM :=
  match Cursor.next inp fwd s.pos with
  | .error _ => .err site
  | .ok none => .fail s steps peak
  | .ok (some (c, p)) =>
    match f c with
    | .error e => .err e
    | .ok b => nextOrFail b { s with pos := p } steps peak

/-- An arm of the form `nextinsn_or_fail!(matcher.matches(input, dir, &mut s.pos))`. -/
def scmArm (r : Except Unit (Option Nat)) (s : State) (site : String) (steps peak : Nat) : SM :=
  match r with
  | .error _ => .err site
  | .ok none => .fail s steps peak
  | .ok (some p) => .cont { s with pos := p, ip := s.ip + 1 } steps peak

def lineArm (r : Except Unit (Option Nat)) (multiline : Bool) (s : State) (site : String)
    (steps peak : Nat) : SM :=
  match r with
  | .error _ => .err site
  | .ok none => nextOrFail true s steps peak
  | .ok (some c) => nextOrFail (multiline && isLineTerminator c) s steps peak

def wordBoundaryArm (inp : Input) (f : Nat → Bool) (invert : Bool) (s : State) (steps peak : Nat) : SM :=
  match Bt.peekIs (inp.peekLeft s.pos) f with
  | .error _ => .err "try_match_state: WordBoundary peek_left out of range"
  | .ok prev =>
    match Bt.peekIs (inp.peekRight s.pos) f with
    | .error _ => .err "try_match_state: WordBoundary peek_right out of range"
    | .ok curr => nextOrFail ((prev != curr) != invert) s steps peak

/-- The capture group arms: `let group = &mut s.groups[group_idx]` (checked index). -/
def groupArm (g : Nat) (upd : GroupData → GroupData) (s : State) (site : String)
    (steps peak : Nat) : SM :=
  match s.groups[g]? with
  | none => .err site
  | some cg => nextOrFail true { s with groups := s.groups.setIfInBounds g (upd cg) } steps peak

/-- Result of a nested `MatchAttempter::new(re).try_at_pos(*input, s, Dir)`. -/
abbrev Runner := State → Bool → Nat → Nat → Outcome

/-- The look-around arms. `s.ip += 1` has not been applied yet. -/
def lookArm (look : Runner) (dirFwd negate : Bool) (continuation : Nat) (s : State)
    (steps peak : Nat) : SM :=
  let s := { s with ip := s.ip + 1 }
  let savedPos := s.pos
  match look s dirFwd steps peak with
  | .error e => .err e
  | .outOfFuel => .outOfFuel
  | .matched _ s' steps peak =>
    -- attempt_succeeded = true; `*s` is now the successful state
    if true != negate then .cont { s' with ip := continuation, pos := savedPos } steps peak
    else .fail s' steps peak
  | .failed steps peak =>
    if false != negate then .cont { s with ip := continuation, pos := savedPos } steps peak
    else .fail s steps peak

/-- `try_match_state(re, input, s, dir)`. `look` runs a nested attempt (look-arounds); the first
`Nat` bounds the depth of the recursion of the `Loop1CharBody` arm (each level increases `s.ip`, so
`prog.insns.size + 1` suffices). -/
def tryMatchState (prog : Prog) (inp : Input) (look : Runner) :
    Nat → State → (fwd : Bool) → (steps peak : Nat) → SM
  | 0, _, _, _, _ => .err "try_match_state: model fuel exhausted"
  | d + 1, s, fwd, steps, peak =>
    -- match &re.insns[s.ip]   (checked index)
    match prog.insns[s.ip]? with
    | none => .err "try_match_state: re.insns[s.ip] out of range"
    | some insn =>
      match insn with
      | .goal => .complete s steps peak
      | .justFail => .fail s steps peak
      | .char c =>
        nextElemArm inp fwd s (fun c2 => .ok (c == c2)) "try_match_state: Char input read out of range" steps peak
      | .charSet v =>
        nextElemArm inp fwd s (fun c => .ok (charsetContains v c))
          "try_match_state: CharSet input read out of range" steps peak
      | .byteSeq v => scmArm (.ok (Cursor.tryMatchLit inp fwd s.pos v)) s "try_match_state: ByteSeq" steps peak
      | .startOfLine multiline =>
        lineArm (inp.peekLeft s.pos) multiline s "try_match_state: StartOfLine peek_left out of range" steps peak
      | .endOfLine multiline =>
        lineArm (inp.peekRight s.pos) multiline s "try_match_state: EndOfLine peek_right out of range" steps peak
      | .matchAny =>
        nextElemArm inp fwd s (fun _ => .ok true) "try_match_state: MatchAny input read out of range" steps peak
      | .matchAnyExceptLineTerminator =>
        nextElemArm inp fwd s (fun c2 => .ok (!isLineTerminator c2))
          "try_match_state: MatchAnyExceptLineTerminator input read out of range" steps peak
      | .jump target => .cont { s with ip := target } steps peak
      | .alt secondary =>
        -- let mut left = s.clone(); left.ip += 1; s.ip = secondary; Split(left)
        .split { s with ip := secondary } { s with ip := s.ip + 1 } steps peak
      | .beginCaptureGroup g =>
        groupArm g (fun cg => if fwd then { cg with start := some s.pos } else { cg with end_ := some s.pos })
          s "try_match_state: BeginCaptureGroup s.groups[idx] out of range" steps peak
      | .endCaptureGroup g =>
        groupArm g (fun cg => if fwd then { cg with end_ := some s.pos } else { cg with start := some s.pos })
          s "try_match_state: EndCaptureGroup s.groups[idx] out of range" steps peak
      | .resetCaptureGroup g =>
        groupArm g (fun _ => { start := none, end_ := none })
          s "try_match_state: ResetCaptureGroup s.groups[idx] out of range" steps peak
      | .backRef g icase =>
        match s.groups[g]? with
        | none => .err "try_match_state: BackRef s.groups[idx] out of range"
        | some cg =>
          match cg.asRange with
          | some (rs, re) =>
            if icase then
              scmArm (backrefIcase inp fwd rs re s.pos) s
                "try_match_state: backref_icase subinput / input read out of range" steps peak
            else scmArm (.ok (backref inp fwd rs re s.pos)) s "try_match_state: backref" steps peak
          | none => nextOrFail true s steps peak
      | .lookahead negate _ _ continuation => lookArm look true negate continuation s steps peak
      | .lookbehind negate _ _ continuation => lookArm look false negate continuation s steps peak
      | .enterLoop id min max greedy exit => runLoop s id min max greedy exit true steps peak
      | .loopAgain begin_ =>
        -- s.ip = begin; match re.insns.iat(s.ip) { EnterLoop(lf) => run_loop(s, lf, false), _ => panic!() }
        let s := { s with ip := begin_ }
        match prog.insns[begin_]? with
        | none => .err "try_match_state: LoopAgain insns.iat(begin) out of range"
        | some (.enterLoop id min max greedy exit) => runLoop s id min max greedy exit false steps peak
        | some _ => .err "try_match_state: panic!(LoopAgain does not point at EnterLoop)"
      | .loop1 minIters maxIters greedy =>
        let loopIp := s.ip
        let continuation := loopIp + 2
        let iters := s.loop1Iters
        -- the `if iters < max_iters { .. }` block: (taken_pos, s) or an early exit
        let r : Except SM (Option Nat × State × Nat × Nat) :=
          if Bt.ltMax iters maxIters then
            let savedPos := s.pos
            match tryMatchState prog inp look d { s with ip := loopIp + 1 } fwd steps peak with
            | .cont s' steps peak =>
              .ok (some s'.pos, { s' with ip := loopIp, pos := savedPos }, steps, peak)
            | .fail s' steps peak =>
              .ok (none, { s' with ip := loopIp, pos := savedPos }, steps, peak)
            | .outOfFuel => .error .outOfFuel
            | .err e => .error (.err e)
            | .split _ _ _ _ | .complete _ _ _ =>
              .error (.err "try_match_state: unreachable!(Loop1CharBody body must match exactly one character)")
          else .ok (none, s, steps, peak)
        match r with
        | .error sm => sm
        | .ok (takenPos, s, steps, peak) =>
          match takenPos, decide (iters ≥ minIters) with
          | none, false => .fail s steps peak
          | none, true => .cont { s with ip := continuation, loop1Iters := 0 } steps peak
          | some tp, false => .cont { s with pos := tp, loop1Iters := iters + 1 } steps peak
          | some tp, true =>
            if greedy then
              -- Prefer iterating. The clone keeps ip == loop_ip.
              .split { s with ip := continuation, loop1Iters := 0 }
                { s with pos := tp, loop1Iters := iters + 1 } steps peak
            else
              -- Prefer exiting.
              .split { s with pos := tp, loop1Iters := iters + 1 }
                { s with ip := continuation, loop1Iters := 0 } steps peak
      | .bracket idx =>
        -- `re.brackets[idx]` (checked) is only evaluated when there is a next element
        nextElemArm inp fwd s
          (fun c => match prog.brackets[idx]? with
            | some bc => .ok (bracketTest bc c)
            | none => .error "try_match_state: re.brackets[idx] out of range")
          "try_match_state: Bracket input read out of range" steps peak
      | .asciiBracket bm =>
        scmArm ((Scm.byteSet bm).matches inp fwd s.pos) s
          "try_match_state: AsciiBracket input read out of range" steps peak
      | .byteSet bs =>
        scmArm ((Scm.byteArraySet bs).matches inp fwd s.pos) s
          "try_match_state: ByteSet input read out of range" steps peak
      | .wordBoundary invert => wordBoundaryArm inp isWordChar invert s steps peak
      | .wordBoundaryUnicodeICase invert => wordBoundaryArm inp isWordCharUnicodeIcase invert s steps peak

/-- The `while !self.states.is_empty()` loop of `MatchAttempter::try_at_pos`.
`limit` = tick budget; the first `Nat` is the structural fuel (`≥ limit - steps + 1` suffices: one
more than the remaining budget, because the final, failing evaluation of the loop condition is an
iteration of this function but not a tick). -/
def runStates (prog : Prog) (inp : Input) (limit : Nat) :
    Nat → Array State → (fwd : Bool) → (steps peak : Nat) → Outcome
  | 0, _, _, _, _ => .outOfFuel
  | sf + 1, states, fwd, steps, peak =>
    match states.back? with
    | none => .failed steps peak          -- loop condition false: `false`
    | some s =>
      -- if !crate::verif::fuel::tick(self.states.len()) { self.states.clear(); return false; }
      if steps ≥ limit then .outOfFuel else
      let steps := steps + 1
      let peak := if peak < states.size then states.size else peak
      let look : Runner := fun s0 dirFwd steps peak =>
        -- MatchAttempter::new(re).try_at_pos(*input, s, Dir): self.states.push(init_state.clone())
        runStates prog inp limit sf #[s0] dirFwd steps peak
      -- `s = self.states.last_mut()` is mutated in place: take it off the stack and put it back
      let rest := states.pop
      match tryMatchState prog inp look (prog.insns.size + 1) s fwd steps peak with
      | .err e => .error e
      | .outOfFuel => .outOfFuel
      | .fail _ steps peak => runStates prog inp limit sf rest fwd steps peak
      | .cont s steps peak => runStates prog inp limit sf (rest.push s) fwd steps peak
      | .complete s steps peak => .matched s.pos s steps peak
      | .split s new steps peak => runStates prog inp limit sf ((rest.push s).push new) fwd steps peak

/-- `MatchAttempter::new(re).try_at_pos(input, &mut init_state, dir)` with a tick budget of `fuel`:
`matched` carries the new value of `*init_state`; on failure `*init_state` is unchanged. -/
def tryAtPos (prog : Prog) (inp : Input) (fuel : Nat) (init : State) (fwd : Bool) : Outcome :=
  runStates prog inp fuel (fuel + 1) #[init] fwd 0 0

/-- The initial state built by `next_match` / `verif_attempt`; `entry` is the argument of
`LoopData::new` (`next_match`: the position it was called with). -/
def initState (prog : Prog) (pos entry : Nat) : State :=
  { pos := pos, ip := 0, loop1Iters := 0,
    loops := Array.replicate prog.loops { iters := 0, entry := entry },
    groups := Array.replicate prog.groups { start := none, end_ := none } }

/-- One attempt at `pos` as `PikeVMExecutor::next_match` performs it when it was entered at `entry`. -/
def attemptAt (prog : Prog) (inp : Input) (fuel : Nat) (pos entry : Nat) : Outcome :=
  tryAtPos prog inp fuel (initState prog pos entry) true

/-- One attempt at `pos` (= `pikevm::verif_attempt`). -/
def attempt (prog : Prog) (inp : Input) (fuel : Nat) (pos : Nat) : Outcome :=
  attemptAt prog inp fuel pos pos

/-- The capture ranges of a state. -/
def capsOf (st : State) : Api.Caps := st.groups.toList.map GroupData.asRange

end Regress.VM.Pk
