import RegressModel.IR.StartPred
import RegressModel.Unicode.Fold
import RegressModel.Gen.Consts
import RegressModel.VM.Insn
/-!
# The bytecode emitter (`src/emit.rs`), with `src/literal.rs`

Two formulations of `Emitter::emit_node` are given:

* `emitNode` — structurally recursive in the node. It emits the same instructions in the same
  order and performs the same fix-ups as the Rust work-stack loop: every work item the Rust code
  pushes *below* a `Node(child)` item (`NodeLoopFinish`, `NodeAltMiddle`, `NodeAltFinish`,
  `NodeLookaroundAssertionFinish`, `EndCaptureGroup`) runs exactly when everything stacked above it
  (the child's own items) has been popped, i.e. right after the recursive call returns.
* `runStack` — the literal work-stack loop (`enum Emitter { Node, NodeLoopFinish, … }`,
  `while let Some(inst) = stack.pop()`), with a fuel argument.

`emit` uses `emitNode`; `emitViaStack` uses `runStack`; the two are compared on the whole test
corpus (and both with the real emitter).

The crate is built without the `utf16` feature. `debug_assert!`s are not modelled (release build);
where a `debug_assert!` guards an arithmetic operation the release-build (wrapping) result is used.
`usize` is 64 bits.
-/
namespace Regress.VM

open Regress.IR (Node Quant Regex)
open Regress.Gen

/-! ## `literal.rs` -/

/-- `literal::Piece`. -/
inductive Piece where
  | char (c : Nat)
  | byteSequence (bytes : List Nat)
  | byteSet (bytes : List Nat)
  | charSet (chars : List Nat)
deriving Repr, DecidableEq, Inhabited

/-- `impl From<Piece> for Node`. -/
def Piece.toNode : Piece → Node
  | .char c => .char c
  | .byteSequence bytes => .byteSeq bytes
  | .byteSet bytes => .byteSet bytes
  | .charSet chars => .charSet chars

/-- Panic sites of the emitter, and the model's out-of-fuel result. -/
inductive EmitErr where
  /-- `panic!("Char should always unfold to at least itself")` -/
  | unfoldEmpty
  /-- `panic!("Unicode case fold exceeded maximum expansion")` -/
  | unfoldTooLong
  /-- `panic!("Byte set is too long")` -/
  | byteSetTooLong
  /-- `panic!("Unexpected chunk size")` -/
  | unexpectedChunkSize
  /-- `arr[..chars.len()]` with more than `MAX_CHAR_SET_LENGTH` chars (slice range panic) -/
  | charSetTooLong
  /-- `panic!("Should be an EnterLoop instruction")` -/
  | shouldBeEnterLoop
  /-- `panic!("Should be a Lookaround instruction")` -/
  | shouldBeLookaround
  /-- `panic!("Should be an Alt instruction")` / `unreachable!("Instruction should be Alt")` -/
  | shouldBeAlt
  /-- `panic!("Should be a Jump instruction")` / `unreachable!("Instruction should be Jump")` -/
  | shouldBeJump
  /-- `self.result.insns[idx]` out of bounds in `get_insn` -/
  | insnIndex
  /-- a panic in `startpredicate::predicate_for_re` -/
  | startPred (e : IR.SPErr)
  /-- model only: the fuel of `runStack` ran out -/
  | fuel
deriving Repr, DecidableEq, Inhabited

def EmitErr.site : EmitErr → String
  | .unfoldEmpty => "panic lower_code_point_sequence:unfold-empty"
  | .unfoldTooLong => "panic lower_code_point_sequence:unfold-too-long"
  | .byteSetTooLong => "panic emit_byte_set_insn:too-long"
  | .unexpectedChunkSize => "panic emit_byte_sequence_insn:chunk-size"
  | .charSetTooLong => "panic emit_node:charset-too-long"
  | .shouldBeEnterLoop => "panic emit_node:should-be-enterloop"
  | .shouldBeLookaround => "panic emit_node:should-be-lookaround"
  | .shouldBeAlt => "panic emit:should-be-alt"
  | .shouldBeJump => "panic emit:should-be-jump"
  | .insnIndex => "panic get_insn:index"
  | .startPred e => "panic " ++ e.site
  | .fuel => "fuel"

/-- The `for &cp in cps` loop of `lower_code_point_sequence` (state: `pieces`). -/
def lowerLoop (icase unicode : Bool) : List Nat → List Piece → Except EmitErr (List Piece)
  | [], pieces => .ok pieces
  | cp :: cps, pieces =>
    let chars := Fold.expandCodePoint cp icase unicode
    match chars with
    | [] => .error .unfoldEmpty
    | [c0] =>
      if Utf8.isScalar c0 then
        let bytes := Utf8.encode c0
        -- if let Some(Piece::ByteSequence(prev)) = pieces.last_mut() { prev.extend(bytes); continue }
        match pieces.getLast? with
        | some (.byteSequence prev) =>
          lowerLoop icase unicode cps (pieces.dropLast ++ [.byteSequence (prev ++ bytes)])
        | _ => lowerLoop icase unicode cps (pieces ++ [.byteSequence bytes])
      else lowerLoop icase unicode cps (pieces ++ [.char c0])
    | _ =>
      if chars.length ≤ MAX_CHAR_SET_LENGTH then
        let piece := if chars.all (fun c => c ≤ 0x7F) then Piece.byteSet chars else Piece.charSet chars
        lowerLoop icase unicode cps (pieces ++ [piece])
      else .error .unfoldTooLong

/-- `literal::lower_code_point_sequence`. -/
def lowerCodePointSequence (cps : List Nat) (icase unicode : Bool) : Except EmitErr (List Piece) :=
  lowerLoop icase unicode cps []

/-! ## `bracket_as_ascii` -/

/-- `bytesearch::AsciiBitmap` as a 128-bit number. -/
structure AsciiBitmap where
  bits : Nat
deriving Repr, DecidableEq, Inhabited

/-- `AsciiBitmap::set`. -/
def AsciiBitmap.set (bm : AsciiBitmap) (val : Nat) : AsciiBitmap := ⟨bm.bits ||| (1 <<< val)⟩
/-- `AsciiBitmap::contains` (false for non-ASCII bytes). -/
def AsciiBitmap.contains (bm : AsciiBitmap) (val : Nat) : Bool := val < 128 && bm.bits.testBit val
/-- The bytes `b in 0..=255` with `bm.contains(b)` (what the dump prints). -/
def AsciiBitmap.toList (bm : AsciiBitmap) : List Nat := (List.range 256).filter bm.contains

/-- The `for r in bc.cps.intervals()` loop of `bracket_as_ascii`. -/
def bracketAsAsciiLoop : List (Nat × Nat) → AsciiBitmap → Option AsciiBitmap
  | [], result => some result
  | r :: rest, result =>
    if r.2 ≥ 128 then none
    else bracketAsAsciiLoop rest ((List.range' r.1 (r.2 + 1 - r.1)).foldl AsciiBitmap.set result)

/-- `bracket_as_ascii`. -/
def bracketAsAscii (bc : IR.Bracket) : Option AsciiBitmap :=
  if bc.invert then none else bracketAsAsciiLoop bc.ivs ⟨0⟩

/-! ## The emitter state -/

/-- `usize::MAX`. -/
def USIZE_MAX : Nat := 18446744073709551615

/-- `struct Emitter` (with the fields of `result: CompiledRegex` that `emit_node` touches). -/
structure EmitState where
  insns : Array Insn := #[]
  brackets : Array Bracket := #[]
  loops : Nat := 0
  groups : Nat := 0
  /-- `result.flags.unicode` -/
  unicode : Bool
  nextLoopId : Nat := 0
  /-- group names by group index, `[]` for unnamed groups -/
  groupNames : Array (List Nat) := #[]
  inLookbehind : Bool := false
deriving Repr, Inhabited

abbrev EmitM := EmitState → Except EmitErr EmitState

/-- `emit_insn`. -/
def emitInsn (insn : Insn) (s : EmitState) : EmitState := { s with insns := s.insns.push insn }

/-- `next_offset`. -/
def nextOffset (s : EmitState) : Nat := s.insns.size

/-- `emit_insn_offset`: the new state and the offset of the instruction. -/
def emitInsnOffset (insn : Insn) (s : EmitState) : EmitState × Nat := (emitInsn insn s, nextOffset s)

/-- `match self.get_insn(idx) { <pattern> => <assignment>, _ => panic!(…) }`. -/
def fixInsn (idx : Nat) (upd : Insn → Option Insn) (err : EmitErr) (s : EmitState) :
    Except EmitErr EmitState :=
  match s.insns[idx]? with
  | none => .error .insnIndex
  | some insn =>
    match upd insn with
    | none => .error err
    | some insn' => .ok { s with insns := s.insns.set! idx insn' }

def setLoopExit (exit : Nat) : Insn → Option Insn
  | .enterLoop id mn mx g _ => some (.enterLoop id mn mx g exit)
  | _ => none

def setContinuation (next : Nat) : Insn → Option Insn
  | .lookbehind n sg eg _ => some (.lookbehind n sg eg next)
  | .lookahead n sg eg _ => some (.lookahead n sg eg next)
  | _ => none

def setAltSecondary (sec : Nat) : Insn → Option Insn
  | .alt _ => some (.alt sec)
  | _ => none

def setJumpTarget (target : Nat) : Insn → Option Insn
  | .jump _ => some (.jump target)
  | _ => none

/-- `quant.max.unwrap_or(usize::MAX)` in the representation of `Insn` (`none` = `usize::MAX`). -/
def maxIters (q : Quant) : Option Nat :=
  match q.max with
  | none => none
  | some v => if v == USIZE_MAX then none else some v

/-! ## Leaf instructions -/

/-- `emit_byte_set_insn`. -/
def emitByteSetInsn (bytes : List Nat) : EmitM := fun s =>
  match bytes.length with
  | 0 => .ok (emitInsn .justFail s)
  | 1 => .ok (emitInsn (.byteSeq bytes) s)
  | 2 => .ok (emitInsn (.byteSet bytes) s)
  | 3 => .ok (emitInsn (.byteSet bytes) s)
  | 4 => .ok (emitInsn (.byteSet bytes) s)
  | _ => .error .byteSetTooLong

/-- `emit_byte_sequence_insn`. -/
def emitByteSequenceInsn (seq : List Nat) : EmitM := fun s =>
  if 1 ≤ seq.length && seq.length ≤ MAX_BYTE_SEQ_LENGTH then .ok (emitInsn (.byteSeq seq) s)
  else .error .unexpectedChunkSize

def chunksFuel (size : Nat) : Nat → List Nat → List (List Nat)
  | 0, _ => []
  | fuel + 1, l => if l.isEmpty then [] else l.take size :: chunksFuel size fuel (l.drop size)

/-- `slice::chunks(size)` (`size > 0`). -/
def chunks (size : Nat) (l : List Nat) : List (List Nat) := chunksFuel size l.length l

def emitAll {α : Type} (f : α → EmitM) : List α → EmitM
  | [], s => .ok s
  | a :: as, s =>
    match f a s with
    | .error e => .error e
    | .ok s => emitAll f as s

/-- The `Node::ByteSequence` arm of `emit_node`. -/
def emitByteSequence (bytes : List Nat) : EmitM := fun s =>
  let cs := chunks MAX_BYTE_SEQ_LENGTH bytes
  if s.inLookbehind then emitAll emitByteSequenceInsn cs.reverse s
  else emitAll emitByteSequenceInsn cs s

/-- The `Node::CharSet` arm of `emit_node`. -/
def emitCharSet (chars : List Nat) : EmitM := fun s =>
  match chars with
  | [] => .ok (emitInsn .justFail s)
  | c0 :: _ =>
    -- let mut arr = [chars[0]; MAX_CHAR_SET_LENGTH]; arr[..chars.len()].copy_from_slice(chars)
    if chars.length > MAX_CHAR_SET_LENGTH then .error .charSetTooLong
    else .ok (emitInsn (.charSet (chars ++ List.replicate (MAX_CHAR_SET_LENGTH - chars.length) c0)) s)

/-- `self.emit_node(&Node::from(piece))`, for the four leaf kinds a `Piece` can be. -/
def emitPiece : Piece → EmitM
  | .char c => fun s => .ok (emitInsn (.char c) s)
  | .byteSequence bytes => emitByteSequence bytes
  | .byteSet bytes => emitByteSetInsn bytes
  | .charSet chars => emitCharSet chars

/-- `emit_code_point_sequence` (non-`utf16`); `ep` is `|piece| self.emit_node(&Node::from(piece))`. -/
def emitCodePointSequence (ep : Piece → EmitM) (cps : List Nat) (icase : Bool) : EmitM := fun s =>
  match lowerCodePointSequence cps icase s.unicode with
  | .error e => .error e
  | .ok pieces =>
    let pieces := if s.inLookbehind then pieces.reverse else pieces
    emitAll ep pieces s

/-- The `for cps in priors.iter()` loop of `emit_string_set` (state: `jump_fixups`). -/
def emitStringSetPriors (ep : Piece → EmitM) (icase : Bool) :
    List (List Nat) → List Nat → EmitState → Except EmitErr (EmitState × List Nat)
  | [], fixups, s => .ok (s, fixups)
  | cps :: rest, fixups, s =>
    let (s, altIdx) := emitInsnOffset (.alt 0) s
    match emitCodePointSequence ep cps icase s with
    | .error e => .error e
    | .ok s =>
      let (s, jumpIdx) := emitInsnOffset (.jump 0) s
      let fixups := fixups ++ [jumpIdx]
      let next := nextOffset s
      match fixInsn altIdx (setAltSecondary next) .shouldBeAlt s with
      | .error e => .error e
      | .ok s => emitStringSetPriors ep icase rest fixups s

/-- `emit_string_set`. -/
def emitStringSet (ep : Piece → EmitM) (alternatives : List (List Nat)) (icase : Bool) : EmitM :=
  fun s =>
  match alternatives.getLast? with
  | none => .ok (emitInsn .justFail s)
  | some last =>
    let priors := alternatives.dropLast
    match emitStringSetPriors ep icase priors [] s with
    | .error e => .error e
    | .ok (s, jumpFixups) =>
      match emitCodePointSequence ep last icase s with
      | .error e => .error e
      | .ok s =>
        let end_ := nextOffset s
        emitAll (fun jumpIdx => fixInsn jumpIdx (setJumpTarget end_) .shouldBeJump) jumpFixups s

/-- The `Node::Bracket` arm. -/
def emitBracket (contents : IR.Bracket) : EmitM := fun s =>
  match bracketAsAscii contents with
  | some ascii => .ok (emitInsn (.asciiBracket ascii.toList) s)
  | none =>
    let idx := s.brackets.size
    let s := { s with brackets := s.brackets.push { invert := contents.invert, ivs := contents.ivs } }
    .ok (emitInsn (.bracket idx) s)

/-- `make_anchor`. -/
def makeAnchor (sol multiline : Bool) : Insn :=
  if sol then .startOfLine multiline else .endOfLine multiline

/-- The `Node::BackRef` arm: `group - 1` on `u32` (wrapping in a release build when `group == 0`,
which the `debug_assert!` excludes). -/
def backRefInsn (group : Nat) (icase : Bool) : Insn :=
  .backRef (if group == 0 then 4294967295 else group - 1) icase

/-- The first half of the `Node::Loop` arm: `EnterLoop`, `loops += 1`, the `ResetCaptureGroup`s.
Returns the offset of the `EnterLoop`. -/
def emitLoopEnter (quant : Quant) (g0 g1 : Nat) (s : EmitState) : EmitState × Nat :=
  let loopId := s.nextLoopId
  let s := { s with nextLoopId := (s.nextLoopId + 1) % 65536 }            -- LoopID = u16
  let (s, loopInsn) := emitInsnOffset (.enterLoop loopId quant.min (maxIters quant) quant.greedy 0) s
  let s := { s with loops := (s.loops + 1) % 4294967296 }                   -- u32
  let s := (List.range' g0 (g1 - g0)).foldl (fun s gid => emitInsn (.resetCaptureGroup gid) s) s
  (s, loopInsn)

/-- `Emitter::NodeLoopFinish`. -/
def emitLoopFinish (loopInsn : Nat) : EmitM := fun s =>
  let s := emitInsn (.loopAgain loopInsn) s
  let exit := nextOffset s
  fixInsn loopInsn (setLoopExit exit) .shouldBeEnterLoop s

/-- The first half of the `Node::CaptureGroup` arm. -/
def emitGroupBegin (id : Nat) (name : Option (List Nat)) (s : EmitState) : EmitState :=
  let s := { s with groups := (s.groups + 1) % 4294967296 }
  let idx := id
  -- if self.group_names.len() <= idx { self.group_names.resize(idx + 1, "".into()) }
  let names := if s.groupNames.size ≤ idx
    then s.groupNames ++ Array.replicate (idx + 1 - s.groupNames.size) []
    else s.groupNames
  let names := names.set! idx (name.getD [])
  emitInsn (.beginCaptureGroup id) { s with groupNames := names }

/-- The first half of the `Node::LookaroundAssertion` arm. Returns the instruction offset and
`prev_in_lookbehind`. -/
def emitLookBegin (negate backwards : Bool) (sg eg : Nat) (s : EmitState) : EmitState × Nat × Bool :=
  let (s, lookaround) :=
    if backwards then emitInsnOffset (.lookbehind negate sg eg 0) s
    else emitInsnOffset (.lookahead negate sg eg 0) s
  let prev := s.inLookbehind
  ({ s with inLookbehind := backwards }, lookaround, prev)

/-- `Emitter::NodeLookaroundAssertionFinish`. -/
def emitLookFinish (lookaround : Nat) (prev : Bool) : EmitM := fun s =>
  let s := emitInsn .goal s
  let nextInsn := nextOffset s
  match fixInsn lookaround (setContinuation nextInsn) .shouldBeLookaround s with
  | .error e => .error e
  | .ok s => .ok { s with inLookbehind := prev }

/-- `Emitter::NodeAltFinish`. -/
def emitAltFinish (altIdx jumpIdx rightBranch : Nat) : EmitM := fun s =>
  let exit := nextOffset s
  match fixInsn altIdx (setAltSecondary rightBranch) .shouldBeAlt s with
  | .error e => .error e
  | .ok s => fixInsn jumpIdx (setJumpTarget exit) .shouldBeJump s

/-! ## `emit_node`, structurally recursive -/

mutual
/-- `Emitter::emit_node`. -/
def emitNode : Node → EmitM
  | .empty, s => .ok s
  | .goal, s => .ok (emitInsn .goal s)
  | .char c, s => .ok (emitInsn (.char c) s)
  | .cat children, s => emitNodes children s
  | .alt left right, s =>
    let (s, altInsn) := emitInsnOffset (.alt 0) s
    match emitNode left s with
    | .error e => .error e
    | .ok s =>
      -- NodeAltMiddle
      let (s, jumpInsn) := emitInsnOffset (.jump 0) s
      let rightBranch := nextOffset s
      match emitNode right s with
      | .error e => .error e
      | .ok s => emitAltFinish altInsn jumpInsn rightBranch s
  | .bracket contents, s => emitBracket contents s
  | .stringSet alternatives icase, s => emitStringSet emitPiece alternatives icase s
  | .matchAny, s => .ok (emitInsn .matchAny s)
  | .matchAnyExceptLT, s => .ok (emitInsn .matchAnyExceptLineTerminator s)
  | .anchor sol multiline, s => .ok (emitInsn (makeAnchor sol multiline) s)
  | .loop loopee quant g0 g1, s =>
    let (s, loopInsn) := emitLoopEnter quant g0 g1 s
    match emitNode loopee s with
    | .error e => .error e
    | .ok s => emitLoopFinish loopInsn s
  | .loop1 loopee quant, s =>
    let s := emitInsn (.loop1 quant.min (maxIters quant) quant.greedy) s
    emitNode loopee s
  | .group id name contents, s =>
    let s := emitGroupBegin id name s
    match emitNode contents s with
    | .error e => .error e
    | .ok s => .ok (emitInsn (.endCaptureGroup id) s)
  | .look negate backwards sg eg contents, s =>
    let (s, lookaround, prev) := emitLookBegin negate backwards sg eg s
    match emitNode contents s with
    | .error e => .error e
    | .ok s => emitLookFinish lookaround prev s
  | .wordBoundary invert unicodeIcase, s =>
    if unicodeIcase then .ok (emitInsn (.wordBoundaryUnicodeICase invert) s)
    else .ok (emitInsn (.wordBoundary invert) s)
  | .backRef group icase, s => .ok (emitInsn (backRefInsn group icase) s)
  | .byteSet bytes, s => emitByteSetInsn bytes s
  | .charSet chars, s => emitCharSet chars s
  | .byteSeq bytes, s => emitByteSequence bytes s
/-- `for nn in children.iter().rev() { stack.push(Node(nn)) }`: the children, in order. -/
def emitNodes : List Node → EmitM
  | [], s => .ok s
  | n :: ns, s =>
    match emitNode n s with
    | .error e => .error e
    | .ok s => emitNodes ns s
end

/-- `emit_node(&Node::from(piece))` is `emitPiece piece`. -/
theorem emitNode_pieceToNode (p : Piece) (s : EmitState) : emitNode p.toNode s = emitPiece p s := by
  cases p <;> simp [Piece.toNode, emitNode, emitPiece]

/-! ## `emit_node`, the work stack -/

/-- The local `enum Emitter` of `emit_node`. -/
inductive Work where
  | node (n : Node)
  | nodeLoopFinish (loopInstructionIndex : Nat)
  | nodeLookaroundAssertionFinish (lookaroundInstructionIndex : Nat) (prevInLookbehind : Bool)
  | nodeAltMiddle (altInstructionIndex : Nat) (rightNode : Node)
  | nodeAltFinish (altInstructionIndex jumpInstructionIndex rightBranchIndex : Nat)
  | endCaptureGroup (group : Nat)
deriving Inhabited

/-- `while let Some(inst) = stack.pop() { … }`; the head of the list is the top of the stack.
The nested `self.emit_node(…)` calls of `emit_code_point_sequence` start a fresh stack. -/
def runStack : Nat → List Work → EmitM
  | 0, _, _ => .error .fuel
  | _ + 1, [], s => .ok s
  | fuel + 1, inst :: stack, s =>
    match inst with
    | .nodeLoopFinish idx =>
      match emitLoopFinish idx s with
      | .error e => .error e
      | .ok s => runStack fuel stack s
    | .nodeLookaroundAssertionFinish idx prev =>
      match emitLookFinish idx prev s with
      | .error e => .error e
      | .ok s => runStack fuel stack s
    | .nodeAltMiddle altIdx rightNode =>
      let (s, jumpInsn) := emitInsnOffset (.jump 0) s
      let rightBranch := nextOffset s
      runStack fuel (.node rightNode :: .nodeAltFinish altIdx jumpInsn rightBranch :: stack) s
    | .nodeAltFinish altIdx jumpIdx rightBranch =>
      match emitAltFinish altIdx jumpIdx rightBranch s with
      | .error e => .error e
      | .ok s => runStack fuel stack s
    | .endCaptureGroup group => runStack fuel stack (emitInsn (.endCaptureGroup group) s)
    | .node node =>
      match node with
      | .empty => runStack fuel stack s
      | .goal => runStack fuel stack (emitInsn .goal s)
      | .char c => runStack fuel stack (emitInsn (.char c) s)
      | .cat children => runStack fuel (children.map Work.node ++ stack) s
      | .alt left right =>
        let (s, altInsn) := emitInsnOffset (.alt 0) s
        runStack fuel (.node left :: .nodeAltMiddle altInsn right :: stack) s
      | .bracket contents =>
        match emitBracket contents s with
        | .error e => .error e
        | .ok s => runStack fuel stack s
      | .stringSet alternatives icase =>
        match emitStringSet (fun piece s => runStack fuel [.node piece.toNode] s) alternatives icase s with
        | .error e => .error e
        | .ok s => runStack fuel stack s
      | .matchAny => runStack fuel stack (emitInsn .matchAny s)
      | .matchAnyExceptLT => runStack fuel stack (emitInsn .matchAnyExceptLineTerminator s)
      | .anchor sol multiline => runStack fuel stack (emitInsn (makeAnchor sol multiline) s)
      | .loop loopee quant g0 g1 =>
        let (s, loopInsn) := emitLoopEnter quant g0 g1 s
        runStack fuel (.node loopee :: .nodeLoopFinish loopInsn :: stack) s
      | .loop1 loopee quant =>
        let s := emitInsn (.loop1 quant.min (maxIters quant) quant.greedy) s
        runStack fuel (.node loopee :: stack) s
      | .group id name contents =>
        let s := emitGroupBegin id name s
        runStack fuel (.node contents :: .endCaptureGroup id :: stack) s
      | .look negate backwards sg eg contents =>
        let (s, lookaround, prev) := emitLookBegin negate backwards sg eg s
        runStack fuel (.node contents :: .nodeLookaroundAssertionFinish lookaround prev :: stack) s
      | .wordBoundary invert unicodeIcase =>
        if unicodeIcase then runStack fuel stack (emitInsn (.wordBoundaryUnicodeICase invert) s)
        else runStack fuel stack (emitInsn (.wordBoundary invert) s)
      | .backRef group icase => runStack fuel stack (emitInsn (backRefInsn group icase) s)
      | .byteSet bytes =>
        match emitByteSetInsn bytes s with
        | .error e => .error e
        | .ok s => runStack fuel stack s
      | .charSet chars =>
        match emitCharSet chars s with
        | .error e => .error e
        | .ok s => runStack fuel stack s
      | .byteSeq bytes =>
        match emitByteSequence bytes s with
        | .error e => .error e
        | .ok s => runStack fuel stack s

/-! ## `emit` -/

def toVMFlags (f : IR.Flags) : Flags :=
  { icase := f.icase, multiline := f.multiline, dotAll := f.dotAll, unicode := f.unicode,
    unicodeSets := f.unicodeSets, noOpt := f.noOpt }

/-- The common part of `emit`: `en` is `|node| emitter.emit_node(node)`. -/
def emitWith (en : Node → EmitM) (n : Regex) : Except EmitErr Prog :=
  match IR.predicateForRe n with
  | .error e => .error (.startPred e)
  | .ok startPred =>
    match en n.node { unicode := n.flags.unicode } with
    | .error e => .error e
    | .ok s =>
      -- Populate group names, unless all are empty.
      let names := if s.groupNames.any (fun nm => !nm.isEmpty) then s.groupNames.toList else []
      .ok { insns := s.insns, brackets := s.brackets, loops := s.loops, groups := s.groups,
            flags := toVMFlags n.flags, names := names, startPred := startPred }

/-- `emit::emit`. -/
def emit (n : Regex) : Except EmitErr Prog := emitWith emitNode n

/-- `emit::emit`, running the literal work-stack loop with `fuel` steps. -/
def emitViaStack (fuel : Nat) (n : Regex) : Except EmitErr Prog :=
  emitWith (fun node s => runStack fuel [.node node] s) n

/-! ## The program dump (`verif::dump_compiled`) -/

open Regress.IR (hexDigits b01 ivsText hexList bitmapBytesText startPredText)

/-- `maxs`. -/
def maxsText : Option Nat → String
  | none => "inf"
  | some v => toString v

/-- `dump_insn`. -/
def insnText : Insn → String
  | .goal => "goal"
  | .justFail => "fail"
  | .char c => s!"char {hexDigits c}"
  | .charSet cs => "charset " ++ hexList cs
  | .byteSet bs => "byteset " ++ hexList bs
  | .byteSeq bs => "byteseq " ++ hexList bs
  | .asciiBracket bytes => "asciibracket " ++ bitmapBytesText bytes
  | .bracket idx => s!"bracket {idx}"
  | .matchAny => "any"
  | .matchAnyExceptLineTerminator => "anynl"
  | .startOfLine m => s!"sol {b01 m}"
  | .endOfLine m => s!"eol {b01 m}"
  | .wordBoundary i => s!"wb {b01 i}"
  | .wordBoundaryUnicodeICase i => s!"wbi {b01 i}"
  | .jump t => s!"jump {t}"
  | .alt t => s!"alt {t}"
  | .beginCaptureGroup g => s!"begin {g}"
  | .endCaptureGroup g => s!"end {g}"
  | .resetCaptureGroup g => s!"reset {g}"
  | .backRef g i => s!"backref {g} {b01 i}"
  | .lookahead n sg eg k => s!"lookahead {b01 n} {sg} {eg} {k}"
  | .lookbehind n sg eg k => s!"lookbehind {b01 n} {sg} {eg} {k}"
  | .enterLoop id mn mx g ex => s!"enterloop {id} {mn} {maxsText mx} {b01 g} {ex}"
  | .loopAgain b => s!"loopagain {b}"
  | .loop1 mn mx g => s!"loop1 {mn} {maxsText mx} {b01 g}"

def flagsText (f : Flags) : String :=
  (if f.icase then "i" else "") ++ (if f.multiline then "m" else "") ++
  (if f.dotAll then "s" else "") ++ (if f.unicode then "u" else "") ++
  (if f.unicodeSets then "v" else "") ++ (if f.noOpt then "O" else "") ++ "-"

def nameText (name : List Nat) : String :=
  if name.isEmpty then "-" else ".".intercalate (name.map hexDigits)

def namesText (names : List (List Nat)) : String :=
  if names.isEmpty then "-" else ",".intercalate (names.map nameText)

/-- The lines of `dump_compiled`. -/
def progLines (p : Prog) : List String :=
  [s!"P {p.loops} {p.groups} {flagsText p.flags} {namesText p.names}",
   "S " ++ startPredText p.startPred]
  ++ (p.brackets.toList.zipIdx.map fun (bc, idx) => s!"B {idx} {b01 bc.invert} {ivsText bc.ivs}")
  ++ (p.insns.toList.map fun i => "I " ++ insnText i)

/-- `dump_compiled` (lines joined by `\n`, no trailing newline). -/
def progToCanon (p : Prog) : String := "\n".intercalate (progLines p)

end Regress.VM
