import RegressModel.VM.Pike
/-!
# Searching with the two executors

* `findBytesPred` = `Input::find_bytes(pos, prefix_search)` for the prefix searcher selected by
  `BacktrackExecutor::next_match` from `re.start_pred`.
* `searchEnvBt` / `searchEnvPk` instantiate the iteration protocol of `Api.Iter` with the
  interpreters (every attempt on a *fresh* matcher).
* `findIterStats` / `findIter` = `backends::find::<Executor>(re, text, start)` drained, modelling in
  addition what the pure `SearchEnv` cannot express: the `BacktrackExecutor` keeps *one*
  `MatchAttempter` for the whole search (its `State` is threaded through all attempts,
  `successful_match` clears the groups only); `PikeVMExecutor::next_match` builds its initial state
  once per call (`LoopData::new(pos)` with the position it was called with); errors and fuel
  exhaustion of any attempt are surfaced; the `verif::fuel` counters are accumulated.
* `runProgLine` is the hook used by the differential-testing driver.
-/
namespace Regress.VM

open Regress.Api (MatchR Caps SearchEnv Kind)

/-- Which executor. -/
inductive Exec where
  | bt
  | pk
deriving Repr, DecidableEq, Inhabited

/-! ## Prefix search -/

/-- First index `i ≥ pos` (`i < bytes.size`) with `p bytes[i]`; `fuel ≥ bytes.size - pos`. -/
def findFirst (bytes : Array Nat) (p : Nat → Bool) : Nat → Nat → Option Nat
  | 0, _ => none
  | fuel + 1, i =>
    match bytes[i]? with
    | none => none
    | some b => if p b then some i else findFirst bytes p fuel (i + 1)

/-- First index `i ≥ pos` at which `needle` occurs (`memmem`); `fuel ≥ bytes.size - pos + 1`. -/
def findSeq (bytes : Array Nat) (needle : List Nat) : Nat → Nat → Option Nat
  | 0, _ => none
  | fuel + 1, i =>
    if i + needle.length > bytes.size then none
    else if Utf8.slice bytes i (i + needle.length) == needle then some i
    else findSeq bytes needle fuel (i + 1)

/-- `inp.find_bytes(pos, prefix_search)` where `prefix_search` is the searcher that
`BacktrackExecutor::next_match` derives from the start predicate: `EmptyString` for `Arbitrary`
(`Some(pos)`), `memchr`/`memchr2`/`memchr3`/`ByteBitmap::find_in` for the byte sets, `memmem` for
`ByteSeq`. (`StartAnchored` does not search; `some pos`.) Requires `pos ≤ bytes.size`. -/
def findBytesPred (sp : StartPred) (bytes : Array Nat) (pos : Nat) : Option Nat :=
  match sp with
  | .arbitrary => some pos
  | .anchored => some pos
  | .set bs => findFirst bytes (fun b => bs.contains b) (bytes.size - pos) pos
  | .seq needle => findSeq bytes needle (bytes.size - pos + 1) pos

/-! ## The pure `SearchEnv` instances (fresh matcher per attempt) -/

def nextRightPosOpt (inp : Input) (p : Nat) : Option Nat :=
  match inp.nextRightPos p with
  | .ok r => r
  | .error _ => none

/-- `SearchEnv` of the backtracking executor; `attempt` = `classicalbacktrack::verif_attempt`
(errors and fuel exhaustion collapse to `none`: use `findIter` to see them). -/
def searchEnvBt (prog : Prog) (inp : Input) (fuel : Nat) : SearchEnv :=
  { len := inp.len
    attempt := fun pos =>
      match Bt.attempt prog inp fuel pos with
      | .matched e st _ _ => some (e, Bt.capsOf st)
      | _ => none
    nextRightPos := nextRightPosOpt inp
    findBytes := findBytesPred prog.startPred inp.bytes
    names := prog.names }

/-- `SearchEnv` of the PikeVM executor; `attempt` = `pikevm::verif_attempt`. The PikeVM never calls
`find_bytes`. -/
def searchEnvPk (prog : Prog) (inp : Input) (fuel : Nat) : SearchEnv :=
  { len := inp.len
    attempt := fun pos =>
      match Pk.attempt prog inp fuel pos with
      | .matched e st _ _ => some (e, Pk.capsOf st)
      | _ => none
    nextRightPos := nextRightPosOpt inp
    findBytes := some
    names := prog.names }

def isAnchored (prog : Prog) : Bool :=
  match prog.startPred with
  | .anchored => true
  | _ => false

/-- Which `next_match` runs. -/
def kindOf (prog : Prog) (exec : Exec) : Kind :=
  match exec with
  | .bt => if isAnchored prog then .btAnchored else .btPrefix
  | .pk => .pike (isAnchored prog)

/-! ## The stateful search -/

/-- Mutable data of a running search: the matcher state of the `BacktrackExecutor` (unused by the
PikeVM, whose matcher holds no state between attempts) and the `verif::fuel` counters. -/
structure Acc where
  st : Bt.State
  steps : Nat
  peak : Nat

/-- Result of one `next_match`: `none` = `None` (`*next_start` untouched), or the match and the value
written to `*next_start`. -/
abbrev NextRes := Except String (Option (MatchR × Option Nat) × Acc)

def mkMatch (prog : Prog) (s e : Nat) (caps : Caps) : MatchR :=
  { range := (s, e), captures := caps, names := prog.names }

/-- `if end != pos { Some(end) } else { inp.next_right_pos(end) }`. -/
def nextStart (inp : Input) (pos e : Nat) : Except String (Option Nat) :=
  if e != pos then .ok (some e)
  else match inp.nextRightPos e with
    | .ok r => .ok r
    | .error _ => .error "next_match: next_right_pos(end) read out of range"

/-- One `self.matcher.try_at_pos(inp, 0, pos, Forward::new())` of the `BacktrackExecutor`, on the
persistent matcher state, with the global counters. `limit` = total tick budget. -/
def btAttempt (prog : Prog) (inp : Input) (limit : Nat) (pos : Nat) (acc : Acc) : Bt.Outcome :=
  Bt.run prog inp limit (limit - acc.steps) 0 pos true acc.st #[.exhausted] acc.steps acc.peak

/-- The success path shared by `next_match_anchored` and `next_match_with_prefix_search`. -/
def btSuccess (prog : Prog) (inp : Input) (pos e : Nat) (st : Bt.State) (steps peak : Nat) : NextRes :=
  match nextStart inp pos e with
  | .error err => .error err
  | .ok ns =>
    -- successful_match: map the groups to offsets and clear them
    .ok (some (mkMatch prog pos e (Bt.capsOf st), ns),
         { st := Bt.clearGroups st, steps := steps, peak := peak })

/-- `BacktrackExecutor::next_match_with_prefix_search`; the `loop` runs at most `len + 2` times. -/
def btNextMatchPrefix (prog : Prog) (inp : Input) (limit : Nat) : Nat → Nat → Acc → NextRes
  | 0, _, _ => .error "next_match_with_prefix_search: model fuel exhausted"
  | n + 1, pos, acc =>
    if pos > inp.len then .error "find_bytes: slice(pos, right_end) with pos > right_end" else
    match findBytesPred prog.startPred inp.bytes pos with
    | none => .ok (none, acc)
    | some pos =>
      match btAttempt prog inp limit pos acc with
      | .error e => .error e
      | .outOfFuel => .error "fuel"
      | .matched e st steps peak => btSuccess prog inp pos e st steps peak
      | .failed st steps peak =>
        let acc : Acc := { st := st, steps := steps, peak := peak }
        match inp.nextRightPos pos with
        | .error _ => .error "next_match_with_prefix_search: next_right_pos(pos) read out of range"
        | .ok none => .ok (none, acc)
        | .ok (some pos') => btNextMatchPrefix prog inp limit n pos' acc

/-- `BacktrackExecutor::next_match_anchored`. -/
def btNextMatchAnchored (prog : Prog) (inp : Input) (limit : Nat) (pos : Nat) (acc : Acc) : NextRes :=
  match btAttempt prog inp limit pos acc with
  | .error e => .error e
  | .outOfFuel => .error "fuel"
  | .matched e st steps peak => btSuccess prog inp pos e st steps peak
  | .failed st steps peak => .ok (none, { st := st, steps := steps, peak := peak })

/-- One `self.matcher.try_at_pos(self.input, &mut state, Forward::new())` of the PikeVM with the
global counters. -/
def pkAttempt (prog : Prog) (inp : Input) (limit : Nat) (init : Pk.State) (acc : Acc) : Pk.Outcome :=
  Pk.runStates prog inp limit (limit - acc.steps + 1) #[init] true acc.steps acc.peak

def pkSuccess (prog : Prog) (inp : Input) (start : Nat) (st : Pk.State) (acc : Acc)
    (steps peak : Nat) : NextRes :=
  match nextStart inp start st.pos with
  | .error err => .error err
  | .ok ns =>
    .ok (some (mkMatch prog start st.pos (Pk.capsOf st), ns), { acc with steps := steps, peak := peak })

/-- The `loop` of the standard branch of `PikeVMExecutor::next_match`: `state` is the state built on
entry (a failed `try_at_pos` leaves it unchanged), only `state.pos` is advanced. -/
def pkNextMatchStd (prog : Prog) (inp : Input) (limit : Nat) : Nat → Pk.State → Acc → NextRes
  | 0, _, _ => .error "PikeVMExecutor::next_match: model fuel exhausted"
  | n + 1, state, acc =>
    let start := state.pos
    match pkAttempt prog inp limit state acc with
    | .error e => .error e
    | .outOfFuel => .error "fuel"
    | .matched _ st steps peak => pkSuccess prog inp start st acc steps peak
    | .failed steps peak =>
      let acc := { acc with steps := steps, peak := peak }
      match inp.nextRightPos start with
      | .error _ => .error "PikeVMExecutor::next_match: next_right_pos(start) read out of range"
      | .ok none => .ok (none, acc)
      | .ok (some nextpos) => pkNextMatchStd prog inp limit n { state with pos := nextpos } acc

/-- `PikeVMExecutor::next_match`. -/
def pkNextMatch (prog : Prog) (inp : Input) (limit : Nat) (pos : Nat) (acc : Acc) : NextRes :=
  let state := Pk.initState prog pos pos
  if isAnchored prog then
    match pkAttempt prog inp limit state acc with
    | .error e => .error e
    | .outOfFuel => .error "fuel"
    | .matched _ st steps peak => pkSuccess prog inp pos st acc steps peak
    | .failed steps peak => .ok (none, { acc with steps := steps, peak := peak })
  else pkNextMatchStd prog inp limit (inp.len + 2) state acc

/-- `MatchProducer::next_match(pos, &mut next_start)`. -/
def nextMatchX (exec : Exec) (prog : Prog) (inp : Input) (limit : Nat) (pos : Nat) (acc : Acc) : NextRes :=
  match exec with
  | .bt =>
    if isAnchored prog then btNextMatchAnchored prog inp limit pos acc
    else btNextMatchPrefix prog inp limit (inp.len + 2) pos acc
  | .pk => pkNextMatch prog inp limit pos acc

/-- Draining `exec::Matches`: `let pos = self.position?; self.mp.next_match(pos, &mut self.position)`
until the first `None`; at most `len + 2` matches. -/
def drain (exec : Exec) (prog : Prog) (inp : Input) (limit : Nat) :
    Nat → Option Nat → Acc → List MatchR → Except String (List MatchR × Acc)
  | 0, _, _, _ => .error "Matches: model fuel exhausted"
  | n + 1, position, acc, out =>
    match position with
    | none => .ok (out.reverse, acc)
    | some pos =>
      match nextMatchX exec prog inp limit pos acc with
      | .error e => .error e
      | .ok (none, acc) => .ok (out.reverse, acc)
      | .ok (some (m, ns), acc) => drain exec prog inp limit n ns acc (m :: out)

/-- `backends::find::<Executor>(re, text, start)` drained, with the final `verif::fuel` counters
`(matches, steps, peak)`. `Executor::new` builds the matcher (`MatchAttempter::new(re, left_end)`),
`Matches::new` computes `initial_position(start) = try_move_right(left_end, start)`.
`fuel` is the tick budget of the whole search. Errors: `"fuel"` or the name of the failing site. -/
def findIterStats (exec : Exec) (prog : Prog) (inp : Input) (start : Nat) (fuel : Nat) :
    Except String (List MatchR × Nat × Nat) :=
  let acc : Acc := { st := Bt.freshState prog 0, steps := 0, peak := 0 }
  let position := inp.tryMoveRight 0 start
  match drain exec prog inp fuel (inp.len + 3) position acc [] with
  | .error e => .error e
  | .ok (ms, acc) => .ok (ms, acc.steps, acc.peak)

/-- `backends::find::<Executor>(re, text, start).collect()`. -/
def findIter (exec : Exec) (prog : Prog) (inp : Input) (start : Nat) (fuel : Nat) :
    Except String (List MatchR) :=
  match findIterStats exec prog inp start fuel with
  | .error e => .error e
  | .ok (ms, _, _) => .ok ms

/-! ## Driver hook -/

def hexPairs : List Char → Option (List Nat)
  | [] => some []
  | a :: b :: rest =>
    match Parse.hexDigit a, Parse.hexDigit b, hexPairs rest with
    | some x, some y, some l => some ((x * 16 + y) :: l)
    | _, _, _ => none
  | [_] => none

/-- The haystack: two lower-case hex digits per byte, `-` for the empty haystack. -/
def parseHayHex (s : String) : Option (Array Nat) :=
  if s == "-" then some #[]
  else if s.isEmpty then none
  else (hexPairs s.toList).map List.toArray

def fmtCap : Option (Nat × Nat) → String
  | none => "_"
  | some (a, b) => s!"{a}-{b}"

def fmtMatch (m : MatchR) : String :=
  s!"{m.range.1}-{m.range.2}[" ++ ";".intercalate (m.captures.map fmtCap) ++ "]"

/-- Run one differential-testing case and print the result as one line.
`exec` ∈ `bt`, `pk`; `kind` ∈ `utf8`, `ascii`; `progText` = one-line program dump; `hayHex` = haystack.
Output: `ok <steps> <peak> <matches…>` | `error <site>` | `fuel`. -/
def runProgLine (exec : String) (kind : String) (progText : String) (hayHex : String)
    (start : Nat) (fuel : Nat) : String :=
  let execO : Option Exec := if exec == "bt" then some .bt else if exec == "pk" then some .pk else none
  let kindO : Option InputKind :=
    if kind == "utf8" then some .utf8 else if kind == "ascii" then some .ascii else none
  match execO, kindO with
  | none, _ => "error bad executor name"
  | _, none => "error bad input kind"
  | some ex, some k =>
    match parseProg progText with
    | .error e => "error parse: " ++ e
    | .ok prog =>
      match parseHayHex hayHex with
      | none => "error bad haystack hex"
      | some bytes =>
        let inp : Input := { kind := k, bytes := bytes, unicode := prog.flags.unicode }
        match findIterStats ex prog inp start fuel with
        | .error e => if e == "fuel" then "fuel" else "error " ++ e
        | .ok (ms, steps, peak) =>
          " ".intercalate (["ok", toString steps, toString peak] ++ ms.map fmtMatch)

end Regress.VM
