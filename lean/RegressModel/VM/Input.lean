import RegressModel.Text.Utf8
import RegressModel.Unicode.Fold
import RegressModel.VM.Insn
/-!
# Input primitives used by the two interpreters

Model of the `InputIndexer` trait (`src/indexing.rs`) for `Utf8Input` and `AsciiInput`, of
`CharProperties` (`src/matchers.rs`), `cursor::{next, next_byte, try_match_lit}` (`src/cursor.rs`),
`matchers::{backref, backref_icase}` and the single-char matchers of `src/scm.rs`.

Positions are byte offsets into `bytes`. Elements are `Nat`: a scalar value for UTF-8 input, a byte
for ASCII input. Every function that performs an unchecked read in the default build returns
`Except Unit _`; `.error ()` is such a read out of bounds (or an `rs_unreachable!`).
The "moving" primitives return the new position next to the result instead of mutating `pos`.
-/
namespace Regress.VM

inductive InputKind where
  | utf8
  | ascii
deriving Repr, DecidableEq, Inhabited

/-- `Utf8Input { input, unicode }` / `AsciiInput { input, unicode }`. -/
structure Input where
  kind : InputKind
  bytes : Array Nat
  unicode : Bool
deriving Repr, Inhabited

namespace Input

/-- `right_end` as an offset. -/
def len (inp : Input) : Nat := inp.bytes.size

/-- `getb` (unchecked). -/
def getb (inp : Input) (pos : Nat) : Except Unit Nat :=
  match inp.bytes[pos]? with
  | some b => .ok b
  | none => .error ()

/-- `next_right`: the element starting at `pos` and the position after it; `none` at the right end. -/
def nextRight (inp : Input) (pos : Nat) : Except Unit (Option (Nat × Nat)) :=
  match inp.kind with
  | .utf8 => Utf8.nextRight inp.bytes pos
  | .ascii =>
    -- if *pos == self.right_end() { None } else { let c = self.getb(*pos); *pos += 1; Some(c) }
    if pos == inp.bytes.size then .ok none
    else match inp.bytes[pos]? with
      | none => .error ()
      | some c => .ok (some (c, pos + 1))

/-- `next_left`: the element ending at `pos` and the position before it; `none` at the left end. -/
def nextLeft (inp : Input) (pos : Nat) : Except Unit (Option (Nat × Nat)) :=
  match inp.kind with
  | .utf8 => Utf8.nextLeft inp.bytes pos
  | .ascii =>
    -- if *pos == self.left_end() { None } else { *pos -= 1; let c = self.getb(*pos); Some(c) }
    if pos == 0 then .ok none
    else match inp.bytes[pos - 1]? with
      | none => .error ()
      | some c => .ok (some (c, pos - 1))

/-- `try_move_right`. -/
def tryMoveRight (inp : Input) (pos amt : Nat) : Option Nat := Utf8.tryMoveRight inp.bytes pos amt

/-- `try_move_left`. -/
def tryMoveLeft (_inp : Input) (pos amt : Nat) : Option Nat := Utf8.tryMoveLeft pos amt

/-- `next_right_pos` (ASCII: `try_move_right(pos, 1)`). -/
def nextRightPos (inp : Input) (pos : Nat) : Except Unit (Option Nat) :=
  match inp.kind with
  | .utf8 => Utf8.nextRightPos inp.bytes pos
  | .ascii => .ok (inp.tryMoveRight pos 1)

/-- `next_left_pos` (ASCII: `try_move_left(pos, 1)`). -/
def nextLeftPos (inp : Input) (pos : Nat) : Except Unit (Option Nat) :=
  match inp.kind with
  | .utf8 => Utf8.nextLeftPos inp.bytes pos
  | .ascii => .ok (inp.tryMoveLeft pos 1)

/-- `peek_right`: `next_right` on a copy of the position. -/
def peekRight (inp : Input) (pos : Nat) : Except Unit (Option Nat) :=
  match inp.nextRight pos with
  | .error e => .error e
  | .ok none => .ok none
  | .ok (some (c, _)) => .ok (some c)

/-- `peek_left`: `next_left` on a copy of the position. -/
def peekLeft (inp : Input) (pos : Nat) : Except Unit (Option Nat) :=
  match inp.nextLeft pos with
  | .error e => .error e
  | .ok none => .ok none
  | .ok (some (c, _)) => .ok (some c)

/-- `peek_byte_right`: `None` at the right end, otherwise `getb(pos)` (unchecked). For both input
kinds (ASCII: `next_right` on a copy). -/
def peekByteRight (inp : Input) (pos : Nat) : Except Unit (Option Nat) :=
  if pos > inp.bytes.size then .error () else .ok (Utf8.peekByteRight inp.bytes pos)

/-- `peek_byte_left`: `None` at the left end, otherwise `getb(pos - 1)` (unchecked). -/
def peekByteLeft (inp : Input) (pos : Nat) : Except Unit (Option Nat) :=
  if pos > inp.bytes.size then .error () else .ok (Utf8.peekByteLeft inp.bytes pos)

/-- `match_bytes`: `none` = `false`; `some p` = `true` with `*pos = p`. -/
def matchBytes (inp : Input) (fwd : Bool) (pos : Nat) (lit : List Nat) : Option Nat :=
  Utf8.matchBytes inp.bytes fwd pos lit

/-- `subrange_eq(dir, pos, rs..re)`.
`let len = range.end - range.start` is a pointer subtraction (`offset_from(..) as usize`): if
`re < rs` it wraps to a huge `usize`, so that `try_move_right/left` returns `None` and the function
returns `false` (in a build with debug assertions the `Underflow` assertion fires instead). -/
def subrangeEq (inp : Input) (fwd : Bool) (pos rs re : Nat) : Option Nat :=
  if re < rs then none else Utf8.subrangeEq inp.bytes fwd pos rs re

/-- `CharProperties::fold(c, unicode)`.
UTF-8: `char::from_u32(fold_code_point(c, unicode)).unwrap_or(c)`;
ASCII: `to_ascii_lowercase` if `unicode` else `to_ascii_uppercase`. -/
def foldElem (kind : InputKind) (unicode : Bool) (c : Nat) : Nat :=
  match kind with
  | .utf8 =>
    let f := Fold.foldCodePoint c unicode
    if Utf8.isScalar f then f else c
  | .ascii =>
    if unicode then (if 0x41 ≤ c ∧ c ≤ 0x5A then c + 32 else c)
    else (if 0x61 ≤ c ∧ c ≤ 0x7A then c - 32 else c)

/-- `InputIndexer::fold`. -/
def fold (inp : Input) (c : Nat) : Nat := foldElem inp.kind inp.unicode c

/-- `InputIndexer::fold_equals`. -/
def foldEquals (inp : Input) (c1 c2 : Nat) : Bool := c1 == c2 || inp.fold c1 == inp.fold c2

end Input

/-- `CharProperties::is_word_char`. -/
def isWordChar (c : Nat) : Bool :=
  (0x61 ≤ c && c ≤ 0x7A) || (0x41 ≤ c && c ≤ 0x5A) || (0x30 ≤ c && c ≤ 0x39) || c == 0x5F

/-- `CharProperties::is_word_char_unicode_icase`. -/
def isWordCharUnicodeIcase (c : Nat) : Bool := isWordChar c || Fold.nonasciiFoldsToAsciiWordChar c

/-- `CharProperties::is_line_terminator`. -/
def isLineTerminator (c : Nat) : Bool := c == 0x0A || c == 0x0D || c == 0x2028 || c == 0x2029

/-- `CharProperties::bracket(bc, c)`; `bc.cps.contains(c)` is "some interval contains `c`"
(equal to the binary search for sorted disjoint intervals). -/
def bracketTest (b : Bracket) (c : Nat) : Bool :=
  if b.ivs.any (fun iv => iv.1 ≤ c && c ≤ iv.2) then !b.invert else b.invert

/-- `<Input::Element as ElementType>::try_from(c : u32)`: `char::from_u32` / `u8::try_from`. -/
def elementTryFrom (kind : InputKind) (c : Nat) : Option Nat :=
  match kind with
  | .utf8 => if Utf8.isScalar c then some c else none
  | .ascii => if c < 256 then some c else none

/-- `bytesearch::charset_contains`. -/
def charsetContains (cs : List Nat) (c : Nat) : Bool := cs.foldl (fun r v => r || v == c) false

/-- `AsciiBitmap::contains(val)`, the bitmap being given by the list of the (ASCII) bytes it
contains; non-ASCII `val` is never contained. -/
def asciiBitmapContains (bytes : List Nat) (val : Nat) : Bool := val < 128 && bytes.contains val

/-- `ByteArraySet::contains`. -/
def byteArraySetContains (bs : List Nat) (b : Nat) : Bool := bs.any (b == ·)

/-! ## `cursor.rs` -/
namespace Cursor

/-- `cursor::next`. -/
def next (inp : Input) (fwd : Bool) (pos : Nat) : Except Unit (Option (Nat × Nat)) :=
  if fwd then inp.nextRight pos else inp.nextLeft pos

/-- `cursor::next_byte`: the byte and the new position (`pos ± 1`), or `none` at the end. -/
def nextByte (inp : Input) (fwd : Bool) (pos : Nat) : Except Unit (Option (Nat × Nat)) :=
  if fwd then
    match inp.peekByteRight pos with
    | .error e => .error e
    | .ok none => .ok none
    | .ok (some b) => .ok (some (b, pos + 1))
  else
    match inp.peekByteLeft pos with
    | .error e => .error e
    | .ok none => .ok none
    | .ok (some b) => .ok (some (b, pos - 1))

/-- `cursor::try_match_lit`. -/
def tryMatchLit (inp : Input) (fwd : Bool) (pos : Nat) (lit : List Nat) : Option Nat :=
  inp.matchBytes fwd pos lit

end Cursor

/-! ## `matchers::backref`, `matchers::backref_icase` -/

/-- `matchers::backref`: `none` = `false`. -/
def backref (inp : Input) (fwd : Bool) (rs re : Nat) (pos : Nat) : Option Nat :=
  inp.subrangeEq fwd pos rs re

/-- The `while let Some(c1) = cursor::next(&ref_input, dir, &mut ref_pos)` loop of `backref_icase`.
Each iteration consumes at least one byte of `ref`, so `fuel = ref.len + 1` suffices; running out
of fuel is reported as `.error ()` (it cannot happen). -/
def backrefIcaseLoop (inp ref : Input) (fwd : Bool) : Nat → Nat → Nat → Except Unit (Option Nat)
  | 0, _, _ => .error ()
  | fuel + 1, refPos, pos =>
    match Cursor.next ref fwd refPos with
    | .error e => .error e
    | .ok none => .ok (some pos)          -- loop ends: `true`
    | .ok (some (c1, refPos')) =>
      match Cursor.next inp fwd pos with
      | .error e => .error e
      | .ok none => .ok none              -- `matched` stays false
      | .ok (some (c2, pos')) =>
        if inp.foldEquals c1 c2 then backrefIcaseLoop inp ref fwd fuel refPos' pos'
        else .ok none

/-- `matchers::backref_icase`. `subinput(rs..re)` is an unchecked `str` slice (UTF-8) or a checked
slice (ASCII, panics): both are `.error ()` when `rs > re` or `re > len`. -/
def backrefIcase (inp : Input) (fwd : Bool) (rs re : Nat) (pos : Nat) : Except Unit (Option Nat) :=
  if rs > re || re > inp.bytes.size then .error () else
  let ref : Input := { kind := inp.kind, bytes := inp.bytes.extract rs re, unicode := inp.unicode }
  let refPos := if fwd then 0 else ref.bytes.size
  backrefIcaseLoop inp ref fwd (ref.bytes.size + 1) refPos pos

/-! ## `scm.rs`: single char matchers -/

/-- The `SingleCharMatcher` implementations. -/
inductive Scm where
  /-- `scm::Char { c }` (`c` already converted by `ElementType::try_from`). -/
  | char (c : Nat)
  /-- `scm::CharSet { chars }`. -/
  | charSet (cs : List Nat)
  /-- `scm::Bracket { bc }`. -/
  | bracket (bc : Bracket)
  /-- `scm::MatchAny`. -/
  | matchAny
  /-- `scm::MatchAnyExceptLineTerminator`. -/
  | matchAnyExceptLineTerminator
  /-- `scm::MatchByteSet { bytes: &AsciiBitmap }`. -/
  | byteSet (bitmapBytes : List Nat)
  /-- `scm::MatchByteArraySet`. -/
  | byteArraySet (bs : List Nat)
  /-- `scm::MatchByteSeq`. -/
  | byteSeq (bs : List Nat)
deriving Repr, Inhabited

/-- `SingleCharMatcher::matches`: `.ok none` = `false` (the position is then unspecified and never
used), `.ok (some p)` = `true` with `*pos = p`. -/
def Scm.matches (m : Scm) (inp : Input) (fwd : Bool) (pos : Nat) : Except Unit (Option Nat) :=
  match m with
  | .char c =>
    match Cursor.next inp fwd pos with
    | .error e => .error e
    | .ok none => .ok none
    | .ok (some (c2, p)) => .ok (if c2 == c then some p else none)
  | .charSet cs =>
    match Cursor.next inp fwd pos with
    | .error e => .error e
    | .ok none => .ok none
    | .ok (some (c, p)) => .ok (if charsetContains cs c then some p else none)
  | .bracket bc =>
    match Cursor.next inp fwd pos with
    | .error e => .error e
    | .ok none => .ok none
    | .ok (some (c, p)) => .ok (if bracketTest bc c then some p else none)
  | .matchAny =>
    match Cursor.next inp fwd pos with
    | .error e => .error e
    | .ok none => .ok none
    | .ok (some (_, p)) => .ok (some p)
  | .matchAnyExceptLineTerminator =>
    match Cursor.next inp fwd pos with
    | .error e => .error e
    | .ok none => .ok none
    | .ok (some (c, p)) => .ok (if !isLineTerminator c then some p else none)
  | .byteSet bm =>
    -- `Input::CODE_UNITS_ARE_BYTES` is true for both input kinds
    match Cursor.nextByte inp fwd pos with
    | .error e => .error e
    | .ok none => .ok none
    | .ok (some (b, p)) => .ok (if asciiBitmapContains bm b then some p else none)
  | .byteArraySet bs =>
    match Cursor.nextByte inp fwd pos with
    | .error e => .error e
    | .ok none => .ok none
    | .ok (some (b, p)) => .ok (if byteArraySetContains bs b then some p else none)
  | .byteSeq bs => .ok (Cursor.tryMatchLit inp fwd pos bs)

end Regress.VM
