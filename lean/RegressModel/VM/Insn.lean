import RegressModel.Basic
/-!
# Bytecode of the regress VMs (`src/insn.rs`) and the parser of the canonical program dump

`Insn` mirrors `insn::Insn` constructor by constructor, except that the sixteen `ByteSeqN` variants
are merged into `byteSeq (bs : List Nat)` (`1 ≤ bs.length ≤ 16`) and the three `ByteSetN` variants
into `byteSet (bs : List Nat)` (`2 ≤ bs.length ≤ 4`); the interpreters dispatch on the length
wherever the Rust code distinguishes the variants (e.g. `with_scm_loop_impl` accepts only
`ByteSeq1..6`).

`parseProg` reads the text produced by `verif::dump_compiled` in its one-line transport form
(`'\n'` ↦ `'|'`, `' '` ↦ `'~'`). It fails closed.
-/
namespace Regress.VM

/-- `types::BracketContents`: `cps` as its sorted interval list (inclusive bounds). -/
structure Bracket where
  invert : Bool
  ivs : List (Nat × Nat)
deriving Repr, DecidableEq, Inhabited

/-- `insn::Insn`. Loop maxima: `none` = `usize::MAX` (printed `inf`). -/
inductive Insn where
  | goal
  | char (c : Nat)
  | startOfLine (multiline : Bool)
  | endOfLine (multiline : Bool)
  | matchAny
  | matchAnyExceptLineTerminator
  | enterLoop (id min : Nat) (max : Option Nat) (greedy : Bool) (exit : Nat)
  | loopAgain (begin_ : Nat)
  | loop1 (min : Nat) (max : Option Nat) (greedy : Bool)
  | jump (target : Nat)
  | alt (secondary : Nat)
  | beginCaptureGroup (g : Nat)
  | endCaptureGroup (g : Nat)
  | resetCaptureGroup (g : Nat)
  | backRef (group : Nat) (icase : Bool)
  | bracket (idx : Nat)
  /-- `AsciiBracket(AsciiBitmap)`: the list of byte values (all `< 128`) contained in the bitmap. -/
  | asciiBracket (bytes : List Nat)
  | lookahead (negate : Bool) (startGroup endGroup continuation : Nat)
  | lookbehind (negate : Bool) (startGroup endGroup continuation : Nat)
  | wordBoundary (invert : Bool)
  | wordBoundaryUnicodeICase (invert : Bool)
  /-- `CharSet([u32; 4])`. -/
  | charSet (cs : List Nat)
  /-- `ByteSet2/3/4`. -/
  | byteSet (bs : List Nat)
  /-- `ByteSeq1..16`. -/
  | byteSeq (bs : List Nat)
  | justFail
deriving Repr, DecidableEq, Inhabited

/-- `insn::StartPredicate`. `set` covers `ByteSet1/2/3` and `ByteBracket` (the dump prints all of
them as the list of bytes contained); `seq` is `ByteSeq(memmem::Finder)` (its needle). -/
inductive StartPred where
  | arbitrary
  | anchored
  | set (bytes : List Nat)
  | seq (bytes : List Nat)
deriving Repr, DecidableEq, Inhabited

/-- `api::Flags`. -/
structure Flags where
  icase : Bool := false
  multiline : Bool := false
  dotAll : Bool := false
  unicode : Bool := false
  unicodeSets : Bool := false
  noOpt : Bool := false
deriving Repr, DecidableEq, Inhabited

/-- `insn::CompiledRegex`. `names`: `[]` if there is no named group at all, otherwise one entry per
group (code points; `[]` = unnamed). -/
structure Prog where
  insns : Array Insn
  brackets : Array Bracket
  loops : Nat
  groups : Nat
  flags : Flags
  names : List (List Nat)
  startPred : StartPred
deriving Repr, DecidableEq, Inhabited

/-! ## Parser -/

namespace Parse

/-- Split a character list at every occurrence of `sep` (like `str::split`: `n` separators give
`n + 1` pieces, possibly empty). -/
def splitOn (sep : Char) : List Char → List (List Char)
  | [] => [[]]
  | c :: cs =>
    if c == sep then [] :: splitOn sep cs
    else match splitOn sep cs with
      | [] => [[c]]            -- unreachable: `splitOn` never returns `[]`
      | p :: ps => (c :: p) :: ps

def decDigit (c : Char) : Option Nat :=
  if '0' ≤ c ∧ c ≤ '9' then some (c.toNat - '0'.toNat) else none

/-- Lower-case hex digit (`{:x}`). -/
def hexDigit (c : Char) : Option Nat :=
  if '0' ≤ c ∧ c ≤ '9' then some (c.toNat - '0'.toNat)
  else if 'a' ≤ c ∧ c ≤ 'f' then some (c.toNat - 'a'.toNat + 10)
  else none

def numLoop (base : Nat) (digit : Char → Option Nat) : List Char → Nat → Option Nat
  | [], acc => some acc
  | c :: cs, acc =>
    match digit c with
    | none => none
    | some d => numLoop base digit cs (acc * base + d)

/-- A non-empty decimal numeral. -/
def dec (s : List Char) : Option Nat := if s.isEmpty then none else numLoop 10 decDigit s 0
/-- A non-empty lower-case hexadecimal numeral. -/
def hex (s : List Char) : Option Nat := if s.isEmpty then none else numLoop 16 hexDigit s 0

def bool01 (s : List Char) : Option Bool :=
  match s with
  | ['0'] => some false
  | ['1'] => some true
  | _ => none

/-- `maxs`: `inf` or a decimal numeral. -/
def maxP (s : List Char) : Option (Option Nat) :=
  if s == "inf".toList then some none
  else match dec s with
    | some n => some (some n)
    | none => none

def mapAll {α β} (f : α → Option β) : List α → Option (List β)
  | [] => some []
  | a :: as =>
    match f a, mapAll f as with
    | some b, some bs => some (b :: bs)
    | _, _ => none

/-- Hex tokens, each a byte. -/
def hexBytes (toks : List (List Char)) : Option (List Nat) :=
  mapAll (fun t => match hex t with
    | some b => if b < 256 then some b else none
    | none => none) toks

/-- Hex tokens, each a `u32`. -/
def hexU32s (toks : List (List Char)) : Option (List Nat) :=
  mapAll (fun t => match hex t with
    | some b => if b < 4294967296 then some b else none
    | none => none) toks

/-- The output of `bitmap_bytes`: `-` for the empty set, otherwise hex bytes. -/
def bitmapBytes (toks : List (List Char)) : Option (List Nat) :=
  if toks == [['-']] then some [] else
  if toks.isEmpty then none else hexBytes toks

def u16 (s : List Char) : Option Nat :=
  match dec s with
  | some n => if n < 65536 then some n else none
  | none => none

def u32 (s : List Char) : Option Nat :=
  match dec s with
  | some n => if n < 4294967296 then some n else none
  | none => none

/-- A `usize` other than `usize::MAX` (which the dump prints as `inf`). -/
def usz (s : List Char) : Option Nat :=
  match dec s with
  | some n => if n < 18446744073709551615 then some n else none
  | none => none

def str (s : String) : List Char := s.toList

/-- One `I` line (without the `I` token): the inverse of `dump_insn`. -/
def insn (toks : List (List Char)) : Option Insn :=
  match toks with
  | [] => none
  | m :: args =>
    if m == str "goal" then (if args.isEmpty then some .goal else none)
    else if m == str "fail" then (if args.isEmpty then some .justFail else none)
    else if m == str "any" then (if args.isEmpty then some .matchAny else none)
    else if m == str "anynl" then
      (if args.isEmpty then some .matchAnyExceptLineTerminator else none)
    else if m == str "char" then
      match args with
      | [a] => (hexU32s [a]).bind fun l => l.head?.map Insn.char
      | _ => none
    else if m == str "charset" then
      match hexU32s args with
      | some cs => if cs.length == 4 then some (.charSet cs) else none
      | none => none
    else if m == str "byteset" then
      match hexBytes args with
      | some bs => if 2 ≤ bs.length ∧ bs.length ≤ 4 then some (.byteSet bs) else none
      | none => none
    else if m == str "byteseq" then
      match hexBytes args with
      | some bs => if 1 ≤ bs.length ∧ bs.length ≤ 16 then some (.byteSeq bs) else none
      | none => none
    else if m == str "asciibracket" then
      match bitmapBytes args with
      | some bs => if bs.all (· < 128) then some (.asciiBracket bs) else none
      | none => none
    else if m == str "bracket" then
      match args with
      | [a] => (usz a).map Insn.bracket
      | _ => none
    else if m == str "sol" then
      match args with
      | [a] => (bool01 a).map Insn.startOfLine
      | _ => none
    else if m == str "eol" then
      match args with
      | [a] => (bool01 a).map Insn.endOfLine
      | _ => none
    else if m == str "wb" then
      match args with
      | [a] => (bool01 a).map Insn.wordBoundary
      | _ => none
    else if m == str "wbi" then
      match args with
      | [a] => (bool01 a).map Insn.wordBoundaryUnicodeICase
      | _ => none
    else if m == str "jump" then
      match args with
      | [a] => (u32 a).map Insn.jump
      | _ => none
    else if m == str "alt" then
      match args with
      | [a] => (u32 a).map Insn.alt
      | _ => none
    else if m == str "begin" then
      match args with
      | [a] => (u16 a).map Insn.beginCaptureGroup
      | _ => none
    else if m == str "end" then
      match args with
      | [a] => (u16 a).map Insn.endCaptureGroup
      | _ => none
    else if m == str "reset" then
      match args with
      | [a] => (u16 a).map Insn.resetCaptureGroup
      | _ => none
    else if m == str "backref" then
      match args with
      | [a, b] =>
        match u32 a, bool01 b with
        | some g, some ic => some (.backRef g ic)
        | _, _ => none
      | _ => none
    else if m == str "lookahead" then
      match args with
      | [a, b, c, d] =>
        match bool01 a, u16 b, u16 c, u32 d with
        | some n, some sg, some eg, some k => some (.lookahead n sg eg k)
        | _, _, _, _ => none
      | _ => none
    else if m == str "lookbehind" then
      match args with
      | [a, b, c, d] =>
        match bool01 a, u16 b, u16 c, u32 d with
        | some n, some sg, some eg, some k => some (.lookbehind n sg eg k)
        | _, _, _, _ => none
      | _ => none
    else if m == str "enterloop" then
      match args with
      | [a, b, c, d, e] =>
        match u16 a, usz b, maxP c, bool01 d, u32 e with
        | some id, some mn, some mx, some g, some ex =>
          (match mx with
           | some v => if v < 18446744073709551615 then some (.enterLoop id mn mx g ex) else none
           | none => some (.enterLoop id mn mx g ex))
        | _, _, _, _, _ => none
      | _ => none
    else if m == str "loopagain" then
      match args with
      | [a] => (u32 a).map Insn.loopAgain
      | _ => none
    else if m == str "loop1" then
      match args with
      | [a, b, c] =>
        match usz a, maxP b, bool01 c with
        | some mn, some mx, some g =>
          (match mx with
           | some v => if v < 18446744073709551615 then some (.loop1 mn mx g) else none
           | none => some (.loop1 mn mx g))
        | _, _, _ => none
      | _ => none
    else none

/-- The flag letters `i m s u v O` (each at most once, in this order) followed by `-`. -/
def flagsLoop : List Char → List Char → List Char → Option (List Char)
  | ['-'], _, seen => some seen
  | c :: cs, order, seen =>
    -- drop letters of `order` until `c` is found
    match order.dropWhile (· != c) with
    | [] => none
    | _ :: rest => flagsLoop cs rest (c :: seen)
  | [], _, _ => none

def flags (s : List Char) : Option Flags :=
  match flagsLoop s ['i', 'm', 's', 'u', 'v', 'O'] [] with
  | none => none
  | some seen =>
    some { icase := seen.contains 'i', multiline := seen.contains 'm', dotAll := seen.contains 's',
           unicode := seen.contains 'u', unicodeSets := seen.contains 'v',
           noOpt := seen.contains 'O' }

/-- One group name: `-` (unnamed) or hex code points joined by `.`. -/
def name (s : List Char) : Option (List Nat) :=
  if s == ['-'] then some []
  else mapAll (fun t => match hex t with
    | some c => if c ≤ 0x10FFFF then some c else none
    | none => none) (splitOn '.' s)

/-- The names field: `-` if `group_names` is empty, otherwise comma separated names. -/
def names (s : List Char) : Option (List (List Nat)) :=
  if s == ['-'] then some [] else mapAll name (splitOn ',' s)

def interval (s : List Char) : Option (Nat × Nat) :=
  match splitOn '-' s with
  | [a, b] =>
    match hexU32s [a], hexU32s [b] with
    | some [x], some [y] => some (x, y)
    | _, _ => none
  | _ => none

def intervalsP (s : List Char) : Option (List (Nat × Nat)) :=
  if s == ['-'] then some [] else mapAll interval (splitOn ',' s)

def startPred (toks : List (List Char)) : Option StartPred :=
  match toks with
  | [m] =>
    if m == str "arbitrary" then some .arbitrary
    else if m == str "anchored" then some .anchored
    else none
  | m :: args =>
    if m == str "set" then (bitmapBytes args).map StartPred.set
    else if m == str "seq" then
      -- an empty needle is printed as `seq ` (one empty token)
      (if args == [[]] then some (.seq []) else (hexBytes args).map StartPred.seq)
    else none
  | [] => none

/-- The `B` and `I` lines, in this order; `B` indices must be consecutive from 0. -/
def body : List (List (List Char)) → Array Bracket → Array Insn → Bool →
    Except String (Array Bracket × Array Insn)
  | [], bs, is, _ => .ok (bs, is)
  | line :: rest, bs, is, seenI =>
    match line with
    | ['B'] :: args =>
      if seenI then .error "B line after I line" else
      match args with
      | [idx, inv, ivs] =>
        match dec idx, bool01 inv, intervalsP ivs with
        | some i, some v, some l =>
          if i == bs.size then body rest (bs.push { invert := v, ivs := l }) is seenI
          else .error "B line: index out of sequence"
        | _, _, _ => .error "B line: malformed"
      | _ => .error "B line: wrong number of fields"
    | ['I'] :: args =>
      match insn args with
      | some i => body rest bs (is.push i) true
      | none => .error s!"I line {is.size}: malformed instruction"
    | _ => .error "unexpected line kind"

end Parse

/-- Parse the one-line transport form of `verif::dump_compiled`. -/
def parseProg (s : String) : Except String Prog :=
  let lines := Parse.splitOn '|' s.toList
  -- `dump_compiled` ends with a newline: tolerate (only) one trailing empty line.
  let lines := match lines.reverse with
    | [] :: r => r.reverse
    | _ => lines
  let toks := lines.map (Parse.splitOn '~')
  match toks with
  | (['P'] :: pargs) :: (['S'] :: sargs) :: rest =>
    match pargs with
    | [l, g, f, n] =>
      match Parse.u32 l, Parse.u32 g, Parse.flags f, Parse.names n with
      | some loops, some groups, some flags, some names =>
        match Parse.startPred sargs with
        | none => .error "S line: malformed"
        | some sp =>
          match Parse.body rest #[] #[] false with
          | .error e => .error e
          | .ok (bs, is) =>
            .ok { insns := is, brackets := bs, loops := loops, groups := groups, flags := flags,
                  names := names, startPred := sp }
      | _, _, _, _ => .error "P line: malformed field"
    | _ => .error "P line: wrong number of fields"
  | _ => .error "expected P line then S line"

end Regress.VM
