import RegressModel.VM.Input
/-!
# Structural well-formedness of a compiled program

`wfProg : Prog → Bool` is a decidable checker for the structural invariants that the emitter
(`src/emit.rs`) is supposed to establish and on which the two interpreters rely *without checking*
(`iat`/`mat`, `rs_unreachable!`, `unreachable!`, `re.brackets[idx]`, …). The intent: for a program
with `wfProg p = true`, a matcher state with `loops.size = p.loops`, `groups.size = p.groups`, and a
valid haystack (well-formed UTF-8 for `InputKind.utf8`, bytes `< 128` for `InputKind.ascii`), started
at a char boundary, none of the `.error` sites of `Bt.run` / `Pk.runStates` is reachable.

Clauses (numbered as in the code below):

* **P1** the program is non-empty and its last instruction is `goal` or `justFail`, the two
  instructions that never continue at `ip + 1` (so that `ip + 1` is in range for every other
  instruction: no instruction can fall off the end). NB: the real compiler does emit programs whose
  last instruction is not `goal`: when the optimizer collapses the whole pattern to an
  always-failing node, e.g. `a[^\s\S]`, the program is the single instruction `fail`;
* **P2** `loops ≤ 65535`, `groups ≤ 65535` (`LoopID`, `CaptureGroupID` are `u16`);
* **P3** `names = []` or `names.length = groups`;
* **P4** every bracket is a sorted list of disjoint intervals `first ≤ last ≤ 0x10FFFF`, each
  starting after the end of the previous one (then the linear `bracketTest` is the binary search of
  `CodePointSet::contains`);
* **P5** every instruction satisfies `wfInsn`:
  * **I1** `jump.target`, `alt.secondary`, `enterLoop.exit`, look-around `continuation` `< size`;
  * **I2** `loopAgain.begin < size` and the instruction there is an `enterLoop`;
  * **I3** `enterLoop.id < loops`;
  * **I4** `min ≤ max` for `enterLoop` and `loop1` (`max = none` is `usize::MAX`);
  * **I5** group ids of `begin`/`end`/`reset`/`backref` are `< groups`;
  * **I6** look-arounds: `start_group ≤ end_group ≤ groups` (the unchecked slice
    `groups.iat(start_group..end_group)`);
  * **I7** look-arounds: the body `(ip, continuation)` is non-empty and contains a `goal`;
  * **I7b** look-arounds: every `begin`/`end`/`reset` instruction in the body `(ip, continuation)`
    names a group in `[start_group, end_group)` (`run_lookaround` saves and restores exactly that
    range; needed for "a failed attempt leaves the groups unchanged", not for error freedom);
  * **I8** `bracket.idx < brackets.size`;
  * **I9** `loop1` at `ip`: `ip + 2 < size` (its continuation) and the instruction at `ip + 1` is
    one accepted by `with_scm_loop_impl` / `with_scm_compute_max` — exactly: `char`, `bracket`,
    `asciiBracket`, `matchAny`, `matchAnyExceptLineTerminator`, `charSet`, `byteSet` (2..4),
    `byteSeq` of length 1..**6** (`scmAccepted`);
  * **I10** moreover that body matches exactly one element of the input, so that the single-step
    `next_left_pos`/`next_right_pos` backtracking of `GreedyLoop1Char`/`NonGreedyLoop1Char` stays
    on the positions visited (`loop1BodyOneChar`): a `byteSeq` body must be the UTF-8 encoding of
    exactly one scalar value (hence of length `≤ 4`; `scm::MatchByteSeq` has
    `debug_assert!(N <= 4)` although `with_scm_loop_impl` accepts `ByteSeq5`/`ByteSeq6`);
  * **I11** payload shapes: `byteSeq` length 1..16, `byteSet` length 2..4, `charSet` length 4, all
    bytes `< 256`; `byteSet` and `asciiBracket` bytes `< 128` (they are matched with `next_byte`;
    a non-ASCII byte would leave the position inside a UTF-8 sequence); `char`/`charSet` values are
    `u32`.
* **P6** start predicate bytes are `< 256`.
-/
namespace Regress.VM

/-- `min ≤ max` with `none` = `usize::MAX`. -/
def leMax (min : Nat) : Option Nat → Bool
  | none => true
  | some mx => min ≤ mx

/-- The instructions accepted by `with_scm_loop_impl` and `with_scm_compute_max` (everything else
is their `unreachable!("Missing SCM")` arm). -/
def scmAccepted : Insn → Bool
  | .char _ => true
  | .bracket _ => true
  | .asciiBracket _ => true
  | .matchAny => true
  | .matchAnyExceptLineTerminator => true
  | .charSet _ => true
  | .byteSet bs => 2 ≤ bs.length && bs.length ≤ 4
  | .byteSeq bs => 1 ≤ bs.length && bs.length ≤ 6
  | _ => false

/-- `bs` is the UTF-8 encoding of exactly one scalar value. -/
def isOneCharSeq (bs : List Nat) : Bool :=
  match Utf8.nextRight bs.toArray 0 with
  | .ok (some (c, n)) => n == bs.length && Utf8.encode c == bs
  | _ => false

/-- **I10**: a `loop1` body that consumes exactly one element on success. -/
def loop1BodyOneChar : Insn → Bool
  | .byteSeq bs => isOneCharSeq bs
  | .byteSet bs => bs.all (· < 128)
  | .asciiBracket bs => bs.all (· < 128)
  | i => scmAccepted i

/-- **I7**: some instruction strictly between `lo` and `hi` is `goal`. -/
def hasGoalBetween (insns : Array Insn) (lo hi : Nat) : Bool :=
  (List.range (hi - lo - 1)).any (fun k => insns[lo + 1 + k]? == some Insn.goal)

/-- **I7b**: the capture group instructions strictly between `lo` and `hi` name groups in `[sg, eg)`. -/
def groupsWithin (insns : Array Insn) (lo hi sg eg : Nat) : Bool :=
  (List.range (hi - lo - 1)).all (fun k =>
    match insns[lo + 1 + k]? with
    | some (.beginCaptureGroup g) => sg ≤ g && g < eg
    | some (.endCaptureGroup g) => sg ≤ g && g < eg
    | some (.resetCaptureGroup g) => sg ≤ g && g < eg
    | _ => true)

/-- The look-around clauses **I1**, **I6**, **I7**, **I7b**. -/
def wfLook (p : Prog) (ip sg eg k : Nat) : Bool :=
  sg ≤ eg && eg ≤ p.groups && k < p.insns.size && ip + 1 < k && hasGoalBetween p.insns ip k &&
  groupsWithin p.insns ip k sg eg

/-- **P5**: the instruction `insn` at index `ip`. -/
def wfInsn (p : Prog) (ip : Nat) (insn : Insn) : Bool :=
  let n := p.insns.size
  match insn with
  | .goal => true
  | .justFail => true
  | .char c => c < 4294967296
  | .startOfLine _ => true
  | .endOfLine _ => true
  | .matchAny => true
  | .matchAnyExceptLineTerminator => true
  | .enterLoop id min max _ exit => id < p.loops && exit < n && leMax min max
  | .loopAgain b =>
    match p.insns[b]? with
    | some (.enterLoop _ _ _ _ _) => true
    | _ => false
  | .loop1 min max _ =>
    leMax min max && ip + 2 < n &&
    (match p.insns[ip + 1]? with
     | some body => scmAccepted body && loop1BodyOneChar body
     | none => false)
  | .jump t => t < n
  | .alt s => s < n
  | .beginCaptureGroup g => g < p.groups
  | .endCaptureGroup g => g < p.groups
  | .resetCaptureGroup g => g < p.groups
  | .backRef g _ => g < p.groups
  | .bracket idx => idx < p.brackets.size
  | .asciiBracket bs => bs.all (· < 128)
  | .lookahead _ sg eg k => wfLook p ip sg eg k
  | .lookbehind _ sg eg k => wfLook p ip sg eg k
  | .wordBoundary _ => true
  | .wordBoundaryUnicodeICase _ => true
  | .charSet cs => cs.length == 4 && cs.all (· < 4294967296)
  | .byteSet bs => 2 ≤ bs.length && bs.length ≤ 4 && bs.all (· < 128)
  | .byteSeq bs => 1 ≤ bs.length && bs.length ≤ 16 && bs.all (· < 256)

/-- **P4**: sorted, pairwise disjoint, non-empty intervals of code points. -/
def wfIntervals : List (Nat × Nat) → Bool
  | [] => true
  | [iv] => iv.1 ≤ iv.2 && iv.2 ≤ 0x10FFFF
  | iv :: iv' :: rest => iv.1 ≤ iv.2 && iv.2 < iv'.1 && wfIntervals (iv' :: rest)

def wfBracket (b : Bracket) : Bool := wfIntervals b.ivs

/-- **P6**. -/
def wfStartPred : StartPred → Bool
  | .arbitrary => true
  | .anchored => true
  | .set bs => bs.all (· < 256)
  | .seq bs => bs.all (· < 256)

/-- The indices of the instructions violating `wfInsn` (for diagnostics). -/
def badInsns (p : Prog) : List Nat :=
  (List.range p.insns.size).filter (fun i =>
    match p.insns[i]? with
    | some insn => !wfInsn p i insn
    | none => true)

/-- The structural well-formedness check (clauses **P1**–**P6**). -/
def wfProg (p : Prog) : Bool :=
  -- P1
  (p.insns.back? == some Insn.goal || p.insns.back? == some Insn.justFail) &&
  -- P2
  p.loops ≤ 65535 && p.groups ≤ 65535 &&
  -- P3
  (p.names.isEmpty || p.names.length == p.groups) &&
  -- P4
  p.brackets.all wfBracket &&
  -- P5
  (List.range p.insns.size).all (fun i =>
    match p.insns[i]? with
    | some insn => wfInsn p i insn
    | none => false) &&
  -- P6
  wfStartPred p.startPred

end Regress.VM
