import RegressModel.Basic
/-!
# UTF-16 / UCS-2 text primitives

Model of the `Utf16Input` and `Ucs2Input` halves of `src/indexing.rs` (feature `utf16`).

Conventions: a haystack is `units : Array Nat` (every element `< 65536`); positions are code-unit
offsets (`Nat`, the payload of `IndexPosition`). Both indexers read the input only through the
checked `slice::get`, so the decoders have no error case: the result is `none` exactly where the
Rust function returns `None`. A decoder result `some (c, q)` means "returned `Some(c)` and left
`*pos == q`".

The only panic sites are in `subrange_eq` (checked slice indexing `&self.input[a..b]`); they are
explicit in `subrangeEqE`.
-/
namespace Regress.Utf16

/-- `Utf16Input::is_high_surrogate`. -/
def isHighSurrogate (b : Nat) : Bool := b ≥ 0xD800 && b ≤ 0xDBFF

/-- `Utf16Input::is_low_surrogate`. -/
def isLowSurrogate (b : Nat) : Bool := b ≥ 0xDC00 && b ≤ 0xDFFF

/-- A code unit in `0xD800 ..= 0xDFFF`. -/
def isSurrogate (b : Nat) : Bool := b ≥ 0xD800 && b ≤ 0xDFFF

/-- `Utf16Input::code_point_from_surrogates`:
`(((high & 0x3ff) << 10) | (low & 0x3ff)) + 0x10000` (the two or-ed fields are bit-disjoint). -/
def codePointFromSurrogates (high low : Nat) : Nat :=
  ((high % 1024) * 1024 + (low % 1024)) + 0x10000

/-- `char::from_u32(c).is_some()`. -/
def isScalar (c : Nat) : Bool := c < 0xD800 || (0xDFFF < c && c ≤ 0x10FFFF)

/-- UTF-16 encoding of a code point (what `char::encode_utf16` produces for scalar values; a
surrogate code point is passed through as a lone unit so that the function is total). -/
def encode16 (c : Nat) : List Nat :=
  if c < 0x10000 then [c]
  else [0xD800 + (c - 0x10000) / 1024, 0xDC00 + (c - 0x10000) % 1024]

/-- UTF-16 encoding of a list of code points. -/
def encodeAll16 (cs : List Nat) : List Nat := cs.flatMap encode16

/-! ## `Utf16Input` -/

/-- `Utf16Input::next_right`. -/
def nextRight (units : Array Nat) (pos : Nat) : Option (Nat × Nat) :=
  match units[pos]? with
  | none => none
  | some u1 =>
    let pos1 := pos + 1
    if !isHighSurrogate u1 then some (u1, pos1)
    else match units[pos1]? with
      | none => some (u1, pos1)
      | some u2 =>
        if !isLowSurrogate u2 then some (u1, pos1)
        else some (codePointFromSurrogates u1 u2, pos1 + 1)

/-- `Utf16Input::next_left`. -/
def nextLeft (units : Array Nat) (pos : Nat) : Option (Nat × Nat) :=
  if pos == 0 then none
  else match units[pos - 1]? with
    | none => none
    | some u2 =>
      let pos1 := pos - 1
      if pos1 == 0 || !isLowSurrogate u2 then some (u2, pos1)
      else match units[pos1 - 1]? with
        | none => some (u2, pos1)
        | some u1 =>
          if !isHighSurrogate u1 then some (u2, pos1)
          else some (codePointFromSurrogates u1 u2, pos1 - 1)

/-- `Utf16Input::next_right_pos`. -/
def nextRightPos (units : Array Nat) (pos : Nat) : Option Nat :=
  match units[pos]? with
  | none => none
  | some u1 =>
    let pos1 := pos + 1
    if !isHighSurrogate u1 then some pos1
    else match units[pos1]? with
      | none => some pos1
      | some u2 =>
        if !isLowSurrogate u2 then some pos1
        else some (pos1 + 1)

/-- `Utf16Input::next_left_pos`. -/
def nextLeftPos (units : Array Nat) (pos : Nat) : Option Nat :=
  if pos == 0 then none
  else match units[pos - 1]? with
    | none => none
    | some u2 =>
      let pos1 := pos - 1
      if pos1 == 0 || !isLowSurrogate u2 then some pos1
      else match units[pos1 - 1]? with
        | none => some pos1
        | some u1 =>
          if !isHighSurrogate u1 then some pos1
          else some (pos1 - 1)

/-- `try_move_right` (identical for `Utf16Input` and `Ucs2Input`).
Precondition of the Rust code (`debug_assert_valid_pos`): `pos ≤ units.size`. -/
def tryMoveRight (units : Array Nat) (pos amt : Nat) : Option Nat :=
  if units.size - pos < amt then none else some (pos + amt)

/-- `try_move_left` (identical for `Utf16Input` and `Ucs2Input`). -/
def tryMoveLeft (pos amt : Nat) : Option Nat :=
  if pos < amt then none else some (pos - amt)

/-- The units of `[s, e)`. -/
def slice (units : Array Nat) (s e : Nat) : List Nat := (units.extract s e).toList

/-- `subrange_eq` (identical for `Utf16Input` and `Ucs2Input`) with its panic sites explicit.
`.ok none` = returned `false`; `.ok (some q)` = returned `true` with `*pos == q`;
`.error ()` = a panic: `range.end - range.start` underflow (debug overflow checks) or one of the
two checked slice expressions `&self.input[a..b]` out of range. -/
def subrangeEqE (units : Array Nat) (fwd : Bool) (pos rs re : Nat) : Except Unit (Option Nat) :=
  if re < rs then .error ()
  else
    let len := re - rs
    let se : Option (Nat × Nat) :=
      if fwd then
        match tryMoveRight units pos len with
        | some e => some (pos, e)
        | none => none
      else
        match tryMoveLeft pos len with
        | some s => some (s, pos)
        | none => none
    match se with
    | none => .ok none
    | some (s, e) =>
      -- `&self.input[start..end]`
      if e < s || units.size < e then .error ()
      -- `&self.input[range.start..range.end]`
      else if units.size < re then .error ()
      else if slice units s e == slice units rs re then .ok (some (if fwd then e else s))
      else .ok none

/-- `subrange_eq` under its preconditions (`rs ≤ re ≤ units.size`, `pos ≤ units.size`), where no
panic site is reachable (`subrangeEqE_eq_ok` in `Proofs/Lemmas/Utf16.lean`). -/
def subrangeEq (units : Array Nat) (fwd : Bool) (pos rs re : Nat) : Option Nat :=
  let len := re - rs
  if fwd then
    match tryMoveRight units pos len with
    | none => none
    | some e => if slice units pos e == slice units rs re then some e else none
  else
    match tryMoveLeft pos len with
    | none => none
    | some s => if slice units s pos == slice units rs re then some s else none

/-! ## `Ucs2Input` -/

namespace Ucs2

/-- `Ucs2Input::next_right`. -/
def nextRight (units : Array Nat) (pos : Nat) : Option (Nat × Nat) :=
  match units[pos]? with
  | none => none
  | some u1 => some (u1, pos + 1)

/-- `Ucs2Input::next_left`. -/
def nextLeft (units : Array Nat) (pos : Nat) : Option (Nat × Nat) :=
  if pos == 0 then none
  else match units[pos - 1]? with
    | none => none
    | some u2 => some (u2, pos - 1)

/-- `Ucs2Input::next_right_pos` = `try_move_right(pos, 1)`. -/
def nextRightPos (units : Array Nat) (pos : Nat) : Option Nat := tryMoveRight units pos 1

/-- `Ucs2Input::next_left_pos` = `try_move_left(pos, 1)`. -/
def nextLeftPos (_units : Array Nat) (pos : Nat) : Option Nat := tryMoveLeft pos 1

end Ucs2

end Regress.Utf16
