import RegressModel.Basic
/-!
# UTF-8 text primitives

Model of `src/util.rs` (`utf8_first_byte`, `utf8_w2/3/4`, `is_utf8_continuation`) and the
`Utf8Input` / `AsciiInput` halves of `src/indexing.rs`.

Conventions: a haystack is `bytes : Array Nat` (every element `< 256`); positions are byte
offsets (`Nat`). Every memory access of the Rust code is an explicit `Option`; the Rust
`get_unchecked` / `rs_unreachable!` sites are therefore `none` results whose impossibility is a
proof obligation (see `Proofs/C06.lean`), never a default value.
-/
namespace Regress.Utf8

/-- UTF-8 encoding of a scalar value (what `char::encode_utf8` produces). Also defined for
surrogate code points (as generalized UTF-8) so that the function is total. -/
def encode (c : Nat) : List Nat :=
  if c < 0x80 then [c]
  else if c < 0x800 then [0xC0 + c / 64, 0x80 + c % 64]
  else if c < 0x10000 then [0xE0 + c / 4096, 0x80 + (c / 64) % 64, 0x80 + c % 64]
  else [0xF0 + c / 262144, 0x80 + (c / 4096) % 64, 0x80 + (c / 64) % 64, 0x80 + c % 64]

/-- UTF-8 encoding of a list of scalar values. -/
def encodeAll (cs : List Nat) : List Nat := cs.flatMap encode

/-- `char::from_u32(c).is_some()`. -/
def isScalar (c : Nat) : Bool := c < 0xD800 || (0xDFFF < c && c ≤ 0x10FFFF)

/-- `util::utf8_first_byte`. -/
def firstByte (cp : Nat) : Nat :=
  if cp < 0x80 then cp
  else if cp < 0x800 then (cp / 64) % 32 + 0xC0
  else if cp < 0x10000 then (cp / 4096) % 16 + 0xE0
  else (cp / 262144) % 8 + 0xF0

/-- `indexing::utf8_seq_len`. -/
def seqLen (b : Nat) : Nat :=
  if b < 128 then 1
  else if b / 16 * 16 == 0xE0 then 3
  else if b / 16 * 16 == 0xF0 then 4
  else 2

/-- `indexing::is_seq_start`: `b < 128 || b >= 192`. -/
def isSeqStart (b : Nat) : Bool := b < 128 || b ≥ 192

/-- `util::is_utf8_continuation`. -/
def isCont (b : Nat) : Bool := b / 64 == 2

/-- `util::utf8_w2`. -/
def w2 (b0 b1 : Nat) : Nat := (b0 % 32) * 64 + (b1 % 64)
/-- `util::utf8_w3`. -/
def w3 (b0 b1 b2 : Nat) : Nat := (b0 % 16) * 4096 + (b1 % 64) * 64 + (b2 % 64)
/-- `util::utf8_w4`. -/
def w4 (b0 b1 b2 b3 : Nat) : Nat :=
  (b0 % 8) * 262144 + (b1 % 64) * 4096 + (b2 % 64) * 64 + (b3 % 64)

/-- `pos` is a char boundary of `bytes` (`str::is_char_boundary` for `pos ≤ len`). -/
def isBoundary (bytes : Array Nat) (pos : Nat) : Bool :=
  pos == bytes.size || (match bytes[pos]? with | some b => isSeqStart b | none => false)

/-- `Utf8Input::next_right`: decode the char starting at `pos`.
`none` = at the right end. The inner `Option` failing (`none`) would be an out-of-bounds read or
an invalid scalar (Rust: `get_unchecked` / `rs_unreachable!`); it is reported as `.error`. -/
def nextRight (bytes : Array Nat) (pos : Nat) : Except Unit (Option (Nat × Nat)) :=
  if pos == bytes.size then .ok none
  else match bytes[pos]? with
    | none => .error ()
    | some b0 =>
      if b0 < 128 then .ok (some (b0, pos + 1))
      else
        let len := seqLen b0
        let cp : Option Nat :=
          if len == 2 then
            match bytes[pos+1]? with
            | some b1 => some (w2 b0 b1)
            | none => none
          else if len == 3 then
            match bytes[pos+1]?, bytes[pos+2]? with
            | some b1, some b2 => some (w3 b0 b1 b2)
            | _, _ => none
          else
            match bytes[pos+1]?, bytes[pos+2]?, bytes[pos+3]? with
            | some b1, some b2, some b3 => some (w4 b0 b1 b2 b3)
            | _, _, _ => none
        match cp with
        | none => .error ()
        | some c => if isScalar c then .ok (some (c, pos + len)) else .error ()

/-- `Utf8Input::next_right_pos`. -/
def nextRightPos (bytes : Array Nat) (pos : Nat) : Except Unit (Option Nat) :=
  if pos == bytes.size then .ok none
  else match bytes[pos]? with
    | none => .error ()
    | some b0 => if b0 < 128 then .ok (some (pos + 1)) else .ok (some (pos + seqLen b0))

/-- `Utf8Input::next_left`. -/
def nextLeft (bytes : Array Nat) (pos : Nat) : Except Unit (Option (Nat × Nat)) :=
  if pos == 0 then .ok none
  else match bytes[pos-1]? with
    | none => .error ()
    | some z =>
      if z < 128 then .ok (some (z, pos - 1))
      else if pos < 2 then .error ()
      else match bytes[pos-2]? with
        | none => .error ()
        | some y =>
          if !isCont y then
            let c := w2 y z
            if isScalar c then .ok (some (c, pos - 2)) else .error ()
          else if pos < 3 then .error ()
          else match bytes[pos-3]? with
            | none => .error ()
            | some x =>
              if !isCont x then
                let c := w3 x y z
                if isScalar c then .ok (some (c, pos - 3)) else .error ()
              else if pos < 4 then .error ()
              else match bytes[pos-4]? with
                | none => .error ()
                | some w =>
                  let c := w4 w x y z
                  if isScalar c then .ok (some (c, pos - 4)) else .error ()

/-- `Utf8Input::next_left_pos`. -/
def nextLeftPos (bytes : Array Nat) (pos : Nat) : Except Unit (Option Nat) :=
  if pos == 0 then .ok none
  else match bytes[pos-1]? with
    | none => .error ()
    | some z =>
      if z < 128 then .ok (some (pos - 1))
      else if pos < 2 then .error ()
      else match bytes[pos-2]? with
        | none => .error ()
        | some y =>
          if !isCont y then .ok (some (pos - 2))
          else if pos < 3 then .error ()
          else match bytes[pos-3]? with
            | none => .error ()
            | some x =>
              if !isCont x then .ok (some (pos - 3))
              else if pos < 4 then .error () else .ok (some (pos - 4))

/-- `peek_byte_right`. -/
def peekByteRight (bytes : Array Nat) (pos : Nat) : Option Nat :=
  if pos == bytes.size then none else bytes[pos]?

/-- `peek_byte_left`. -/
def peekByteLeft (bytes : Array Nat) (pos : Nat) : Option Nat :=
  if pos == 0 then none else bytes[pos-1]?

/-- `try_move_right`. -/
def tryMoveRight (bytes : Array Nat) (pos amt : Nat) : Option Nat :=
  if bytes.size - pos < amt then none else some (pos + amt)

/-- `try_move_left`. -/
def tryMoveLeft (pos amt : Nat) : Option Nat :=
  if pos < amt then none else some (pos - amt)

/-- The bytes of `[s, e)`. -/
def slice (bytes : Array Nat) (s e : Nat) : List Nat := (bytes.extract s e).toList

/-- `match_bytes` forwards / backwards: compare `lit` with the `lit.length` bytes after
(before) `pos`; on success the new position. -/
def matchBytes (bytes : Array Nat) (fwd : Bool) (pos : Nat) (lit : List Nat) : Option Nat :=
  if fwd then
    match tryMoveRight bytes pos lit.length with
    | none => none
    | some e => if slice bytes pos e == lit then some e else none
  else
    match tryMoveLeft pos lit.length with
    | none => none
    | some s => if slice bytes s pos == lit then some s else none

/-- `subrange_eq`: compare the bytes of `[rs, re)` with the same number of bytes after (before) `pos`. -/
def subrangeEq (bytes : Array Nat) (fwd : Bool) (pos rs re : Nat) : Option Nat :=
  matchBytes bytes fwd pos (slice bytes rs re)

end Regress.Utf8
