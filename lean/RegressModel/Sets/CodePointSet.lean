import RegressModel.Basic

/-!
# Model of `CodePointSet` (Rust: `src/codepointset.rs`, plus `equal_range_by` from `src/util.rs`)

Code points and interval bounds are plain `Nat` (unbounded); the Rust type is `u32`.
Every model function mirrors the Rust control flow:

* a `Vec<Interval>` is a `List Interval`; `vec.push x` is `acc ++ [x]`;
* a `for`/`while` loop is a structurally recursive function carrying the loop state;
* the `slice::Iter` `remove_iter` together with `current_remove` (in `remove`) is represented by ONE
  list `rem` of the not-yet-consumed removal intervals: `current_remove = rem.head?` and
  `remove_iter` = `rem.tail`; `current_remove = remove_iter.next()` is `rem := rem.tail`.
  (`peekable()` is irrelevant: `peek` is never called.)

Trusted modelling steps (recorded for the trusted base):

* `slice::binary_search_by(f).is_ok()` is modelled in `contains` as "some element compares `Equal`".
  A faithful transcription of std's `binary_search_by` (`binarySearchBy`, `containsBin`) is also
  given; `Proofs/C12.lean` relates it to `contains` on well-formed sets.
* `equal_range_by` (two `binary_search_by` calls with the comparators `f.then(Greater)` and
  `f.then(Less)`, each of which never returns `Equal`, so `unwrap_err` never panics) is modelled by the
  linear scan `equalRange` that it equals on input sorted w.r.t. the comparator: `left` = number of
  leading elements comparing `Less`, `right = left +` number of following elements comparing `Equal`.
  (This is exactly the `slow_er` reference implementation in the Rust unit test `util::tests::ranges`.)
  The faithful transcription `equalRangeBy` is also given, and `Proofs/C12.lean`
  (`equalRangeBy_eq`) proves it returns `equalRange` on every well-formed set.
* `debug_assert!`s are not modelled (they are no-ops in release builds). `u32` overflow of
  `iv.last + 1` cannot happen for `last ≤ 0x10FFFF`; arithmetic here is on `Nat`.
-/

namespace Regress.CPS

/-- `struct Interval { first: CodePoint, last: CodePoint }` -/
structure Interval where
  first : Nat
  last : Nat
  deriving Repr, DecidableEq, BEq

abbrev IvList := List Interval

namespace Interval

/-- `Interval::compare(self, cp)` -/
def compare (self : Interval) (cp : Nat) : Ordering :=
  if self.first > cp then Ordering.gt
  else if self.last < cp then Ordering.lt
  else Ordering.eq

/-- `Interval::is_before` -/
def isBefore (self other : Interval) : Bool := self.last < other.first

/-- `Interval::is_strictly_before` -/
def isStrictlyBefore (self rhs : Interval) : Bool := self.last + 1 < rhs.first

/-- `Interval::mergecmp` -/
def mergecmp (self rhs : Interval) : Ordering :=
  if self.isStrictlyBefore rhs then Ordering.lt
  else if rhs.isStrictlyBefore self then Ordering.gt
  else Ordering.eq

/-- `Interval::mergeable` -/
def mergeable (self rhs : Interval) : Bool := self.mergecmp rhs == Ordering.eq

/-- `Interval::contains` -/
def contains (self : Interval) (cp : Nat) : Bool := self.first ≤ cp && cp ≤ self.last

/-- `Interval::overlaps` -/
def overlaps (self other : Interval) : Bool := !self.isBefore other && !other.isBefore self

/-- `Interval::count_codepoints` -/
def countCodepoints (self : Interval) : Nat := self.last - self.first + 1

end Interval

/-- `merge_intervals(x, &y)` -/
def mergeIntervals (x y : Interval) : Interval :=
  { first := min x.first y.first, last := max x.last y.last }

/-! ## Well-formedness (`assert_is_well_formed`) -/

/-- A single interval satisfies `first ≤ last ≤ CODE_POINT_MAX`. -/
def ivOk (iv : Interval) : Prop := iv.first ≤ iv.last ∧ iv.last ≤ 0x10FFFF

instance (iv : Interval) : Decidable (ivOk iv) := by unfold ivOk; exact inferInstance

/-- `assert_is_well_formed`: every interval has `first ≤ last ≤ 0x10FFFF` and every window
`[a, b]` of two consecutive intervals satisfies `a.is_strictly_before(b)`. -/
def WF : IvList → Prop
  | [] => True
  | [a] => ivOk a
  | a :: b :: rest => ivOk a ∧ a.last + 1 < b.first ∧ WF (b :: rest)

/-- Executable version of `WF`. -/
def wf : IvList → Bool
  | [] => true
  | [a] => decide (a.first ≤ a.last) && decide (a.last ≤ 0x10FFFF)
  | a :: b :: rest =>
    decide (a.first ≤ a.last) && decide (a.last ≤ 0x10FFFF) && decide (a.last + 1 < b.first)
      && wf (b :: rest)

/-! ## Membership -/

/-- Specification-level membership: some interval of the list contains `c`. -/
def mem (s : IvList) (c : Nat) : Prop := ∃ iv ∈ s, iv.first ≤ c ∧ c ≤ iv.last

/-- `CodePointSet::contains` / `interval_contains`:
`interval.binary_search_by(|iv| iv.compare(cp)).is_ok()`, modelled as "some element compares Equal". -/
def contains (s : IvList) (cp : Nat) : Bool := s.any (fun iv => iv.compare cp == Ordering.eq)

/-! ### Faithful `slice::binary_search_by` (Rust 1.95 `core::slice`, the branch-free version) -/

/-- The `while size > 1 { .. }` loop of `binary_search_by`; returns the final `base`.
`fuel` bounds the iteration count (`size` strictly decreases while `size > 1`, so `fuel = size`
suffices). `get_unchecked(mid)` is an `Option` lookup: `none` = undefined behaviour in Rust. -/
def binarySearchLoop {α : Type} (a : Array α) (f : α → Ordering) :
    (fuel size base : Nat) → Option Nat
  | 0, size, base => if size > 1 then none else some base
  | fuel + 1, size, base =>
    if size > 1 then
      let half := size / 2
      let mid := base + half
      match a[mid]? with
      | none => none
      | some x =>
        let cmp := f x
        -- base = select_unpredictable(cmp == Greater, base, mid); size -= half;
        binarySearchLoop a f fuel (size - half) (if cmp == Ordering.gt then base else mid)
    else some base

/-- `slice::binary_search_by(f)`: `some (.ok i)` is `Ok(i)`, `some (.error i)` is `Err(i)`, `none` is
an out-of-bounds `get_unchecked` (never happens; see `Proofs/C12.lean`). -/
def binarySearchBy {α : Type} (a : Array α) (f : α → Ordering) : Option (Except Nat Nat) :=
  let size := a.size
  if size == 0 then some (.error 0)
  else
    match binarySearchLoop a f size size 0 with
    | none => none
    | some base =>
      match a[base]? with
      | none => none
      | some x =>
        let cmp := f x
        if cmp == Ordering.eq then some (.ok base)
        else some (.error (base + (if cmp == Ordering.lt then 1 else 0)))

/-- `interval_contains` with the faithful binary search:
`interval.binary_search_by(|iv| iv.compare(cp)).is_ok()`. -/
def containsBin (s : IvList) (cp : Nat) : Option Bool :=
  match binarySearchBy s.toArray (fun iv => iv.compare cp) with
  | none => none
  | some (.ok _) => some true
  | some (.error _) => some false

/-- `SliceHelp::equal_range_by` (`src/util.rs`), faithful transcription: two `binary_search_by`
calls with the comparators `f(v).then(Greater)` and `f(v).then(Less)`; `unwrap_err()` on an `Ok`
would panic (`none`; it cannot happen because these comparators never return `Equal`), and so would
the slice `self[left..]` if `left > len` (it is not; `List.drop` is total). -/
def equalRangeBy {α : Type} (l : List α) (f : α → Ordering) : Option (Nat × Nat) :=
  match binarySearchBy l.toArray (fun v => (f v).then Ordering.gt) with
  | some (.error left) =>
    match binarySearchBy (l.drop left).toArray (fun v => (f v).then Ordering.lt) with
    | some (.error right) => some (left, right + left)
    | _ => none
  | _ => none

/-! ## `add` -/

/-- `equal_range_by(|iv| iv.mergecmp(new_iv))` as the linear scan it equals on sorted input:
`(left, right)` with `left` = number of leading elements whose `mergecmp new_iv` is `Less` and
`right = left +` number of following elements whose `mergecmp new_iv` is `Equal`. -/
def equalRange (s : IvList) (niv : Interval) : Nat × Nat :=
  let left := (s.takeWhile (fun iv => iv.mergecmp niv == Ordering.lt)).length
  let right := left + ((s.drop left).takeWhile (fun iv => iv.mergecmp niv == Ordering.eq)).length
  (left, right)

/-- `CodePointSet::add`. -/
def add (s : IvList) (niv : Interval) : IvList :=
  let (left, right) := equalRange s niv
  match right - left with
  | 0 =>
    -- New entry: `self.ivs.insert(mergeable.start, new_iv)`.
    s.take left ++ niv :: s.drop left
  | 1 =>
    -- Replace a single entry.
    match s[left]? with
    | none => s   -- unreachable: `left < right ≤ len` (Rust would panic on the index)
    | some entry =>
      s.set left { first := min entry.first niv.first, last := max entry.last niv.last }
  | _ =>
    -- Replace range of entries:
    -- `merged_iv = self.ivs[left..right].iter().fold(new_iv, merge_intervals)`;
    -- `self.ivs[left] = merged_iv; self.ivs.drain(left + 1..right)`.
    let mergedIv := ((s.drop left).take (right - left)).foldl mergeIntervals niv
    let s' := s.set left mergedIv
    s'.take (left + 1) ++ s'.drop right

/-- `CodePointSet::add_one`. -/
def addOne (s : IvList) (cp : Nat) : IvList := add s { first := cp, last := cp }

/-- `CodePointSet::add_set`: swap so that we add to the set with more intervals, then add each of
`rhs`'s intervals in order. -/
def addSet (self rhs : IvList) : IvList :=
  -- if self.ivs.len() < rhs.ivs.len() { core::mem::swap(self, &mut rhs); }
  let (self, rhs) := if self.length < rhs.length then (rhs, self) else (self, rhs)
  -- for iv in rhs.intervals() { self.add(*iv) }
  rhs.foldl add self

/-! ## `inverted` -/

/-- The `for iv in &self.ivs` loop of `inverted_interval_count` (state: `start`, `result`),
followed by the final `if start <= CODE_POINT_MAX`. -/
def invertedIntervalCountLoop : IvList → (start result : Nat) → Nat
  | [], start, result => if start ≤ 0x10FFFF then result + 1 else result
  | iv :: rest, start, result =>
    let result := if start < iv.first then result + 1 else result
    invertedIntervalCountLoop rest (iv.last + 1) result

/-- `CodePointSet::inverted_interval_count`. -/
def invertedIntervalCount (s : IvList) : Nat := invertedIntervalCountLoop s 0 0

/-- The `for iv in &self.ivs` loop of `inverted` (state: `start`, `inverted_ivs`), followed by the
final `if start <= CODE_POINT_MAX`. -/
def invertedLoop : IvList → (start : Nat) → (invertedIvs : IvList) → IvList
  | [], start, acc =>
    if start ≤ 0x10FFFF then acc ++ [{ first := start, last := 0x10FFFF }] else acc
  | iv :: rest, start, acc =>
    let acc := if start < iv.first then acc ++ [{ first := start, last := iv.first - 1 }] else acc
    invertedLoop rest (iv.last + 1) acc

/-- `CodePointSet::inverted`. -/
def inverted (s : IvList) : IvList := invertedLoop s 0 []

/-! ## `remove` -/

/-- The inner `while let Some(remove_iv) = current_remove { .. }` loop of `remove`, for the current
(mutable!) `iv`. State: `iv` (its `first` field is mutated by the loop), `rem` (`current_remove` is
`rem.head?`, `remove_iter` is `rem.tail`), `result`. Returns the state at loop exit.
The loop exits either through `break` (then `rem ≠ []`, i.e. `current_remove.is_some()`) or because
`current_remove` became `None` (then `rem = []`). -/
def removeInner (iv : Interval) : (rem : IvList) → (result : IvList) → Interval × IvList × IvList
  | [], result => (iv, [], result)
  | removeIv :: rest, result =>
    if removeIv.last < iv.first then
      -- current_remove = remove_iter.next();
      removeInner iv rest result
    else if removeIv.first > iv.last then
      -- result.push(*iv); break;
      (iv, removeIv :: rest, result ++ [iv])
    else
      let result :=
        if removeIv.first > iv.first then
          result ++ [{ first := iv.first, last := removeIv.first - 1 }]
        else result
      if removeIv.last < iv.last then
        -- iv.first = remove_iv.last + 1; current_remove = remove_iter.next();
        removeInner { first := removeIv.last + 1, last := iv.last } rest result
      else
        -- break;
        (iv, removeIv :: rest, result)

/-- The outer `for iv in &mut self.ivs` loop of `remove`. After the inner loop:
`if current_remove.is_none() { result.push(*iv) }` — note `*iv` is the possibly mutated interval. -/
def removeLoop : (s : IvList) → (rem : IvList) → (result : IvList) → IvList
  | [], _, result => result
  | iv :: rest, rem, result =>
    match removeInner iv rem result with
    | (iv', rem', result') =>
      let result'' := if rem'.isEmpty then result' ++ [iv'] else result'
      removeLoop rest rem' result''

/-- `CodePointSet::remove(&mut self, intervals)`. -/
def remove (s : IvList) (intervals : IvList) : IvList := removeLoop s intervals []

/-! ## `intersect` -/

/-- The inner `for self_iv in self.intervals()` loop of `intersect`. -/
def intersectInner (iv : Interval) : (selfIvs : IvList) → (newIvs : IvList) → IvList
  | [], acc => acc
  | selfIv :: rest, acc =>
    let acc :=
      if iv.overlaps selfIv then
        acc ++ [{ first := max iv.first selfIv.first, last := min iv.last selfIv.last }]
      else acc
    intersectInner iv rest acc

/-- The outer `for iv in intervals` loop of `intersect`. -/
def intersectLoop (selfIvs : IvList) : (intervals : IvList) → (newIvs : IvList) → IvList
  | [], acc => acc
  | iv :: rest, acc => intersectLoop selfIvs rest (intersectInner iv selfIvs acc)

/-- `CodePointSet::intersect(&mut self, intervals)`. -/
def intersect (s : IvList) (intervals : IvList) : IvList := intersectLoop s intervals []

/-! ## Examples (the Rust unit tests) -/

-- #eval add (add (add [] ⟨10, 20⟩) ⟨30, 40⟩) ⟨15, 35⟩            -- [⟨10, 40⟩]
-- #eval addOne (addOne (addOne [] 10) 20) 15                       -- [⟨10,10⟩, ⟨15,15⟩, ⟨20,20⟩]
-- #eval addSet [⟨10, 20⟩, ⟨30, 40⟩] [⟨15, 25⟩, ⟨35, 45⟩]            -- [⟨10,25⟩, ⟨30,45⟩]
-- #eval inverted [⟨10, 20⟩, ⟨30, 40⟩]                               -- [⟨0,9⟩, ⟨21,29⟩, ⟨41,0x10FFFF⟩]
-- #eval remove [⟨0, 10⟩, ⟨20, 30⟩] [⟨2, 3⟩, ⟨5, 6⟩, ⟨9, 25⟩]         -- [⟨0,1⟩, ⟨4,4⟩, ⟨7,8⟩, ⟨26,30⟩]
-- #eval intersect [⟨0, 10⟩, ⟨20, 30⟩] [⟨5, 25⟩, ⟨28, 100⟩]          -- [⟨5,10⟩, ⟨20,25⟩, ⟨28,30⟩]

end Regress.CPS
