import RegressModel.Text.Utf8
/-!
# `regress::escape` (`src/api.rs`)

Input: the chars of `text`. `escapeChars` is the sequence of `result.push(_)` calls (as chars);
`escape` is the resulting `String` as UTF-8 bytes.
-/
namespace Regress.Api

/-- The 14 characters of the `match c` arm: `\ ^ $ . | ? * + ( ) [ ] { }`. -/
def isSpecial (c : Nat) : Bool :=
  c == 0x5C || c == 0x5E || c == 0x24 || c == 0x2E || c == 0x7C || c == 0x3F || c == 0x2A ||
  c == 0x2B || c == 0x28 || c == 0x29 || c == 0x5B || c == 0x5D || c == 0x7B || c == 0x7D

/-- The `for c in text.chars()` loop of `escape`, as the list of pushed chars. -/
def escapeChars : List Nat → List Nat
  | [] => []
  | c :: cs => if isSpecial c then 0x5C :: c :: escapeChars cs else c :: escapeChars cs

/-- `escape(text)` as bytes. -/
def escape (text : List Nat) : List Nat := Utf8.encodeAll (escapeChars text)

/-- Reading an escaped string back: a backslash is dropped and the next char is kept verbatim. -/
def unescape : List Nat → List Nat
  | [] => []
  | [c] => [c]
  | c :: d :: cs => if c == 0x5C then d :: unescape cs else c :: unescape (d :: cs)

end Regress.Api
