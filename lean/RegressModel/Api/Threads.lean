import RegressModel.Basic
/-!
# Threads sharing one compiled regex

`Regex` is plain immutable data (`CompiledRegex`: vectors of instructions and brackets, counters,
names, flags); every `find*` call builds a *fresh* executor (`Executor::new(&re.cr, text)`:
`MatchAttempter` with its own `bts`, `loops`, `groups`) that borrows the regex immutably.  A search
is therefore a sequence of steps on executor-local state, parameterised by the shared program:

    step : Prog → ExecState → ExecState          -- the program is an argument, never a result

A system of threads is a list of executor states; a schedule is a list of thread indices; one
scheduled step applies `step prog` to that thread's state and leaves every other state alone.
What Lean cannot express — that the Rust types really contain no interior mutability and are
`Send + Sync` — is tied separately (type inventory generated from the source, compile-time
auto-trait assertion in the harness, multi-thread stress run).
-/
namespace Regress.Api.Threads

/-- One scheduled step: thread `i` advances, the others are untouched. -/
def stepAt {σ : Type} (step : σ → σ) (i : Nat) (sys : List σ) : List σ := sys.modify i step

/-- Run a whole schedule. -/
def runSchedule {σ : Type} (step : σ → σ) (sched : List Nat) (sys : List σ) : List σ :=
  sched.foldl (fun s i => stepAt step i s) sys

/-- Sequential reference: thread `i` alone takes `n` steps. -/
def iterate {σ : Type} (step : σ → σ) : Nat → σ → σ
  | 0, s => s
  | n+1, s => iterate step n (step s)

/-- A query answered by a fresh executor: `init q` builds the executor state, `steps` are taken,
`result` reads the answer off the final state. -/
structure Engine (ρ σ α : Type) where
  init : ρ → σ
  step : σ → σ
  result : σ → α

end Regress.Api.Threads
