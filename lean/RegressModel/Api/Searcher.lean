import RegressModel.Basic
/-!
# `pattern_impl::RegexSearcher` (`src/api.rs`, feature `pattern`)

The regex and haystack are abstracted into a `SearchCtx`:
* `findFrom pos`  = the range of `regex.find_from(haystack, pos).next()`,
* `allMatches`    = the ranges of `regex.find_from(haystack, 0)` drained,
* `isBoundary`    = `haystack.is_char_boundary`,
* `len`           = `haystack.len()`.

`Regex::find_from` starts with
`assert!(start >= text.len() || text.is_char_boundary(start))`; that panic is `Except.error ()`.
-/
namespace Regress.Api

structure SearchCtx where
  len : Nat
  findFrom : Nat → Option (Nat × Nat)
  allMatches : List (Nat × Nat)
  isBoundary : Nat → Bool

/-- `core::str::pattern::SearchStep`. -/
inductive SearchStep where
  | «match» (s e : Nat)
  | reject (s e : Nat)
  | done
deriving Repr, DecidableEq

/-- `RegexSearcher` (without the borrowed `haystack` / `regex`). -/
structure RegexSearcher where
  currentPos : Nat
  done : Bool
  reversePos : Nat
  reverseDone : Bool
deriving Repr, DecidableEq

/-- `RegexSearcher::new`. -/
def RegexSearcher.new (ctx : SearchCtx) : RegexSearcher :=
  { currentPos := 0, done := false, reversePos := ctx.len, reverseDone := false }

/-- `regex.find_from(haystack, pos).next()` including the assertion of `find_from`. -/
def SearchCtx.findFromChecked (ctx : SearchCtx) (pos : Nat) : Except Unit (Option (Nat × Nat)) :=
  if pos ≥ ctx.len || ctx.isBoundary pos then .ok (ctx.findFrom pos) else .error ()

/-- `while next_pos < len && !is_char_boundary(next_pos) { next_pos += 1 }` (fuel ≥ `len - next_pos`). -/
def advanceToBoundary (ctx : SearchCtx) : Nat → Nat → Nat
  | 0, nextPos => nextPos
  | fuel + 1, nextPos =>
    if nextPos < ctx.len && !ctx.isBoundary nextPos then advanceToBoundary ctx fuel (nextPos + 1)
    else nextPos

/-- `while prev_pos > 0 && !is_char_boundary(prev_pos) { prev_pos -= 1 }`. -/
def retreatToBoundary (ctx : SearchCtx) : Nat → Nat
  | 0 => 0
  | p + 1 => if !ctx.isBoundary (p + 1) then retreatToBoundary ctx p else p + 1

/-- `Searcher::next`. -/
def RegexSearcher.next (ctx : SearchCtx) (s : RegexSearcher) :
    Except Unit (SearchStep × RegexSearcher) :=
  if s.done then .ok (.done, s)
  else
    match ctx.findFromChecked s.currentPos with
    | .error () => .error ()
    | .ok (some (matchStart, matchEnd)) =>
      if s.currentPos < matchStart then
        .ok (.reject s.currentPos matchStart, { s with currentPos := matchStart })
      else
        -- self.current_pos = match_end;
        let s := { s with currentPos := matchEnd }
        let s :=
          if matchStart == matchEnd then
            if matchEnd < ctx.len then
              { s with currentPos := advanceToBoundary ctx (ctx.len - (matchEnd + 1)) (matchEnd + 1) }
            else { s with done := true }
          else s
        .ok (.match matchStart matchEnd, s)
    | .ok none =>
      if s.currentPos < ctx.len then
        .ok (.reject s.currentPos ctx.len, { s with currentPos := ctx.len, done := true })
      else .ok (.done, { s with done := true })

/-- The loop of `find_last_match_before`. -/
def findLastLoop (pos : Nat) : Option (Nat × Nat) → List (Nat × Nat) → Option (Nat × Nat)
  | last, [] => last
  | last, m :: ms => if m.2 ≤ pos then findLastLoop pos (some m) ms else last

/-- `RegexSearcher::find_last_match_before` (`find_from(haystack, 0)` cannot panic). -/
def SearchCtx.findLastMatchBefore (ctx : SearchCtx) (pos : Nat) : Option (Nat × Nat) :=
  findLastLoop pos none ctx.allMatches

/-- `ReverseSearcher::next_back`. -/
def RegexSearcher.nextBack (ctx : SearchCtx) (s : RegexSearcher) : SearchStep × RegexSearcher :=
  if s.reverseDone then (.done, s)
  else
    match ctx.findLastMatchBefore s.reversePos with
    | some (matchStart, matchEnd) =>
      if matchEnd < s.reversePos then
        (.reject matchEnd s.reversePos, { s with reversePos := matchEnd })
      else
        let s := { s with reversePos := matchStart }
        let s :=
          if matchStart == matchEnd then
            if matchStart > 0 then
              { s with reversePos := retreatToBoundary ctx (matchStart - 1) }
            else { s with reverseDone := true }
          else s
        (.match matchStart matchEnd, s)
    | none =>
      if s.reversePos > 0 then
        (.reject 0 s.reversePos, { s with reversePos := 0, reverseDone := true })
      else (.done, { s with reverseDone := true })

/-- Call `next()` until it returns `Done` (not included), at most `fuel` times.
`none` = a panic or fuel exhausted. -/
def forwardStepsFuel (ctx : SearchCtx) : Nat → RegexSearcher → Option (List SearchStep)
  | 0, _ => none
  | fuel + 1, s =>
    match s.next ctx with
    | .error () => none
    | .ok (.done, _) => some []
    | .ok (step, s') =>
      match forwardStepsFuel ctx fuel s' with
      | none => none
      | some steps => some (step :: steps)

/-- All steps of a fresh searcher driven forwards. -/
def forwardSteps (ctx : SearchCtx) : Option (List SearchStep) :=
  forwardStepsFuel ctx (2 * ctx.len + 4) (RegexSearcher.new ctx)

/-- Call `next_back()` until it returns `Done` (not included), at most `fuel` times. -/
def backwardStepsFuel (ctx : SearchCtx) : Nat → RegexSearcher → Option (List SearchStep)
  | 0, _ => none
  | fuel + 1, s =>
    match s.nextBack ctx with
    | (.done, _) => some []
    | (step, s') =>
      match backwardStepsFuel ctx fuel s' with
      | none => none
      | some steps => some (step :: steps)

/-- All steps of a fresh searcher driven backwards. -/
def backwardSteps (ctx : SearchCtx) : Option (List SearchStep) :=
  backwardStepsFuel ctx (2 * ctx.len + 4) (RegexSearcher.new ctx)

/-- The first match starting at or after `pos` in a list of match ranges that is sorted by start;
used to build a `findFrom` from a concrete match list. NOTE: this is only the behaviour of
`find_from(h, pos).next()` when restarting the search at `pos` finds one of the matches of the
scan from 0 (true e.g. for patterns without lookbehind whose matches from 0 are the leftmost ones). -/
def firstAtOrAfter (ms : List (Nat × Nat)) (pos : Nat) : Option (Nat × Nat) :=
  ms.find? (fun m => pos ≤ m.1)

end Regress.Api
