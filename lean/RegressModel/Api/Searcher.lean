import RegressModel.Basic
/-!
# `pattern_impl::RegexSearcher` (`src/api.rs`, feature `pattern`)

Model of the searcher as rewritten in commit "fix: make the Pattern searcher's steps tile the
haystack". (The model of the previous, defective code and its counterexamples are kept in
`Proofs/Lemmas/Regressions.lean`.)

The regex and haystack are abstracted into a `SearchCtx`:
* `len`            = `haystack.len()`,
* `findFrom pos`   = the range of `regex.find_from(haystack, pos).next()`,
* `isBoundary`     = `haystack.is_char_boundary`,
* `nextBoundary e` = `haystack[e..].chars().next().map(|c| e + c.len_utf8())`
                     (`none` when there is no char at `e`, i.e. at the end).

Panic sites are explicit `SearchError`s:
* `Regex::find_from` starts with `assert!(start >= text.len() || text.is_char_boundary(start))`;
* `self.haystack[m.end()..]` panics unless `m.end()` is a char boundary of the haystack
  (which includes `m.end() <= len`);
* `steps[*front - 1]` is a checked `Vec` index.
The unbounded `loop` of `next_back` gets a fuel argument (`outOfFuel` is a model artefact; C20 proves
that the fuel used by `nextBack` always suffices).
-/
namespace Regress.Api

structure SearchCtx where
  len : Nat
  findFrom : Nat → Option (Nat × Nat)
  isBoundary : Nat → Bool
  nextBoundary : Nat → Option Nat

/-- `core::str::pattern::SearchStep`. -/
inductive SearchStep where
  | «match» (s e : Nat)
  | reject (s e : Nat)
  | done
deriving Repr, DecidableEq

inductive SearchError where
  /-- the `assert!` of `Regex::find_from` -/
  | findFromAssert
  /-- `haystack[m.end()..]` not on a char boundary -/
  | sliceBoundary
  /-- `steps[*front - 1]` out of bounds -/
  | indexOutOfBounds
  /-- model artefact: fuel of the `loop` in `next_back` exhausted -/
  | outOfFuel
deriving Repr, DecidableEq

/-- `RegexSearcher` (without the borrowed `haystack` / `regex`).
`remaining` is the `Option<(Vec<SearchStep>, usize)>`: the vector as a list in index order. -/
structure RegexSearcher where
  reportedPos : Nat
  searchPos : Option Nat
  remaining : Option (List SearchStep × Nat)
deriving Repr, DecidableEq

/-- `RegexSearcher::new`. -/
def RegexSearcher.new : RegexSearcher :=
  { reportedPos := 0, searchPos := some 0, remaining := none }

/-- `regex.find_from(haystack, pos).next()` including the assertion of `find_from`. -/
def SearchCtx.findFromChecked (ctx : SearchCtx) (pos : Nat) :
    Except SearchError (Option (Nat × Nat)) :=
  if pos ≥ ctx.len || ctx.isBoundary pos then .ok (ctx.findFrom pos) else .error .findFromAssert

/-- `self.haystack[e..].chars().next().map(|c| e + c.len_utf8())` including the slicing check. -/
def SearchCtx.sliceCharsNext (ctx : SearchCtx) (e : Nat) : Except SearchError (Option Nat) :=
  if e ≤ ctx.len && ctx.isBoundary e then .ok (ctx.nextBoundary e) else .error .sliceBoundary

/-- `RegexSearcher::forward_step`. -/
def RegexSearcher.forwardStep (ctx : SearchCtx) (s : RegexSearcher) :
    Except SearchError (SearchStep × RegexSearcher) :=
  -- let next_match = self.search_pos.and_then(|pos| self.regex.find_from(self.haystack, pos).next());
  let nextMatch : Except SearchError (Option (Nat × Nat)) :=
    match s.searchPos with
    | none => .ok none
    | some pos => ctx.findFromChecked pos
  match nextMatch with
  | .error err => .error err
  | .ok none =>
    -- No more matches: reject the remaining text, if any.
    let s := { s with searchPos := none }
    if s.reportedPos < ctx.len then
      .ok (.reject s.reportedPos ctx.len, { s with reportedPos := ctx.len })
    else .ok (.done, s)
  | .ok (some (mStart, mEnd)) =>
    -- Report the gap before the match first; the match itself is found again by the next call.
    if s.reportedPos < mStart then
      .ok (.reject s.reportedPos mStart, { s with reportedPos := mStart, searchPos := some mStart })
    else if mStart != mEnd then
      .ok (.match mStart mEnd, { s with reportedPos := mEnd, searchPos := some mEnd })
    else
      match ctx.sliceCharsNext mEnd with
      | .error err => .error err
      | .ok sp => .ok (.match mStart mEnd, { s with reportedPos := mEnd, searchPos := sp })

/-- `Searcher::next`. -/
def RegexSearcher.next (ctx : SearchCtx) (s : RegexSearcher) :
    Except SearchError (SearchStep × RegexSearcher) :=
  match s.remaining with
  | none => s.forwardStep ctx
  | some (steps, front) =>
    if front < steps.length then
      -- *front += 1; steps[*front - 1]
      match steps[front + 1 - 1]? with
      | some st => .ok (st, { s with remaining := some (steps, front + 1) })
      | none => .error .indexOutOfBounds
    else .ok (.done, s)

/-- The `loop { match self.forward_step() { Done => break, step => steps.push(step) } }` of
`next_back`, with fuel. -/
def collectLoop (ctx : SearchCtx) :
    Nat → RegexSearcher → List SearchStep → Except SearchError (List SearchStep × RegexSearcher)
  | 0, _, _ => .error .outOfFuel
  | fuel + 1, s, steps =>
    match s.forwardStep ctx with
    | .error err => .error err
    | .ok (st, s') =>
      if st = .done then .ok (steps, s') else collectLoop ctx fuel s' (steps ++ [st])

/-- The `if self.remaining.is_none() { … }` block of `next_back`. -/
def RegexSearcher.fillRemaining (ctx : SearchCtx) (fuel : Nat) (s : RegexSearcher) :
    Except SearchError RegexSearcher :=
  match s.remaining with
  | some _ => .ok s
  | none =>
    match collectLoop ctx fuel s [] with
    | .error err => .error err
    | .ok (steps, s') => .ok { s' with remaining := some (steps, 0) }

/-- `ReverseSearcher::next_back`, with the fuel for its loop. -/
def RegexSearcher.nextBackFuel (ctx : SearchCtx) (fuel : Nat) (s : RegexSearcher) :
    Except SearchError (SearchStep × RegexSearcher) :=
  match s.fillRemaining ctx fuel with
  | .error err => .error err
  | .ok s =>
    match s.remaining with
    | some (steps, front) =>
      if front < steps.length then
        -- steps.pop().unwrap_or(SearchStep::Done)
        .ok (steps.getLast?.getD .done, { s with remaining := some (steps.dropLast, front) })
      else .ok (.done, s)
    | none => .ok (.done, s)

/-- `ReverseSearcher::next_back`. The loop makes at most `2 * len + 2` calls of `forward_step`
(`Proofs/Lemmas/Searcher.lean`: `collectLoop_of_run`, `run_exists`; more fuel does not change the result:
`collectLoop_fuel_mono`). -/
def RegexSearcher.nextBack (ctx : SearchCtx) (s : RegexSearcher) :
    Except SearchError (SearchStep × RegexSearcher) :=
  s.nextBackFuel ctx (2 * ctx.len + 2)

/-! ## Drivers -/

/-- Call `next()` until it returns `Done` (not included), at most `fuel` times.
`none` = a panic or fuel exhausted. -/
def forwardStepsFuel (ctx : SearchCtx) : Nat → RegexSearcher → Option (List SearchStep)
  | 0, _ => none
  | fuel + 1, s =>
    match s.next ctx with
    | .error _ => none
    | .ok (st, s') =>
      if st = .done then some []
      else
        match forwardStepsFuel ctx fuel s' with
        | none => none
        | some steps => some (st :: steps)

/-- All steps of a fresh searcher driven forwards. -/
def forwardSteps (ctx : SearchCtx) : Option (List SearchStep) :=
  forwardStepsFuel ctx (2 * ctx.len + 2) RegexSearcher.new

/-- Call `next_back()` until it returns `Done` (not included), at most `fuel` times. -/
def backwardStepsFuel (ctx : SearchCtx) : Nat → RegexSearcher → Option (List SearchStep)
  | 0, _ => none
  | fuel + 1, s =>
    match s.nextBack ctx with
    | .error _ => none
    | .ok (st, s') =>
      if st = .done then some []
      else
        match backwardStepsFuel ctx fuel s' with
        | none => none
        | some steps => some (st :: steps)

/-- All steps of a fresh searcher driven backwards. -/
def backwardSteps (ctx : SearchCtx) : Option (List SearchStep) :=
  backwardStepsFuel ctx (2 * ctx.len + 2) RegexSearcher.new

/-- The observable outcome of a sequence of `next` / `next_back` calls on one searcher. -/
structure RunResult where
  /-- the non-`Done` steps returned by `next`, in call order -/
  fronts : List SearchStep
  /-- the non-`Done` steps returned by `next_back`, in call order -/
  backs : List SearchStep
  /-- `next` has returned `Done` -/
  frontDone : Bool
  /-- `next_back` has returned `Done` -/
  backDone : Bool
  state : RegexSearcher
deriving Repr, DecidableEq

/-- Has the run reached its end: both directions have returned `Done`. -/
def RunResult.finished (r : RunResult) : Bool := r.frontDone && r.backDone

/-- One call (`true` = `next`, `false` = `next_back`) and its bookkeeping: a `Done` sets the flag of its
direction, any other step is appended to `fronts` / `backs` — also if it comes after the `Done` of the
same direction. -/
def RunResult.call (ctx : SearchCtx) (r : RunResult) (op : Bool) : Except SearchError RunResult :=
  if op then
    match r.state.next ctx with
    | .error err => .error err
    | .ok (st, s') =>
      if st = .done then .ok { r with frontDone := true, state := s' }
      else .ok { r with fronts := r.fronts ++ [st], state := s' }
  else
    match r.state.nextBack ctx with
    | .error err => .error err
    | .ok (st, s') =>
      if st = .done then .ok { r with backDone := true, state := s' }
      else .ok { r with backs := r.backs ++ [st], state := s' }

/-- Perform the calls `ops` in order, stopping as soon as both directions have returned `Done`. The
schedule is the fuel: `RunResult.finished` tells whether it was long enough (C20
`interleaved_finishes`: it is as soon as both directions are called once more after the first
`2 * len + 1` calls). -/
def runOpsFrom (ctx : SearchCtx) : List Bool → RunResult → Except SearchError RunResult
  | [], r => .ok r
  | op :: ops, r =>
    if r.finished then .ok r
    else
      match r.call ctx op with
      | .error err => .error err
      | .ok r' => runOpsFrom ctx ops r'

def RunResult.init : RunResult :=
  { fronts := [], backs := [], frontDone := false, backDone := false, state := RegexSearcher.new }

/-- An interleaving of calls on a fresh searcher. -/
def runOps (ctx : SearchCtx) (ops : List Bool) : Except SearchError RunResult :=
  runOpsFrom ctx ops RunResult.init

/-- The raw steps returned by the calls `ops` (all of them, `Done`s included). -/
def callSteps (ctx : SearchCtx) : List Bool → RegexSearcher → Except SearchError (List SearchStep)
  | [], _ => .ok []
  | op :: ops, s =>
    match (if op then s.next ctx else s.nextBack ctx) with
    | .error err => .error err
    | .ok (st, s') =>
      match callSteps ctx ops s' with
      | .error err => .error err
      | .ok l => .ok (st :: l)

/-! ## Building a context from concrete data (for examples and tests) -/

/-- The first match starting at or after `pos` in a list of match ranges sorted by start.
NOTE: this is the behaviour of `find_from(h, pos).next()` only when restarting the search at `pos`
finds one of the matches of the scan from 0 and `pos` is not inside such a match. -/
def firstAtOrAfter (ms : List (Nat × Nat)) (pos : Nat) : Option (Nat × Nat) :=
  ms.find? (fun m => pos ≤ m.1)

/-- A context from the haystack length, its char boundaries (sorted, including 0 and `len`) and the
matches of `find_iter`. -/
def SearchCtx.ofMatches (len : Nat) (bounds : List Nat) (ms : List (Nat × Nat)) : SearchCtx :=
  { len := len
    findFrom := firstAtOrAfter ms
    isBoundary := fun p => bounds.contains p
    nextBoundary := fun e => bounds.find? (fun q => e < q) }

end Regress.Api
