import RegressModel.Basic
/-!
# The match iterator (`src/exec.rs`, `next_match*` of `src/classicalbacktrack.rs`, `src/pikevm.rs`)

The matcher proper (`try_at_pos`) and the input primitives are abstracted into a `SearchEnv`; the
model here is the *iteration protocol* built on top of them:

* `nextMatchPrefix`   = `BacktrackExecutor::next_match_with_prefix_search` (the `loop`),
* `nextMatchAnchored` = `BacktrackExecutor::next_match_anchored`,
* `pikeNextMatch`     = `PikeVMExecutor::next_match` (anchored / standard),
* `initialPosition`   = `MatchProducer::initial_position` = `try_move_right(left_end, offset)`,
* `Matches`           = `exec::Matches` (`new`, `next`), `collect` = draining the iterator.

Positions are byte offsets. A successful `next_match` returns the `Match` *and* the value written to
`*next_start`; a failing `next_match` writes nothing to `*next_start` (so `Matches.position` keeps
its old value).
-/
namespace Regress.Api

abbrev Caps := List (Option (Nat × Nat))

/-- Everything the iteration protocol needs to know about the regex and the haystack. -/
structure SearchEnv where
  /-- haystack length in bytes (`right_end`). -/
  len : Nat
  /-- `matcher.try_at_pos(inp, 0, pos, Forward)`: end position and the capture ranges. -/
  attempt : Nat → Option (Nat × Caps)
  /-- `Input::next_right_pos`. -/
  nextRightPos : Nat → Option Nat
  /-- `inp.find_bytes(pos, prefix_search)`; for `bytesearch::EmptyString` this is `some`. -/
  findBytes : Nat → Option Nat
  /-- `re.group_names` (cloned into every `Match`): `[]` if no group is named, otherwise one entry
  per group (`[]` = unnamed). Not used by the search itself. -/
  names : List (List Nat) := []

/-- `api::Match`. -/
structure MatchR where
  range : Nat × Nat
  captures : Caps
  names : List (List Nat)
deriving Repr, DecidableEq, Inhabited

/-- `successful_match(start, end)`. -/
def SearchEnv.successfulMatch (env : SearchEnv) (s e : Nat) (caps : Caps) : MatchR :=
  { range := (s, e), captures := caps, names := env.names }

/-- The value written to `*next_start` after a match `[pos, e)`:
`if end != pos { Some(end) } else { inp.next_right_pos(end) }`. -/
def SearchEnv.nextStart (env : SearchEnv) (pos e : Nat) : Option Nat :=
  if e ≠ pos then some e else env.nextRightPos e

/-- `next_match_with_prefix_search`; the `loop` is unrolled `fuel` times.
Result: `none` = the function returned `None` (and did not touch `*next_start`);
`some (m, ns)` = returned `Some(m)` after `*next_start = ns`.
Running out of fuel also gives `none`; `nextMatchPrefixFuel_stable` shows that with `EnvOK` this
never happens for `fuel ≥ len + 1 - pos`. -/
def nextMatchPrefixFuel (env : SearchEnv) : Nat → Nat → Option (MatchR × Option Nat)
  | 0, _ => none
  | fuel + 1, pos =>
    -- pos = inp.find_bytes(pos, prefix_search)?;
    match env.findBytes pos with
    | none => none
    | some pos =>
      -- if let Some(end) = self.matcher.try_at_pos(inp, 0, pos, Forward::new())
      match env.attempt pos with
      | some (e, caps) => some (env.successfulMatch pos e caps, env.nextStart pos e)
      | none =>
        -- pos = inp.next_right_pos(pos)?;
        match env.nextRightPos pos with
        | none => none
        | some pos' => nextMatchPrefixFuel env fuel pos'

/-- `next_match_with_prefix_search` with enough fuel (`len + 2`). -/
def nextMatchPrefix (env : SearchEnv) (pos : Nat) : Option (MatchR × Option Nat) :=
  nextMatchPrefixFuel env (env.len + 2) pos

/-- `next_match_anchored`. -/
def nextMatchAnchored (env : SearchEnv) (pos : Nat) : Option (MatchR × Option Nat) :=
  match env.attempt pos with
  | some (e, caps) => some (env.successfulMatch pos e caps, env.nextStart pos e)
  | none => none

/-- The standard (`loop`) branch of `PikeVMExecutor::next_match`. Never calls `find_bytes`. -/
def pikeNextMatchStdFuel (env : SearchEnv) : Nat → Nat → Option (MatchR × Option Nat)
  | 0, _ => none
  | fuel + 1, start =>
    match env.attempt start with
    | some (e, caps) => some (env.successfulMatch start e caps, env.nextStart start e)
    | none =>
      match env.nextRightPos start with
      | some nextpos => pikeNextMatchStdFuel env fuel nextpos
      | none => none

/-- `PikeVMExecutor::next_match`; `anchored` = `matches!(re.start_pred, StartAnchored)`. -/
def pikeNextMatch (env : SearchEnv) (anchored : Bool) (pos : Nat) : Option (MatchR × Option Nat) :=
  if anchored then
    match env.attempt pos with
    | some (e, caps) => some (env.successfulMatch pos e caps, env.nextStart pos e)
    | none => none
  else pikeNextMatchStdFuel env (env.len + 2) pos

/-- Which `MatchProducer::next_match` is running. `btPrefix` covers every `StartPredicate` of the
backtracking executor except `StartAnchored` (for `Arbitrary` take `findBytes := some`). -/
inductive Kind where
  | btPrefix
  | btAnchored
  | pike (anchored : Bool)
deriving Repr, DecidableEq

/-- `MatchProducer::next_match` by executor kind. -/
def nextMatch (env : SearchEnv) : Kind → Nat → Option (MatchR × Option Nat)
  | .btPrefix, pos => nextMatchPrefix env pos
  | .btAnchored, pos => nextMatchAnchored env pos
  | .pike a, pos => pikeNextMatch env a pos

/-- `initial_position(offset)` = `try_move_right(left_end, offset)`:
`if right_end - 0 < offset { None } else { Some(0 + offset) }`. -/
def initialPosition (env : SearchEnv) (offset : Nat) : Option Nat :=
  if env.len - 0 < offset then none else some (0 + offset)

/-- `exec::Matches` (the producer is `env` + `Kind`). -/
structure Matches where
  position : Option Nat
deriving Repr, DecidableEq

/-- `Matches::new`. -/
def Matches.new (env : SearchEnv) (start : Nat) : Matches := ⟨initialPosition env start⟩

/-- `Matches::next`: `let pos = self.position?; self.mp.next_match(pos, &mut self.position)`.
`self.position` is overwritten only when `next_match` succeeds. -/
def Matches.next (env : SearchEnv) (k : Kind) (it : Matches) : Option MatchR × Matches :=
  match it.position with
  | none => (none, it)
  | some pos =>
    match nextMatch env k pos with
    | none => (none, it)
    | some (m, ns) => (some m, ⟨ns⟩)

/-- Drain the iterator: all results until the first `None`, at most `fuel` of them. -/
def Matches.collectFuel (env : SearchEnv) (k : Kind) : Nat → Matches → List MatchR
  | 0, _ => []
  | fuel + 1, it =>
    match it.next env k with
    | (none, _) => []
    | (some m, it') => m :: Matches.collectFuel env k fuel it'

/-- Drain the iterator (fuel `len + 2`; see `collectFuel_stable`). -/
def Matches.collect (env : SearchEnv) (k : Kind) (it : Matches) : List MatchR :=
  Matches.collectFuel env k (env.len + 2) it

/-- `re.find_from(text, start).collect()` for executor kind `k`. -/
def collectK (env : SearchEnv) (k : Kind) (start : Nat) : List MatchR :=
  (Matches.new env start).collect env k

/-- `re.find_from(text, start).collect()` for the default (backtracking, non-anchored) executor. -/
def collect (env : SearchEnv) (start : Nat) : List MatchR := collectK env .btPrefix start

/-- The hypotheses on the environment under which the fuel suffices and the iterator theorems hold.
All of them only constrain in-range positions `p ≤ len` (the iterator never leaves that range).
(`next_right_pos(len) = None` follows from `next_gt`; that `next_right_pos` is `Some` below `len`
is not needed by any theorem.) -/
structure EnvOK (env : SearchEnv) : Prop where
  attempt_range : ∀ p e c, p ≤ env.len → env.attempt p = some (e, c) → p ≤ e ∧ e ≤ env.len
  next_gt : ∀ p q, p ≤ env.len → env.nextRightPos p = some q → p < q ∧ q ≤ env.len
  find_range : ∀ p q, p ≤ env.len → env.findBytes p = some q → p ≤ q ∧ q ≤ env.len

end Regress.Api
