import RegressModel.Api.Match
import RegressModel.Text.Utf8
/-!
# `Regex::{replace, replace_all, replace_with, replace_all_with, expand_replacement}` (`src/api.rs`)

`text` is the haystack as a list of bytes; a replacement template is a list of chars; the output
`String` is a list of bytes (`output.push(ch)` appends `Utf8.encode ch`).

`&text[a..b]` is modelled by the total function `slice`; Rust panics when `a > b`, `b > len` or
an end is not a char boundary. Those panics are *not* modelled: the theorems about `replace*` carry
the hypothesis that the match ranges are in range and ordered (which is what the iterator delivers).
-/
namespace Regress.Api

/-- `types::MAX_CAPTURE_GROUPS`. -/
def MAX_CAPTURE_GROUPS : Nat := 65535

/-- `&text[s..e]` (for `s ≤ e ≤ text.length`). -/
def slice (text : List Nat) (s e : Nat) : List Nat := (text.take e).drop s

/-- `char::is_ascii_digit`. -/
def isAsciiDigit (c : Nat) : Bool := 0x30 ≤ c && c ≤ 0x39

/-- The `while let Some(&digit) = chars.peek()` loop of the `$digits` case: returns the final
`group_num` and the chars left in the iterator. After the `break` on
`group_num > MAX_CAPTURE_GROUPS` the remaining digits stay in the iterator. -/
def parseGroupNum : Nat → List Nat → Nat × List Nat
  | groupNum, [] => (groupNum, [])
  | groupNum, digit :: rest =>
    if isAsciiDigit digit then
      let groupNum := groupNum * 10 + (digit - 0x30)
      if groupNum > MAX_CAPTURE_GROUPS then (groupNum, rest)
      else parseGroupNum groupNum rest
    else (groupNum, digit :: rest)

/-- The `for ch in chars.by_ref()` loop of the `${name}` case: `(name, found_closing_brace, rest)`. -/
def readName : List Nat → List Nat → List Nat × Bool × List Nat
  | name, [] => (name, false, [])
  | name, ch :: rest =>
    if ch == 0x7D then (name, true, rest)        -- '}'
    else readName (name ++ [ch]) rest

/-- `expand_replacement`: the bytes appended to `output`. The `while let Some(ch) = chars.next()`
loop is unrolled `fuel` times (`fuel ≥` number of chars suffices). -/
def expandFuel (m : MatchR) (text : List Nat) : Nat → List Nat → List Nat
  | 0, _ => []
  | _ + 1, [] => []
  | fuel + 1, ch :: chars =>
    if ch == 0x24 then                              -- '$'
      match chars with
      | [] => [0x24]                               -- `$` at the end
      | pk :: chars' =>
        if pk == 0x24 then                         -- `$$`
          0x24 :: expandFuel m text fuel chars'
        else if isAsciiDigit pk then
          let (groupNum, rest) := parseGroupNum 0 chars
          (match m.group groupNum with
           | some range => slice text range.1 range.2
           | none => []) ++ expandFuel m text fuel rest
        else if pk == 0x7B then                    -- `${`
          let (name, found, rest) := readName [] chars'
          if found then
            (match m.namedGroup name with
             | some range => slice text range.1 range.2
             | none => []) ++ expandFuel m text fuel rest
          else
            -- push_str("${"); push_str(&name)   (here `rest = []`)
            [0x24, 0x7B] ++ Utf8.encodeAll name ++ expandFuel m text fuel rest
        else
          0x24 :: expandFuel m text fuel chars     -- the peeked char is not consumed
    else
      Utf8.encode ch ++ expandFuel m text fuel chars

/-- `expand_replacement(m, text, replacement, &mut output)`: the bytes appended to `output`. -/
def expandReplacement (m : MatchR) (text : List Nat) (replacement : List Nat) : List Nat :=
  expandFuel m text (replacement.length + 1) replacement

/-- The body shared by `replace_all` and `replace_all_with`: the `for m in find_iter(text)` loop
with accumulator `last_end`, followed by `push_str(&text[last_end..])`. -/
def replaceAllLoop (text : List Nat) (f : MatchR → List Nat) : Nat → List MatchR → List Nat
  | lastEnd, [] => slice text lastEnd text.length
  | lastEnd, m :: ms =>
    slice text lastEnd m.range.1 ++ f m ++ replaceAllLoop text f m.range.2 ms

/-- `replace_all_with`; `ms` = `find_iter(text)` drained. -/
def replaceAllWith (text : List Nat) (ms : List MatchR) (f : MatchR → List Nat) : List Nat :=
  replaceAllLoop text f 0 ms

/-- `replace_all`. -/
def replaceAll (text : List Nat) (ms : List MatchR) (replacement : List Nat) : List Nat :=
  replaceAllLoop text (fun m => expandReplacement m text replacement) 0 ms

/-- `replace_with`; `self.find(text)` is the head of `ms`. -/
def replaceWith (text : List Nat) (ms : List MatchR) (f : MatchR → List Nat) : List Nat :=
  match ms.head? with
  | some m => slice text 0 m.range.1 ++ f m ++ slice text m.range.2 text.length
  | none => text

/-- `replace`. -/
def replace (text : List Nat) (ms : List MatchR) (replacement : List Nat) : List Nat :=
  match ms.head? with
  | some m =>
    slice text 0 m.range.1 ++ expandReplacement m text replacement ++
      slice text m.range.2 text.length
  | none => text

end Regress.Api
