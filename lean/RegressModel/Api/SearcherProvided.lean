import RegressModel.Api.Searcher
/-!
# The provided methods of `core::str::pattern::Searcher` / `ReverseSearcher` on `RegexSearcher`

`src/api.rs`, module `pattern_impl`, implements only `haystack`, `next` (`Searcher`) and `next_back`
(`ReverseSearcher`) for `RegexSearcher`. The four other methods of the traits are therefore the PROVIDED
ones of `core::str::pattern` (library/core/src/str/pattern.rs), which `RegexSearcher` does not override:

```rust
fn next_match(&mut self) -> Option<(usize, usize)> {
    loop { match self.next() { SearchStep::Match(a, b) => return Some((a, b)),
                               SearchStep::Done => return None,
                               _ => continue } } }
fn next_reject(&mut self) -> Option<(usize, usize)> {
    loop { match self.next() { SearchStep::Reject(a, b) => return Some((a, b)),
                               SearchStep::Done => return None,
                               _ => continue } } }
fn next_match_back(&mut self)  // the same over `self.next_back()`
fn next_reject_back(&mut self) // the same over `self.next_back()`
```

They are modelled here as fuel loops over the existing `RegexSearcher.next` / `RegexSearcher.nextBack`
(`RegressModel/Api/Searcher.lean`). Fuel exhaustion is the explicit error `SearchError.outOfFuel` (a
model artefact, never a default value); the fuel used is `2 * len + 2`, which
`Proofs/C20Provided.lean` (`provided_never_out_of_fuel`) proves sufficient in every state reachable
from a fresh searcher. A panic inside `next` / `next_back` propagates unchanged.

`callOps` runs an arbitrary sequence of the six methods on ONE searcher state and returns what each call
returned. `SOp.ofChar` / `SOpResult.show` are the line format used by the IO driver.
-/
namespace Regress.Api

/-- The six methods of `Searcher` / `ReverseSearcher` that advance a searcher. -/
inductive SOp where
  | next
  | nextBack
  | nextMatch
  | nextReject
  | nextMatchBack
  | nextRejectBack
deriving Repr, DecidableEq

/-- What a call returns: a `SearchStep` (`next`, `next_back`) or an `Option<(usize, usize)>` (the four
provided methods). -/
inductive SOpResult where
  | step (st : SearchStep)
  | range (r : Option (Nat × Nat))
deriving Repr, DecidableEq

/-- `Searcher::next_match` (provided), the `loop` with fuel. -/
def RegexSearcher.nextMatchFuel (ctx : SearchCtx) :
    Nat → RegexSearcher → Except SearchError (Option (Nat × Nat) × RegexSearcher)
  | 0, _ => .error .outOfFuel
  | fuel + 1, s =>
    match s.next ctx with
    | .error err => .error err
    | .ok (.match a b, s') => .ok (some (a, b), s')
    | .ok (.done, s') => .ok (none, s')
    | .ok (_, s') => RegexSearcher.nextMatchFuel ctx fuel s'

/-- `Searcher::next_reject` (provided), the `loop` with fuel. -/
def RegexSearcher.nextRejectFuel (ctx : SearchCtx) :
    Nat → RegexSearcher → Except SearchError (Option (Nat × Nat) × RegexSearcher)
  | 0, _ => .error .outOfFuel
  | fuel + 1, s =>
    match s.next ctx with
    | .error err => .error err
    | .ok (.reject a b, s') => .ok (some (a, b), s')
    | .ok (.done, s') => .ok (none, s')
    | .ok (_, s') => RegexSearcher.nextRejectFuel ctx fuel s'

/-- `ReverseSearcher::next_match_back` (provided), the `loop` with fuel. -/
def RegexSearcher.nextMatchBackFuel (ctx : SearchCtx) :
    Nat → RegexSearcher → Except SearchError (Option (Nat × Nat) × RegexSearcher)
  | 0, _ => .error .outOfFuel
  | fuel + 1, s =>
    match s.nextBack ctx with
    | .error err => .error err
    | .ok (.match a b, s') => .ok (some (a, b), s')
    | .ok (.done, s') => .ok (none, s')
    | .ok (_, s') => RegexSearcher.nextMatchBackFuel ctx fuel s'

/-- `ReverseSearcher::next_reject_back` (provided), the `loop` with fuel. -/
def RegexSearcher.nextRejectBackFuel (ctx : SearchCtx) :
    Nat → RegexSearcher → Except SearchError (Option (Nat × Nat) × RegexSearcher)
  | 0, _ => .error .outOfFuel
  | fuel + 1, s =>
    match s.nextBack ctx with
    | .error err => .error err
    | .ok (.reject a b, s') => .ok (some (a, b), s')
    | .ok (.done, s') => .ok (none, s')
    | .ok (_, s') => RegexSearcher.nextRejectBackFuel ctx fuel s'

/-- The fuel given to the loops of the provided methods: a searcher has at most `2 * len + 1` steps
before `Done` (C20 `forward_tiles`), so at most `2 * len + 2` calls of `next` / `next_back` are made. -/
def providedFuel (ctx : SearchCtx) : Nat := 2 * ctx.len + 2

def RegexSearcher.nextMatch (ctx : SearchCtx) (s : RegexSearcher) :=
  s.nextMatchFuel ctx (providedFuel ctx)
def RegexSearcher.nextReject (ctx : SearchCtx) (s : RegexSearcher) :=
  s.nextRejectFuel ctx (providedFuel ctx)
def RegexSearcher.nextMatchBack (ctx : SearchCtx) (s : RegexSearcher) :=
  s.nextMatchBackFuel ctx (providedFuel ctx)
def RegexSearcher.nextRejectBack (ctx : SearchCtx) (s : RegexSearcher) :=
  s.nextRejectBackFuel ctx (providedFuel ctx)

/-- One call of the method `op` on the searcher `s`. -/
def SOp.call (ctx : SearchCtx) (op : SOp) (s : RegexSearcher) :
    Except SearchError (SOpResult × RegexSearcher) :=
  match op with
  | .next =>
    match s.next ctx with
    | .error err => .error err
    | .ok (st, s') => .ok (.step st, s')
  | .nextBack =>
    match s.nextBack ctx with
    | .error err => .error err
    | .ok (st, s') => .ok (.step st, s')
  | .nextMatch =>
    match s.nextMatch ctx with
    | .error err => .error err
    | .ok (r, s') => .ok (.range r, s')
  | .nextReject =>
    match s.nextReject ctx with
    | .error err => .error err
    | .ok (r, s') => .ok (.range r, s')
  | .nextMatchBack =>
    match s.nextMatchBack ctx with
    | .error err => .error err
    | .ok (r, s') => .ok (.range r, s')
  | .nextRejectBack =>
    match s.nextRejectBack ctx with
    | .error err => .error err
    | .ok (r, s') => .ok (.range r, s')

/-- The calls `ops`, in order, on ONE searcher: what each of them returned. The first panic (or fuel
exhaustion) aborts the run. -/
def callOps (ctx : SearchCtx) : List SOp → RegexSearcher → Except SearchError (List SOpResult)
  | [], _ => .ok []
  | op :: ops, s =>
    match op.call ctx s with
    | .error err => .error err
    | .ok (r, s') =>
      match callOps ctx ops s' with
      | .error err => .error err
      | .ok l => .ok (r :: l)

/-! ## Line format for the driver -/

/-- `n` next, `b` next_back, `m` next_match, `r` next_reject, `M` next_match_back,
`R` next_reject_back. -/
def SOp.ofChar : Char → Option SOp
  | 'n' => some .next
  | 'b' => some .nextBack
  | 'm' => some .nextMatch
  | 'r' => some .nextReject
  | 'M' => some .nextMatchBack
  | 'R' => some .nextRejectBack
  | _ => none

/-- All the characters of a string as ops (`none` if one of them is not an op). -/
def SOp.ofString (s : String) : Option (List SOp) :=
  s.toList.mapM SOp.ofChar

/-- Steps as `M{a}-{b}` / `R{a}-{b}` / `D`, options as `S{a}-{b}` (`Some((a, b))`) / `N` (`None`). -/
def SOpResult.show : SOpResult → String
  | .step (.match a b) => s!"M{a}-{b}"
  | .step (.reject a b) => s!"R{a}-{b}"
  | .step .done => "D"
  | .range (some (a, b)) => s!"S{a}-{b}"
  | .range none => "N"

def SearchError.show : SearchError → String
  | .findFromAssert => "findFromAssert"
  | .sliceBoundary => "sliceBoundary"
  | .indexOutOfBounds => "indexOutOfBounds"
  | .outOfFuel => "outOfFuel"

/-- One output line for a run: the results separated by spaces, or `ERR <site>`. -/
def showCallOps (r : Except SearchError (List SOpResult)) : String :=
  match r with
  | .error err => "ERR " ++ err.show
  | .ok l => " ".intercalate (l.map SOpResult.show)

end Regress.Api
