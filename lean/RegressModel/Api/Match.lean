import RegressModel.Api.Iter
/-!
# `Match` accessors (`src/api.rs`): `group`, `Groups`, `named_group`, `NamedGroups`

Names are lists of chars (`List Nat`); two Rust strings are equal iff their char lists are.
An indexing expression `v[i]` that the surrounding code does not guard is a panic site and is
modelled as `Except.error ()`.
-/
namespace Regress.Api

abbrev Range := Nat × Nat

/-- `Match::group`: index 0 is the whole match, index `i ≥ 1` is `captures[i-1]`.
The index `captures[idx - 1]` is guarded by `idx != 0 && idx <= len`, so it cannot panic. -/
def MatchR.group (m : MatchR) (idx : Nat) : Option Range :=
  if h0 : idx = 0 then some m.range
  else if h : idx ≤ m.captures.length then m.captures[idx - 1]'(by omega)
  else none

/-- `api::Groups`. (`mat` is passed separately.) -/
structure Groups where
  nextGroupIdx : Nat
  max : Nat
deriving Repr, DecidableEq

/-- `Groups::new`. -/
def Groups.new (m : MatchR) : Groups := { nextGroupIdx := 0, max := m.captures.length + 1 }

/-- `Groups::next`. -/
def Groups.next (m : MatchR) (g : Groups) : Option (Option Range) × Groups :=
  let i := g.nextGroupIdx
  if i < g.max then (some (m.group i), { g with nextGroupIdx := g.nextGroupIdx + 1 })
  else (none, g)

/-- `Groups::size_hint` (both components are `max.saturating_sub(next_group_idx)`). -/
def Groups.sizeHint (g : Groups) : Nat := g.max - g.nextGroupIdx

/-- Drain a `Groups` iterator. -/
def Groups.collectFuel (m : MatchR) : Nat → Groups → List (Option Range)
  | 0, _ => []
  | fuel + 1, g =>
    match g.next m with
    | (none, _) => []
    | (some x, g') => x :: Groups.collectFuel m fuel g'

/-- `m.groups().collect()` (`max + 1` steps always reach the `None`). -/
def MatchR.groups (m : MatchR) : List (Option Range) :=
  Groups.collectFuel m (m.captures.length + 2) (Groups.new m)

/-- `Match::named_group`:
`zip(group_names, captures).filter(|(s,_)| s == name).find_map(|(_, c)| c.clone())`. -/
def MatchR.namedGroup (m : MatchR) (name : List Nat) : Option Range :=
  if name.isEmpty then none
  else ((m.names.zip m.captures).filter (fun p => p.1 == name)).findSome? (fun p => p.2)

/-- `api::NamedGroups`. -/
structure NamedGroups where
  nextGroupIdx : Nat
deriving Repr, DecidableEq

def NamedGroups.new : NamedGroups := { nextGroupIdx := 0 }

/-- `while idx < end && group_names[idx].is_empty() { idx += 1 }` (fuel ≥ `end - idx`). -/
def skipEmptyNames (names : List (List Nat)) : Nat → Nat → Nat
  | 0, idx => idx
  | fuel + 1, idx =>
    match names[idx]? with
    | some n => if n.isEmpty then skipEmptyNames names fuel (idx + 1) else idx
    | none => idx

/-- The `for check_idx in (idx + 1)..end` loop of `NamedGroups::next`, started at `checkIdx` with
the current `best_range`; `fuel ≥ end - checkIdx`. `captures[check_idx]` is a panic site (it is
evaluated only when the name matches and `best_range.is_none()`). -/
def bestRangeLoop (m : MatchR) (name : List Nat) :
    Nat → Nat → Option Range → Except Unit (Option Range)
  | 0, _, best => .ok best
  | fuel + 1, checkIdx, best =>
    match m.names[checkIdx]? with
    | none => .ok best                       -- check_idx == end
    | some n =>
      if n == name then
        if best.isNone then
          match m.captures[checkIdx]? with
          | none => .error ()                -- index out of bounds panic
          | some c =>
            if c.isSome then .ok c           -- best_range = captures[check_idx]; break
            else bestRangeLoop m name fuel (checkIdx + 1) best
        else bestRangeLoop m name fuel (checkIdx + 1) best
      else bestRangeLoop m name fuel (checkIdx + 1) best

/-- The outer `loop` of `NamedGroups::next`; `fuel ≥ end - next_group_idx + 1`.
Result: the returned item and the new `next_group_idx` (unchanged when `None` is returned by the
`idx == end` exit). -/
def NamedGroups.nextLoop (m : MatchR) :
    Nat → Nat → Except Unit (Option (List Nat × Option Range) × Nat)
  | 0, nextIdx => .ok (none, nextIdx)        -- out of fuel (unreachable, see proofs)
  | fuel + 1, nextIdx =>
    let «end» := m.names.length
    let idx := skipEmptyNames m.names («end» - nextIdx) nextIdx
    if idx == «end» then .ok (none, nextIdx)
    else
      match m.names[idx]? with
      | none => .error ()                    -- group_names[idx] out of bounds (needs idx > end)
      | some name =>
        -- already_seen = group_names[..idx].iter().any(|n| n == name)
        if (m.names.take idx).any (fun n => n == name) then
          NamedGroups.nextLoop m fuel (idx + 1)
        else
          match m.captures[idx]? with
          | none => .error ()                -- captures[idx] out of bounds panic
          | some c0 =>
            match bestRangeLoop m name («end» - (idx + 1)) (idx + 1) c0 with
            | .error () => .error ()
            | .ok best => .ok (some (name, best), idx + 1)

/-- `NamedGroups::next`. -/
def NamedGroups.next (m : MatchR) (g : NamedGroups) :
    Except Unit (Option (List Nat × Option Range) × NamedGroups) :=
  match NamedGroups.nextLoop m (m.names.length - g.nextGroupIdx + 1) g.nextGroupIdx with
  | .error () => .error ()
  | .ok (r, i) => .ok (r, { nextGroupIdx := i })

/-- `NamedGroups::size_hint`: `group_names[next_group_idx..].iter().filter(|s| !s.is_empty()).count()`.
The slice panics if `next_group_idx > len`. -/
def NamedGroups.sizeHint (m : MatchR) (g : NamedGroups) : Except Unit Nat :=
  if g.nextGroupIdx > m.names.length then .error ()
  else .ok ((m.names.drop g.nextGroupIdx).filter (fun s => !s.isEmpty)).length

/-- Drain a `NamedGroups` iterator. -/
def NamedGroups.collectFuel (m : MatchR) :
    Nat → NamedGroups → Except Unit (List (List Nat × Option Range))
  | 0, _ => .ok []
  | fuel + 1, g =>
    match g.next m with
    | .error () => .error ()
    | .ok (none, _) => .ok []
    | .ok (some x, g') =>
      match NamedGroups.collectFuel m fuel g' with
      | .error () => .error ()
      | .ok xs => .ok (x :: xs)

/-- `m.named_groups().collect()`. -/
def MatchR.namedGroups (m : MatchR) : Except Unit (List (List Nat × Option Range)) :=
  NamedGroups.collectFuel m (m.names.length + 1) NamedGroups.new

/-- The documented invariant of `Match::group_names`: empty, or one name per capture group. -/
def MatchR.NamesOK (m : MatchR) : Prop := m.names = [] ∨ m.names.length = m.captures.length

instance (m : MatchR) : Decidable m.NamesOK := by unfold MatchR.NamesOK; infer_instance

end Regress.Api
