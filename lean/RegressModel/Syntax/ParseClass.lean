import RegressModel.Syntax.ParseTypes
/-!
# Parser model, part 2: character classes (`src/parse.rs`)

Legacy brackets (`consume_bracket`, `try_consume_bracket_class_atom`, `add_class_atom`) and the
`v`-mode class sets (`ClassSet`, `ClassSetOperand`, `ClassSetAlternativeStrings`,
`consume_class_set_expression`, `consume_class_set_operand`, `consume_class_set_character`).
-/
namespace Regress.Parse
open Regress Regress.IR

/-! ## Legacy brackets -/

/-- `enum ClassAtom`. -/
inductive ClassAtom where
  | codePoint (c : Nat)
  | charClass (ct : ClassType) (positive : Bool)
  | range (iv : CPS.IvList) (negate : Bool)

/-- `add_class_atom` (on `bc.cps`). -/
def addClassAtom (icase : Bool) (cps : CPS.IvList) : ClassAtom → CPS.IvList
  | .codePoint c => CPS.addOne cps c
  | .charClass ct positive => CPS.addSet cps (codepointsFromClass ct positive icase)
  | .range iv negate => if negate then CPS.addSet cps (CPS.inverted iv) else CPS.addSet cps iv

/-- `try_consume_bracket_class_atom` on the raw input. -/
def bracketClassAtom (fl : Flags) (hasNamed : Bool) (inp : List Nat) :
    Res (Option ClassAtom × List Nat) :=
  match inp with
  | [] => .ok (none, inp)
  | c :: rest =>
    if c == 0x5D then .ok (none, inp)
    else if c == 0x5C then
      match rest with
      | [] => synErr "Unterminated escape"
      | ec :: rest1 =>
        if ec == 0x62 then .ok (some (.codePoint 0x08), rest1)
        else if ec == 0x2D && fl.unicode then .ok (some (.codePoint 0x2D), rest1)
        else if ec == 0x63 && !fl.unicode then
          -- `input` saved before consuming the `c`
          match rest1 with
          | n :: rest2 =>
            if isAsciiDigit n || n == 0x5F then .ok (some (.codePoint (n % 32)), rest2)   -- next & 0x1F
            else if isAsciiAlpha n then .ok (some (.codePoint (n % 32)), rest2)
            else .ok (some (.codePoint 0x5C), rest)
          | [] => .ok (some (.codePoint 0x5C), rest)
        else if ec == 0x64 then .ok (some (.charClass .digits true), rest1)
        else if ec == 0x44 then .ok (some (.charClass .digits false), rest1)
        else if ec == 0x73 then .ok (some (.charClass .spaces true), rest1)
        else if ec == 0x53 then .ok (some (.charClass .spaces false), rest1)
        else if ec == 0x77 then .ok (some (.charClass .words true), rest1)
        else if ec == 0x57 then .ok (some (.charClass .words false), rest1)
        else if (ec == 0x70 || ec == 0x50) && fl.unicode then
          match propertyEscape fl.unicodeSets rest1 with
          | .error e => .error e
          | .ok (.charClass s, rest2) => .ok (some (.range s (ec == 0x50)), rest2)
          | .ok (.stringSet _, _) => synErr "Invalid property escape"
        else
          match characterEscape fl.unicode hasNamed rest with
          | .error e => .error e
          | .ok (cc, rest2) => .ok (some (.codePoint cc), rest2)
    else .ok (some (.codePoint c), rest)

/-- The `loop` of `consume_bracket`.
(`let icase = self.flags.icase && self.flags.unicode` is what `add_class_atom` gets.) -/
def bracketLoop (fl : Flags) (hasNamed : Bool) (invert : Bool) :
    Nat → List Nat → CPS.IvList → Res (Node × List Nat)
  | 0, _, _ => panicAt "fuel"
  | fuel+1, inp, cps =>
    let addClassAtom := addClassAtom (fl.icase && fl.unicode)
    match inp with
    | [] => synErr "Unbalanced bracket"
    | c :: rest =>
      if c == 0x5D then
        let cps := if fl.icase then Fold.addIcaseCodePoints cps else cps
        .ok (mkBracket invert cps, rest)
      else
        match bracketClassAtom fl hasNamed inp with
        | .error e => .error e
        | .ok (none, inp1) => bracketLoop fl hasNamed invert fuel inp1 cps
        | .ok (some first, inp1) =>
          match inp1 with
          | 0x2D :: inp2 =>
            match bracketClassAtom fl hasNamed inp2 with
            | .error e => .error e
            | .ok (none, inp3) =>
              bracketLoop fl hasNamed invert fuel inp3 (addClassAtom (addClassAtom cps first) (.codePoint 0x2D))
            | .ok (some second, inp3) =>
              match first, second with
              | .codePoint c1, .codePoint c2 =>
                if c1 > c2 then synErr "Range values reversed"
                else bracketLoop fl hasNamed invert fuel inp3 (CPS.add cps { first := c1, last := c2 })
              | _, _ =>
                if fl.unicode then synErr "Invalid character range"
                else
                  bracketLoop fl hasNamed invert fuel inp3
                    (addClassAtom (addClassAtom (addClassAtom cps first) (.codePoint 0x2D)) second)
          | _ => bracketLoop fl hasNamed invert fuel inp1 (addClassAtom cps first)

/-- `consume_bracket` on the raw input (which starts with `[`; `self.consume('[')` unwraps). -/
def consumeBracket (fl : Flags) (hasNamed : Bool) (inp : List Nat) : Res (Node × List Nat) :=
  match inp with
  | [] => panicAt "consume_bracket: consume('[')"
  | _ :: rest =>
    let (invert, rest) : Bool × List Nat :=
      match rest with
      | 0x5E :: r => (true, r)
      | _ => (false, rest)
    bracketLoop fl hasNamed invert (rest.length + 2) rest []

/-! ## Class sets (`v` flag) -/

/-- `struct ClassSet` (`alternatives` = `ClassSetAlternativeStrings`; `mayContainStrings` =
`may_contain_strings`, the static MayContainStrings of the class contents the set was parsed
from). -/
structure ClassSet where
  cps : CPS.IvList := []
  alts : List (List Nat) := []
  mayContainStrings : Bool := false

/-- `enum ClassSetOperand`: `ClassSetCharacter`, `CharacterClassEscape`, `Class`,
`ClassStringDisjunction` (the last is produced only by `\p{<property of strings>}`; `\q{…}` yields
a `Class`). -/
inductive Operand where
  | char (c : Nat)
  | esc (cps : CPS.IvList)
  | cls (cs : ClassSet)
  | strs (alts : List (List Nat))

/-- `ClassSetOperand::may_contain_strings` (Static Semantics: MayContainStrings). -/
def Operand.mayContainStrings : Operand → Bool
  | .char _ => false
  | .esc _ => false
  | .cls cs => cs.mayContainStrings
  | .strs _ => true

/-- Insert `x` before the first element that is strictly shorter (stable descending-length order). -/
def insertByLenDesc (x : List Nat) : List (List Nat) → List (List Nat)
  | [] => [x]
  | y :: ys => if y.length < x.length then x :: y :: ys else y :: insertByLenDesc x ys

/-- `alternatives.sort_by(|a, b| b.len().cmp(&a.len()))` (`sort_by` is a stable sort). -/
def sortByLenDesc (l : List (List Nat)) : List (List Nat) :=
  l.foldl (fun acc x => insertByLenDesc x acc) []

/-- `ClassSetAlternativeStrings::into_node`. -/
def altsIntoNode (alts : List (List Nat)) (icase : Bool) : Node :=
  .stringSet (sortByLenDesc alts) icase

/-- `ClassSet::nonempty_node`. -/
def ClassSet.nonemptyNode (self : ClassSet) (icase negateSet : Bool) : Node :=
  let codepoints := if icase then Fold.addIcaseCodePoints self.cps else self.cps
  let bracket := mkBracket negateSet codepoints
  if self.alts.isEmpty then bracket
  else if codepoints.isEmpty then altsIntoNode self.alts icase
  else makeAlt [altsIntoNode self.alts icase, bracket]

/-- `alternative.len() == 1 && pred(alternative[0])`. -/
def single? (alt : List Nat) : Option Nat :=
  match alt with
  | [c] => some c
  | _ => none

/-- `ClassSet::absorb_single_characters`: the strings of one character are removed from
`alternatives` (`retain`, which also collects them in order) and added to `codepoints`. -/
def ClassSet.absorbSingleCharacters (self : ClassSet) : ClassSet :=
  let singles := self.alts.filterMap single?
  { self with alts := self.alts.filter (fun s => s.length != 1),
              cps := singles.foldl CPS.addOne self.cps }

/-- `ClassSet::node`: one-character strings are absorbed into the code points; the empty string
alternative is split off and tried last. -/
def ClassSet.node (self : ClassSet) (icase negateSet : Bool) : Node :=
  let self := self.absorbSingleCharacters
  let hasEmpty := self.alts.any (fun s => s.isEmpty)
  let self' : ClassSet := { self with alts := self.alts.filter (fun s => !s.isEmpty) }
  let node := self'.nonemptyNode icase negateSet
  if hasEmpty then makeAlt [node, .empty] else node

/-- `ClassSetAlternativeStrings::fold`: every string is mapped code point-wise through
`unicode::fold`; a folded string already present is dropped (first occurrences are kept). -/
def foldAlternativeStrings (alts : List (List Nat)) : List (List Nat) :=
  alts.foldl (fun folded string =>
    let string := string.map Fold.fold
    if !folded.contains string then folded ++ [string] else folded) []

/-- `close_class_set_operand`. -/
def closeClassSetOperand (icase : Bool) (operand : Operand) : Operand :=
  if !icase then operand
  else
    match operand with
    | .char c => .esc (Fold.addIcaseCodePoints (CPS.addOne [] c))
    | .esc cps => .esc (Fold.addIcaseCodePoints cps)
    | .cls c => .cls { c with cps := Fold.addIcaseCodePoints c.cps, alts := foldAlternativeStrings c.alts }
    | .strs s => .strs (foldAlternativeStrings s)

def singleSat (p : Nat → Bool) (alt : List Nat) : Bool :=
  match single? alt with
  | some c => p c
  | none => false

/-- `for alternative in alts { if len == 1 && set.contains(alt[0]) { acc.add_one(alt[0]) } }`. -/
def collectSingles (alts : List (List Nat)) (set : CPS.IvList) : CPS.IvList :=
  alts.foldl (fun acc a => match single? a with
    | some c => if CPS.contains set c then CPS.addOne acc c else acc
    | none => acc) []

/-- `ClassSet::union_operand`.  (`self.may_contain_strings |= operand.may_contain_strings()`:
unchanged for a character or an escape, `true` for a `ClassStringDisjunction`.) -/
def ClassSet.unionOperand (self : ClassSet) : Operand → ClassSet
  | .char c => { self with cps := CPS.addOne self.cps c }
  | .esc cps => { self with cps := CPS.addSet self.cps cps }
  | .cls c => { cps := CPS.addSet self.cps c.cps, alts := self.alts ++ c.alts,
                mayContainStrings := self.mayContainStrings || c.mayContainStrings }
  | .strs s => { self with alts := self.alts ++ s, mayContainStrings := true }

/-- `ClassSet::intersect_operand`.  (`self.may_contain_strings &= operand.may_contain_strings()`:
`false` for a character or an escape, unchanged for a `ClassStringDisjunction`.) -/
def ClassSet.intersectOperand (self : ClassSet) : Operand → ClassSet
  | .char c =>
    let cps : CPS.IvList := if CPS.contains self.cps c then [{ first := c, last := c }] else []
    let found := self.alts.any (fun a => a == [c])
    { cps := cps, alts := if found then [[c]] else [], mayContainStrings := false }
  | .esc cps =>
    { cps := CPS.intersect self.cps cps,
      alts := self.alts.filter (singleSat (CPS.contains cps)),
      mayContainStrings := false }
  | .cls c =>
    let retainedCodepoints := collectSingles c.alts self.cps
    let retainedAlternatives := self.alts.filter (singleSat (CPS.contains c.cps))
    let cps := CPS.intersect self.cps c.cps
    let cps := CPS.addSet cps retainedCodepoints
    let alts := self.alts.filter (fun s => c.alts.contains s)
    { cps := cps, alts := alts ++ retainedAlternatives,
      mayContainStrings := self.mayContainStrings && c.mayContainStrings }
  | .strs s =>
    { self with cps := collectSingles s self.cps, alts := self.alts.filter (fun x => s.contains x) }

/-- `ClassSet::subtract_operand` (`may_contain_strings` is left as it is). -/
def ClassSet.subtractOperand (self : ClassSet) : Operand → ClassSet
  | .char c =>
    { self with
      cps := CPS.remove self.cps [{ first := c, last := c }],
      alts := self.alts.filter (fun s => !([[c]] : List (List Nat)).contains s) }
  | .esc cps =>
    let toRemove := self.alts.filter (singleSat (CPS.contains cps))
    { self with cps := CPS.remove self.cps cps, alts := self.alts.filter (fun s => !toRemove.contains s) }
  | .cls c =>
    let codepointsRemoved := collectSingles c.alts self.cps
    let alternativesRemoved := self.alts.filter (singleSat (CPS.contains c.cps))
    let cps := CPS.remove self.cps codepointsRemoved
    let cps := CPS.remove cps c.cps
    let alts := self.alts.filter (fun s => !alternativesRemoved.contains s)
    let alts := alts.filter (fun s => !c.alts.contains s)
    { self with cps := cps, alts := alts }
  | .strs s =>
    let toRemove := collectSingles s self.cps
    { self with cps := CPS.remove self.cps toRemove, alts := self.alts.filter (fun x => !s.contains x) }

/-- `is_class_set_reserved_punctuator`. -/
def isClassSetReservedPunctuator (cp : Nat) : Bool :=
  cp == 0x26 || cp == 0x2D || cp == 0x21 || cp == 0x23 || cp == 0x25 || cp == 0x2C || cp == 0x3A
  || cp == 0x3B || cp == 0x3C || cp == 0x3D || cp == 0x3E || cp == 0x40 || cp == 0x60 || cp == 0x7E

/-- `is_class_set_reserved_double_punctuator`. -/
def isClassSetReservedDoublePunctuator (cp : Nat) : Bool :=
  cp == 0x26 || cp == 0x21 || cp == 0x23 || cp == 0x24 || cp == 0x25 || cp == 0x2A || cp == 0x2B
  || cp == 0x2C || cp == 0x2E || cp == 0x3A || cp == 0x3B || cp == 0x3C || cp == 0x3D || cp == 0x3E
  || cp == 0x3F || cp == 0x40 || cp == 0x5E || cp == 0x60 || cp == 0x7E

/-- `consume_class_set_character` on the raw input. -/
def classSetCharacter (unicode hasNamed : Bool) (inp : List Nat) : Res (Nat × List Nat) :=
  match inp with
  | [] => synErr "Incomplete class set character"
  | cp :: rest =>
    if cp == 0x5C then
      match rest with
      | [] => synErr "Incomplete class set escape"
      | e :: rest1 =>
        if e == 0x62 then .ok (0x08, rest1)                     -- `\b` is backspace
        else if isClassSetReservedPunctuator e then .ok (e, rest1)
        else characterEscape unicode hasNamed rest
    else if cp == 0x28 || cp == 0x29 || cp == 0x5B || cp == 0x5D || cp == 0x7B || cp == 0x7D
        || cp == 0x2F || cp == 0x2D || cp == 0x7C then synErr "Invalid class set character"
    else if isClassSetReservedDoublePunctuator cp
        && (match rest with | n :: _ => n == cp | [] => false) then
      -- a ClassSetReservedDoublePunctuator is the same punctuator twice
      synErr "Invalid class set character"
    else .ok (cp, rest)

/-- The `loop` of the `\q{…}` branch of `consume_class_set_operand`
(`alternatives`, `alternative` are the two accumulators). -/
def classStringLoop (unicode hasNamed : Bool) :
    Nat → List Nat → List (List Nat) → List Nat → Res (List (List Nat) × List Nat)
  | 0, _, _, _ => panicAt "fuel"
  | fuel+1, inp, alternatives, alternative =>
    match inp with
    | [] => synErr "Unbalanced class set string disjunction"
    | c :: rest =>
      if c == 0x7D then .ok (alternatives ++ [alternative], rest)
      else if c == 0x7C then classStringLoop unicode hasNamed fuel rest (alternatives ++ [alternative]) []
      else
        match classSetCharacter unicode hasNamed inp with
        | .error e => .error e
        | .ok (ch, rest') => classStringLoop unicode hasNamed fuel rest' alternatives (alternative ++ [ch])

/-- The `for alternative in alternatives` loop after `\q{…}`: a string of one character is that
character; any other string (the empty one included) is a string: it sets `may_contain_strings`
and is added unless already present. -/
def classStringSet : List (List Nat) → ClassSet → ClassSet
  | [], set => set
  | a :: rest, set =>
    match a with
    | [c] => classStringSet rest { set with cps := CPS.addOne set.cps c }
    | _ =>
      let set := { set with mayContainStrings := true }
      if !set.alts.contains a then classStringSet rest { set with alts := set.alts ++ [a] }
      else classStringSet rest set

/-- The state threaded through the class-set functions: remaining input and `self.depth`. -/
structure CSt where
  inp : List Nat
  depth : Nat

inductive ClassSetOperator where
  | union | intersection | subtraction

mutual
/-- `consume_class_set_expression`. -/
def classSetExpression (fl : Flags) (hasNamed : Bool) : Nat → CSt → Res (ClassSet × CSt)
  | 0, _ => panicAt "fuel"
  | fuel+1, st =>
    let result : ClassSet := {}
    match st.inp with
    | [] => synErr "Unbalanced class set bracket"
    | c0 :: rest0 =>
      if c0 == 0x5D then .ok (result, { st with inp := rest0 })
      else
        match classSetOperand fl hasNamed fuel st with
        | .error e => .error e
        | .ok (first, st) =>
          match st.inp with
          | [] => synErr "Unbalanced class set bracket"
          | c1 :: rest1 =>
            if c1 == 0x5D then .ok (result.unionOperand first, { st with inp := rest1 })
            else if c1 == 0x26 then
              match rest1 with
              | 0x26 :: rest2 =>
                classSetIntersection fl hasNamed fuel { st with inp := rest2 }
                  (result.unionOperand (closeClassSetOperand fl.icase first))
              | _ =>
                -- a single `&` is not consumed: the union loop reads it as an ordinary operand
                classSetUnion fl hasNamed fuel st (result.unionOperand first)
            else if c1 == 0x2D then
              match rest1 with
              | 0x2D :: rest2 =>
                classSetSubtraction fl hasNamed fuel { st with inp := rest2 }
                  (result.unionOperand (closeClassSetOperand fl.icase first))
              | _ =>
                match first with
                | .char f =>
                  match classSetOperand fl hasNamed fuel { st with inp := rest1 } with
                  | .error e => .error e
                  | .ok (.char l, st) =>
                    if f > l then synErr "Invalid class set range"
                    else
                      classSetUnion fl hasNamed fuel st
                        { result with cps := CPS.add result.cps { first := f, last := l } }
                  | .ok (_, _) => synErr "Invalid class set range"
                | _ => synErr "Invalid class set range"
            else classSetUnion fl hasNamed fuel st (result.unionOperand first)

/-- The `ClassSetOperator::Union` loop. -/
def classSetUnion (fl : Flags) (hasNamed : Bool) : Nat → CSt → ClassSet → Res (ClassSet × CSt)
  | 0, _, _ => panicAt "fuel"
  | fuel+1, st, result =>
    match st.inp with
    | [] => synErr "Unbalanced class set bracket"
    | c :: rest =>
      if c == 0x5D then .ok (result, { st with inp := rest })
      else
        match classSetOperand fl hasNamed fuel st with
        | .error e => .error e
        | .ok (operand, st) =>
          match st.inp with
          | 0x2D :: rest1 =>
            match operand with
            | .char f =>
              match classSetOperand fl hasNamed fuel { st with inp := rest1 } with
              | .error e => .error e
              | .ok (.char l, st) =>
                if f > l then synErr "Invalid class set range"
                else
                  classSetUnion fl hasNamed fuel st
                    { result with cps := CPS.add result.cps { first := f, last := l } }
              | .ok (_, _) => synErr "Invalid class set range"
            | _ => synErr "Invalid class set range"
          | _ => classSetUnion fl hasNamed fuel st (result.unionOperand operand)

/-- The `ClassSetOperator::Intersection` loop. -/
def classSetIntersection (fl : Flags) (hasNamed : Bool) : Nat → CSt → ClassSet → Res (ClassSet × CSt)
  | 0, _, _ => panicAt "fuel"
  | fuel+1, st, result =>
    if (match st.inp with | c :: _ => c == 0x26 | [] => false) then
      synErr "Unexpected character in class set intersection"
    else
    match classSetOperand fl hasNamed fuel st with
    | .error e => .error e
    | .ok (operand, st) =>
      let result := result.intersectOperand (closeClassSetOperand fl.icase operand)
      match st.inp with
      | [] => synErr "Unbalanced class set bracket"
      | c :: rest =>
        if c == 0x5D then .ok (result, { st with inp := rest })
        else if c == 0x26 then
          match rest with
          | 0x26 :: rest2 => classSetIntersection fl hasNamed fuel { st with inp := rest2 } result
          | _ => synErr "Unbalanced class set bracket"
        else synErr "Unexpected character in class set intersection"

/-- The `ClassSetOperator::Subtraction` loop. -/
def classSetSubtraction (fl : Flags) (hasNamed : Bool) : Nat → CSt → ClassSet → Res (ClassSet × CSt)
  | 0, _, _ => panicAt "fuel"
  | fuel+1, st, result =>
    match classSetOperand fl hasNamed fuel st with
    | .error e => .error e
    | .ok (operand, st) =>
      let result := result.subtractOperand (closeClassSetOperand fl.icase operand)
      match st.inp with
      | [] => synErr "Unbalanced class set bracket"
      | c :: rest =>
        if c == 0x5D then .ok (result, { st with inp := rest })
        else if c == 0x2D then
          match rest with
          | 0x2D :: rest2 => classSetSubtraction fl hasNamed fuel { st with inp := rest2 } result
          | _ => synErr "Unbalanced class set bracket"
        else synErr "Unexpected character in class set subtraction"

/-- `consume_class_set_operand`. -/
def classSetOperand (fl : Flags) (hasNamed : Bool) : Nat → CSt → Res (Operand × CSt)
  | 0, _ => panicAt "fuel"
  | fuel+1, st =>
    match st.inp with
    | [] => synErr "Empty class set operand"
    | cp :: rest =>
      if cp == 0x5B then
        let st := { st with depth := st.depth + 1 }
        if st.depth > Gen.MAX_NESTING_DEPTH then limErr "Regular expression is too deeply nested"
        else
          let (negateSet, rest) : Bool × List Nat :=
            match rest with
            | 0x5E :: r => (true, r)
            | _ => (false, rest)
          match classSetExpression fl hasNamed fuel { st with inp := rest } with
          | .error e => .error e
          | .ok (result, st) =>
            if negateSet && result.mayContainStrings then synErr "Negated class may not contain strings"
            else
              let result :=
                if negateSet then
                  let result := result.absorbSingleCharacters
                  let cps := if fl.icase then Fold.addIcaseCodePoints result.cps else result.cps
                  { result with cps := CPS.inverted cps }
                else result
              .ok (.cls result, { st with depth := st.depth - 1 })
      else if cp == 0x5C then
        match rest with
        | [] => synErr "Incomplete class set escape"
        | e :: rest1 =>
          if e == 0x71 then
            match rest1 with
            | 0x7B :: rest2 =>
              match classStringLoop fl.unicode hasNamed (rest2.length + 1) rest2 [] [] with
              | .error e => .error e
              | .ok (alts, rest3) =>
                .ok (.cls (classStringSet alts {}), { st with inp := rest3 })
            | _ => synErr "Invalid class set escape: expected {"
          else if e == 0x64 then .ok (.esc (codepointsFromClass .digits true fl.icase), { st with inp := rest1 })
          else if e == 0x44 then .ok (.esc (codepointsFromClass .digits false fl.icase), { st with inp := rest1 })
          else if e == 0x73 then .ok (.esc (codepointsFromClass .spaces true fl.icase), { st with inp := rest1 })
          else if e == 0x53 then .ok (.esc (codepointsFromClass .spaces false fl.icase), { st with inp := rest1 })
          else if e == 0x77 then .ok (.esc (codepointsFromClass .words true fl.icase), { st with inp := rest1 })
          else if e == 0x57 then .ok (.esc (codepointsFromClass .words false fl.icase), { st with inp := rest1 })
          else if e == 0x70 then
            match propertyEscape fl.unicodeSets rest1 with
            | .error e => .error e
            | .ok (.charClass ivs, rest2) => .ok (.esc ivs, { st with inp := rest2 })
            | .ok (.stringSet strs, rest2) => .ok (.strs strs, { st with inp := rest2 })
          else if e == 0x50 then
            match propertyEscape fl.unicodeSets rest1 with
            | .error e => .error e
            | .ok (.charClass ivs, rest2) =>
              let cps := if fl.icase then Fold.addIcaseCodePoints ivs else ivs
              .ok (.esc (CPS.inverted cps), { st with inp := rest2 })
            | .ok (.stringSet _, _) => synErr "Invalid character escape"
          else if e == 0x62 then .ok (.char 0x08, { st with inp := rest1 })   -- `\b` is backspace
          else if isClassSetReservedPunctuator e then .ok (.char e, { st with inp := rest1 })
          else
            match characterEscape fl.unicode hasNamed rest with
            | .error e => .error e
            | .ok (c, rest2) => .ok (.char c, { st with inp := rest2 })
      else
        match classSetCharacter fl.unicode hasNamed st.inp with
        | .error e => .error e
        | .ok (c, rest1) => .ok (.char c, { st with inp := rest1 })
end

end Regress.Parse
