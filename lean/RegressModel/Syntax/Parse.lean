import RegressModel.Syntax.ParseTypes
import RegressModel.Syntax.ParseClass
/-!
# Parser model, part 3: the recursive descent (`src/parse.rs`, `ir::walk_mut` of `src/ir.rs`)

`parse pattern flags` models `parse::try_parse(pattern, flags)`: the capture-group pre-scan
(`parse_capture_groups`), `consume_disjunction` / `consume_term` and everything below, and
`finalize` (`ir::walk_mut(false, …, Node::reverse_cats)`).

Fuel: the mutually recursive functions take a fuel argument that decreases by one at every call;
the chain `consume_disjunction → (alternatives loop) → (term loop) → atom → consume_disjunction`
has four links per nesting level and every nesting level, every further term and every further
alternative consumes at least one character, so `4 * length + 8` is enough; running out of fuel is
the distinct result `.panic "fuel"`.
-/
namespace Regress.Parse
open Regress Regress.IR

/-! ## Pre-scan: `parse_capture_groups` -/

/-- `AlternativePath::conflicts_with`: the `for (a, b) in zip(..)` loop; a segment is
`(group, alternative_index)`.  At the first differing pair the paths conflict unless they are
different alternatives of the SAME group; a prefix conflicts. -/
def conflictsWith : List (Nat × Nat) → List (Nat × Nat) → Bool
  | a :: as, b :: bs => if a != b then a.1 != b.1 else conflictsWith as bs
  | _, _ => true

/-- The two nested `for` loops of `check_duplicate_conflicts` for one name. -/
def anyConflict : List (List (Nat × Nat)) → Bool
  | [] => false
  | p :: ps => ps.any (conflictsWith p) || anyConflict ps

/-- `map.entry(k).or_default().push(v)` on an association list. -/
def mapPush {β} (m : List (List Nat × List β)) (k : List Nat) (v : β) : List (List Nat × List β) :=
  match m with
  | [] => [(k, [v])]
  | (k', vs) :: rest => if k' == k then (k', vs ++ [v]) :: rest else (k', vs) :: mapPush rest k v

def mapGet {β} (m : List (List Nat × β)) (k : List Nat) : Option β :=
  match m with
  | [] => none
  | (k', v) :: rest => if k' == k then some v else mapGet rest k

/-- `alt_indices: HashMap<usize, usize>` and `group_ids: HashMap<usize, usize>` (both keyed by
the nesting depth). -/
def altGet (m : List (Nat × Nat)) (d : Nat) : Option Nat :=
  match m with
  | [] => none
  | (k, v) :: rest => if k == d then some v else altGet rest d

def altInsert (m : List (Nat × Nat)) (d v : Nat) : List (Nat × Nat) :=
  match m with
  | [] => [(d, v)]
  | (k, w) :: rest => if k == d then (k, v) :: rest else (k, w) :: altInsert rest d v

def altRemove (m : List (Nat × Nat)) (d : Nat) : List (Nat × Nat) := m.filter fun e => e.1 != d

/-- Skip a legacy bracket in the pre-scan (input after `[`). -/
def skipBracket : List Nat → List Nat
  | [] => []
  | c :: rest =>
    if c == 0x5C then
      match rest with
      | [] => []
      | _ :: r => skipBracket r
    else if c == 0x5D then rest
    else skipBracket rest

/-- Skip a `v`-mode (nesting) bracket in the pre-scan. -/
def skipBracketV : List Nat → Nat → List Nat
  | [], _ => []
  | c :: rest, depth =>
    if c == 0x5C then
      match rest with
      | [] => []
      | _ :: r => skipBracketV r depth
    else if c == 0x5B then skipBracketV rest (depth + 1)
    else if c == 0x5D then
      if depth - 1 == 0 then rest else skipBracketV rest (depth - 1)
    else skipBracketV rest depth

/-- Local state of `collect_named_group_locations` plus the two parser fields it updates. -/
structure Scan where
  parenDepth : Nat := 0
  altIdx : List (Nat × Nat) := [(0, 0)]
  groupIds : List (Nat × Nat) := [(0, 0)]
  nextGroupId : Nat := 1
  locs : List (List Nat × List (List (Nat × Nat))) := []
  named : List (List Nat × List Nat) := []
  gmax : Nat := 0

/-- The main `loop` of `collect_named_group_locations`. -/
def scanLoop (fl : Flags) : Nat → List Nat → Scan → Res Scan
  | 0, _, _ => panicAt "fuel"
  | fuel+1, inp, sc =>
    match inp with
    | [] => .ok sc
    | c :: rest =>
      if c == 0x5C then scanLoop fl fuel (rest.drop 1) sc
      else if c == 0x5B then
        scanLoop fl fuel (if fl.unicodeSets then skipBracketV rest 1 else skipBracket rest) sc
      else if c == 0x28 then
        let r : Res (Bool × Option (List Nat) × List Nat) :=
          match rest with
          | 0x3F :: rest2 =>
            match tryConsumeName rest2 with
            | .error e => .error e
            | .ok (some name, rest3) => .ok (true, some name, rest3)
            | .ok (none, rest3) => .ok (false, none, rest3)
          | _ => .ok (true, none, rest)
        match r with
        | .error e => .error e
        | .ok (isCapturing, groupName, rest') =>
          let sc :=
            match groupName with
            | some name =>
              let segments := (List.range (sc.parenDepth + 1)).map fun d =>
                ((altGet sc.groupIds d).getD 0, (altGet sc.altIdx d).getD 0)
              { sc with locs := mapPush sc.locs name segments, named := mapPush sc.named name sc.gmax }
            | none => sc
          let sc :=
            if isCapturing then
              { sc with gmax := if sc.gmax + 1 > Gen.MAX_CAPTURE_GROUPS then Gen.MAX_CAPTURE_GROUPS
                                else sc.gmax + 1 }
            else sc
          let sc := { sc with parenDepth := sc.parenDepth + 1,
                              altIdx := altInsert sc.altIdx (sc.parenDepth + 1) 0,
                              groupIds := altInsert sc.groupIds (sc.parenDepth + 1) sc.nextGroupId,
                              nextGroupId := sc.nextGroupId + 1 }
          scanLoop fl fuel rest' sc
      else if c == 0x29 then
        if sc.parenDepth > 0 then
          scanLoop fl fuel rest { sc with altIdx := altRemove sc.altIdx sc.parenDepth,
                                          groupIds := altRemove sc.groupIds sc.parenDepth,
                                          parenDepth := sc.parenDepth - 1 }
        else scanLoop fl fuel rest sc
      else if c == 0x7C then
        scanLoop fl fuel rest
          { sc with altIdx := altInsert sc.altIdx sc.parenDepth ((altGet sc.altIdx sc.parenDepth).getD 0 + 1) }
      else scanLoop fl fuel rest sc

/-- `parse_capture_groups`: sets `group_count_max` and `named_group_indices`, leaves the input
where it was. -/
def parseCaptureGroups (st : PState) : Res PState :=
  match scanLoop st.flags (st.input.length + 1) st.input
      { named := st.named, gmax := st.groupCountMax } with
  | .error e => .error e
  | .ok sc =>
    if sc.locs.any (fun e => anyConflict e.2) then synErr "Duplicate capture group name"
    else .ok { st with groupCountMax := sc.gmax, named := sc.named }

/-! ## Atom escapes -/

/-- `consume_atom_escape` (input positioned after the backslash). -/
def consumeAtomEscape (st : PState) : Res (Node × PState) :=
  let fl := st.flags
  match st.input with
  | [] => synErr "Incomplete escape"
  | c :: rest =>
    if c == 0x64 || c == 0x44 then
      .ok (makeBracketClass .digits (c == 0x64) fl.icase, { st with input := rest })
    else if c == 0x73 || c == 0x53 then
      .ok (makeBracketClass .spaces (c == 0x73) fl.icase, { st with input := rest })
    else if c == 0x77 || c == 0x57 then
      .ok (makeBracketClass .words (c == 0x77) fl.icase, { st with input := rest })
    else if (c == 0x70 || c == 0x50) && (fl.unicode || fl.unicodeSets) then
      let negate := c == 0x50
      match propertyEscape fl.unicodeSets rest with
      | .error e => .error e
      | .ok (.charClass cps, rest') =>
        if fl.icase then
          let cps :=
            if negate && fl.unicodeSets then CPS.inverted (Fold.addIcaseCodePoints cps)
            else if negate then Fold.addIcaseCodePoints (CPS.inverted cps)
            else Fold.addIcaseCodePoints cps
          .ok (mkBracket false cps, { st with input := rest' })
        else .ok (mkBracket negate cps, { st with input := rest' })
      | .ok (.stringSet strs, rest') =>
        if negate then synErr "Invalid character escape"
        else .ok (.stringSet strs fl.icase, { st with input := rest' })
    else if 0x31 ≤ c && c ≤ 0x39 && fl.unicode then
      match decimalLiteral st.input with
      | (none, _) => panicAt "consume_atom_escape: try_consume_decimal_integer_literal().unwrap()"
      | (some group, rest') =>
        if group ≤ st.groupCountMax then .ok (.backRef group fl.icase, { st with input := rest' })
        else synErr "Invalid character escape"
    else if 0x31 ≤ c && c ≤ 0x39 then
      match decimalLiteral st.input with
      | (none, _) => panicAt "consume_atom_escape: try_consume_decimal_integer_literal().unwrap()"
      | (some group, rest') =>
        if group ≤ st.groupCountMax then .ok (.backRef group fl.icase, { st with input := rest' })
        else
          match characterEscape fl.unicode (!st.named.isEmpty) st.input with
          | .error e => .error e
          | .ok (ch, rest'') =>
            match charNode fl ch with
            | .error e => .error e
            | .ok n => .ok (n, { st with input := rest'' })
    else if c == 0x6B && (fl.unicode || !st.named.isEmpty) then
      match tryConsumeName rest with
      | .error e => .error e
      | .ok (none, _) => synErr "Invalid named backreference syntax"
      | .ok (some name, rest') =>
        match mapGet st.named name with
        | none => synErr "Backreference to invalid named capture group"
        | some [] => panicAt "consume_atom_escape: unreachable!(empty indices)"
        | some [i] => .ok (.backRef (i + 1) fl.icase, { st with input := rest' })
        | some idxs => .ok (.cat (idxs.map fun i => .backRef (i + 1) fl.icase), { st with input := rest' })
    else if c == 0x6B then
      match charNode fl c with
      | .error e => .error e
      | .ok n => .ok (n, { st with input := rest })
    else
      match characterEscape fl.unicode (!st.named.isEmpty) st.input with
      | .error e => .error e
      | .ok (ch, rest') =>
        match charNode fl ch with
        | .error e => .error e
        | .ok n => .ok (n, { st with input := rest' })

/-! ## Modifier groups: the scanning part of `try_consume_modifier_group` -/

/-- The overrides collected by the modifier scan. -/
structure Mods where
  seenHyphen : Bool := false
  sawFlag : Bool := false
  icase : Option Bool := none
  multiline : Option Bool := none
  dotAll : Option Bool := none

/-- The `loop` of `try_consume_modifier_group` over the cursor, up to and including the `:`.
`some (mods, rest)`: reached `:` (with `saw_flag`); the errors are syntax errors.
(`_ => unreachable!()` in the inner `match ch` is statically unreachable and has no counterpart.) -/
def modifierScan : List Nat → Mods → Res (Mods × List Nat)
  | [], _ => synErr "Invalid group modifier"
  | ch :: rest, m =>
    if ch == 0x69 then
      if m.icase.isSome then synErr "Invalid group modifier"
      else modifierScan rest { m with icase := some (!m.seenHyphen), sawFlag := true }
    else if ch == 0x6D then
      if m.multiline.isSome then synErr "Invalid group modifier"
      else modifierScan rest { m with multiline := some (!m.seenHyphen), sawFlag := true }
    else if ch == 0x73 then
      if m.dotAll.isSome then synErr "Invalid group modifier"
      else modifierScan rest { m with dotAll := some (!m.seenHyphen), sawFlag := true }
    else if ch == 0x2D then
      if m.seenHyphen then synErr "Invalid group modifier"
      else modifierScan rest { m with seenHyphen := true }
    else if ch == 0x3A then
      if !m.sawFlag then synErr "Invalid group modifier" else .ok (m, rest)
    else synErr "Invalid group modifier"

/-- The prefix test of `try_consume_modifier_group`: `none` = `Ok(None)` (not a modifier group). -/
def modifierGroupHead (inp : List Nat) : Option (Res (Mods × List Nat)) :=
  match inp with
  | 0x28 :: 0x3F :: current :: rest =>
    if current == 0x3C then none else some (modifierScan (current :: rest) {})
  | _ => none

def applyMods (fl : Flags) (m : Mods) : Flags :=
  let fl := match m.icase with | some v => { fl with icase := v } | none => fl
  let fl := match m.multiline with | some v => { fl with multiline := v } | none => fl
  match m.dotAll with | some v => { fl with dotAll := v } | none => fl

/-! ## The recursive descent -/

/-- What `consumeAtom` hands back to the term loop. -/
structure AtomOut where
  result : List Node
  st : PState
  startOffset : Nat
  quantifierAllowed : Bool

mutual
/-- `consume_disjunction`. -/
def consumeDisjunction : Nat → PState → Res (Node × PState)
  | 0, _ => panicAt "fuel"
  | fuel+1, st =>
    let st := { st with depth := st.depth + 1 }
    if st.depth > Gen.MAX_NESTING_DEPTH then limErr "Regular expression is too deeply nested"
    else
      match disjLoop fuel st [] with
      | .error e => .error e
      | .ok (terms, st) => .ok (makeAlt terms, { st with depth := st.depth - 1 })

/-- `let mut terms = vec![self.consume_term()?]; while self.try_consume('|') { terms.push(..) }`. -/
def disjLoop : Nat → PState → List Node → Res (List Node × PState)
  | 0, _, _ => panicAt "fuel"
  | fuel+1, st, terms =>
    match termLoop fuel st [] with
    | .error e => .error e
    | .ok (t, st) =>
      let terms := terms ++ [t]
      match tryConsume 0x7C st with
      | (true, st) => disjLoop fuel st terms
      | (false, st) => .ok (terms, st)

/-- The `loop` of `consume_term` (`result` is the accumulator). -/
def termLoop : Nat → PState → List Node → Res (Node × PState)
  | 0, _, _ => panicAt "fuel"
  | fuel+1, st, result =>
    let startGroup := st.groupCount
    match st.input with
    | [] => .ok (makeCat result, st)
    | c :: _ =>
      if c == 0x29 || c == 0x7C then .ok (makeCat result, st)
      else
        match consumeAtom fuel st result c with
        | .error e => .error e
        | .ok out =>
          let st := out.st
          let result := out.result
          match quantifier st.flags.unicode st.input with
          | .error e => .error e
          | .ok (none, rest) => termLoop fuel { st with input := rest } result
          | .ok (some quant, rest) =>
            let st := { st with input := rest }
            if !out.quantifierAllowed then synErr "Quantifier not allowed here"
            else if (match quant.max with | some mx => decide (quant.min > mx) | none => false) then
              synErr "Invalid quantifier"
            else if out.startOffset > result.length then panicAt "consume_term: result.split_off(start_offset)"
            else
              let quantifee := result.drop out.startOffset
              let result := result.take out.startOffset
              if st.loopCount ≥ Gen.MAX_LOOPS then limErr "Loop count limit exceeded"
              else
                let st := { st with loopCount := st.loopCount + 1 }
                termLoop fuel st
                  (result ++ [.loop (makeCat quantifee) quant startGroup st.groupCount])

/-- The big `match to_char_sat(c)` of `consume_term` for the peeked char `c`. -/
def consumeAtom : Nat → PState → List Node → Nat → Res AtomOut
  | 0, _, _, _ => panicAt "fuel"
  | fuel+1, st, result, c =>
    let startOffset := result.length
    let fl := st.flags
    if c == 0x5E then
      match consume st with
      | .error e => .error e
      | .ok (_, st) => .ok ⟨result ++ [.anchor true fl.multiline], st, startOffset, false⟩
    else if c == 0x24 then
      match consume st with
      | .error e => .error e
      | .ok (_, st) => .ok ⟨result ++ [.anchor false fl.multiline], st, startOffset, false⟩
    else if c == 0x5C then
      match consume st with
      | .error e => .error e
      | .ok (_, st) =>
        match st.input with
        | [] => synErr "Incomplete escape"
        | e :: rest =>
          if e == 0x62 then
            .ok ⟨result ++ [.wordBoundary false (fl.unicode && fl.icase)], { st with input := rest },
              startOffset, false⟩
          else if e == 0x42 then
            .ok ⟨result ++ [.wordBoundary true (fl.unicode && fl.icase)], { st with input := rest },
              startOffset, false⟩
          else if e == 0x63 && !fl.unicode then
            match rest with
            | n :: rest2 =>
              if isChar n && isAsciiAlpha n then
                match charNode fl (n % 32) with
                | .error e => .error e
                | .ok nd => .ok ⟨result ++ [nd], { st with input := rest2 }, startOffset, true⟩
              else
                match charNode fl 0x5C, charNode fl 0x63 with
                | .ok a, .ok b => .ok ⟨result ++ [a, b], { st with input := rest }, startOffset + 1, true⟩
                | .error e, _ => .error e
                | _, .error e => .error e
            | [] =>
              match charNode fl 0x5C, charNode fl 0x63 with
              | .ok a, .ok b => .ok ⟨result ++ [a, b], { st with input := rest }, startOffset + 1, true⟩
              | .error e, _ => .error e
              | _, .error e => .error e
          else
            match consumeAtomEscape st with
            | .error e => .error e
            | .ok (nd, st) => .ok ⟨result ++ [nd], st, startOffset, true⟩
    else if c == 0x2E then
      match consume st with
      | .error e => .error e
      | .ok (_, st) =>
        .ok ⟨result ++ [if fl.dotAll then .matchAny else .matchAnyExceptLT], st, startOffset, true⟩
    else if c == 0x28 then
      let closeParen : Res (Node × PState × Bool) → Res AtomOut := fun r =>
        match r with
        | .error e => .error e
        | .ok (nd, st, qa) =>
          match tryConsume 0x29 st with
          | (true, st) => .ok ⟨result ++ [nd], st, startOffset, qa⟩
          | (false, _) => synErr "Unbalanced parenthesis"
      let look : PState → Bool → Bool → Bool → Res (Node × PState × Bool) :=
        fun st negate backwards qa =>
          -- consume_lookaround_assertion
          let startGroup := st.groupCount
          match consumeDisjunction fuel st with
          | .error e => .error e
          | .ok (contents, st) => .ok (.look negate backwards startGroup st.groupCount contents, st, qa)
      match tryConsumeStr [0x28, 0x3F, 0x3D] st with
      | (true, st) => closeParen (look st false false (!fl.unicode))
      | (false, st) =>
      match tryConsumeStr [0x28, 0x3F, 0x21] st with
      | (true, st) => closeParen (look st true false (!fl.unicode))
      | (false, st) =>
      match tryConsumeStr [0x28, 0x3F, 0x3C, 0x3D] st with
      | (true, st) => closeParen (look { st with hasLookbehind := true } false true false)
      | (false, st) =>
      match tryConsumeStr [0x28, 0x3F, 0x3C, 0x21] st with
      | (true, st) => closeParen (look { st with hasLookbehind := true } true true false)
      | (false, st) =>
      match tryConsumeStr [0x28, 0x3F, 0x3A] st with
      | (true, st) =>
        closeParen (match consumeDisjunction fuel st with
          | .error e => .error e
          | .ok (nd, st) => .ok (nd, st, true))
      | (false, st) =>
      match modifierGroupHead st.input with
      | some (.error e) => .error e
      | some (.ok (mods, rest)) =>
        -- try_consume_modifier_group, the `':'` arm
        let saved := st.flags
        let st := { st with input := rest, flags := applyMods st.flags mods }
        closeParen (match consumeDisjunction fuel st with
          | .error e => .error e
          | .ok (nd, st) => .ok (nd, { st with flags := saved }, true))
      | none =>
        -- Capturing group.
        match consume st with
        | .error e => .error e
        | .ok (_, st) =>
          let group := st.groupCount
          if st.groupCount ≥ Gen.MAX_CAPTURE_GROUPS then limErr "Capture group count limit exceeded"
          else
            let st := { st with groupCount := st.groupCount + 1 }
            let named : Res (Option (List Nat) × PState) :=
              match tryConsumeStr [0x3F] st with
              | (true, st) =>
                match tryConsumeName st.input with
                | .error e => .error e
                | .ok (none, _) => synErr "Invalid token at named capture group identifier"
                | .ok (some name, rest) => .ok (some name, { st with input := rest })
              | (false, st) => .ok (none, st)
            match named with
            | .error e => .error e
            | .ok (groupName, st) =>
              closeParen (match consumeDisjunction fuel st with
                | .error e => .error e
                | .ok (contents, st) => .ok (.group group groupName contents, st, true))
    else if c == 0x5B && fl.unicodeSets then
      match consume st with
      | .error e => .error e
      | .ok (_, st) =>
        let (negateSet, st) := tryConsume 0x5E st
        match classSetExpression fl (!st.named.isEmpty) (2 * st.input.length + 4)
            { inp := st.input, depth := st.depth } with
        | .error e => .error e
        | .ok (cs, cst) =>
          if negateSet && cs.mayContainStrings then synErr "Negated class may not contain strings"
          else
          .ok ⟨result ++ [cs.node fl.icase negateSet], { st with input := cst.inp, depth := cst.depth },
            startOffset, true⟩
    else if c == 0x5B then
      match consumeBracket fl (!st.named.isEmpty) st.input with
      | .error e => .error e
      | .ok (nd, rest) => .ok ⟨result ++ [nd], { st with input := rest }, startOffset, true⟩
    else if c == 0x7B && !fl.unicode then
      match bracedQuantifier st.input with
      | .error e => .error e
      | .ok (some _, _) => synErr "Invalid braced quantifier"
      | .ok (none, _) =>
        match consume st with
        | .error e => .error e
        | .ok (cp, st) =>
          match charNode fl cp with
          | .error e => .error e
          | .ok nd => .ok ⟨result ++ [nd], st, startOffset, true⟩
    else if (c == 0x2A || c == 0x2B || c == 0x3F || c == 0x5D || c == 0x7B || c == 0x7D) && fl.unicode then
      synErr "Invalid atom character"
    else if c == 0x2A || c == 0x2B || c == 0x3F then synErr "Invalid atom character"
    else
      match consume st with
      | .error e => .error e
      | .ok (_, st) =>
        match charNode fl c with
        | .error e => .error e
        | .ok nd => .ok ⟨result ++ [nd], st, startOffset, true⟩
end

/-! ## `finalize`: `ir::walk_mut(false, unicode, &mut re.node, &mut Node::reverse_cats)` -/

mutual
/-- `MutWalker::process` with `func = Node::reverse_cats`, pre-order: the node itself is visited
first (a `Cat` has its children reversed when `in_lookbehind`), then its children; a
`LookaroundAssertion` sets `in_lookbehind := backwards` for its contents and restores it after. -/
def reverseCats (inLookbehind : Bool) : Node → Res Node
  | .cat ns =>
    match reverseCatsList inLookbehind ns with
    | .error e => .error e
    | .ok ns' => .ok (.cat (if inLookbehind then ns'.reverse else ns'))
  | .byteSeq _ => panicAt "reverse_cats: Should not be reversing literal bytes"
  | .alt l r =>
    match reverseCats inLookbehind l, reverseCats inLookbehind r with
    | .ok l', .ok r' => .ok (.alt l' r')
    | .error e, _ => .error e
    | _, .error e => .error e
  | .group id name c =>
    match reverseCats inLookbehind c with
    | .error e => .error e
    | .ok c' => .ok (.group id name c')
  | .look n b sg eg c =>
    match reverseCats b c with
    | .error e => .error e
    | .ok c' => .ok (.look n b sg eg c')
  | .loop l q g0 g1 =>
    match reverseCats inLookbehind l with
    | .error e => .error e
    | .ok l' => .ok (.loop l' q g0 g1)
  | .loop1 l q =>
    match reverseCats inLookbehind l with
    | .error e => .error e
    | .ok l' => .ok (.loop1 l' q)
  | n => .ok n
def reverseCatsList (inLookbehind : Bool) : List Node → Res (List Node)
  | [] => .ok []
  | n :: ns =>
    match reverseCats inLookbehind n, reverseCatsList inLookbehind ns with
    | .ok n', .ok ns' => .ok (n' :: ns')
    | .error e, _ => .error e
    | _, .error e => .error e
end

/-- `finalize`. -/
def finalize (st : PState) (re : Regex) : Res Regex :=
  if st.hasLookbehind then
    match reverseCats false re.node with
    | .error e => .error e
    | .ok n => .ok { re with node := n }
  else .ok re

/-! ## `try_parse` -/

def parseFuel (pattern : List Nat) : Nat := 4 * pattern.length + 8

/-- The part of `Parser::try_parse` after `self.parse_capture_groups()?`. -/
def parseBody (st : PState) : Res Regex :=
  match consumeDisjunction (parseFuel st.input) st with
  | .error e => .error e
  | .ok (body, st) =>
    match st.input with
    | c :: _ => if c == 0x29 then synErr "Unbalanced parenthesis" else synErr "Unexpected char"
    | [] => finalize st { node := makeCat [body, .goal], flags := st.flags }

/-- `Parser::try_parse` (after the state has been set up). -/
def tryParse (st : PState) : Res Regex :=
  match parseCaptureGroups st with
  | .error e => .error e
  | .ok st => parseBody st

/-- `parse::try_parse(pattern, flags)`. -/
def parse (pattern : List Nat) (flags : Flags) : Res Regex :=
  let flags := if flags.unicodeSets then { flags with unicode := true } else flags
  tryParse { input := pattern, flags := flags }

/-! ## Line protocol (for differential testing against the real parser) -/

def flagsOfString (s : String) : Flags :=
  s.toList.foldl (fun fl c =>
    if c == 'i' then { fl with icase := true }
    else if c == 'm' then { fl with multiline := true }
    else if c == 's' then { fl with dotAll := true }
    else if c == 'u' then { fl with unicode := true }
    else if c == 'v' then { fl with unicodeSets := true }
    else fl) { noOpt := true }

def patternOfString (s : String) : Option (List Nat) :=
  if s == "-" then some [] else IR.allSome ((s.splitOn ".").map IR.parseHex)

/-- `flags` is a flag string or `-`; `pattern` is `hex.hex.…` or `-`.
Output: `ok <canonical IR>`, `err`, or `panic <site>`. -/
def parseLine (flags pattern : String) : String :=
  match patternOfString pattern with
  | none => "bad-request"
  | some cps =>
    match parse cps (flagsOfString flags) with
    | .ok re => "ok " ++ IR.toCanon re.node
    | .error (.panic site) => "panic " ++ site
    | .error _ => "err"

end Regress.Parse
