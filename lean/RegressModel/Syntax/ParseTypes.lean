import RegressModel.IR.Node
import RegressModel.Sets.CodePointSet
import RegressModel.Unicode.Fold
import RegressModel.Unicode.Props
import RegressModel.Gen.Tables
import RegressModel.Gen.Consts
import RegressModel.Gen.Strings
/-!
# Parser model, part 1: types, character predicates, pure helpers (`src/parse.rs`, `src/unicode.rs`)

Code points are `Nat`; the pattern is a `List Nat` of code points (the Rust type is an iterator of
`u32`; values that are not Unicode scalar values -- surrogates, or above `0x10FFFF` -- are possible
and `char::from_u32` failing on them is modelled by `isChar`).  The model agrees with a release
build (no `debug_assert!`, wrapping arithmetic) for all code points `< 0xFFFFFFFF`; `usize` is 64-bit.

Panic sites.  An `unwrap`/`expect`/`unreachable!`/`panic!` of the Rust code is the explicit result
`.panic "<function>: <site>"`.  Where the Rust code unwraps immediately after the corresponding
test on the same value (`if nc.is_none() { return } … nc.unwrap()`; `self.consume(c)` /
`self.next().expect(..)` right after `self.peek()` returned `Some(c)`; `v[0]` under `v.len() == 1`)
the model matches on the value once and the unwrap has no separate counterpart.

Everything in this file is a transliteration of a non-recursive (or list-recursive) helper of the
parser.  The recursive descent itself is in `Parse.lean`.
-/
namespace Regress.Parse
open Regress Regress.IR

/-- Result classification.  `syntax`: a syntax error (`Err(Error{..})`); `limit`: one of the three
resource limits ("too deeply nested", "capture group count", "loop count"), also an `Err` in Rust;
`panic site`: the Rust code would panic (`unwrap`/`expect`/`unreachable!`/`panic!`/index) at `site`,
or (site `"fuel"`) the model ran out of fuel. -/
inductive ParseError where
  | syntax (msg : String)
  | limit (msg : String)
  | panic (site : String)
deriving Repr, DecidableEq, Inhabited

abbrev Res := Except ParseError

def synErr {α} (msg : String) : Res α := .error (.syntax msg)
def limErr {α} (msg : String) : Res α := .error (.limit msg)
def panicAt {α} (site : String) : Res α := .error (.panic site)

def ParseError.isSyntax : ParseError → Bool
  | .syntax _ => true
  | _ => false
def ParseError.isLimit : ParseError → Bool
  | .limit _ => true
  | _ => false
def ParseError.isPanic : ParseError → Bool
  | .panic _ => true
  | _ => false

/-! ## Characters -/

/-- `char::from_u32(c).is_some()`. -/
def isChar (c : Nat) : Bool := c < 0xD800 || (0xE000 ≤ c && c ≤ 0x10FFFF)

def isAsciiDigit (c : Nat) : Bool := 0x30 ≤ c && c ≤ 0x39
def isAsciiLower (c : Nat) : Bool := 0x61 ≤ c && c ≤ 0x7A
def isAsciiUpper (c : Nat) : Bool := 0x41 ≤ c && c ≤ 0x5A
def isAsciiAlpha (c : Nat) : Bool := isAsciiLower c || isAsciiUpper c
def isOctalDigit (c : Nat) : Bool := 0x30 ≤ c && c ≤ 0x37

/-- `char::to_digit(16)` (ASCII hex digits only). -/
def hexDigit? (c : Nat) : Option Nat :=
  if 0x30 ≤ c && c ≤ 0x39 then some (c - 0x30)
  else if 0x61 ≤ c && c ≤ 0x66 then some (c - 0x61 + 10)
  else if 0x41 ≤ c && c ≤ 0x46 then some (c - 0x41 + 10)
  else none

/-! ## Interval conversions, tables -/

def ivsOfPairs (l : List (Nat × Nat)) : CPS.IvList := l.map fun p => { first := p.1, last := p.2 }
def pairsOfIvs (l : CPS.IvList) : List (Nat × Nat) := l.map fun iv => (iv.first, iv.last)

def mkBracket (invert : Bool) (cps : CPS.IvList) : Node :=
  .bracket { invert := invert, ivs := pairsOfIvs cps }

def ccDigits : CPS.IvList := ivsOfPairs (Packed.decode Gen.CC_DIGITS_len Gen.CC_DIGITS)
def ccWordChars : CPS.IvList := ivsOfPairs (Packed.decode Gen.CC_WORD_CHARS_len Gen.CC_WORD_CHARS)
def ccWhitespace : CPS.IvList := ivsOfPairs (Packed.decode Gen.CC_WHITESPACE_len Gen.CC_WHITESPACE)
def ccLineTerminator : CPS.IvList :=
  ivsOfPairs (Packed.decode Gen.CC_LINE_TERMINATOR_len Gen.CC_LINE_TERMINATOR)

def idStartRanges : List (Nat × Nat) := Packed.decode Gen.T_ID_START_len Gen.T_ID_START
def idContinueRanges : List (Nat × Nat) := Packed.decode Gen.T_ID_CONTINUE_len Gen.T_ID_CONTINUE

/-- `interval_contains(id_start_ranges(), c) || c == '$' || c == '_'`. -/
def isIdStart (c : Nat) : Bool := Packed.mem idStartRanges c || c == 0x24 || c == 0x5F
/-- `interval_contains(id_continue_ranges(), c) || c == '$' || c == '_' || ZWNJ || ZWJ`. -/
def isIdContinue (c : Nat) : Bool :=
  Packed.mem idContinueRanges c || c == 0x24 || c == 0x5F || c == 0x200C || c == 0x200D

/-- `enum CharacterClassType`. -/
inductive ClassType where
  | digits | spaces | words
deriving Repr, DecidableEq

/-- `codepoints_from_class_positive`. -/
def codepointsFromClassPositive : ClassType → CPS.IvList
  | .digits => ccDigits
  | .words => ccWordChars
  | .spaces => ccLineTerminator.foldl CPS.add ccWhitespace

/-- `codepoints_from_class`: with `icase` the positive set is closed under case equivalence
before it is (optionally) inverted. -/
def codepointsFromClass (ct : ClassType) (positive icase : Bool) : CPS.IvList :=
  let cps := codepointsFromClassPositive ct
  let cps := if icase then Fold.addIcaseCodePoints cps else cps
  if positive then cps else CPS.inverted cps

/-! ## Case closure

`unfold_char`, `unfold_uppercase_char`, `expand_code_point`, `add_icase_code_points`
(`src/unicode.rs`) are modelled in `RegressModel/Unicode/Fold.lean`
(`Fold.expandCodePoint`, `Fold.addIcaseCodePoints`). -/

/-- `make_bracket_class`. -/
def makeBracketClass (ct : ClassType) (positive icase : Bool) : Node :=
  let cps := codepointsFromClassPositive ct
  let cps := if icase then Fold.addIcaseCodePoints cps else cps
  let cps := if !positive then CPS.inverted cps else cps
  mkBracket false cps

/-! ## `make_cat`, `make_alt` -/

/-- `make_cat`.  (`nodes.into_iter().next().unwrap()` is under `len == 1`.) -/
def makeCat : List Node → Node
  | [] => .empty
  | [n] => n
  | ns => .cat ns

/-- `make_alt` (balanced: `right = nodes.split_off(n / 2)`); `fuel` ≥ the length suffices. -/
def makeAltFuel : Nat → List Node → Node
  | _, [] => .empty
  | _, [n] => n
  | 0, _ => .empty            -- not reached with `fuel = length`
  | fuel+1, ns =>
    let h := ns.length / 2
    .alt (makeAltFuel fuel (ns.take h)) (makeAltFuel fuel (ns.drop h))

def makeAlt (ns : List Node) : Node := makeAltFuel ns.length ns

/-! ## Parser state -/

/-- `struct Parser`.  `named` models `named_group_indices: HashMap<String, Vec<u32>>` as an
association list in first-insertion order (the map is only used through `entry`, `get`,
`is_empty`; it is never iterated). -/
structure PState where
  input : List Nat
  flags : Flags
  loopCount : Nat := 0
  groupCount : Nat := 0
  groupCountMax : Nat := 0
  named : List (List Nat × List Nat) := []
  hasLookbehind : Bool := false
  depth : Nat := 0
deriving Repr

/-- `self.consume(c)`: `self.input.next().unwrap()` (the `debug_assert!` that the char equals `c`
is not modelled: it is a no-op in release builds; all call sites pass the char just peeked). -/
def consume (st : PState) : Res (Nat × PState) :=
  match st.input with
  | [] => panicAt "consume: input.next().unwrap()"
  | c :: rest => .ok (c, { st with input := rest })

/-- `self.try_consume(c)`. -/
def tryConsume (c : Nat) (st : PState) : Bool × PState :=
  match st.input with
  | d :: rest => if d == c then (true, { st with input := rest }) else (false, st)
  | [] => (false, st)

/-- The cursor loop of `try_consume_str`. -/
def stripPrefix? : (s : List Nat) → (inp : List Nat) → Option (List Nat)
  | [], inp => some inp
  | _ :: _, [] => none
  | c :: s, d :: inp => if c == d then stripPrefix? s inp else none

/-- `self.try_consume_str(s)`. -/
def tryConsumeStr (s : List Nat) (st : PState) : Bool × PState :=
  match stripPrefix? s st.input with
  | some rest => (true, { st with input := rest })
  | none => (false, st)

/-- `self.char_node(c)`. -/
def charNode (fl : Flags) (c : Nat) : Res Node :=
  if !fl.icase then .ok (.char c)
  else
    let cls := Fold.expandCodePoint c fl.icase fl.unicode
    match cls with
    | [x] => .ok (.char x)
    | [_, _] => .ok (.charSet cls)
    | [_, _, _] => .ok (.charSet cls)
    | [_, _, _, _] => .ok (.charSet cls)
    | _ => panicAt "char_node: Unicode case fold exceeded maximum expansion"

/-! ## Decimal literals and braced quantifiers -/

def USIZE_MAX : Nat := 18446744073709551615

/-- `result.saturating_mul(10).saturating_add(digit)` on a 64-bit `usize`. -/
def satMul10Add (r d : Nat) : Nat := min (min (r * 10) USIZE_MAX + d) USIZE_MAX

/-- The `while let Some(c) = self.peek()` loop of `try_consume_decimal_integer_literal`. -/
def decimalLoop : List Nat → (result count : Nat) → Nat × Nat × List Nat
  | [], r, k => (r, k, [])
  | c :: rest, r, k =>
    if isAsciiDigit c then decimalLoop rest (satMul10Add r (c - 0x30)) (k + 1) else (r, k, c :: rest)

/-- `try_consume_decimal_integer_literal` on the raw input. -/
def decimalLiteral (inp : List Nat) : Option Nat × List Nat :=
  match decimalLoop inp 0 0 with
  | (r, k, rest) => if k > 0 then (some r, rest) else (none, rest)

/-- `decimal_digits`: the leading decimal digits of the input without leading zeros, as
`(length, digits)`. -/
def decimalDigits (inp : List Nat) : Nat × List Nat :=
  let digits := (inp.takeWhile isAsciiDigit).dropWhile (fun c => c == 0x30)
  (digits.length, digits)

/-- `a < b` on `Vec<u32>` (lexicographic; a proper prefix is smaller). -/
def lexLt : List Nat → List Nat → Bool
  | _, [] => false
  | [], _ :: _ => true
  | a :: as, b :: bs => a < b || (a == b && lexLt as bs)

/-- `a > b` on `(usize, Vec<u32>)` (lexicographic on the pair). -/
def digitsGt (a b : Nat × List Nat) : Bool :=
  b.1 < a.1 || (a.1 == b.1 && lexLt b.2 a.2)

/-- `try_consume_braced_quantifier`, on the raw input which must start with `{`
(`self.consume('{')` unwraps).  `rest` is `min_digits`, `r` is `max_digits`: when both bounds
saturate to `usize::MAX` and the minimum's digit string denotes the larger number the maximum
becomes `usize::MAX - 1` (so that the caller's `min > max` test fires). -/
def bracedQuantifier (inp : List Nat) : Res (Option Quant × List Nat) :=
  match inp with
  | [] => panicAt "try_consume_braced_quantifier: consume('{')"
  | _ :: rest =>
    match decimalLiteral rest with
    | (none, _) => .ok (none, inp)
    | (some mn, rest1) =>
      let (mx, rest2) : Option Nat × List Nat :=
        match rest1 with
        | 0x2C :: r =>
          match decimalLiteral r with
          | (mx, r') =>
            if mn == USIZE_MAX && mx == some USIZE_MAX && digitsGt (decimalDigits rest) (decimalDigits r)
            then (some (USIZE_MAX - 1), r')
            else (mx, r')
        | _ => (some mn, rest1)
      match rest2 with
      | 0x7D :: r => .ok (some { min := mn, max := mx, greedy := true }, r)
      | _ => .ok (none, inp)

/-- `try_consume_quantifier_prefix`. -/
def quantifierPrefix (unicode : Bool) (inp : List Nat) : Res (Option Quant × List Nat) :=
  match inp with
  | [] => .ok (none, inp)
  | c :: rest =>
    if c == 0x2B then .ok (some { min := 1, max := none, greedy := true }, rest)
    else if c == 0x2A then .ok (some { min := 0, max := none, greedy := true }, rest)
    else if c == 0x3F then .ok (some { min := 0, max := some 1, greedy := true }, rest)
    else if c == 0x7B then
      match bracedQuantifier inp with
      | .error e => .error e
      | .ok (some q, r) => .ok (some q, r)
      | .ok (none, r) => if unicode then synErr "Invalid quantifier" else .ok (none, r)
    else .ok (none, inp)

/-- `try_consume_quantifier`. -/
def quantifier (unicode : Bool) (inp : List Nat) : Res (Option Quant × List Nat) :=
  match quantifierPrefix unicode inp with
  | .error e => .error e
  | .ok (none, r) => .ok (none, r)
  | .ok (some q, r) =>
    match r with
    | 0x3F :: r' => .ok (some { q with greedy := false }, r')
    | _ => .ok (some q, r)

/-! ## `\u` escapes -/

/-- The digit loop of `uN::from_str_radix(_, 16)` (value unbounded; callers bound it). -/
def hexAll : List Nat → Nat → Option Nat
  | [], acc => some acc
  | c :: rest, acc =>
    match hexDigit? c with
    | some d => hexAll rest (acc * 16 + d)
    | none => none

/-- `u32::from_str_radix(s, 16)` / `u16::from_str_radix(s, 16)` without the overflow check:
empty → `Err`; a lone sign → `Err`; ONE leading `+` is accepted (Rust's integer parsing does
that for unsigned types as well); a leading `-` is an invalid digit. -/
def fromStrRadix16 (s : List Nat) : Option Nat :=
  match s with
  | [] => none
  | [0x2B] => none
  | [0x2D] => none
  | 0x2B :: rest => hexAll rest 0
  | _ => hexAll s 0

/-- `s.bytes().all(|b| b.is_ascii_hexdigit())` on a `String` (a non-ASCII char contributes only
bytes `≥ 0x80`, none of which is a hex digit). -/
def allHexDigits (s : List Nat) : Bool := s.all fun c => (hexDigit? c).isSome

/-- `if s.bytes().all(|b| b.is_ascii_hexdigit()) { uN::from_str_radix(&s, 16).ok() } else { None }`
(without the overflow check, as for `fromStrRadix16`). -/
def hexDigitsRadix16 (s : List Nat) : Option Nat :=
  if allHexDigits s then fromStrRadix16 s else none

/-- The `loop` reading up to `}` in `try_escape_unicode_sequence`:
`next().and_then(char::from_u32)` is `None` at the end of input and on a non-scalar value. -/
def scanBrace : List Nat → List Nat → Option (List Nat × List Nat)
  | [], _ => none
  | c :: rest, acc =>
    if !isChar c then none
    else if c == 0x7D then some (acc, rest)
    else scanBrace rest (acc ++ [c])

/-- `for _ in 0..4 { s.push(self.next().and_then(char::from_u32)?) }`. -/
def take4 (inp : List Nat) : Option (List Nat × List Nat) :=
  match inp with
  | a :: b :: c :: d :: rest =>
    if isChar a && isChar b && isChar c && isChar d then some ([a, b, c, d], rest) else none
  | _ => none

/-- `try_escape_unicode_sequence` on the raw input (positioned after `\u`).
Returns the code point and the remaining input (the original input when `None`).
After a high surrogate followed by `\u`, a failure to read a low surrogate restores the input to
just BEFORE that second `\u` (`orig_input` is reassigned before `try_consume_str("\\u")`). -/
def tryEscapeUnicodeSequence (inp : List Nat) : Option Nat × List Nat :=
  match inp with
  | 0x7B :: rest =>
    match scanBrace rest [] with
    | none => (none, inp)
    | some (s, rest') =>
      match hexDigitsRadix16 s with
      | some u => if u > 0x10FFFF then (none, inp) else (some u, rest')
      | none => (none, inp)
  | _ =>
    match take4 inp with
    | none => (none, inp)
    | some (s, rest) =>
      match hexDigitsRadix16 s with
      | none => (none, inp)
      | some u =>
        if 0xD800 ≤ u && u ≤ 0xDBFF then
          match rest with
          | 0x5C :: 0x75 :: rest2 =>
            match take4 rest2 with
            | none => (some u, rest)
            | some (s2, rest3) =>
              match hexDigitsRadix16 s2 with
              | none => (some u, rest)
              | some uu =>
                if 0xDC00 ≤ uu && uu ≤ 0xDFFF then
                  (some (0x10000 + (u - 0xD800) * 0x400 + (uu - 0xDC00)), rest3)
                else (some u, rest)
          | _ => (some u, rest)
        else (some u, rest)

/-! ## Group names -/

/-- One (possibly `\u`-escaped) name character:
`next().and_then(char::from_u32)`, then `if c == '\\' && try_consume('u') { escape }`. -/
def nameChar (inp : List Nat) : Option (Nat × List Nat) :=
  match inp with
  | [] => none
  | c :: rest =>
    if !isChar c then none
    else if c == 0x5C then
      match rest with
      | 0x75 :: rest2 =>
        match tryEscapeUnicodeSequence rest2 with
        | (some e, rest3) => if isChar e then some (e, rest3) else none
        | (none, _) => none
      | _ => some (c, rest)
    else some (c, rest)

/-- The `loop` of `try_consume_named_capture_group_name`. `orig` is `orig_input` (after `<`).
Only an UNESCAPED `>` ends the name: the `c == '>'` test comes before the `\u` escape is resolved
(an escaped `>` then fails the ID_Continue test). -/
def nameLoop : Nat → List Nat → List Nat → List Nat → Res (Option (List Nat) × List Nat)
  | 0, _, _, _ => panicAt "fuel"
  | fuel+1, inp, acc, orig =>
    match inp with
    | [] => .ok (none, orig)
    | c0 :: rest0 =>
      if c0 == 0x3E then .ok (some acc, rest0)
      else
        match nameChar inp with
        | none => .ok (none, orig)
        | some (c, rest) =>
          if isIdContinue c then nameLoop fuel rest (acc ++ [c]) orig
          else .ok (none, orig)

/-- `try_consume_named_capture_group_name` on the raw input.
NOTE (as in the Rust code): on failure after the `<` was consumed the input is restored to just
after the `<`, not before it. -/
def tryConsumeName (inp : List Nat) : Res (Option (List Nat) × List Nat) :=
  match inp with
  | 0x3C :: orig =>
    match nameChar orig with
    | none => .ok (none, orig)
    | some (c, rest) =>
      if isIdStart c then nameLoop (rest.length + 1) rest [c] orig else .ok (none, orig)
  | _ => .ok (none, inp)

/-! ## Character escapes -/

/-- `consume_character_escape` on the raw input.  `hasNamed` is
`!self.named_group_indices.is_empty()` (the map is filled by the pre-scan before parsing starts
and never changes afterwards). -/
def characterEscape (unicode hasNamed : Bool) (inp : List Nat) : Res (Nat × List Nat) :=
  match inp with
  | [] => panicAt "consume_character_escape: next().expect(\"Should have a character\")"
  | c :: rest =>
    if c == 0x66 then .ok (0xC, rest)
    else if c == 0x6E then .ok (0xA, rest)
    else if c == 0x72 then .ok (0xD, rest)
    else if c == 0x74 then .ok (0x9, rest)
    else if c == 0x76 then .ok (0xB, rest)
    else if c == 0x63 then
      match rest with
      | nc :: rest' => if isAsciiAlpha nc then .ok (nc % 32, rest') else synErr "Invalid character escape"
      | [] => synErr "Invalid character escape"
    else if c == 0x30 && !(match rest with | d :: _ => isAsciiDigit d | [] => false) then .ok (0, rest)
    else if c == 0x78 then
      -- x1 and x2 are both read (two `next()` calls) before the match
      let x1 := match rest with | a :: _ => hexDigit? a | [] => none
      let x2 := match rest with | _ :: b :: _ => hexDigit? b | _ => none
      match x1, x2 with
      | some a, some b => .ok (a * 16 + b, rest.drop 2)
      | _, _ => if !unicode then .ok (c, rest) else synErr "Invalid character escape"
    else if c == 0x75 then
      match tryEscapeUnicodeSequence rest with
      | (some u, rest') => .ok (u, rest')
      | (none, rest') => if !unicode then .ok (c, rest') else synErr "Invalid unicode escape"
    else if isOctalDigit c && !unicode then
      match rest with
      | [] => .ok (c - 0x30, rest)
      | c1 :: rest1 =>
        if c == 0x30 && (c1 == 0x38 || c1 == 0x39) then .ok (0, rest)
        else if !isOctalDigit c1 then .ok (c - 0x30, rest)
        else if 0x34 ≤ c && c ≤ 0x37 then .ok ((c - 0x30) * 8 + c1 - 0x30, rest1)
        else if 0x30 ≤ c && c ≤ 0x33 then
          match rest1 with
          | c2 :: rest2 =>
            if isOctalDigit c2 then .ok ((c - 0x30) * 64 + (c1 - 0x30) * 8 + c2 - 0x30, rest2)
            else .ok ((c - 0x30) * 8 + c1 - 0x30, rest1)
          | [] => .ok ((c - 0x30) * 8 + c1 - 0x30, rest1)
        else panicAt "consume_character_escape: unreachable!()"
    else if c == 0x5E || c == 0x24 || c == 0x5C || c == 0x2E || c == 0x2A || c == 0x2B || c == 0x3F
        || c == 0x28 || c == 0x29 || c == 0x5B || c == 0x5D || c == 0x7B || c == 0x7D || c == 0x7C
        || c == 0x2F then .ok (c, rest)
    else if c == 0x6B && !unicode && hasNamed then synErr "Invalid character escape"
    else if !unicode then .ok (c, rest)
    else synErr "Invalid character escape"

/-! ## Property escapes -/

/-- `PropertyEscapeKind`, resolved to data. -/
inductive PropKind where
  | charClass (ivs : CPS.IvList)
  | stringSet (strs : List (List Nat))

/-- `try_consume_unicode_property_escape` on the raw input (after `\p` / `\P`). -/
def propertyEscape (unicodeSets : Bool) (inp : List Nat) : Res (PropKind × List Nat) :=
  match Props.consumePropertyEscape unicodeSets inp with
  | none => synErr "Invalid property escape"
  | some (.charClass p len, rest) => .ok (.charClass (ivsOfPairs (Packed.decode len p)), rest)
  | some (.stringSet idx, rest) =>
    match Gen.stringTables[idx]? with
    | some (p, len) => .ok (.stringSet (Packed.decodeStrings len p), rest)
    | none => panicAt "string_property_sets: index"

end Regress.Parse
