import RegressModel.Spec.ESMatch
import RegressModel.Syntax.Parse
import RegressModel.IR.Lines
/-!
# From the ECMAScript AST to the crate's IR (`src/parse.rs` seen from the AST side)

`toIR flags ast` is the `ir::Regex` that `parse::try_parse` builds for the pattern text of `ast`
(the text the harness prints with `ast.rs: pattern_string`).  It is the missing link between the
specification semantics of `Spec/ESMatch.lean` (defined on the AST) and the IR semantics of
`IR/Sem.lean` (defined on what the parser produces).

It follows `parse.rs` construct by construct and calls the *same* helper functions as the
line-by-line parser model (`Syntax/ParseTypes.lean`, `Syntax/ParseClass.lean`, `Syntax/Parse.lean`):
`charNode`, `makeCat`, `makeAlt`, `makeBracketClass`, `mkBracket`, `codepointsFromClass`,
`addClassAtom`, `ClassSet.{unionOperand, intersectOperand, subtractOperand, node}`,
`closeClassSetOperand`, `classStringSet`, `applyMods`, `reverseCats`, `Props.propertyFromStr`,
`Fold.addIcaseCodePoints`, `CPS.*`.

Shape of the text.  `pattern_string` prints a `cat` nested directly in a `cat`, an `empty` inside
a `cat` and an `alt` nested directly in an `alt` *inline* (these shapes are not productions of the
grammar: an `Alternative` is a flat sequence of `Term`s), every other nesting through a group.
`normalize` flattens exactly these shapes; `lowerNode` then treats every node uniformly:

* an `alt` child of a `cat`, and a `cat`/`alt`/`quant`/`empty` body of a `quant`, are printed inside
  `(?:…)`, whose IR is the IR of the disjunction itself (`consume_disjunction` returns
  `make_alt(terms)` and a non-capturing group adds no node);
* `make_alt [x] = x`, `make_cat [x] = x`, `make_cat [] = Empty`.

The resource limits of the parser (nesting depth, capture groups, loops) are checked up front on the
AST (`exceedsLimits`): the parser fails with an error in exactly these cases (at some point of the
descent), and every failure is the same result `err` here.

A quantifier bound above `usize::MAX` saturates in the crate; `toIR` reports an error instead.
-/
namespace Regress.Lower
open Regress Regress.IR Regress.Parse

/-- `api::Flags` of the flag letters, as `parse::try_parse` sees them (`v` implies `u`). -/
def irFlags (f : ES.Flags) : IR.Flags :=
  { icase := f.i, multiline := f.m, dotAll := f.s, unicode := f.u || f.v, unicodeSets := f.v }

/-- `\d \D \s \S \w \W` as `(CharacterClassType, positive)`. -/
def classOfEsc : ES.ClassEsc → ClassType × Bool
  | .d => (.digits, true)
  | .D => (.digits, false)
  | .s => (.spaces, true)
  | .S => (.spaces, false)
  | .w => (.words, true)
  | .W => (.words, false)

/-- The property name before `=`: kind 0 lone, 1 `gc=`, 2 `sc=`, 3 `scx=`
(`unicode_property_name_from_str` of `gc`/`sc`/`scx` is 0/1/2). -/
def propName : Nat → Option (Option Nat)
  | 0 => some none
  | 1 => some (some 0)
  | 2 => some (some 1)
  | 3 => some (some 2)
  | _ => none

/-- `try_consume_unicode_property_escape` on the text `{NAME}` / `{gc=NAME}` / `{sc=NAME}` /
`{scx=NAME}` (as `Parse.propertyEscape`, but from the already split name). -/
def lowerProp (unicodeSets : Bool) (kind name : Nat) : Except String PropKind :=
  match propName kind with
  | none => .error "bad property kind"
  | some nm =>
    match Props.propertyFromStr name nm unicodeSets with
    | none => .error "Invalid property escape"
    | some (.charClass p len) => .ok (.charClass (ivsOfPairs (Packed.decode len p)))
    | some (.stringSet idx) =>
      match Gen.stringTables[idx]? with
      | some (p, len) => .ok (.stringSet (Packed.decodeStrings len p))
      | none => .error "string_property_sets: index"

/-! ## Legacy / `u`-mode brackets (`consume_bracket`) -/

/-- One iteration of the `loop` of `consume_bracket` for one AST item (`a-b` is one item). -/
def lowerClassItem (fl : IR.Flags) (cps : CPS.IvList) : ES.ClassItem → Except String CPS.IvList
  | .c c => .ok (addClassAtom (fl.icase && fl.unicode) cps (.codePoint c))
  | .r lo hi =>
    if lo > hi then .error "Range values reversed"
    else .ok (CPS.add cps { first := lo, last := hi })
  | .esc e =>
    .ok (addClassAtom (fl.icase && fl.unicode) cps (.charClass (classOfEsc e).1 (classOfEsc e).2))
  | .prop neg kind name =>
    if !fl.unicode then .error "property escape without u/v flag"
    else
      match lowerProp fl.unicodeSets kind name with
      | .error e => .error e
      | .ok (.charClass s) => .ok (addClassAtom (fl.icase && fl.unicode) cps (.range s neg))
      | .ok (.stringSet _) => .error "Invalid property escape"

def lowerClassItems (fl : IR.Flags) : List ES.ClassItem → CPS.IvList → Except String CPS.IvList
  | [], cps => .ok cps
  | i :: is, cps =>
    match lowerClassItem fl cps i with
    | .error e => .error e
    | .ok cps => lowerClassItems fl is cps

/-- `consume_bracket`. -/
def lowerClass (fl : IR.Flags) (invert : Bool) (items : List ES.ClassItem) : Except String Node :=
  match lowerClassItems fl items [] with
  | .error e => .error e
  | .ok cps =>
    let cps := if fl.icase then Fold.addIcaseCodePoints cps else cps
    .ok (mkBracket invert cps)

/-! ## `v`-mode class sets (`consume_class_set_expression`, `consume_class_set_operand`) -/

mutual
/-- `consume_class_set_operand`. -/
def lowerVOperand (fl : IR.Flags) : ES.VOp → Except String Operand
  | .c c => .ok (.char c)
  | .r _ _ => .error "a class set range is not an operand"
  | .esc e => .ok (.esc (codepointsFromClass (classOfEsc e).1 (classOfEsc e).2 fl.icase))
  | .prop pneg kind name =>
    match lowerProp fl.unicodeSets kind name with
    | .error e => .error e
    | .ok (.charClass ivs) =>
      if pneg then
        let cps := if fl.icase then Fold.addIcaseCodePoints ivs else ivs
        .ok (.esc (CPS.inverted cps))
      else .ok (.esc ivs)
    | .ok (.stringSet strs) =>
      if pneg then .error "Invalid character escape" else .ok (.strs strs)
  | .q strs =>
    if strs.isEmpty then .error "\\q{} without a ClassString"
    else .ok (.cls (classStringSet strs {}))
  | .cls negateSet op ops =>
    match (match op with
           | .union => lowerVUnion fl ops {}
           | .inter => lowerVInterStart fl ops
           | .sub => lowerVSubStart fl ops) with
    | .error e => .error e
    | .ok result =>
      if negateSet && result.mayContainStrings then .error "Negated class may not contain strings"
      else
        let result :=
          if negateSet then
            let result := result.absorbSingleCharacters
            let cps := if fl.icase then Fold.addIcaseCodePoints result.cps else result.cps
            { result with cps := CPS.inverted cps }
          else result
        .ok (.cls result)
/-- `consume_class_set_expression` when `&&` follows the first operand. -/
def lowerVInterStart (fl : IR.Flags) : List ES.VOp → Except String ClassSet
  | o :: o2 :: os =>
    match lowerVOperand fl o with
    | .error e => .error e
    | .ok first =>
      lowerVInter fl (o2 :: os) (({} : ClassSet).unionOperand (closeClassSetOperand fl.icase first))
  | _ => .error "class set operator needs two operands"
/-- `consume_class_set_expression` when `--` follows the first operand. -/
def lowerVSubStart (fl : IR.Flags) : List ES.VOp → Except String ClassSet
  | o :: o2 :: os =>
    match lowerVOperand fl o with
    | .error e => .error e
    | .ok first =>
      lowerVSub fl (o2 :: os) (({} : ClassSet).unionOperand (closeClassSetOperand fl.icase first))
  | _ => .error "class set operator needs two operands"
/-- The `ClassSetOperator::Union` loop (a range is a member of the union only). -/
def lowerVUnion (fl : IR.Flags) : List ES.VOp → ClassSet → Except String ClassSet
  | [], acc => .ok acc
  | .r lo hi :: os, acc =>
    if lo > hi then .error "Invalid class set range"
    else lowerVUnion fl os { acc with cps := CPS.add acc.cps { first := lo, last := hi } }
  | o :: os, acc =>
    match lowerVOperand fl o with
    | .error e => .error e
    | .ok x => lowerVUnion fl os (acc.unionOperand x)
/-- The `ClassSetOperator::Intersection` loop. -/
def lowerVInter (fl : IR.Flags) : List ES.VOp → ClassSet → Except String ClassSet
  | [], acc => .ok acc
  | o :: os, acc =>
    match lowerVOperand fl o with
    | .error e => .error e
    | .ok x => lowerVInter fl os (acc.intersectOperand (closeClassSetOperand fl.icase x))
/-- The `ClassSetOperator::Subtraction` loop. -/
def lowerVSub (fl : IR.Flags) : List ES.VOp → ClassSet → Except String ClassSet
  | [], acc => .ok acc
  | o :: os, acc =>
    match lowerVOperand fl o with
    | .error e => .error e
    | .ok x => lowerVSub fl os (acc.subtractOperand (closeClassSetOperand fl.icase x))
end

/-- The `[` arm of `consume_term` under `v`: `consume_class_set_expression`, then `ClassSet::node`
(a negated class whose contents MayContainStrings is an error). -/
def lowerVClass (fl : IR.Flags) (negateSet : Bool) (op : ES.VSetOp) (ops : List ES.VOp) :
    Except String Node :=
  match (match op with
         | .union => lowerVUnion fl ops {}
         | .inter => lowerVInterStart fl ops
         | .sub => lowerVSubStart fl ops) with
  | .error e => .error e
  | .ok cs =>
    if negateSet && cs.mayContainStrings then .error "Negated class may not contain strings"
    else .ok (cs.node fl.icase negateSet)

/-! ## Atoms -/

/-- `\p{…}` / `\P{…}` as an atom (`consume_atom_escape`). -/
def lowerPropAtom (fl : IR.Flags) (negate : Bool) (kind name : Nat) : Except String Node :=
  if !(fl.unicode || fl.unicodeSets) then .error "property escape without u/v flag"
  else
    match lowerProp fl.unicodeSets kind name with
    | .error e => .error e
    | .ok (.charClass cps) =>
      if fl.icase then
        let cps :=
          if negate && fl.unicodeSets then CPS.inverted (Fold.addIcaseCodePoints cps)
          else if negate then Fold.addIcaseCodePoints (CPS.inverted cps)
          else Fold.addIcaseCodePoints cps
        .ok (mkBracket false cps)
      else .ok (mkBracket negate cps)
    | .ok (.stringSet strs) =>
      if negate then .error "Invalid character escape" else .ok (.stringSet strs fl.icase)

/-- The overrides a modifier group `(?add-rem:` collects (`try_consume_modifier_group`). -/
def modsOf (add rem : ES.Mods) : Parse.Mods :=
  { seenHyphen := !rem.isEmpty, sawFlag := true
    icase := if add.i then some true else if rem.i then some false else none
    multiline := if add.m then some true else if rem.m then some false else none
    dotAll := if add.s then some true else if rem.s then some false else none }

/-- `quantifier_allowed` of the atom printed for `n` (`^ $ \b \B`: no; look-behind: no; look-ahead:
only without `u`/`v`; everything else: yes). -/
def quantifiable (fl : IR.Flags) : ES.Node → Bool
  | .bol => false
  | .eol => false
  | .wb => false
  | .nwb => false
  | .look ahead _ _ => ahead && !fl.unicode
  | _ => true

/-! ## The descent -/

mutual
/-- The IR of a node (before `finalize`).  `pattern` is the whole pattern (for `\k<name>`), `total`
its number of capture groups (`group_count_max`), `pi` the number of capture groups opened before
the node (`self.group_count`). -/
def lowerNode (pattern : ES.Node) (total : Nat) : ES.Node → IR.Flags → (pi : Nat) → Except String Node
  | .empty, _, _ => .ok .empty
  | .char c, fl, _ =>
    match charNode fl c with
    | .ok n => .ok n
    | .error _ => .error "char_node: Unicode case fold exceeded maximum expansion"
  | .dot, fl, _ => .ok (if fl.dotAll then .matchAny else .matchAnyExceptLT)
  | .bol, fl, _ => .ok (.anchor true fl.multiline)
  | .eol, fl, _ => .ok (.anchor false fl.multiline)
  | .wb, fl, _ => .ok (.wordBoundary false (fl.unicode && fl.icase))
  | .nwb, fl, _ => .ok (.wordBoundary true (fl.unicode && fl.icase))
  | .cat ns, fl, pi =>
    match lowerList pattern total ns fl pi with
    | .error e => .error e
    | .ok xs => .ok (makeCat xs)
  | .alt ns, fl, pi =>
    if ns.isEmpty then .error "alt without alternatives"
    else
      match lowerList pattern total ns fl pi with
      | .error e => .error e
      | .ok xs => .ok (makeAlt xs)
  | .group _ name n, fl, pi =>
    match lowerNode pattern total n fl (pi + 1) with
    | .error e => .error e
    | .ok c => .ok (.group pi name c)
  | .nc n, fl, pi => lowerNode pattern total n fl pi
  | .mod add rem n, fl, pi =>
    if (add.isEmpty && rem.isEmpty) || add.overlaps rem then .error "Invalid group modifier"
    else lowerNode pattern total n (applyMods fl (modsOf add rem)) pi
  | .look ahead neg n, fl, pi =>
    match lowerNode pattern total n fl pi with
    | .error e => .error e
    | .ok c => .ok (.look neg (!ahead) pi (pi + ES.countParens n) c)
  | .bref k, fl, _ =>
    if 1 ≤ k ∧ k ≤ total then .ok (.backRef k fl.icase)
    else .error "back-reference out of range (a legacy octal escape in the crate)"
  | .nref name, fl, _ =>
    match ES.groupSpecifiersThatMatch pattern name with
    | [] => .error "Backreference to invalid named capture group"
    | [i] => .ok (.backRef i fl.icase)
    | idxs => .ok (.cat (idxs.map fun i => .backRef i fl.icase))
  | .quant min max greedy n, fl, pi =>
    if !quantifiable fl n then .error "Quantifier not allowed here"
    else if (match max with | some mx => decide (min > mx) | none => false) then
      .error "Invalid quantifier"
    else if min > USIZE_MAX || (match max with | some mx => decide (mx > USIZE_MAX) | none => false) then
      .error "quantifier bound above usize::MAX (saturates in the crate)"
    else
      match lowerNode pattern total n fl pi with
      | .error e => .error e
      | .ok body =>
        .ok (.loop body { min := min, max := max, greedy := greedy } pi (pi + ES.countParens n))
  | .esc e, fl, _ => .ok (makeBracketClass (classOfEsc e).1 (classOfEsc e).2 fl.icase)
  | .prop neg kind name, fl, _ => lowerPropAtom fl neg kind name
  | .cls neg items, fl, _ =>
    if fl.unicodeSets then .error "legacy class under the v flag" else lowerClass fl neg items
  | .vcls neg op ops, fl, _ =>
    if !fl.unicodeSets then .error "class set expression without the v flag"
    else lowerVClass fl neg op ops
/-- The children of a `cat` / `alt`, left to right. -/
def lowerList (pattern : ES.Node) (total : Nat) :
    List ES.Node → IR.Flags → Nat → Except String (List Node)
  | [], _, _ => .ok []
  | n :: ns, fl, pi =>
    match lowerNode pattern total n fl pi with
    | .error e => .error e
    | .ok x =>
      match lowerList pattern total ns fl (pi + ES.countParens n) with
      | .error e => .error e
      | .ok xs => .ok (x :: xs)
end

/-! ## Normal form of the AST (what the pattern text can express) -/

/-- What a child of a `cat` contributes to the flat sequence of terms. -/
def catItems : ES.Node → List ES.Node
  | .cat ms => ms
  | .empty => []
  | m => [m]

/-- What a child of an `alt` contributes to the flat list of alternatives. -/
def altItems : ES.Node → List ES.Node
  | .alt ms => ms
  | m => [m]

mutual
/-- Flatten `cat` in `cat`, `empty` in `cat`, `alt` in `alt`. -/
def normalize : ES.Node → ES.Node
  | .cat ns => .cat (normCat ns)
  | .alt ns => .alt (normAlt ns)
  | .group i nm n => .group i nm (normalize n)
  | .nc n => .nc (normalize n)
  | .mod a r n => .mod a r (normalize n)
  | .look a g n => .look a g (normalize n)
  | .quant mn mx g n => .quant mn mx g (normalize n)
  | n => n
def normCat : List ES.Node → List ES.Node
  | [] => []
  | n :: ns => catItems (normalize n) ++ normCat ns
def normAlt : List ES.Node → List ES.Node
  | [] => []
  | n :: ns => altItems (normalize n) ++ normAlt ns
end

/-! ## Resource limits, `finalize`, `try_parse` -/

mutual
def vNest : ES.VOp → Nat
  | .cls _ _ ops => 1 + vNestList ops
  | _ => 0
def vNestList : List ES.VOp → Nat
  | [] => 0
  | o :: os => max (vNest o) (vNestList os)
end

mutual
/-- How many levels of `self.depth` the text of a (normalized) node adds. -/
def nest : ES.Node → Nat
  | .cat ns => nestCat ns
  | .alt ns => nestList ns
  | .group _ _ n => 1 + nest n
  | .nc n => 1 + nest n
  | .mod _ _ n => 1 + nest n
  | .look _ _ n => 1 + nest n
  | .quant _ _ _ n =>
    match n with
    | .cat _ => 1 + nest n
    | .alt _ => 1 + nest n
    | .quant _ _ _ _ => 1 + nest n
    | .empty => 1
    | _ => nest n
  | .vcls _ _ ops => vNestList ops
  | _ => 0
def nestList : List ES.Node → Nat
  | [] => 0
  | n :: ns => max (nest n) (nestList ns)
/-- children of a `cat`: an `alt` child is wrapped in `(?:…)` -/
def nestCat : List ES.Node → Nat
  | [] => 0
  | n :: ns =>
    max (match n with
         | .alt _ => 1 + nest n
         | _ => nest n) (nestCat ns)
end

mutual
def countLoops : ES.Node → Nat
  | .cat ns => countLoopsList ns
  | .alt ns => countLoopsList ns
  | .group _ _ n => countLoops n
  | .nc n => countLoops n
  | .mod _ _ n => countLoops n
  | .look _ _ n => countLoops n
  | .quant _ _ _ n => 1 + countLoops n
  | _ => 0
def countLoopsList : List ES.Node → Nat
  | [] => 0
  | n :: ns => countLoops n + countLoopsList ns
end

mutual
/-- `self.has_lookbehind`. -/
def hasLookbehind : ES.Node → Bool
  | .cat ns => hasLookbehindList ns
  | .alt ns => hasLookbehindList ns
  | .group _ _ n => hasLookbehind n
  | .nc n => hasLookbehind n
  | .mod _ _ n => hasLookbehind n
  | .look ahead _ n => !ahead || hasLookbehind n
  | .quant _ _ _ n => hasLookbehind n
  | _ => false
def hasLookbehindList : List ES.Node → Bool
  | [] => false
  | n :: ns => hasLookbehind n || hasLookbehindList ns
end

/-- The three `Err` limits of the parser. -/
def exceedsLimits (a : ES.Node) : Bool :=
  decide (1 + nest a > Gen.MAX_NESTING_DEPTH) || decide (ES.countParens a > Gen.MAX_CAPTURE_GROUPS)
    || decide (countLoops a > Gen.MAX_LOOPS)

/-- `parse::try_parse` on the text of `ast`: the `ir::Regex`. -/
def toIR (f : ES.Flags) (ast : ES.Node) : Except String Regex :=
  let a := normalize ast
  let fl := irFlags f
  if exceedsLimits a then .error "limit exceeded"
  else
    match lowerNode a (ES.countParens a) a fl 0 with
    | .error e => .error e
    | .ok body =>
      let node := makeCat [body, .goal]
      if hasLookbehind a then
        match reverseCats false node with
        | .error _ => .error "reverse_cats: Should not be reversing literal bytes"
        | .ok node => .ok { node := node, flags := fl }
      else .ok { node := node, flags := fl }

/-- `lower FLAGS AST` → `ok <canonical IR, spaces as ~>` | `err`. -/
def lowerLine (flags ast : String) : String :=
  match ES.parseFlags flags, ES.parseAst ast with
  | some f, .ok a =>
    match toIR f a with
    | .ok r => "ok " ++ IR.tilde (toCanon r.node)
    | .error _ => "err"
  | _, _ => "bad-request"

end Regress.Lower
