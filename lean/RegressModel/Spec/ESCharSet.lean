import Std.Data.HashMap
import RegressModel.Unicode.Packed
import RegressModel.Gen.Oracle
import RegressModel.Gen.OracleFold
import RegressModel.Spec.ESAst
/-!
# ECMAScript 2025 regular expressions: RegExp Records, `Canonicalize`, CharSets, `CompileToCharSet`

Transliteration of ECMA-262 (2025) §22.2.2.7.3 `Canonicalize`, §22.2.2.9 `CompileToCharSet` and
the abstract operations `CharacterRange`, `HasEitherUnicodeFlag`, `WordCharacters`,
`AllCharacters`, `MaybeSimpleCaseFolding`, `CharacterComplement`, `UnicodeMatchProperty…`.

Deliberate simplifications (all documented where they occur):
* a *character* is a Unicode code point in every mode (no UTF-16 code units);
* `scf(ch)` is replaced by `scfRep ch`, the smallest member of `ch`'s simple-case-folding
  equivalence class (`Regress.Oracle.SCF`).  The semantics only ever compare canonicalized
  characters for equality, or test them for membership in a set that is closed under case
  equivalence in the relevant sense, so any choice of class representative gives the same
  matcher;
* Unicode property data come from the ICU snapshot `Regress.Oracle.accepted*`; properties of
  strings (`RGI_Emoji` …) are not available and are rejected by `ESMatch.validate`.
-/
namespace Regress.ES

/-! ## RegExp Records (§22.2.2.1.1) -/

/-- A *RegExp Record*. -/
structure RER where
  ignoreCase : Bool
  multiline : Bool
  dotAll : Bool
  unicode : Bool
  unicodeSets : Bool
  capturingGroupsCount : Nat
  deriving Repr, Inhabited

/-- `HasEitherUnicodeFlag(rer)` -/
def RER.hasEitherUnicodeFlag (rer : RER) : Bool := rer.unicode || rer.unicodeSets

def RER.ofFlags (f : Flags) (groups : Nat) : RER :=
  { ignoreCase := f.i, multiline := f.m, dotAll := f.s, unicode := f.u, unicodeSets := f.v,
    capturingGroupsCount := groups }

/-- `UpdateModifiers(rer, add, remove)` (§22.2.2.9.? , ES2025 modifiers). -/
def updateModifiers (rer : RER) (add rem : Mods) : RER :=
  { rer with
    ignoreCase := if add.i then true else if rem.i then false else rer.ignoreCase
    multiline := if add.m then true else if rem.m then false else rer.multiline
    dotAll := if add.s then true else if rem.s then false else rer.dotAll }

/-! ## Case-folding data -/

/-- A finite map `Nat → Nat` (identity outside `map`) together with its fibres. -/
structure FoldData where
  map : Std.HashMap Nat Nat
  inv : Std.HashMap Nat (List Nat)

def FoldData.ofPairs (ps : List (Nat × Nat)) : FoldData :=
  { map := ps.foldl (fun m p => m.insert p.1 p.2) {}
    inv := ps.foldl (fun m p => m.insert p.2 (p.1 :: m.getD p.2 [])) {} }

/-- The image of `c`. -/
def FoldData.image (d : FoldData) (c : Nat) : Nat := d.map.getD c c

/-- All `a` with `image a = k`: the listed pre-images, and `k` itself unless `k` is listed
(in which case it is among the pre-images iff its image is `k`). -/
def FoldData.fibre (d : FoldData) (k : Nat) : List Nat :=
  d.inv.getD k [] ++ (if d.map.contains k then [] else [k])

/-- Simple case folding (`scf`), as the smallest member of the folding class. -/
def scfData : FoldData :=
  FoldData.ofPairs (Regress.Packed.decode Regress.Oracle.SCF_len Regress.Oracle.SCF)

/-- The legacy (`i` without `u`/`v`) `Canonicalize`: `toUpperCase` with the two exceptions. -/
def legacyData : FoldData :=
  FoldData.ofPairs (Regress.Packed.decode Regress.Oracle.LEGACY_len Regress.Oracle.LEGACY)

def scfRep (c : Nat) : Nat := scfData.image c
def legacyCanon (c : Nat) : Nat := legacyData.image c

/-- `Canonicalize(rer, ch)` (§22.2.2.7.3). -/
def canonicalize (rer : RER) (ch : Nat) : Nat :=
  -- 1. If HasEitherUnicodeFlag(rer) is true and rer.[[IgnoreCase]] is true, then
  --    a. If CaseFolding.txt provides a simple or common case folding mapping for ch, return it.
  --    b. Return ch.
  if rer.hasEitherUnicodeFlag && rer.ignoreCase then scfRep ch
  -- 2. If rer.[[IgnoreCase]] is false, return ch.
  else if !rer.ignoreCase then ch
  -- 3.–8. toUppercase, unless multi-character or non-ASCII → ASCII.
  else legacyCanon ch

/-- Every `a` with `Canonicalize(rer, a) = Canonicalize(rer, ch)`.  (Not in the standard: it is
how this executable model decides the standard's "there exists a member `a` of `A` such that
`Canonicalize(rer, a)` is `cc`" without enumerating `A`.) -/
def canonClass (rer : RER) (ch : Nat) : List Nat :=
  if rer.hasEitherUnicodeFlag && rer.ignoreCase then scfData.fibre (scfRep ch)
  else if !rer.ignoreCase then [ch]
  else legacyData.fibre (legacyCanon ch)

/-! ## CharSets -/

/-- A *CharSet*.  Its single-character elements are given by the predicate `chars`; in `v` mode
a CharSet may also contain strings (*ClassStrings*): `strs` lists those whose length is not 1
(a one-character string is the same CharSetElement as that character). -/
structure CharSet where
  chars : Nat → Bool
  strs : List (List Nat) := []

namespace CharSet

def empty : CharSet := { chars := fun _ => false }
def single (c : Nat) : CharSet := { chars := fun x => x == c }
/-- `CharacterRange(A, B)` for one-element `A = {lo}`, `B = {hi}`. -/
def range (lo hi : Nat) : CharSet := { chars := fun x => lo ≤ x && x ≤ hi }
def ofIntervals (ivs : List (Nat × Nat)) : CharSet :=
  { chars := fun x => ivs.any (fun iv => iv.1 ≤ x && x ≤ iv.2) }
/-- The CharSet of one string. -/
def ofString (s : List Nat) : CharSet :=
  match s with
  | [c] => single c
  | _ => { chars := fun _ => false, strs := [s] }

def union (a b : CharSet) : CharSet :=
  { chars := fun x => a.chars x || b.chars x
    strs := a.strs ++ b.strs.filter (fun s => !a.strs.contains s) }
def inter (a b : CharSet) : CharSet :=
  { chars := fun x => a.chars x && b.chars x
    strs := a.strs.filter (fun s => b.strs.contains s) }
def sub (a b : CharSet) : CharSet :=
  { chars := fun x => a.chars x && !b.chars x
    strs := a.strs.filter (fun s => !b.strs.contains s) }

/-- "every CharSetElement of cs consists of a single character" -/
def onlySingles (a : CharSet) : Bool := a.strs.isEmpty

def contains (a : CharSet) (c : Nat) : Bool := a.chars c

end CharSet

/-- *LineTerminator* -/
def isLineTerminator (c : Nat) : Bool := c == 0x0A || c == 0x0D || c == 0x2028 || c == 0x2029

/-- *WhiteSpace* ∪ *LineTerminator* (the set of `\s`); `Zs` of Unicode 17 spelled out. -/
def isWhiteSpaceOrLT (c : Nat) : Bool :=
  (0x09 ≤ c && c ≤ 0x0D) || c == 0x20 || c == 0xA0 || c == 0x1680 ||
  (0x2000 ≤ c && c ≤ 0x200A) || c == 0x2028 || c == 0x2029 || c == 0x202F || c == 0x205F ||
  c == 0x3000 || c == 0xFEFF

def isDigit (c : Nat) : Bool := 0x30 ≤ c && c ≤ 0x39

/-- *basicWordChars*: `a-z A-Z 0-9 _` -/
def isBasicWordChar (c : Nat) : Bool :=
  (0x61 ≤ c && c ≤ 0x7A) || (0x41 ≤ c && c ≤ 0x5A) || isDigit c || c == 0x5F

/-- `WordCharacters(rer)` (§22.2.2.9.? ).
1. Let basicWordChars be the CharSet containing every character in the ASCII word characters.
2. Let extraWordChars be the CharSet of all characters c such that c is not in basicWordChars
   but Canonicalize(rer, c) is in basicWordChars.
3. Assert: extraWordChars is empty unless HasEitherUnicodeFlag(rer) and rer.[[IgnoreCase]].
4. Return the union. -/
def wordCharacters (rer : RER) : CharSet :=
  { chars := fun c => isBasicWordChar c || isBasicWordChar (canonicalize rer c) }

/-- `AllCharacters(rer)`.
1. If rer.[[UnicodeSets]] and rer.[[IgnoreCase]], return the CharSet of all Unicode code points
   `c` that do not have a Simple Case Folding mapping (that is, `scf(c) = c`).
2. Else if HasEitherUnicodeFlag(rer), all code point values.
3. Else all code unit values — here: all code points (characters are code points in every mode). -/
def allCharacters (rer : RER) : CharSet :=
  if rer.unicodeSets && rer.ignoreCase then { chars := fun c => c ≤ 0x10FFFF && scfRep c == c }
  else { chars := fun c => c ≤ 0x10FFFF }

/-- `MaybeSimpleCaseFolding(rer, A)`.
1. If rer.[[UnicodeSets]] is false or rer.[[IgnoreCase]] is false, return A.
2.–4. Otherwise the set of `scf`-images (character by character) of the elements of A.
`c` is the image of a member of `A.chars` iff `c` is a representative and some member of its
class is in `A.chars`. -/
def maybeSimpleCaseFolding (rer : RER) (a : CharSet) : CharSet :=
  if !rer.unicodeSets || !rer.ignoreCase then a
  else
    { chars := fun c => scfRep c == c && (scfData.fibre c).any a.chars
      strs := (a.strs.map (fun s => s.map scfRep)).eraseDups }

/-- `CharacterComplement(rer, S)`: the members of `AllCharacters(rer)` not in `S`.
(Only applied to CharSets of single characters.) -/
def characterComplement (rer : RER) (s : CharSet) : CharSet :=
  let all := allCharacters rer
  { chars := fun c => all.chars c && !s.chars c }

/-! ## Unicode properties -/

/-- The ICU interval table of `\p{name}` (`kind = 0`), `\p{gc=name}` (1), `\p{sc=name}` (2),
`\p{scx=name}` (3); `none` if ICU does not accept the name. -/
def lookupProp (kind name : Nat) : Option (List (Nat × Nat)) :=
  let tbl : Option (List (Nat × Nat × Nat)) :=
    match kind with
    | 0 => some Regress.Oracle.acceptedLone
    | 1 => some Regress.Oracle.acceptedGc
    | 2 => some Regress.Oracle.acceptedSc
    | 3 => some Regress.Oracle.acceptedScx
    | _ => none
  match tbl with
  | none => none
  | some t =>
    match t.find? (fun e => e.1 == name) with
    | some (_, packed, len) => some (Regress.Packed.decode len packed)
    | none => none

/-- CompileToCharSet of `UnicodePropertyValueExpression`:
"Let A be the CharSet containing all Unicode code points whose character database definition
includes the property p with value v.  Return MaybeSimpleCaseFolding(rer, A)."
For a lone General_Category value the 2024 text omits the `MaybeSimpleCaseFolding` (so that
`\P{Lu}` and `\P{gc=Lu}` would differ under `vi`); we apply it uniformly, which is also what
the `gc=` form of the same value does.  An unknown name gives the empty set (and is rejected
beforehand by `validate`). -/
def propCharSet (rer : RER) (kind name : Nat) : CharSet :=
  match lookupProp kind name with
  | some ivs => maybeSimpleCaseFolding rer (CharSet.ofIntervals ivs)
  | none => CharSet.empty

/-- CompileToCharSet of `CharacterClassEscape :: p{…}` / `P{…}`. -/
def propEscape (rer : RER) (neg : Bool) (kind name : Nat) : CharSet :=
  let s := propCharSet rer kind name
  if neg then characterComplement rer s else s

/-- CompileToCharSet of `CharacterClassEscape :: d | D | s | S | w | W`. -/
def classEscape (rer : RER) : ClassEsc → CharSet
  | .d => { chars := isDigit }
  | .D => characterComplement rer { chars := isDigit }
  | .s => { chars := isWhiteSpaceOrLT }
  | .S => characterComplement rer { chars := isWhiteSpaceOrLT }
  | .w => maybeSimpleCaseFolding rer (wordCharacters rer)
  | .W => characterComplement rer (maybeSimpleCaseFolding rer (wordCharacters rer))

/-! ## CompileToCharSet: legacy `ClassContents` -/

/-- `ClassAtom`, `ClassAtom - ClassAtom`, class escapes. -/
def classItemCharSet (rer : RER) : ClassItem → CharSet
  | .c cp => CharSet.single cp
  | .r lo hi => CharSet.range lo hi
  | .esc e => classEscape rer e
  | .prop neg kind name => propEscape rer neg kind name

/-- `ClassContents :: [empty]` is the empty CharSet; `NonemptyClassRanges` is the union. -/
def classContentsCharSet (rer : RER) : List ClassItem → CharSet
  | [] => CharSet.empty
  | i :: is => CharSet.union (classItemCharSet rer i) (classContentsCharSet rer is)

/-! ## CompileToCharSet: `v`-mode `ClassSetExpression` -/

/-- CompileToCharSet of `ClassStringDisjunctionContents`: every `ClassString` is compiled
character by character through `ClassSetCharacter` (hence folded). -/
def classStringsCharSet (rer : RER) : List (List Nat) → CharSet
  | [] => CharSet.empty
  | s :: ss =>
    CharSet.union (maybeSimpleCaseFolding rer (CharSet.ofString s)) (classStringsCharSet rer ss)

mutual
/-- `ClassSetOperand`, `ClassSetRange`, `NestedClass`. -/
def vOpCharSet (rer : RER) : VOp → CharSet
  -- ClassSetOperand :: ClassSetCharacter: MaybeSimpleCaseFolding(rer, {ch})
  | .c cp => maybeSimpleCaseFolding rer (CharSet.single cp)
  -- ClassSetRange: MaybeSimpleCaseFolding(rer, CharacterRange(A, B))
  | .r lo hi => maybeSimpleCaseFolding rer (CharSet.range lo hi)
  | .esc e => classEscape rer e
  | .prop neg kind name => propEscape rer neg kind name
  | .q strs => classStringsCharSet rer strs
  -- NestedClass :: [ ClassContents ] / [^ ClassContents ] (CharacterComplement(rer, A))
  | .cls neg op ops =>
    let a := match op with
      | .union => vUnion rer ops
      | .inter => vInter rer ops
      | .sub => vSub rer ops
    if neg then characterComplement rer a else a
/-- `ClassUnion` -/
def vUnion (rer : RER) : List VOp → CharSet
  | [] => CharSet.empty
  | o :: os => CharSet.union (vOpCharSet rer o) (vUnion rer os)
/-- `ClassIntersection :: ClassSetOperand && ClassSetOperand`, then
`ClassIntersection && ClassSetOperand` (left-associative): `acc` is the CharSet so far. -/
def vInterFrom (rer : RER) (acc : CharSet) : List VOp → CharSet
  | [] => acc
  | o :: os => vInterFrom rer (CharSet.inter acc (vOpCharSet rer o)) os
/-- `ClassSubtraction` (left-associative): `acc` is the CharSet so far. -/
def vSubFrom (rer : RER) (acc : CharSet) : List VOp → CharSet
  | [] => acc
  | o :: os => vSubFrom rer (CharSet.sub acc (vOpCharSet rer o)) os
def vInter (rer : RER) : List VOp → CharSet
  | [] => CharSet.empty
  | o :: os => vInterFrom rer (vOpCharSet rer o) os
def vSub (rer : RER) : List VOp → CharSet
  | [] => CharSet.empty
  | o :: os => vSubFrom rer (vOpCharSet rer o) os
end

/-- CompileToCharSet of the `ClassContents` of a `v`-mode class. -/
def vExprCharSet (rer : RER) (op : VSetOp) (ops : List VOp) : CharSet :=
  match op with
  | .union => vUnion rer ops
  | .inter => vInter rer ops
  | .sub => vSub rer ops

/-! ## Static semantics: `MayContainStrings` -/

def strsMayContainStrings (strs : List (List Nat)) : Bool := strs.any (fun s => s.length != 1)

mutual
def vOpMayContainStrings : VOp → Bool
  | .c _ => false
  | .r _ _ => false
  | .esc _ => false
  | .prop _ _ _ => false   -- binary properties of strings are not supported at all
  | .q strs => strsMayContainStrings strs
  | .cls neg op ops =>
    if neg then false else
    match op with
    | .union => vAnyMayContainStrings ops
    | .inter => vAllMayContainStrings ops
    | .sub => match ops with
      | [] => false
      | o :: _ => vOpMayContainStrings o
def vAnyMayContainStrings : List VOp → Bool
  | [] => false
  | o :: os => vOpMayContainStrings o || vAnyMayContainStrings os
def vAllMayContainStrings : List VOp → Bool
  | [] => true
  | o :: os => vOpMayContainStrings o && vAllMayContainStrings os
end

def vExprMayContainStrings (op : VSetOp) (ops : List VOp) : Bool :=
  match op with
  | .union => vAnyMayContainStrings ops
  | .inter => vAllMayContainStrings ops
  | .sub => match ops with
    | [] => false
    | o :: _ => vOpMayContainStrings o

end Regress.ES
