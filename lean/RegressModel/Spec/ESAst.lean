/-!
# ECMAScript 2025 regular expressions: abstract syntax and its text form

This file is part of an *independent* executable specification of ECMA-262 (2025) §22.2
"RegExp (Regular Expression) Objects", written from the standard and not from any implementation.
It defines the abstract syntax tree that the test generator supplies and the parser of its text
form.  The semantics are in `ESCharSet.lean` (CharSets, `Canonicalize`, `CompileToCharSet`) and
`ESMatch.lean` (`CompileSubpattern`, `RepeatMatcher`, …, `RegExpBuiltinExec`).

Text form (tokens separated by one space, or by `~` in transport):
```
N ::= (empty) | (char HEX) | (dot) | (bol) | (eol) | (wb) | (nwb)
    | (cat N*) | (alt N N+) | (group IDX NAME N) | (nc N) | (mod ADD REM N)
    | (look AHEAD NEG N) | (bref IDX) | (nref NAME) | (quant MIN MAX GREEDY N)
    | (esc X) | (prop NEG KIND NAME) | (class NEG ITEM*) | (vclass NEG VEXPR)
ITEM  ::= (c HEX) | (r HEX HEX) | (esc X) | (prop NEG KIND NAME)
VEXPR ::= (union VOP*) | (inter VOP VOP+) | (sub VOP VOP+)
VOP   ::= (c HEX) | (r HEX HEX) | (esc X) | (prop NEG KIND NAME) | (q STR*) | (vclass NEG VEXPR)
STR   ::= `-` | hex.hex.…
```
-/
namespace Regress.ES

/-- The six `CharacterClassEscape`s `\d \D \w \W \s \S`. -/
inductive ClassEsc where
  | d | D | w | W | s | S
  deriving Repr, DecidableEq, Inhabited

/-- The flags a modifier group `(?ADD-REM:…)` may add or remove. -/
structure Mods where
  i : Bool := false
  m : Bool := false
  s : Bool := false
  deriving Repr, DecidableEq, Inhabited

/-- An element of a legacy / `u`-mode `ClassContents` (`NonemptyClassRanges`). -/
inductive ClassItem where
  /-- a single `ClassAtom` character -/
  | c (cp : Nat)
  /-- `ClassAtom - ClassAtom` -/
  | r (lo hi : Nat)
  /-- `\d \D \w \W \s \S` -/
  | esc (e : ClassEsc)
  /-- `\p{…}` (`neg = false`) / `\P{…}`; `kind` 0 lone, 1 `gc=`, 2 `sc=`, 3 `scx=`; `name` is
  `Regress.Packed.nameOfBytes` of the ASCII bytes of the name. -/
  | prop (neg : Bool) (kind name : Nat)
  deriving Repr, Inhabited

/-- The three forms of a `v`-mode `ClassSetExpression`. -/
inductive VSetOp where
  | union | inter | sub
  deriving Repr, DecidableEq, Inhabited

/-- A `v`-mode `ClassSetOperand` / `ClassSetRange`.  The text form's `VEXPR` is folded into the
`cls` constructor: `(vclass NEG (OP VOP*))` is `cls NEG OP ops`. -/
inductive VOp where
  /-- `ClassSetCharacter` -/
  | c (cp : Nat)
  /-- `ClassSetRange` -/
  | r (lo hi : Nat)
  | esc (e : ClassEsc)
  | prop (neg : Bool) (kind name : Nat)
  /-- `\q{s₁|s₂|…}` (`ClassStringDisjunction`) -/
  | q (strs : List (List Nat))
  /-- `NestedClass` `[…]` / `[^…]` -/
  | cls (neg : Bool) (op : VSetOp) (ops : List VOp)
  deriving Repr, Inhabited

/-- A pattern node (`Disjunction` / `Alternative` / `Term` / `Atom` / `Assertion`). -/
inductive Node where
  /-- the empty `Alternative` -/
  | empty
  /-- `PatternCharacter` (or any escape denoting exactly one character) -/
  | char (c : Nat)
  /-- `.` -/
  | dot
  /-- `^` -/
  | bol
  /-- `$` -/
  | eol
  /-- `\b` -/
  | wb
  /-- `\B` -/
  | nwb
  /-- `Alternative`: a sequence of terms -/
  | cat (ns : List Node)
  /-- `Disjunction`: ordered alternatives -/
  | alt (ns : List Node)
  /-- capturing group `( GroupSpecifier? Disjunction )`; `idx` is its 1-based number in
  left-parenthesis order (redundant, checked by `validate`) -/
  | group (idx : Nat) (name : Option (List Nat)) (n : Node)
  /-- `(?: Disjunction )` -/
  | nc (n : Node)
  /-- `(?add-rem: Disjunction )` -/
  | mod (add rem : Mods) (n : Node)
  /-- `(?= ) (?! ) (?<= ) (?<! )` -/
  | look (ahead neg : Bool) (n : Node)
  /-- `\n` (`DecimalEscape`) -/
  | bref (idx : Nat)
  /-- `\k<name>` -/
  | nref (name : List Nat)
  /-- `Atom Quantifier`; `max = none` is `∞` -/
  | quant (min : Nat) (max : Option Nat) (greedy : Bool) (n : Node)
  /-- `CharacterClassEscape` `\d \D \w \W \s \S` used as an atom -/
  | esc (e : ClassEsc)
  /-- `\p{…}` / `\P{…}` used as an atom -/
  | prop (neg : Bool) (kind name : Nat)
  /-- legacy / `u`-mode `CharacterClass` -/
  | cls (neg : Bool) (items : List ClassItem)
  /-- `v`-mode `CharacterClass` -/
  | vcls (neg : Bool) (op : VSetOp) (ops : List VOp)
  deriving Repr, Inhabited

/-- The flags of a `RegExp` that the semantics depend on. -/
structure Flags where
  i : Bool := false
  m : Bool := false
  s : Bool := false
  u : Bool := false
  v : Bool := false
  deriving Repr, DecidableEq, Inhabited

/-! ## S-expressions -/

inductive SExp where
  | atom (s : String)
  | list (xs : List SExp)
  deriving Repr, Inhabited

/-- Split into `(`, `)` and atoms; blanks and `~` separate tokens. -/
def tokenizeAux : List Char → (cur : List Char) → (acc : List String) → List String
  | [], cur, acc =>
    (if cur.isEmpty then acc else String.ofList cur.reverse :: acc).reverse
  | ch :: rest, cur, acc =>
    let acc' := if cur.isEmpty then acc else String.ofList cur.reverse :: acc
    if ch == '(' then tokenizeAux rest [] ("(" :: acc')
    else if ch == ')' then tokenizeAux rest [] (")" :: acc')
    else if ch == ' ' || ch == '~' || ch == '\n' || ch == '\r' || ch == '\t' then
      tokenizeAux rest [] acc'
    else tokenizeAux rest (ch :: cur) acc

def tokenize (s : String) : List String := tokenizeAux s.toList [] []

/-- Stack-based reader: `stack` holds the (reversed) partial lists of the open parentheses. -/
def readSExp : List String → (stack : List (List SExp)) → Except String SExp
  | [], _ => .error "unexpected end of input"
  | tok :: rest, stack =>
    if tok == "(" then readSExp rest ([] :: stack)
    else if tok == ")" then
      match stack with
      | [] => .error "unbalanced )"
      | top :: [] =>
        if rest.isEmpty then .ok (.list top.reverse) else .error "trailing tokens"
      | top :: parent :: more => readSExp rest ((.list top.reverse :: parent) :: more)
    else
      match stack with
      | [] => if rest.isEmpty then .ok (.atom tok) else .error "trailing tokens"
      | top :: more => readSExp rest ((.atom tok :: top) :: more)

def parseSExp (s : String) : Except String SExp := readSExp (tokenize s) []

/-! ## Atoms -/

def hexDigit? (c : Char) : Option Nat :=
  if '0' ≤ c && c ≤ '9' then some (c.toNat - '0'.toNat)
  else if 'a' ≤ c && c ≤ 'f' then some (c.toNat - 'a'.toNat + 10)
  else if 'A' ≤ c && c ≤ 'F' then some (c.toNat - 'A'.toNat + 10)
  else none

def parseHexAux : List Char → Nat → Option Nat
  | [], acc => some acc
  | c :: cs, acc =>
    match hexDigit? c with
    | some d => parseHexAux cs (acc * 16 + d)
    | none => none

def parseHex (s : String) : Option Nat :=
  if s.isEmpty then none else parseHexAux s.toList 0

def parseDecAux : List Char → Nat → Option Nat
  | [], acc => some acc
  | c :: cs, acc =>
    if '0' ≤ c && c ≤ '9' then parseDecAux cs (acc * 10 + (c.toNat - '0'.toNat)) else none

def parseDec (s : String) : Option Nat :=
  if s.isEmpty then none else parseDecAux s.toList 0

def parseBit (s : String) : Option Bool :=
  if s == "0" then some false else if s == "1" then some true else none

def parseHexList : List String → Option (List Nat)
  | [] => some []
  | s :: ss =>
    match parseHex s, parseHexList ss with
    | some c, some cs => some (c :: cs)
    | _, _ => none

/-- `-` (empty) or `hex.hex.…` -/
def parseCps (s : String) : Option (List Nat) :=
  if s == "-" then some [] else parseHexList (s.splitOn ".")

def parseStrs : List SExp → Option (List (List Nat))
  | [] => some []
  | .atom s :: rest =>
    match parseCps s, parseStrs rest with
    | some x, some xs => some (x :: xs)
    | _, _ => none
  | _ => none

def parseModsAux : List Char → Mods → Option Mods
  | [], m => some m
  | c :: cs, m =>
    if c == 'i' then parseModsAux cs { m with i := true }
    else if c == 'm' then parseModsAux cs { m with m := true }
    else if c == 's' then parseModsAux cs { m with s := true }
    else none

def parseMods (s : String) : Option Mods :=
  if s == "-" then some {} else parseModsAux s.toList {}

def parseFlagsAux : List Char → Flags → Option Flags
  | [], f => some f
  | c :: cs, f =>
    if c == 'i' then parseFlagsAux cs { f with i := true }
    else if c == 'm' then parseFlagsAux cs { f with m := true }
    else if c == 's' then parseFlagsAux cs { f with s := true }
    else if c == 'u' then parseFlagsAux cs { f with u := true }
    else if c == 'v' then parseFlagsAux cs { f with v := true }
    else none

def parseFlags (s : String) : Option Flags :=
  if s == "-" then some {} else parseFlagsAux s.toList {}

def parseClassEsc (s : String) : Option ClassEsc :=
  if s == "d" then some .d else if s == "D" then some .D
  else if s == "w" then some .w else if s == "W" then some .W
  else if s == "s" then some .s else if s == "S" then some .S
  else none

def parseVSetOp (s : String) : Option VSetOp :=
  if s == "union" then some .union else if s == "inter" then some .inter
  else if s == "sub" then some .sub else none

/-! ## S-expression → AST -/

def toClassItem : SExp → Except String ClassItem
  | .list [.atom tag, .atom a] =>
    if tag == "c" then
      match parseHex a with
      | some c => .ok (.c c)
      | none => .error s!"bad (c {a})"
    else if tag == "esc" then
      match parseClassEsc a with
      | some e => .ok (.esc e)
      | none => .error s!"bad (esc {a})"
    else .error s!"bad class item {tag}"
  | .list [.atom tag, .atom a, .atom b] =>
    if tag == "r" then
      match parseHex a, parseHex b with
      | some lo, some hi => .ok (.r lo hi)
      | _, _ => .error s!"bad (r {a} {b})"
    else .error s!"bad class item {tag}"
  | .list [.atom tag, .atom a, .atom b, .atom c] =>
    if tag == "prop" then
      match parseBit a, parseDec b, parseHex c with
      | some neg, some kind, some name => .ok (.prop neg kind name)
      | _, _, _ => .error s!"bad (prop {a} {b} {c})"
    else .error s!"bad class item {tag}"
  | _ => .error "bad class item"

def toClassItems : List SExp → Except String (List ClassItem)
  | [] => .ok []
  | x :: xs =>
    match toClassItem x with
    | .error e => .error e
    | .ok i =>
      match toClassItems xs with
      | .error e => .error e
      | .ok is => .ok (i :: is)

mutual
def toVOp : SExp → Except String VOp
  | .atom a => .error s!"bad class-set operand {a}"
  | .list [] => .error "bad class-set operand ()"
  | .list (.list _ :: _) => .error "bad class-set operand"
  | .list (.atom tag :: args) =>
    if tag == "q" then
      match parseStrs args with
      | some ss => .ok (.q ss)
      | none => .error "bad (q …)"
    else
    match args with
    | [.atom a] =>
      if tag == "c" then
        match parseHex a with
        | some c => .ok (.c c)
        | none => .error s!"bad (c {a})"
      else if tag == "esc" then
        match parseClassEsc a with
        | some e => .ok (.esc e)
        | none => .error s!"bad (esc {a})"
      else .error s!"bad class-set operand {tag}"
    | [.atom a, .atom b] =>
      if tag == "r" then
        match parseHex a, parseHex b with
        | some lo, some hi => .ok (.r lo hi)
        | _, _ => .error s!"bad (r {a} {b})"
      else .error s!"bad class-set operand {tag}"
    | [.atom a, .atom b, .atom c] =>
      if tag == "prop" then
        match parseBit a, parseDec b, parseHex c with
        | some neg, some kind, some name => .ok (.prop neg kind name)
        | _, _, _ => .error s!"bad (prop {a} {b} {c})"
      else .error s!"bad class-set operand {tag}"
    | [.atom a, .list (.atom o :: ops)] =>
      if tag == "vclass" then
        match parseBit a, parseVSetOp o with
        | some neg, some op =>
          match toVOps ops with
          | .ok vs => .ok (.cls neg op vs)
          | .error e => .error e
        | _, _ => .error s!"bad (vclass {a} ({o} …))"
      else .error s!"bad class-set operand {tag}"
    | _ => .error s!"bad class-set operand {tag}"
def toVOps : List SExp → Except String (List VOp)
  | [] => .ok []
  | x :: xs =>
    match toVOp x with
    | .error e => .error e
    | .ok v =>
      match toVOps xs with
      | .error e => .error e
      | .ok vs => .ok (v :: vs)
end

mutual
def toNode : SExp → Except String Node
  | .atom a => .error s!"bad node {a}"
  | .list [] => .error "bad node ()"
  | .list (.list _ :: _) => .error "bad node"
  | .list (.atom tag :: args) =>
    if tag == "cat" then
      match toNodes args with
      | .ok ns => .ok (.cat ns)
      | .error e => .error e
    else if tag == "alt" then
      match toNodes args with
      | .ok ns => .ok (.alt ns)
      | .error e => .error e
    else if tag == "class" then
      match args with
      | .atom a :: items =>
        match parseBit a, toClassItems items with
        | some neg, .ok is => .ok (.cls neg is)
        | none, _ => .error s!"bad (class {a} …)"
        | _, .error e => .error e
      | _ => .error "bad (class …)"
    else
    match args with
    | [] =>
      if tag == "empty" then .ok .empty
      else if tag == "dot" then .ok .dot
      else if tag == "bol" then .ok .bol
      else if tag == "eol" then .ok .eol
      else if tag == "wb" then .ok .wb
      else if tag == "nwb" then .ok .nwb
      else .error s!"bad node ({tag})"
    | [.atom a] =>
      if tag == "char" then
        match parseHex a with
        | some c => .ok (.char c)
        | none => .error s!"bad (char {a})"
      else if tag == "bref" then
        match parseDec a with
        | some i => .ok (.bref i)
        | none => .error s!"bad (bref {a})"
      else if tag == "nref" then
        match parseCps a with
        | some nm => .ok (.nref nm)
        | none => .error s!"bad (nref {a})"
      else if tag == "esc" then
        match parseClassEsc a with
        | some e => .ok (.esc e)
        | none => .error s!"bad (esc {a})"
      else .error s!"bad node ({tag} {a})"
    | [x] =>
      if tag == "nc" then
        match toNode x with
        | .ok n => .ok (.nc n)
        | .error e => .error e
      else .error s!"bad node ({tag} …)"
    | [.atom a, .atom b, .atom c] =>
      if tag == "prop" then
        match parseBit a, parseDec b, parseHex c with
        | some neg, some kind, some name => .ok (.prop neg kind name)
        | _, _, _ => .error s!"bad (prop {a} {b} {c})"
      else .error s!"bad node ({tag} {a} {b} {c})"
    | [.atom a, .list (.atom o :: ops)] =>
      if tag == "vclass" then
        match parseBit a, parseVSetOp o with
        | some neg, some op =>
          match toVOps ops with
          | .ok vs => .ok (.vcls neg op vs)
          | .error e => .error e
        | _, _ => .error s!"bad (vclass {a} ({o} …))"
      else .error s!"bad node ({tag} {a} …)"
    | [.atom a, .atom b, x] =>
      if tag == "group" then
        match parseDec a, (if b == "-" then some none else (parseCps b).map some), toNode x with
        | some idx, some nm, .ok n => .ok (.group idx nm n)
        | _, _, .error e => .error e
        | _, _, _ => .error s!"bad (group {a} {b} …)"
      else if tag == "mod" then
        match parseMods a, parseMods b, toNode x with
        | some add, some rem, .ok n => .ok (.mod add rem n)
        | _, _, .error e => .error e
        | _, _, _ => .error s!"bad (mod {a} {b} …)"
      else if tag == "look" then
        match parseBit a, parseBit b, toNode x with
        | some ahead, some neg, .ok n => .ok (.look ahead neg n)
        | _, _, .error e => .error e
        | _, _, _ => .error s!"bad (look {a} {b} …)"
      else .error s!"bad node ({tag} {a} {b} …)"
    | [.atom a, .atom b, .atom c, x] =>
      if tag == "quant" then
        match parseDec a, (if b == "inf" then some none else (parseDec b).map some),
              parseBit c, toNode x with
        | some mn, some mx, some g, .ok n => .ok (.quant mn mx g n)
        | _, _, _, .error e => .error e
        | _, _, _, _ => .error s!"bad (quant {a} {b} {c} …)"
      else .error s!"bad node ({tag} {a} {b} {c} …)"
    | _ => .error s!"bad node ({tag} …)"
def toNodes : List SExp → Except String (List Node)
  | [] => .ok []
  | x :: xs =>
    match toNode x with
    | .error e => .error e
    | .ok n =>
      match toNodes xs with
      | .error e => .error e
      | .ok ns => .ok (n :: ns)
end

/-- Parse the text form of an AST (`~` or blank separated). -/
def parseAst (s : String) : Except String Node :=
  match parseSExp s with
  | .error e => .error s!"parse: {e}"
  | .ok sx =>
    match toNode sx with
    | .error e => .error s!"parse: {e}"
    | .ok n => .ok n

end Regress.ES
