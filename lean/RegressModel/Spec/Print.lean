import RegressModel.Spec.ToIR
/-!
# A canonical printer from the ES AST to pattern text

`printPattern f a` is a pattern text (a list of code points) that denotes the AST `a`: the parser model
(`Parse.parse`) maps it to exactly the IR that `Lower.toIR f a` assigns to `a`
(`Proofs/RoundTrip.lean`: `parse_print`).  The printer is deliberately boring; its only job is that the
parser provably inverts it:

* the AST is brought to the normal form of a pattern text first (`Lower.normalize`: a `cat` directly in
  a `cat`, an `empty` in a `cat`, an `alt` directly in an `alt` are flattened — `toIR` lowers the same
  normal form);
* a literal character is printed raw only if it is an ASCII letter; a code point below `0x100` is
  `\xHH`, a non-surrogate code point of the BMP is `\uHHHH` (both are valid in every mode, inside and
  outside of classes and of `\q{…}`), a surrogate or a code point above `0xFFFF` is printed raw (the
  parser works on code points; no such code point is a syntax character, a digit, or a class-set
  punctuator) — the spelling does not depend on the flags or on the position;
* no digit is ever printed raw, so a literal digit cannot extend a back-reference `\N` or be read as
  part of a quantifier;
* every quantifier is in brace form `{m,n}` / `{m,}`, followed by `?` when lazy;
* an alternation that is an operand of a sequence, and a sequence / alternation / quantified term /
  empty pattern that is the operand of a quantifier, are wrapped in `(?:…)` (exactly the wrappers
  `Lower.nest` accounts for);
* `v`-mode class sets print every nested class with its own brackets, `&&` / `--` between the operands
  of an intersection / subtraction, and strings as `\q{s₁|s₂|…}`.

`printLine flags ast` is the line protocol of a future driver op `print`.
-/
namespace Regress.Print
open Regress

/-! ## Characters and numbers -/

/-- One lower-case hexadecimal digit. -/
def hexDig (d : Nat) : Nat := if d < 10 then 0x30 + d else 0x57 + d

def hex2 (c : Nat) : List Nat := [hexDig (c / 16 % 16), hexDig (c % 16)]

def hex4 (c : Nat) : List Nat :=
  [hexDig (c / 4096 % 16), hexDig (c / 256 % 16), hexDig (c / 16 % 16), hexDig (c % 16)]

/-- A literal character, in every position (atom, class member, `\q{…}` string) and every mode. -/
def printChar (c : Nat) : List Nat :=
  if Parse.isAsciiAlpha c then [c]
  else if c < 0x100 then [0x5C, 0x78] ++ hex2 c
  else if c < 0xD800 || (0xE000 ≤ c && c < 0x10000) then [0x5C, 0x75] ++ hex4 c
  else [c]

/-- The decimal digits of `n`, least significant first (`fuel` bounds the number of digits). -/
def decRev : Nat → Nat → List Nat
  | 0, _ => []
  | fuel+1, n => (0x30 + n % 10) :: (if n / 10 = 0 then [] else decRev fuel (n / 10))

/-- `n` in decimal (no leading zero, `0` is `"0"`). -/
def printDec (n : Nat) : List Nat := (decRev (n + 1) n).reverse

/-- `{m,n}` / `{m,}`, then `?` when lazy. -/
def printQuant (mn : Nat) (mx : Option Nat) (greedy : Bool) : List Nat :=
  [0x7B] ++ printDec mn ++ [0x2C] ++ (match mx with | some m => printDec m | none => []) ++ [0x7D]
    ++ (if greedy then [] else [0x3F])

/-! ## Class escapes, property escapes, modifiers -/

def escLetter : ES.ClassEsc → Nat
  | .d => 0x64
  | .D => 0x44
  | .w => 0x77
  | .W => 0x57
  | .s => 0x73
  | .S => 0x53

def printEsc (e : ES.ClassEsc) : List Nat := [0x5C, escLetter e]

/-- The bytes of a packed name (`Packed.nameOfBytes`), last byte first. -/
def nameBytesRev : Nat → Nat → List Nat
  | 0, _ => []
  | fuel+1, n => if n ≤ 1 then [] else (n % 256) :: nameBytesRev fuel (n / 256)

def nameBytes (n : Nat) : List Nat := (nameBytesRev n n).reverse

/-- `gc=` / `sc=` / `scx=` (kind 1 / 2 / 3; nothing for a lone name). -/
def propPrefix : Nat → List Nat
  | 0 => []
  | 1 => [0x67, 0x63, 0x3D]
  | 2 => [0x73, 0x63, 0x3D]
  | _ => [0x73, 0x63, 0x78, 0x3D]

def printProp (neg : Bool) (kind name : Nat) : List Nat :=
  [0x5C, if neg then 0x50 else 0x70, 0x7B] ++ propPrefix kind ++ nameBytes name ++ [0x7D]

def modLetters (m : ES.Mods) : List Nat :=
  (if m.i then [0x69] else []) ++ (if m.m then [0x6D] else []) ++ (if m.s then [0x73] else [])

/-- `add-rem` of `(?add-rem:`; the `-` only when something is removed. -/
def printMods (add rem : ES.Mods) : List Nat :=
  modLetters add ++ (if rem.isEmpty then [] else 0x2D :: modLetters rem)

/-! ## Legacy / `u`-mode classes -/

def printClassItem : ES.ClassItem → List Nat
  | .c c => printChar c
  | .r lo hi => printChar lo ++ [0x2D] ++ printChar hi
  | .esc e => printEsc e
  | .prop neg kind name => printProp neg kind name

def printClassItems : List ES.ClassItem → List Nat
  | [] => []
  | i :: is => printClassItem i ++ printClassItems is

def printClass (neg : Bool) (items : List ES.ClassItem) : List Nat :=
  [0x5B] ++ (if neg then [0x5E] else []) ++ printClassItems items ++ [0x5D]

/-! ## `v`-mode class sets -/

def printString : List Nat → List Nat
  | [] => []
  | c :: cs => printChar c ++ printString cs

/-- `|s₂|s₃…` -/
def printStringsTail : List (List Nat) → List Nat
  | [] => []
  | s :: ss => [0x7C] ++ printString s ++ printStringsTail ss

/-- `s₁|s₂|…` -/
def printStrings : List (List Nat) → List Nat
  | [] => []
  | s :: ss => printString s ++ printStringsTail ss

mutual
def printVOp : ES.VOp → List Nat
  | .c c => printChar c
  | .r lo hi => printChar lo ++ [0x2D] ++ printChar hi
  | .esc e => printEsc e
  | .prop neg kind name => printProp neg kind name
  | .q strs => [0x5C, 0x71, 0x7B] ++ printStrings strs ++ [0x7D]
  | .cls neg op ops =>
    [0x5B] ++ (if neg then [0x5E] else []) ++
      (match op with
       | .union => printVUnion ops
       | .inter => printVSep 0x26 ops
       | .sub => printVSep 0x2D ops) ++ [0x5D]
/-- The members of a union, juxtaposed. -/
def printVUnion : List ES.VOp → List Nat
  | [] => []
  | o :: os => printVOp o ++ printVUnion os
/-- The operands of an intersection (`sep = &`) / subtraction (`sep = -`), `sep sep` between them. -/
def printVSep (sep : Nat) : List ES.VOp → List Nat
  | [] => []
  | o :: os => printVOp o ++ printVSepTail sep os
def printVSepTail (sep : Nat) : List ES.VOp → List Nat
  | [] => []
  | o :: os => [sep, sep] ++ printVOp o ++ printVSepTail sep os
end

def printVClass (neg : Bool) (op : ES.VSetOp) (ops : List ES.VOp) : List Nat :=
  printVOp (.cls neg op ops)

/-! ## Patterns -/

/-- Where a node is printed: as a whole `Disjunction` (pattern, body of a group), as one `Alternative`
of a disjunction, as one `Term` of an alternative, or as the `Atom` a quantifier applies to. -/
inductive Ctx where
  | disj | alt | term | atom
  deriving DecidableEq, Repr, Inhabited

/-- `(?:` … `)` -/
def wrap (body : List Nat) : List Nat := [0x28, 0x3F, 0x3A] ++ body ++ [0x29]

def lookOpen (ahead neg : Bool) : List Nat :=
  if ahead then (if neg then [0x28, 0x3F, 0x21] else [0x28, 0x3F, 0x3D])
  else (if neg then [0x28, 0x3F, 0x3C, 0x21] else [0x28, 0x3F, 0x3C, 0x3D])

/-- `(` / `(?<name>` -/
def groupOpen : Option (List Nat) → List Nat
  | none => [0x28]
  | some name => [0x28, 0x3F, 0x3C] ++ name ++ [0x3E]

mutual
/-- The text of a node in context `ctx`. -/
def pr (ctx : Ctx) : ES.Node → List Nat
  | .empty =>
    match ctx with
    | .disj => []
    | .alt => []
    | _ => wrap []
  | .char c => printChar c
  | .dot => [0x2E]
  | .bol => [0x5E]
  | .eol => [0x24]
  | .wb => [0x5C, 0x62]
  | .nwb => [0x5C, 0x42]
  | .cat ns =>
    match ctx with
    | .disj => prTerms ns
    | .alt => prTerms ns
    | _ => wrap (prTerms ns)
  | .alt ns =>
    match ctx with
    | .disj => prAlts ns
    | _ => wrap (prAlts ns)
  | .group _ name n => groupOpen name ++ pr .disj n ++ [0x29]
  | .nc n => wrap (pr .disj n)
  | .mod add rem n => [0x28, 0x3F] ++ printMods add rem ++ [0x3A] ++ pr .disj n ++ [0x29]
  | .look ahead neg n => lookOpen ahead neg ++ pr .disj n ++ [0x29]
  | .bref k => [0x5C] ++ printDec k
  | .nref name => [0x5C, 0x6B, 0x3C] ++ name ++ [0x3E]
  | .quant mn mx greedy n =>
    match ctx with
    | .atom => wrap (pr .atom n ++ printQuant mn mx greedy)
    | _ => pr .atom n ++ printQuant mn mx greedy
  | .esc e => printEsc e
  | .prop neg kind name => printProp neg kind name
  | .cls neg items => printClass neg items
  | .vcls neg op ops => printVClass neg op ops
/-- The terms of an alternative, juxtaposed. -/
def prTerms : List ES.Node → List Nat
  | [] => []
  | n :: ns => pr .term n ++ prTerms ns
/-- The alternatives of a disjunction, `|` between them. -/
def prAlts : List ES.Node → List Nat
  | [] => []
  | n :: ns => pr .alt n ++ prAltsTail ns
def prAltsTail : List ES.Node → List Nat
  | [] => []
  | n :: ns => [0x7C] ++ pr .alt n ++ prAltsTail ns
end

/-- The pattern text of `a` (code points).  The flags are not needed: the spelling of every construct
is valid in every mode (the parameter is kept so that a future mode-dependent spelling does not change
the interface). -/
def printPattern (_f : ES.Flags) (a : ES.Node) : List Nat := pr .disj (Lower.normalize a)

/-! ## The lexical side conditions under which the printed text is read back

Group names must be identifiers (`IdentifierStart IdentifierPart*` of valid code points, none of them
a backslash: the printer does not use `\u` escapes in names); a property name must be the packed form
(`Packed.nameOfBytes`) of ASCII letters, digits and `_`. -/

/-- A group name the parser reads back verbatim. -/
def nameOK : List Nat → Bool
  | [] => false
  | c :: cs =>
    Parse.isChar c && Parse.isIdStart c && cs.all (fun d => Parse.isChar d && Parse.isIdContinue d)

/-- A property name / value that `nameBytes` unpacks faithfully. -/
def propNameOK (name : Nat) : Bool :=
  Packed.nameOfBytes (nameBytes name) == name &&
    (nameBytes name).all (fun b => Props.isAsciiAlnum b || b == 0x5F)

def lexItem : ES.ClassItem → Bool
  | .prop _ _ name => propNameOK name
  | _ => true

mutual
def lexVOp : ES.VOp → Bool
  | .prop _ _ name => propNameOK name
  | .cls _ _ ops => lexVOps ops
  | _ => true
def lexVOps : List ES.VOp → Bool
  | [] => true
  | o :: os => lexVOp o && lexVOps os
end

mutual
/-- Names are identifiers, property names are packed ASCII names. -/
def lexOK : ES.Node → Bool
  | .cat ns => lexOKList ns
  | .alt ns => lexOKList ns
  | .group _ name n => (match name with | some nm => nameOK nm | none => true) && lexOK n
  | .nc n => lexOK n
  | .mod _ _ n => lexOK n
  | .look _ _ n => lexOK n
  | .quant _ _ _ n => lexOK n
  | .nref name => nameOK name
  | .prop _ _ name => propNameOK name
  | .cls _ items => items.all lexItem
  | .vcls _ _ ops => lexVOps ops
  | _ => true
def lexOKList : List ES.Node → Bool
  | [] => true
  | n :: ns => lexOK n && lexOKList ns
end

/-! ## Code points

Every literal code point of the AST is at most `0x10FFFF` (then so is every code point of the printed
text: what the theorems about compiled programs ask of a pattern). -/

def cpItem : ES.ClassItem → Bool
  | .c c => decide (c ≤ 0x10FFFF)
  | .r lo hi => decide (lo ≤ 0x10FFFF) && decide (hi ≤ 0x10FFFF)
  | _ => true

mutual
def cpVOp : ES.VOp → Bool
  | .c c => decide (c ≤ 0x10FFFF)
  | .r lo hi => decide (lo ≤ 0x10FFFF) && decide (hi ≤ 0x10FFFF)
  | .q strs => strs.all (fun s => s.all (fun c => decide (c ≤ 0x10FFFF)))
  | .cls _ _ ops => cpVOps ops
  | _ => true
def cpVOps : List ES.VOp → Bool
  | [] => true
  | o :: os => cpVOp o && cpVOps os
end

mutual
def cpOK : ES.Node → Bool
  | .char c => decide (c ≤ 0x10FFFF)
  | .cat ns => cpOKList ns
  | .alt ns => cpOKList ns
  | .group _ _ n => cpOK n
  | .nc n => cpOK n
  | .mod _ _ n => cpOK n
  | .look _ _ n => cpOK n
  | .quant _ _ _ n => cpOK n
  | .cls _ items => items.all cpItem
  | .vcls _ _ ops => cpVOps ops
  | _ => true
def cpOKList : List ES.Node → Bool
  | [] => true
  | n :: ns => cpOK n && cpOKList ns
end

/-! ## Duplicate group names

Two groups may have the same name only if they are in different alternatives of a common disjunction
(ES2025 "duplicate named groups"; the parser's `check_duplicate_conflicts`, the specification's early
error of `ES.groupNames`).  `Lower.toIR` does not check this, the parser does. -/

mutual
/-- The names of the named groups of a node, in pattern order (with repetitions). -/
def gnames : ES.Node → List (List Nat)
  | .group _ nm n => (match nm with | some x => [x] | none => []) ++ gnames n
  | .cat ns => gnamesList ns
  | .alt ns => gnamesList ns
  | .nc n => gnames n
  | .mod _ _ n => gnames n
  | .look _ _ n => gnames n
  | .quant _ _ _ n => gnames n
  | _ => []
def gnamesList : List ES.Node → List (List Nat)
  | [] => []
  | n :: ns => gnames n ++ gnamesList ns
end

mutual
/-- No two groups with the same name might both participate. -/
def noDup : ES.Node → Bool
  | .group _ nm n => noDup n && (match nm with | some x => !(gnames n).contains x | none => true)
  | .cat ns => noDupSeq ns
  | .alt ns => noDupAll ns
  | .nc n => noDup n
  | .mod _ _ n => noDup n
  | .look _ _ n => noDup n
  | .quant _ _ _ n => noDup n
  | _ => true
/-- children of a sequence: pairwise disjoint names -/
def noDupSeq : List ES.Node → Bool
  | [] => true
  | n :: ns => noDup n && noDupSeq ns && (gnames n).all (fun x => !(gnamesList ns).contains x)
/-- children of a disjunction: no condition across alternatives -/
def noDupAll : List ES.Node → Bool
  | [] => true
  | n :: ns => noDup n && noDupAll ns
end

/-! ## Line protocol -/

/-- `print FLAGS AST` → the pattern as `hex.hex.…` (`-` for the empty pattern) | `bad-request`. -/
def printLine (flags ast : String) : String :=
  match ES.parseFlags flags, ES.parseAst ast with
  | some f, .ok a => IR.dotted (printPattern f a)
  | _, _ => "bad-request"

end Regress.Print
