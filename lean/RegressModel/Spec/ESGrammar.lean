import RegressModel.Gen.Oracle
import RegressModel.Gen.Tables
import RegressModel.Unicode.Packed
/-!
# ECMAScript 2025 RegExp pattern grammar (syntax + early errors) — executable specification

Written from ECMA-262 (16th ed.) §22.2.1 *Patterns*, §22.2.1.1 *Static Semantics: Early Errors*,
§22.2.3.3 / B.1.2.9 (*ParsePattern*, the `[NamedCaptureGroups]` re-parse) and Annex B.1.2 *Regular
Expressions Patterns* — **not** from the Rust crate.  `esValid flags pat` says whether
`new RegExp(pat, flags)` parses (flags `i m s g y d` never matter; `u` selects `[+UnicodeMode]`,
`v` selects `[+UnicodeMode, +UnicodeSetsMode]`, neither selects the Annex B grammar).

Conventions.
* The pattern is a list of code points (`Nat`, anything up to `0x10FFFF`, lone surrogates included).
  Without `u`/`v` the pattern text is a sequence of UTF-16 code *units*, so supplementary code
  points are split into surrogate pairs first; with `u`/`v` a lead surrogate immediately followed by a
  trail surrogate is one SourceCharacter, so such pairs are combined first.
* Annex B says its grammar is ordered ("each alternative is considered only if previous production
  alternatives do not match"), so the recognizer is a deterministic recursive descent.
* Non-structural recursion uses a fuel argument; `R.fuel` (printed `invalid-fuel`) is distinct from
  `R.bad` and is never produced with the fuel chosen in `parsePattern` (`8 * (length + 2)`: between
  two consumed characters the call chain makes at most 6 non-consuming steps) — proved as
  `esValidCore_nofuel` in `Proofs/Lemmas/ESGrammarLaws.lean`.
* `feat25 = false` switches off the two ES2025 features V8 11.3 lacks (duplicate named groups in
  different alternatives; modifiers `(?ims-ims:…)`), only to validate the rest against V8.
-/
namespace Regress.ESG

/-- Result of a recognizer step. -/
inductive R (α : Type) where
  | ok (a : α)
  | bad
  | fuel
  deriving Repr

/-- Unicode data resolved once. -/
structure Tabs where
  idStart : List (Nat × Nat)
  idCont : List (Nat × Nat)
  lone : List Nat
  gc : List Nat
  sc : List Nat
  scx : List Nat

def tabs : Tabs where
  idStart := Regress.Packed.decode Regress.Gen.T_ID_START_len Regress.Gen.T_ID_START
  idCont := Regress.Packed.decode Regress.Gen.T_ID_CONTINUE_len Regress.Gen.T_ID_CONTINUE
  lone := Regress.Oracle.acceptedLone.map (·.1)
  gc := Regress.Oracle.acceptedGc.map (·.1)
  sc := Regress.Oracle.acceptedSc.map (·.1)
  scx := Regress.Oracle.acceptedScx.map (·.1)

/-- Grammar parameters. -/
structure Cfg where
  /-- `[UnicodeMode]` -/
  u : Bool
  /-- `[UnicodeSetsMode]` -/
  v : Bool
  /-- `[NamedCaptureGroups]` -/
  n : Bool
  /-- ES2025 duplicate named groups + modifiers enabled -/
  feat25 : Bool
  t : Tabs

/-- Threaded parse state (what the early errors need). -/
structure St where
  /-- CountLeftCapturingParensWithin(Pattern), so far -/
  groups : Nat := 0
  /-- every CapturingGroupName seen -/
  names : List (List Nat) := []
  /-- names that a GroupSpecifier at the current position MightBothParticipate with -/
  scope : List (List Nat) := []
  /-- names used by `\k<…>` -/
  refs : List (List Nat) := []
  /-- largest CapturingGroupNumber of a DecimalEscape (only recorded in UnicodeMode) -/
  maxDec : Nat := 0

/-! ## Characters -/

def ch (c : Char) : Nat := c.toNat

def isDigit (c : Nat) : Bool := 0x30 ≤ c && c ≤ 0x39
def isOctal (c : Nat) : Bool := 0x30 ≤ c && c ≤ 0x37
def isAsciiLetter (c : Nat) : Bool := (0x41 ≤ c && c ≤ 0x5A) || (0x61 ≤ c && c ≤ 0x7A)
def isHex (c : Nat) : Bool := isDigit c || (0x41 ≤ c && c ≤ 0x46) || (0x61 ≤ c && c ≤ 0x66)
def hexVal (c : Nat) : Nat := if isDigit c then c - 0x30 else if c ≤ 0x46 then c - 0x41 + 10 else c - 0x61 + 10
def isLead (c : Nat) : Bool := 0xD800 ≤ c && c ≤ 0xDBFF
def isTrail (c : Nat) : Bool := 0xDC00 ≤ c && c ≤ 0xDFFF
def combine (hi lo : Nat) : Nat := 0x10000 + (hi - 0xD800) * 0x400 + (lo - 0xDC00)

/-- SyntaxCharacter :: one of `^ $ \ . * + ? ( ) [ ] { } |` -/
def isSyntaxChar (c : Nat) : Bool :=
  c == 0x5E || c == 0x24 || c == 0x5C || c == 0x2E || c == 0x2A || c == 0x2B || c == 0x3F ||
  c == 0x28 || c == 0x29 || c == 0x5B || c == 0x5D || c == 0x7B || c == 0x7D || c == 0x7C

/-- ClassSetSyntaxCharacter :: one of `( ) [ ] { } / - \ |` -/
def isClassSetSyntaxChar (c : Nat) : Bool :=
  c == 0x28 || c == 0x29 || c == 0x5B || c == 0x5D || c == 0x7B || c == 0x7D || c == 0x2F ||
  c == 0x2D || c == 0x5C || c == 0x7C

/-- ClassSetReservedPunctuator :: one of ``& - ! # % , : ; < = > @ ` ~`` -/
def isClassSetReservedPunct (c : Nat) : Bool :=
  c == 0x26 || c == 0x2D || c == 0x21 || c == 0x23 || c == 0x25 || c == 0x2C || c == 0x3A ||
  c == 0x3B || c == 0x3C || c == 0x3D || c == 0x3E || c == 0x40 || c == 0x60 || c == 0x7E

/-- First character of a ClassSetReservedDoublePunctuator
(``&& !! ## $$ %% ** ++ ,, .. :: ;; << == >> ?? @@ ^^ `` ~~``). -/
def isDoublePunctChar (c : Nat) : Bool :=
  c == 0x26 || c == 0x21 || c == 0x23 || c == 0x24 || c == 0x25 || c == 0x2A || c == 0x2B ||
  c == 0x2C || c == 0x2E || c == 0x3A || c == 0x3B || c == 0x3C || c == 0x3D || c == 0x3E ||
  c == 0x3F || c == 0x40 || c == 0x5E || c == 0x60 || c == 0x7E

def memIv (l : List (Nat × Nat)) (c : Nat) : Bool := l.any (fun iv => iv.1 ≤ c && c ≤ iv.2)

/-- IdentifierStartChar :: UnicodeIDStart | `$` | `_` -/
def isIdStart (t : Tabs) (c : Nat) : Bool :=
  if c < 0x80 then isAsciiLetter c || c == 0x24 || c == 0x5F else memIv t.idStart c

/-- IdentifierPartChar :: UnicodeIDContinue | `$` | ZWNJ | ZWJ -/
def isIdPart (t : Tabs) (c : Nat) : Bool :=
  if c < 0x80 then isAsciiLetter c || isDigit c || c == 0x24 || c == 0x5F
  else c == 0x200C || c == 0x200D || memIv t.idCont c

/-! ## Pre-processing: code points → SourceCharacters of the selected mode -/

/-- Non-Unicode mode: UTF-16 code units. -/
def toUnits : List Nat → List Nat
  | [] => []
  | c :: r =>
    if c ≥ 0x10000 then (0xD800 + (c - 0x10000) / 0x400) :: (0xDC00 + (c - 0x10000) % 0x400) :: toUnits r
    else c :: toUnits r

/-- Unicode mode: code points (surrogate pairs combined). -/
def toPoints : List Nat → List Nat
  | [] => []
  | [c] => [c]
  | a :: b :: r =>
    if isLead a && isTrail b then combine a b :: toPoints r else a :: toPoints (b :: r)

/-! ## Small lexical pieces (all structural) -/

/-- DecimalDigits (maximal munch): value, number of digits, rest. -/
def takeDigits : List Nat → Nat → Nat → (Nat × Nat × List Nat)
  | c :: r, acc, k => if isDigit c then takeDigits r (acc * 10 + (c - 0x30)) (k + 1) else (acc, k, c :: r)
  | [], acc, k => (acc, k, [])

/-- HexDigits (maximal munch): value, number of digits, rest. -/
def takeHex : List Nat → Nat → Nat → (Nat × Nat × List Nat)
  | c :: r, acc, k => if isHex c then takeHex r (acc * 16 + hexVal c) (k + 1) else (acc, k, c :: r)
  | [], acc, k => (acc, k, [])

/-- Hex4Digits. -/
def hex4 : List Nat → Option (Nat × List Nat)
  | a :: b :: c :: d :: r =>
    if isHex a && isHex b && isHex c && isHex d then
      some (((hexVal a * 16 + hexVal b) * 16 + hexVal c) * 16 + hexVal d, r)
    else none
  | _ => none

/-- RegExpUnicodeEscapeSequence[+UnicodeMode] after the `u`:
`u{CodePoint}` (≤ 0x10FFFF), `uLead\uTrail` (one code point), `uHex4Digits`. -/
def uEscapeU (s : List Nat) : Option (Nat × List Nat) :=
  match s with
  | 0x7B :: r =>
    match takeHex r 0 0 with
    | (v, k, 0x7D :: r') => if k ≥ 1 && v ≤ 0x10FFFF then some (v, r') else none
    | _ => none
  | _ =>
    match hex4 s with
    | none => none
    | some (a, r) =>
      if isLead a then
        match r with
        | 0x5C :: 0x75 :: r2 =>
          match hex4 r2 with
          | some (b, r3) => if isTrail b then some (combine a b, r3) else some (a, r)
          | none => some (a, r)
        | _ => some (a, r)
      else some (a, r)

/-- The braced quantifier shapes `{n}`, `{n,}`, `{n,m}` (= InvalidBracedQuantifier shapes), after
the `{`: `none` = the text is not of that shape; `some (ordered, rest)`. -/
def braced (s : List Nat) : Option (Bool × List Nat) :=
  match takeDigits s 0 0 with
  | (_, 0, _) => none
  | (_, _, 0x7D :: r) => some (true, r)
  | (lo, _, 0x2C :: r) =>
    match r with
    | 0x7D :: r' => some (true, r')
    | _ =>
      match takeDigits r 0 0 with
      | (_, 0, _) => none
      | (hi, _, 0x7D :: r') => some (decide (lo ≤ hi), r')
      | _ => none
  | _ => none

/-- Optional Quantifier (`QuantifierPrefix` + optional `?`).  `ok rest` (rest = input if no
quantifier is present), `bad` for `{n,m}` with n > m. -/
def optQuant (s : List Nat) : R (List Nat) :=
  let lazyQ : List Nat → List Nat := fun r => match r with | 0x3F :: r' => r' | _ => r
  match s with
  | 0x2A :: r => .ok (lazyQ r)
  | 0x2B :: r => .ok (lazyQ r)
  | 0x3F :: r => .ok (lazyQ r)
  | 0x7B :: r =>
    match braced r with
    | none => .ok s
    | some (true, r') => .ok (lazyQ r')
    | some (false, _) => .bad
  | _ => .ok s

/-! ## Unicode property escapes -/

def isPropChar (c : Nat) : Bool := isAsciiLetter c || isDigit c || c == 0x5F

def takeProp : List Nat → List Nat → (List Nat × List Nat)
  | c :: r, acc => if isPropChar c then takeProp r (c :: acc) else (acc.reverse, c :: r)
  | [], acc => (acc.reverse, [])

def key (bs : List Nat) : Nat := Regress.Packed.nameOfBytes bs
def str (s : String) : List Nat := s.toList.map Char.toNat

/-- Binary Unicode properties of strings (ECMA-262 table 69). -/
def stringProps : List (List Nat) :=
  [str "Basic_Emoji", str "Emoji_Keycap_Sequence", str "RGI_Emoji_Modifier_Sequence",
   str "RGI_Emoji_Flag_Sequence", str "RGI_Emoji_Tag_Sequence", str "RGI_Emoji_ZWJ_Sequence", str "RGI_Emoji"]

/-- `p{…}` / `P{…}` after the `p`/`P` (UnicodeMode only).  Result: rest and MayContainStrings. -/
def propEscape (c : Cfg) (negated : Bool) (s : List Nat) : R (List Nat × Bool) :=
  match s with
  | 0x7B :: r =>
    match takeProp r [] with
    | (name, 0x7D :: r') =>
      if stringProps.contains name then
        -- only with [UnicodeSetsMode]; `\P{…}` MayContainStrings is an early error
        if c.v && !negated then .ok (r', true) else .bad
      else if c.t.lone.contains (key name) && !name.isEmpty then .ok (r', false) else .bad
    | (name, 0x3D :: r1) =>
      match takeProp r1 [] with
      | (val, 0x7D :: r') =>
        let k := key val
        let okv :=
          if name == str "General_Category" || name == str "gc" then c.t.gc.contains k
          else if name == str "Script" || name == str "sc" then c.t.sc.contains k
          else if name == str "Script_Extensions" || name == str "scx" then c.t.scx.contains k
          else false
        if okv && !val.isEmpty then .ok (r', false) else .bad
      | _ => .bad
    | _ => .bad
  | _ => .bad

/-! ## Group names -/

/-- One RegExpIdentifierStart/Part: a `\u` escape (always `[+UnicodeMode]` syntax), a surrogate pair
of code units (non-Unicode mode), or a plain character. -/
def nameChar (s : List Nat) : Option (Nat × List Nat) :=
  match s with
  | 0x5C :: 0x75 :: r => uEscapeU r
  | 0x5C :: _ => none
  | a :: b :: r => if isLead a && isTrail b then some (combine a b, r) else some (a, b :: r)
  | [a] => some (a, [])
  | [] => none

/-- GroupName after the `<`: the CapturingGroupName (code points) and the rest after `>`. -/
def groupNameGo (t : Tabs) : Nat → List Nat → List Nat → Option (List Nat × List Nat)
  | 0, _, _ => none
  | fuel + 1, s, acc =>
    match s with
    | 0x3E :: r => if acc.isEmpty then none else some (acc.reverse, r)
    | _ =>
      match nameChar s with
      | none => none
      | some (c, r) =>
        if (if acc.isEmpty then isIdStart t c else isIdPart t c) then groupNameGo t fuel r (c :: acc)
        else none

def groupName (t : Tabs) (s : List Nat) : Option (List Nat × List Nat) :=
  groupNameGo t (s.length + 1) s []

/-- A GroupSpecifier with CapturingGroupName `nm` is seen: early error if it MightBothParticipate with
an earlier one of the same name. -/
def addName (c : Cfg) (nm : List Nat) (st : St) : Option St :=
  if (if c.feat25 then st.scope.contains nm else st.names.contains nm) then none
  else some { st with names := nm :: st.names, scope := nm :: st.scope }

/-! ## Character escapes -/

/-- CharacterClassEscape letters `d D s S w W`. -/
def isClassEscLetter (x : Nat) : Bool :=
  x == 0x64 || x == 0x44 || x == 0x73 || x == 0x53 || x == 0x77 || x == 0x57

/-- ControlEscape :: one of `f n r t v`. -/
def controlEscape (x : Nat) : Option Nat :=
  if x == 0x66 then some 0xC else if x == 0x6E then some 0xA else if x == 0x72 then some 0xD
  else if x == 0x74 then some 0x9 else if x == 0x76 then some 0xB else none

/-- CharacterEscape[+UnicodeMode] whose first character is `x` (rest `r`): CharacterValue and rest. -/
def charEscapeU (x : Nat) (r : List Nat) : Option (Nat × List Nat) :=
  match controlEscape x with
  | some v => some (v, r)
  | none =>
    if x == 0x63 then                       -- c AsciiLetter
      match r with
      | l :: r' => if isAsciiLetter l then some (l % 32, r') else none
      | [] => none
    else if x == 0x30 then                  -- 0 [lookahead ∉ DecimalDigit]
      match r with
      | d :: _ => if isDigit d then none else some (0, r)
      | [] => some (0, r)
    else if x == 0x78 then                  -- HexEscapeSequence
      match r with
      | a :: b :: r' => if isHex a && isHex b then some (hexVal a * 16 + hexVal b, r') else none
      | _ => none
    else if x == 0x75 then uEscapeU r       -- RegExpUnicodeEscapeSequence[+UnicodeMode]
    else if isSyntaxChar x || x == 0x2F then some (x, r)   -- IdentityEscape[+UnicodeMode]
    else none

/-- LegacyOctalEscapeSequence (and `\0`) whose first digit is `d`. -/
def legacyOctal (d : Nat) (r : List Nat) : Nat × List Nat :=
  match r with
  | d2 :: r2 =>
    if isOctal d2 then
      if d ≤ 0x33 then
        match r2 with
        | d3 :: r3 =>
          if isOctal d3 then (((d - 0x30) * 8 + (d2 - 0x30)) * 8 + (d3 - 0x30), r3)
          else ((d - 0x30) * 8 + (d2 - 0x30), r2)
        | [] => ((d - 0x30) * 8 + (d2 - 0x30), r2)
      else ((d - 0x30) * 8 + (d2 - 0x30), r2)
    else (d - 0x30, r)
  | [] => (d - 0x30, r)

/-- Annex B CharacterEscape[~UnicodeMode, ?NamedCaptureGroups] (plus, in a class, `c ClassControlLetter`)
for the text `\ x r`.  When `x = c` is not followed by a control letter the escape does not match and
the `\` stands for itself (`\ [lookahead = c]`): value `\`, rest `c r`.
Outside classes a DecimalEscape that is a back-reference is read here as octal/identity escape; the
extra characters a back-reference would consume are decimal digits (always valid atoms), so validity
is the same. -/
def charEscapeLegacy (n inClass : Bool) (x : Nat) (r : List Nat) : Option (Nat × List Nat) :=
  match controlEscape x with
  | some v => some (v, r)
  | none =>
    if x == 0x63 then
      match r with
      | l :: r' =>
        if isAsciiLetter l || (inClass && (isDigit l || l == 0x5F)) then some (l % 32, r')
        else some (0x5C, x :: r)
      | [] => some (0x5C, x :: r)
    else if isOctal x then some (legacyOctal x r)
    else if x == 0x78 then
      match r with
      | a :: b :: r' => if isHex a && isHex b then some (hexVal a * 16 + hexVal b, r') else some (x, r)
      | _ => some (x, r)
    else if x == 0x75 then
      match hex4 r with
      | some (v, r') => some (v, r')
      | none => some (x, r)
    else if x == 0x6B && n then none        -- SourceCharacterIdentityEscape[+N]: not `k`
    else some (x, r)                        -- SourceCharacterIdentityEscape

/-! ## CharacterClass without UnicodeSetsMode -/

/-- ClassAtom: `(some CharacterValue | none = a character class, rest)`. -/
def classAtom (c : Cfg) (s : List Nat) : R (Option Nat × List Nat) :=
  match s with
  | [] => .bad
  | 0x5C :: [] => .bad
  | 0x5C :: x :: r =>
    if x == 0x62 then .ok (some 8, r)
    else if isClassEscLetter x then .ok (none, r)
    else if c.u then
      if x == 0x2D then .ok (some 0x2D, r)
      else if x == 0x70 || x == 0x50 then
        match propEscape c (x == 0x50) r with
        | .ok (r', _) => .ok (none, r')
        | .bad => .bad
        | .fuel => .fuel
      else
        match charEscapeU x r with
        | some (v, r') => .ok (some v, r')
        | none => .bad
    else
      match charEscapeLegacy c.n true x r with
      | some (v, r') => .ok (some v, r')
      | none => .bad
  | x :: r => .ok (some x, r)

/-- Early errors of `ClassAtom - ClassAtom`. -/
def rangeOk (c : Cfg) : Option Nat → Option Nat → Bool
  | some a, some b => a ≤ b
  | _, _ => !c.u

/-- ClassContents[~UnicodeSetsMode] `]`. -/
def classLoop (c : Cfg) : Nat → List Nat → R (List Nat)
  | 0, _ => .fuel
  | fuel + 1, s =>
    match s with
    | [] => .bad
    | 0x5D :: r => .ok r
    | _ =>
      match classAtom c s with
      | .bad => .bad
      | .fuel => .fuel
      | .ok (a, r) =>
        match r with
        | 0x2D :: [] => .bad
        | 0x2D :: 0x5D :: _ => classLoop c fuel r
        | 0x2D :: r1 =>
          match classAtom c r1 with
          | .bad => .bad
          | .fuel => .fuel
          | .ok (b, r2) => if rangeOk c a b then classLoop c fuel r2 else .bad
        | _ => classLoop c fuel r

/-! ## CharacterClass with UnicodeSetsMode -/

/-- ClassSetCharacter. -/
def classSetChar (s : List Nat) : Option (Nat × List Nat) :=
  match s with
  | [] => none
  | 0x5C :: [] => none
  | 0x5C :: x :: r =>
    if x == 0x62 then some (8, r)
    else if isClassSetReservedPunct x then some (x, r)
    else charEscapeU x r
  | x :: r =>
    if isClassSetSyntaxChar x then none
    else if isDoublePunctChar x && r.head? == some x then none
    else some (x, r)

/-- ClassStringDisjunctionContents `}`: rest and MayContainStrings. -/
def qGo : Nat → List Nat → Nat → Bool → R (List Nat × Bool)
  | 0, _, _, _ => .fuel
  | fuel + 1, s, len, ms =>
    match s with
    | 0x7D :: r => .ok (r, ms || len != 1)
    | 0x7C :: r => qGo fuel r 0 (ms || len != 1)
    | _ =>
      match classSetChar s with
      | none => .bad
      | some (_, r) => qGo fuel r (len + 1) ms

mutual
/-- CharacterClass[+UnicodeSetsMode] after the `[`: rest after `]` and MayContainStrings. -/
def vClass (c : Cfg) : Nat → List Nat → R (List Nat × Bool)
  | 0, _ => .fuel
  | fuel + 1, s =>
    match s with
    | 0x5E :: r =>
      match vContents c fuel r with
      | .ok (r', ms) => if ms then .bad else .ok (r', false)
      | e => e
    | _ => vContents c fuel s
/-- ClassContents `]`. -/
def vContents (c : Cfg) : Nat → List Nat → R (List Nat × Bool)
  | 0, _ => .fuel
  | fuel + 1, s =>
    match s with
    | 0x5D :: r => .ok (r, false)
    | _ =>
      match vItem c fuel s with
      | .bad => .bad
      | .fuel => .fuel
      | .ok (r, isRange, ms) =>
        if isRange then vUnion c fuel r ms
        else
          match r with
          | 0x26 :: 0x26 :: _ => vInter c fuel r ms
          | 0x2D :: 0x2D :: _ => vSub c fuel r ms
          | _ => vUnion c fuel r ms
/-- rest of a ClassUnion, `]`. -/
def vUnion (c : Cfg) : Nat → List Nat → Bool → R (List Nat × Bool)
  | 0, _, _ => .fuel
  | fuel + 1, s, ms =>
    match s with
    | [] => .bad
    | 0x5D :: r => .ok (r, ms)
    | _ =>
      match vItem c fuel s with
      | .bad => .bad
      | .fuel => .fuel
      | .ok (r, _, m2) => vUnion c fuel r (ms || m2)
/-- rest of a ClassIntersection, `]`. -/
def vInter (c : Cfg) : Nat → List Nat → Bool → R (List Nat × Bool)
  | 0, _, _ => .fuel
  | fuel + 1, s, ms =>
    match s with
    | 0x5D :: r => .ok (r, ms)
    | 0x26 :: 0x26 :: r =>
      if r.head? == some 0x26 then .bad
      else
        match vOperand c fuel r with
        | .bad => .bad
        | .fuel => .fuel
        | .ok (r', m2, _) => vInter c fuel r' (ms && m2)
    | _ => .bad
/-- rest of a ClassSubtraction, `]`. -/
def vSub (c : Cfg) : Nat → List Nat → Bool → R (List Nat × Bool)
  | 0, _, _ => .fuel
  | fuel + 1, s, ms =>
    match s with
    | 0x5D :: r => .ok (r, ms)
    | 0x2D :: 0x2D :: r =>
      match vOperand c fuel r with
      | .bad => .bad
      | .fuel => .fuel
      | .ok (r', _, _) => vSub c fuel r' ms
    | _ => .bad
/-- ClassSetOperand: rest, MayContainStrings, and the CharacterValue if it is a ClassSetCharacter. -/
def vOperand (c : Cfg) : Nat → List Nat → R (List Nat × Bool × Option Nat)
  | 0, _ => .fuel
  | fuel + 1, s =>
    match s with
    | 0x5B :: r =>
      match vClass c fuel r with
      | .ok (r', ms) => .ok (r', ms, none)
      | .bad => .bad
      | .fuel => .fuel
    | 0x5C :: 0x71 :: 0x7B :: r =>
      match qGo (r.length + 1) r 0 false with
      | .ok (r', ms) => .ok (r', ms, none)
      | .bad => .bad
      | .fuel => .fuel
    | 0x5C :: x :: r =>
      if isClassEscLetter x then .ok (r, false, none)
      else if x == 0x70 || x == 0x50 then
        match propEscape c (x == 0x50) r with
        | .ok (r', ms) => .ok (r', ms, none)
        | .bad => .bad
        | .fuel => .fuel
      else
        match classSetChar s with
        | some (v, r') => .ok (r', false, some v)
        | none => .bad
    | _ =>
      match classSetChar s with
      | some (v, r') => .ok (r', false, some v)
      | none => .bad
/-- ClassSetRange or ClassSetOperand: rest, is-a-range, MayContainStrings. -/
def vItem (c : Cfg) : Nat → List Nat → R (List Nat × Bool × Bool)
  | 0, _ => .fuel
  | fuel + 1, s =>
    match vOperand c fuel s with
    | .bad => .bad
    | .fuel => .fuel
    | .ok (r, ms, none) => .ok (r, false, ms)
    | .ok (r, ms, some a) =>
      match r with
      | 0x2D :: 0x2D :: _ => .ok (r, false, ms)
      | 0x2D :: r1 =>
        match classSetChar r1 with
        | some (b, r2) => if a ≤ b then .ok (r2, true, false) else .bad
        | none => .bad
      | _ => .ok (r, false, ms)
end

/-! ## Atom escapes, modifiers -/

/-- `k GroupName`, after the `k`. -/
def namedRef (c : Cfg) (r : List Nat) (st : St) : R (List Nat × St) :=
  match r with
  | 0x3C :: r1 =>
    match groupName c.t r1 with
    | some (nm, r2) => .ok (r2, { st with refs := nm :: st.refs })
    | none => .bad
  | _ => .bad

/-- AtomEscape, after the `\` (the assertions `\b` `\B` are recognised by `term`). -/
def atomEscape (c : Cfg) (s : List Nat) (st : St) : R (List Nat × St) :=
  match s with
  | [] => .bad
  | x :: r =>
    if isClassEscLetter x then .ok (r, st)
    else if c.u then
      if x == 0x30 then
        match charEscapeU x r with
        | some (_, r') => .ok (r', st)
        | none => .bad
      else if isDigit x then                 -- DecimalEscape
        match takeDigits s 0 0 with
        | (v, _, r') => .ok (r', { st with maxDec := max st.maxDec v })
      else if x == 0x70 || x == 0x50 then
        match propEscape c (x == 0x50) r with
        | .ok (r', _) => .ok (r', st)
        | .bad => .bad
        | .fuel => .fuel
      else if x == 0x6B then namedRef c r st
      else
        match charEscapeU x r with
        | some (_, r') => .ok (r', st)
        | none => .bad
    else
      if x == 0x6B && c.n then namedRef c r st
      else
        match charEscapeLegacy c.n false x r with
        | some (_, r') => .ok (r', st)
        | none => .bad

/-- RegularExpressionModifiers (maximal run of `i m s`). -/
def takeMods : List Nat → List Nat → (List Nat × List Nat)
  | x :: r, acc => if x == 0x69 || x == 0x6D || x == 0x73 then takeMods r (x :: acc) else (acc, x :: r)
  | [], acc => (acc, [])

def nodup : List Nat → Bool
  | [] => true
  | x :: r => !r.contains x && nodup r

/-- After `(?` when no GroupSpecifier/assertion follows: `RegularExpressionModifiers :` or
`RegularExpressionModifiers - RegularExpressionModifiers :`; rest after the `:`. -/
def modifiers (c : Cfg) (s : List Nat) : Option (List Nat) :=
  match takeMods s [] with
  | (a, 0x3A :: r) => if a.isEmpty || (c.feat25 && nodup a) then some r else none
  | (a, 0x2D :: r1) =>
    match takeMods r1 [] with
    | (b, 0x3A :: r) =>
      if c.feat25 && nodup (a ++ b) && !(a.isEmpty && b.isEmpty) then some r else none
    | _ => none
  | _ => none

/-- union of two scopes -/
def scopeUnion (a b : List (List Nat)) : List (List Nat) := b ++ a.filter (fun x => !b.contains x)

/-! ## Disjunction / Alternative / Term / Atom -/

mutual
/-- Disjunction. Stops (without consuming) at `)` or end of input. -/
def disj (c : Cfg) : Nat → List Nat → St → R (List Nat × St)
  | 0, _, _ => .fuel
  | fuel + 1, s, st =>
    match alt c fuel s st with
    | .ok (0x7C :: r, st1) =>
      match disj c fuel r { st1 with scope := st.scope } with
      | .ok (r2, st2) => .ok (r2, { st2 with scope := scopeUnion st1.scope st2.scope })
      | e => e
    | e => e
/-- Alternative. Stops at `|`, `)` or end of input. -/
def alt (c : Cfg) : Nat → List Nat → St → R (List Nat × St)
  | 0, _, _ => .fuel
  | fuel + 1, s, st =>
    match s with
    | [] => .ok (s, st)
    | 0x7C :: _ => .ok (s, st)
    | 0x29 :: _ => .ok (s, st)
    | _ =>
      match term c fuel s st with
      | .ok (r, st1) => alt c fuel r st1
      | e => e
/-- `Disjunction )`. -/
def body (c : Cfg) : Nat → List Nat → St → R (List Nat × St)
  | 0, _, _ => .fuel
  | fuel + 1, s, st =>
    match disj c fuel s st with
    | .ok (0x29 :: r, st1) => .ok (r, st1)
    | .ok _ => .bad
    | e => e
/-- Term. -/
def term (c : Cfg) : Nat → List Nat → St → R (List Nat × St)
  | 0, _, _ => .fuel
  | fuel + 1, s, st =>
    match s with
    | 0x5E :: r => .ok (r, st)
    | 0x24 :: r => .ok (r, st)
    | 0x5C :: 0x62 :: r => .ok (r, st)
    | 0x5C :: 0x42 :: r => .ok (r, st)
    | 0x28 :: 0x3F :: 0x3C :: x :: r =>
      if x == 0x3D || x == 0x21 then body c fuel r st        -- lookbehind: never quantifiable
      else quantified c fuel s st
    | 0x28 :: 0x3F :: x :: r =>
      if x == 0x3D || x == 0x21 then                         -- lookahead
        match body c fuel r st with
        | .ok (r', st1) =>
          if c.u then .ok (r', st1)
          else                                               -- QuantifiableAssertion Quantifier
            match optQuant r' with
            | .ok r2 => .ok (r2, st1)
            | .bad => .bad
            | .fuel => .fuel
        | e => e
      else quantified c fuel s st
    | _ => quantified c fuel s st
/-- `Atom Quantifier?` (Annex B: `ExtendedAtom Quantifier?`). -/
def quantified (c : Cfg) : Nat → List Nat → St → R (List Nat × St)
  | 0, _, _ => .fuel
  | fuel + 1, s, st =>
    match atom c fuel s st with
    | .ok (r, st1) =>
      match optQuant r with
      | .ok r2 => .ok (r2, st1)
      | .bad => .bad
      | .fuel => .fuel
    | e => e
/-- Atom / ExtendedAtom. -/
def atom (c : Cfg) : Nat → List Nat → St → R (List Nat × St)
  | 0, _, _ => .fuel
  | fuel + 1, s, st =>
    match s with
    | [] => .bad
    | 0x2E :: r => .ok (r, st)
    | 0x28 :: 0x3F :: 0x3C :: r =>                            -- ( GroupSpecifier Disjunction )
      match groupName c.t r with
      | none => .bad
      | some (nm, r1) =>
        match addName c nm { st with groups := st.groups + 1 } with
        | none => .bad
        | some st1 => body c fuel r1 st1
    | 0x28 :: 0x3F :: r =>
      match modifiers c r with
      | some r1 => body c fuel r1 st
      | none => .bad
    | 0x28 :: r => body c fuel r { st with groups := st.groups + 1 }
    | 0x5B :: r =>
      if c.v then
        match vClass c fuel r with
        | .ok (r', _) => .ok (r', st)
        | .bad => .bad
        | .fuel => .fuel
      else
        match classLoop c fuel (match r with | 0x5E :: r' => r' | _ => r) with
        | .ok r' => .ok (r', st)
        | .bad => .bad
        | .fuel => .fuel
    | 0x5C :: r =>
      atomEscape c r st
    | x :: r =>
      if x == 0x2A || x == 0x2B || x == 0x3F || x == 0x29 || x == 0x7C || x == 0x5E || x == 0x24 then .bad
      else if x == 0x7B then
        if c.u then .bad
        else match braced r with
          | some _ => .bad                                    -- InvalidBracedQuantifier
          | none => .ok (r, st)                               -- ExtendedPatternCharacter
      else if x == 0x7D || x == 0x5D then
        if c.u then .bad else .ok (r, st)
      else .ok (r, st)
end

/-! ## Pattern -/

/-- Pattern :: Disjunction, plus the early errors that need the whole pattern. -/
def parsePattern (c : Cfg) (s : List Nat) : R St :=
  match disj c (8 * (s.length + 2)) s {} with
  | .ok ([], st) =>
    if (!c.u || st.maxDec ≤ st.groups) && (!c.n || st.refs.all (fun nm => st.names.contains nm))
    then .ok st else .bad
  | .ok _ => .bad          -- unmatched `)`
  | .bad => .bad
  | .fuel => .fuel

/-- ParsePattern (§22.2.3.3 with B.1.2.9): under `u`/`v` parse with `[+NamedCaptureGroups]`; otherwise
parse with `[~NamedCaptureGroups]` and, if the parse contains a GroupName, re-parse with
`[+NamedCaptureGroups]`. -/
def esValidCore (t : Tabs) (feat25 u v : Bool) (pat : List Nat) : R Unit :=
  if u || v then
    match parsePattern { u := true, v := v, n := true, feat25 := feat25, t := t } (toPoints pat) with
    | .ok _ => .ok ()
    | .bad => .bad
    | .fuel => .fuel
  else
    let s := toUnits pat
    match parsePattern { u := false, v := false, n := false, feat25 := feat25, t := t } s with
    | .ok st =>
      if st.names.isEmpty then .ok ()
      else
        match parsePattern { u := false, v := false, n := true, feat25 := feat25, t := t } s with
        | .ok _ => .ok ()
        | .bad => .bad
        | .fuel => .fuel
    | .bad => .bad
    | .fuel => .fuel

/-- RegExp flags: letters of `d g i m s u v y`, none repeated, not both `u` and `v`. -/
def flagsOk (fl : List Nat) : Bool :=
  fl.all (fun x => (str "dgimsuvy").contains x) && nodup fl &&
  !(fl.contains 0x75 && fl.contains 0x76)

def esValidR (t : Tabs) (feat25 : Bool) (flags : List Nat) (pat : List Nat) : R Unit :=
  if flagsOk flags then esValidCore t feat25 (flags.contains 0x75) (flags.contains 0x76) pat else .bad

/-- Does `new RegExp(pat, flags)` succeed (ES2025)? -/
def esValid (flags : String) (pat : List Nat) : Bool :=
  match esValidR tabs true (str flags) pat with
  | .ok _ => true
  | _ => false

/-! ## Text interface for the driver -/

def hexNat? (s : String) : Option Nat :=
  let cs := s.toList.map Char.toNat
  if cs.isEmpty || !cs.all isHex then none else some (cs.foldl (fun a x => a * 16 + hexVal x) 0)

def parseCps (s : String) : Option (List Nat) :=
  if s == "-" then some [] else (s.splitOn ".").mapM hexNat?

def showR : R Unit → String
  | .ok _ => "valid"
  | .bad => "invalid"
  | .fuel => "invalid-fuel"

/-- `flags` = letters or `-`; `pat` = `hex.hex…` or `-`. -/
def esValidLineWith (feat25 : Bool) (flags pat : String) : String :=
  match parseCps pat with
  | none => "error"
  | some p => showR (esValidR tabs feat25 (if flags == "-" then [] else str flags) p)

def esValidLine (flags pat : String) : String := esValidLineWith true flags pat

end Regress.ESG
