import RegressModel.Text.Utf8
import RegressModel.Spec.ESCharSet
/-!
# ECMAScript 2025 regular expressions: pattern semantics (§22.2.2) and `RegExpBuiltinExec`

A transliteration of the *Pattern Semantics* of ECMA-262 (2025): `CompilePattern`,
`CompileSubpattern`, `RepeatMatcher`, `EmptyMatcher`, `MatchTwoAlternatives`, `MatchSequence`,
`CompileAssertion`, `IsWordChar`, `CompileAtom`, `CharacterSetMatcher`, `BackreferenceMatcher`,
`CompileCharacterClass`, and of the part of `RegExpBuiltinExec` a sticky-less search performs.

As in the standard a *Matcher* is a closure taking a *MatchState* and a *MatcherContinuation*;
the only addition is a fuel argument that `RepeatMatcher` decreases at each iteration (it bounds
the length of any chain of iterations of one quantifier; since an iteration with `min = 0` must
move the end index, about `n + min + 2` suffices for an input of `n` characters; by
`esExec_fuel_mono` in `Proofs/Lemmas/ESLaws.lean` a definite answer never depends on the fuel) and a third *MatchResult*, `outOfFuel`, which is propagated like a
success so that it can never be mistaken for a failure.

Characters are code points in every mode; positions are code point indices.
-/
namespace Regress.ES

inductive Direction where
  | forward | backward
  deriving Repr, DecidableEq, Inhabited

/-- A *MatchState* (the `[[Input]]` is a parameter of the compilation instead). `captures[k]` of
the standard is element `k - 1` of `captures`; a *CaptureRange* is `(start, end)`. -/
structure State where
  endIndex : Nat
  captures : List (Option (Nat × Nat))
  deriving Repr, Inhabited, DecidableEq

/-- A *MatchResult*, plus fuel exhaustion. -/
inductive MatchResult where
  | failure
  | success (y : State)
  | outOfFuel
  deriving Repr, Inhabited, DecidableEq

/-- A *MatcherContinuation*. -/
abbrev Cont := State → MatchResult

/-- A *Matcher* (with fuel).  A structure so that compilation really builds closures. -/
structure Matcher where
  run : Nat → State → Cont → MatchResult

/-- `captures[n]` -/
def getCapture (caps : List (Option (Nat × Nat))) (n : Nat) : Option (Nat × Nat) :=
  if n = 0 then none else (caps.getD (n - 1) none)

/-- set `captures[n]` -/
def setCapture (caps : List (Option (Nat × Nat))) (n : Nat) (r : Option (Nat × Nat)) :
    List (Option (Nat × Nat)) :=
  if n = 0 then caps else caps.set (n - 1) r

/-- "For each integer k in the inclusive interval from parenIndex + 1 to parenIndex + parenCount,
set cap[k] to undefined." -/
def resetCaptures (caps : List (Option (Nat × Nat))) (parenIndex : Nat) :
    (parenCount : Nat) → List (Option (Nat × Nat))
  | 0 => caps
  | k + 1 => resetCaptures (setCapture caps (parenIndex + k + 1) none) parenIndex k

/-! ## §22.2.2.3.1 – 22.2.2.3.4 -/

/-- `EmptyMatcher()` -/
def emptyMatcher : Matcher := ⟨fun _ x c => c x⟩

/-- `MatchTwoAlternatives(m1, m2)` -/
def matchTwoAlternatives (m1 m2 : Matcher) : Matcher :=
  ⟨fun fuel x c =>
    -- a. Let r be m1(x, c).  b. If r is not failure, return r.  c. Return m2(x, c).
    match m1.run fuel x c with
    | .failure => m2.run fuel x c
    | r => r⟩

/-- `MatchSequence(m1, m2, direction)` -/
def matchSequence (m1 m2 : Matcher) (direction : Direction) : Matcher :=
  match direction with
  | .forward => ⟨fun fuel x c => m1.run fuel x (fun y => m2.run fuel y c)⟩
  | .backward => ⟨fun fuel x c => m2.run fuel x (fun y => m1.run fuel y c)⟩

/-- `RepeatMatcher(m, min, max, greedy, x, c, parenIndex, parenCount)`; `max = none` is `∞`. -/
def repeatMatcher (m : Matcher) (greedy : Bool) (parenIndex parenCount : Nat) :
    (fuel : Nat) → (min : Nat) → (max : Option Nat) → State → Cont → MatchResult
  | 0, _, max, x, c =>
    -- 1. If max = 0, return c(x).
    if max = some 0 then c x else .outOfFuel
  | fuel + 1, min, max, x, c =>
    -- 1. If max = 0, return c(x).
    if max = some 0 then c x else
    -- 2. Let d be a new MatcherContinuation (y) that …
    let d : Cont := fun y =>
      -- a. If min = 0 and y.[[EndIndex]] = x.[[EndIndex]], return failure.
      if min = 0 ∧ y.endIndex = x.endIndex then .failure else
      -- b. If min = 0, let min2 be 0; otherwise let min2 be min - 1.
      let min2 := if min = 0 then 0 else min - 1
      -- c. If max = +∞, let max2 be +∞; otherwise let max2 be max - 1.
      let max2 := max.map (· - 1)
      -- d. Return RepeatMatcher(m, min2, max2, greedy, y, c, parenIndex, parenCount).
      repeatMatcher m greedy parenIndex parenCount fuel min2 max2 y c
    -- 3.–6. xr is x with captures parenIndex+1 … parenIndex+parenCount reset to undefined.
    let xr : State := { x with captures := resetCaptures x.captures parenIndex parenCount }
    -- 7. If min ≠ 0, return m(xr, d).
    if min ≠ 0 then m.run (fuel + 1) xr d
    -- 8. If greedy is false, then z = c(x); if z is not failure return z; return m(xr, d).
    else if !greedy then
      match c x with
      | .failure => m.run (fuel + 1) xr d
      | z => z
    -- 9. Let z be m(xr, d).  10. If z is not failure, return z.  11. Return c(x).
    else
      match m.run (fuel + 1) xr d with
      | .failure => c x
      | z => z

/-! ## §22.2.2.7.1 CharacterSetMatcher, §22.2.2.7.2 BackreferenceMatcher -/

/-- "there exists a member a of A such that Canonicalize(rer, a) is cc", where
`cc = Canonicalize(rer, ch)`: decided through the finite class of `ch`. -/
def existsCanonMember (rer : RER) (a : CharSet) (ch : Nat) : Bool :=
  (canonClass rer ch).any a.chars

/-- `CharacterSetMatcher(rer, A, invert, direction)` over the input `input`. -/
def characterSetMatcher (input : Array Nat) (rer : RER) (a : CharSet) (invert : Bool)
    (direction : Direction) : Matcher :=
  ⟨fun _ x c =>
    -- a.–d. e = x's endIndex; f = e + 1 (forward) or e - 1 (backward)
    let e := x.endIndex
    -- e.–f. If f < 0 or f > InputLength, return failure.
    if (direction = .backward ∧ e = 0) ∨ (direction = .forward ∧ e + 1 > input.size) then .failure
    else
    let f := if direction = .forward then e + 1 else e - 1
    -- g.–i. index = min(e, f); ch = Input[index]; cc = Canonicalize(rer, ch)
    let index := min e f
    let ch := input.getD index 0
    -- j. found
    let found := existsCanonMember rer a ch
    -- k. If invert is false and found is false, return failure.
    -- l. If invert is true and found is true, return failure.
    if !invert && !found then .failure
    else if invert && found then .failure
    -- m.–o. y = (Input, f, cap); return c(y)
    else c { x with endIndex := f }⟩

/-- all `i < len` satisfy `p` -/
def allBelow (p : Nat → Bool) : Nat → Bool
  | 0 => true
  | n + 1 => allBelow p n && p n

/-- `BackreferenceMatcher(rer, ns, direction)` -/
def backreferenceMatcher (input : Array Nat) (rer : RER) (ns : List Nat) (direction : Direction) :
    Matcher :=
  ⟨fun _ x c =>
    -- a.–b. r = the defined capture among ns (at most one is, by the standard's assertion)
    let r := ns.foldl (fun r n => match getCapture x.captures n with
                                   | some v => some v
                                   | none => r) none
    match r with
    -- c. If r is undefined, return c(x).
    | none => c x
    | some (rs, re) =>
      -- d.–h. e, rs, re, len = re - rs, f = e + len or e - len
      let e := x.endIndex
      let len := re - rs
      -- i.–j. If f < 0 or f > InputLength, return failure.
      if (direction = .backward ∧ e < len) ∨ (direction = .forward ∧ e + len > input.size) then
        .failure
      else
      let f := if direction = .forward then e + len else e - len
      -- k. g = min(e, f)
      let g := min e f
      -- l. If there exists i in [0, len) with Canonicalize(Input[rs+i]) ≠ Canonicalize(Input[g+i]),
      --    return failure.
      if allBelow (fun i => canonicalize rer (input.getD (rs + i) 0) ==
                            canonicalize rer (input.getD (g + i) 0)) len
      -- m.–n. y = (Input, f, cap); return c(y)
      then c { x with endIndex := f }
      else .failure⟩

/-! ## §22.2.2.4 CompileAssertion, IsWordChar -/

/-- `IsWordChar(rer, Input, e)`; `e` is given as `e + 1` to avoid `-1` (`e1 = 0` is `e = -1`). -/
def isWordCharAt (input : Array Nat) (rer : RER) (e1 : Nat) : Bool :=
  -- 2. If e = -1 or e = InputLength, return false.
  if e1 = 0 ∨ e1 - 1 ≥ input.size then false
  -- 3.–4. c = Input[e]; WordCharacters(rer) contains c
  else (wordCharacters rer).chars (input.getD (e1 - 1) 0)

/-- `Assertion :: ^` -/
def bolMatcher (input : Array Nat) (rer : RER) : Matcher :=
  ⟨fun _ x c =>
    let e := x.endIndex
    if e = 0 ∨ (rer.multiline ∧ isLineTerminator (input.getD (e - 1) 0)) then c x else .failure⟩

/-- `Assertion :: $` -/
def eolMatcher (input : Array Nat) (rer : RER) : Matcher :=
  ⟨fun _ x c =>
    let e := x.endIndex
    if e = input.size ∨ (rer.multiline ∧ e < input.size ∧ isLineTerminator (input.getD e 0))
    then c x else .failure⟩

/-- `Assertion :: \b` (`neg = false`) and `\B` (`neg = true`) -/
def wordBoundaryMatcher (input : Array Nat) (rer : RER) (neg : Bool) : Matcher :=
  ⟨fun _ x c =>
    let e := x.endIndex
    let a := isWordCharAt input rer e          -- IsWordChar(rer, Input, e - 1)
    let b := isWordCharAt input rer (e + 1)    -- IsWordChar(rer, Input, e)
    if (a != b) != neg then c x else .failure⟩

/-- `Assertion :: (?= D )`, `(?<= D )` (`m` already compiled in the right direction) -/
def positiveLookMatcher (m : Matcher) : Matcher :=
  ⟨fun fuel x c =>
    -- a. d = (y) ↦ y   b. r = m(x, d)
    match m.run fuel x (fun y => .success y) with
    -- c. If r is failure, return failure.
    | .failure => .failure
    | .outOfFuel => .outOfFuel
    -- d.–h. z = (Input, x's endIndex, r's captures); return c(z)
    | .success y => c { endIndex := x.endIndex, captures := y.captures }⟩

/-- `Assertion :: (?! D )`, `(?<! D )` -/
def negativeLookMatcher (m : Matcher) : Matcher :=
  ⟨fun fuel x c =>
    match m.run fuel x (fun y => .success y) with
    -- c. If r is not failure, return failure.  d. Return c(x).
    | .failure => c x
    | .outOfFuel => .outOfFuel
    | .success _ => .failure⟩

/-! ## Static helpers: CountLeftCapturingParensWithin/Before, GroupSpecifiersThatMatch -/

mutual
/-- `CountLeftCapturingParensWithin(node)` -/
def countParens : Node → Nat
  | .group _ _ n => 1 + countParens n
  | .cat ns => countParensList ns
  | .alt ns => countParensList ns
  | .nc n => countParens n
  | .mod _ _ n => countParens n
  | .look _ _ n => countParens n
  | .quant _ _ _ n => countParens n
  | _ => 0
def countParensList : List Node → Nat
  | [] => 0
  | n :: ns => countParens n + countParensList ns
end

mutual
/-- The named groups of a node in pattern order, with their numbers; `parenIndex` is the number of
left capturing parentheses to the left of the node. -/
def namedGroups : Node → (parenIndex : Nat) → List (List Nat × Nat)
  | .group _ name n, pi =>
    (match name with
     | some nm => [(nm, pi + 1)]
     | none => []) ++ namedGroups n (pi + 1)
  | .cat ns, pi => namedGroupsList ns pi
  | .alt ns, pi => namedGroupsList ns pi
  | .nc n, pi => namedGroups n pi
  | .mod _ _ n, pi => namedGroups n pi
  | .look _ _ n, pi => namedGroups n pi
  | .quant _ _ _ n, pi => namedGroups n pi
  | _, _ => []
def namedGroupsList : List Node → Nat → List (List Nat × Nat)
  | [], _ => []
  | n :: ns, pi => namedGroups n pi ++ namedGroupsList ns (pi + countParens n)
end

/-- The numbers of `GroupSpecifiersThatMatch(GroupName)` in the whole pattern. -/
def groupSpecifiersThatMatch (pattern : Node) (name : List Nat) : List Nat :=
  (namedGroups pattern 0).filterMap (fun p => if p.1 == name then some p.2 else none)

/-! ## §22.2.2.7 CompileAtom for character classes -/

/-- The Matcher of one ClassString `s` (more than one character): the sequence of the
one-element `CharacterSetMatcher`s, in the given direction. -/
def classStringMatcher (input : Array Nat) (rer : RER) (direction : Direction) :
    List Nat → Matcher
  | [] => emptyMatcher
  | [c] => characterSetMatcher input rer (CharSet.single c) false direction
  | c :: rest =>
    matchSequence (characterSetMatcher input rer (CharSet.single c) false direction)
      (classStringMatcher input rer direction rest) direction

/-- `MatchTwoAlternatives` folded from the right over a non-empty list (steps 10–12). -/
def alternativesOf : List Matcher → Matcher
  | [] => ⟨fun _ _ _ => .failure⟩
  | [m] => m
  | m :: ms => matchTwoAlternatives m (alternativesOf ms)

/-- `CompileAtom` of `Atom :: CharacterClass` (also used for a `CharacterClassEscape`), given the
result `(cs, invert)` of `CompileCharacterClass`. -/
def charSetAtomMatcher (input : Array Nat) (rer : RER) (cs : CharSet) (invert : Bool)
    (direction : Direction) : Matcher :=
  -- 3. If rer.[[UnicodeSets]] is false, or every CharSetElement of cs is a single character,
  --    return CharacterSetMatcher(rer, cs, cc.[[Invert]], direction).
  if !rer.unicodeSets || cs.onlySingles then characterSetMatcher input rer cs invert direction
  else
    -- 4. Assert: invert is false.
    -- 5.–6. the strings of more than one character, by descending length
    let long := (cs.strs.filter (fun s => s.length > 1)).mergeSort (fun s t => s.length ≥ t.length)
    let lm := long.map (classStringMatcher input rer direction)
    -- 7.–8. singles
    let singles : CharSet := { chars := cs.chars }
    let lm := lm ++ [characterSetMatcher input rer singles false direction]
    -- 9. If cs contains the empty sequence of characters, append EmptyMatcher() to lm.
    let lm := if cs.strs.contains [] then lm ++ [emptyMatcher] else lm
    -- 10.–12.
    alternativesOf lm

/-- `CompileCharacterClass` for a legacy / `u`-mode class. -/
def compileCharacterClass (rer : RER) (neg : Bool) (items : List ClassItem) : CharSet × Bool :=
  let a := classContentsCharSet rer items
  if !neg then (a, false)
  -- CharacterClass :: [^ ClassContents ]: if UnicodeSets, (CharacterComplement(rer, A), false)
  else if rer.unicodeSets then (characterComplement rer a, false)
  else (a, true)

/-- `CompileCharacterClass` for a `v`-mode class. -/
def compileVCharacterClass (rer : RER) (neg : Bool) (op : VSetOp) (ops : List VOp) :
    CharSet × Bool :=
  let a := vExprCharSet rer op ops
  if !neg then (a, false)
  else if rer.unicodeSets then (characterComplement rer a, false)
  else (a, true)

/-! ## §22.2.2.2 CompileSubpattern, §22.2.2.7 CompileAtom -/

mutual
/-- `CompileSubpattern` / `CompileAtom` / `CompileAssertion` of a node with arguments `rer` and
`direction`; `parenIndex` is `CountLeftCapturingParensBefore(node)`, `pattern` the whole pattern
(for `\k<name>`). -/
def compileNode (input : Array Nat) (pattern : Node) :
    Node → RER → Direction → (parenIndex : Nat) → Matcher
  -- Alternative :: [empty]
  | .empty, _, _, _ => emptyMatcher
  -- Atom :: PatternCharacter
  | .char ch, rer, direction, _ =>
    characterSetMatcher input rer (CharSet.single ch) false direction
  -- Atom :: .
  | .dot, rer, direction, _ =>
    -- 1. Let A be AllCharacters(rer).
    let a := allCharacters rer
    -- 2. If rer.[[DotAll]] is not true, remove from A all LineTerminators.
    let a : CharSet := if rer.dotAll then a else { chars := fun c => a.chars c && !isLineTerminator c }
    characterSetMatcher input rer a false direction
  | .bol, rer, _, _ => bolMatcher input rer
  | .eol, rer, _, _ => eolMatcher input rer
  | .wb, rer, _, _ => wordBoundaryMatcher input rer false
  | .nwb, rer, _, _ => wordBoundaryMatcher input rer true
  -- Alternative :: Alternative Term
  | .cat ns, rer, direction, pi => compileAlternative input pattern emptyMatcher ns rer direction pi
  -- Disjunction :: Alternative | Disjunction
  | .alt ns, rer, direction, pi => compileDisjunction input pattern ns rer direction pi
  -- Atom :: ( GroupSpecifier? Disjunction )
  | .group _ _ n, rer, direction, pi =>
    let m := compileNode input pattern n rer direction (pi + 1)
    ⟨fun fuel x c =>
      -- a. d = (y) ↦ …
      let d : Cont := fun y =>
        let xe := x.endIndex
        let ye := y.endIndex
        -- v.–vi. forward: (xe, ye); backward: (ye, xe)
        let r := if direction = .forward then (xe, ye) else (ye, xe)
        -- vii.–ix. cap[parenIndex + 1] = r; z = (Input, ye, cap); return c(z)
        c { endIndex := ye, captures := setCapture y.captures (pi + 1) (some r) }
      -- b. Return m(x, d).
      m.run fuel x d⟩
  -- Atom :: (?: Disjunction )
  | .nc n, rer, direction, pi => compileNode input pattern n rer direction pi
  -- Atom :: (? RegularExpressionModifiers - RegularExpressionModifiers : Disjunction )
  | .mod add rem n, rer, direction, pi =>
    compileNode input pattern n (updateModifiers rer add rem) direction pi
  -- Assertion :: (?= D ) (?! D ) (?<= D ) (?<! D )
  | .look ahead neg n, rer, _, pi =>
    let m := compileNode input pattern n rer (if ahead then .forward else .backward) pi
    if neg then negativeLookMatcher m else positiveLookMatcher m
  -- AtomEscape :: DecimalEscape
  | .bref n, rer, direction, _ => backreferenceMatcher input rer [n] direction
  -- AtomEscape :: k GroupName
  | .nref name, rer, direction, _ =>
    backreferenceMatcher input rer (groupSpecifiersThatMatch pattern name) direction
  -- Term :: Atom Quantifier
  | .quant min max greedy n, rer, direction, pi =>
    let m := compileNode input pattern n rer direction pi
    let parenCount := countParens n
    ⟨fun fuel x c => repeatMatcher m greedy pi parenCount fuel min max x c⟩
  -- AtomEscape :: CharacterClassEscape
  | .esc e, rer, direction, _ => charSetAtomMatcher input rer (classEscape rer e) false direction
  | .prop neg kind name, rer, direction, _ =>
    charSetAtomMatcher input rer (propEscape rer neg kind name) false direction
  -- Atom :: CharacterClass
  | .cls neg items, rer, direction, _ =>
    let cc := compileCharacterClass rer neg items
    charSetAtomMatcher input rer cc.1 cc.2 direction
  | .vcls neg op ops, rer, direction, _ =>
    let cc := compileVCharacterClass rer neg op ops
    charSetAtomMatcher input rer cc.1 cc.2 direction
/-- `Alternative :: Alternative Term` is left recursive: `acc` is the Matcher of the terms seen so
far, `MatchSequence(acc, term, direction)` the one including the next term. -/
def compileAlternative (input : Array Nat) (pattern : Node) (acc : Matcher) :
    List Node → RER → Direction → Nat → Matcher
  | [], _, _, _ => acc
  | t :: ts, rer, direction, pi =>
    compileAlternative input pattern
      (matchSequence acc (compileNode input pattern t rer direction pi) direction)
      ts rer direction (pi + countParens t)
/-- `Disjunction :: Alternative | Disjunction` is right recursive. -/
def compileDisjunction (input : Array Nat) (pattern : Node) :
    List Node → RER → Direction → Nat → Matcher
  | [], _, _, _ => ⟨fun _ _ _ => .failure⟩
  | [a], rer, direction, pi => compileNode input pattern a rer direction pi
  | a :: rest, rer, direction, pi =>
    matchTwoAlternatives (compileNode input pattern a rer direction pi)
      (compileDisjunction input pattern rest rer direction (pi + countParens a))
end

/-! ## §22.2.2.2 CompilePattern and the search of §22.2.7.2 RegExpBuiltinExec -/

/-- `CompilePattern`: the closure of step 2 applied to `(Input, index)`, with fuel. -/
def matchAt (input : Array Nat) (pattern : Node) (rer : RER) (fuel index : Nat) : MatchResult :=
  let m := compileNode input pattern pattern rer .forward 0
  m.run fuel { endIndex := index, captures := List.replicate rer.capturingGroupsCount none }
    (fun y => .success y)

/-- The outcome of `RegExpBuiltinExec`. -/
inductive ExecResult where
  | noMatch
  /-- `index = s`, end index `e` (code points), the captures 1…n -/
  | matched (s e : Nat) (captures : List (Option (Nat × Nat)))
  | outOfFuel
  deriving Repr, Inhabited, DecidableEq

/-- The loop of `RegExpBuiltinExec` (no sticky flag): `tries` bounds the iterations. -/
def searchLoop (run : Nat → MatchResult) : (tries : Nat) → (lastIndex : Nat) → ExecResult
  | 0, _ => .noMatch
  | k + 1, i =>
    match run i with
    -- "If r is failure: set lastIndex to AdvanceStringIndex(S, lastIndex, fullUnicode)"
    | .failure => searchLoop run k (i + 1)
    | .success y => .matched i y.endIndex y.captures
    | .outOfFuel => .outOfFuel

/-- `RegExpBuiltinExec(R, S)` with `R.lastIndex = start`, restricted to the match search:
"If lastIndex > length, return null", else try `lastIndex, lastIndex + 1, …, length`. -/
def esExec (flags : Flags) (pattern : Node) (input : Array Nat) (start fuel : Nat) : ExecResult :=
  let rer := RER.ofFlags flags (countParens pattern)
  let m := compileNode input pattern pattern rer .forward 0
  let run := fun i =>
    m.run fuel { endIndex := i, captures := List.replicate rer.capturingGroupsCount none }
      (fun y => .success y)
  searchLoop run (input.size + 1 - start) start

/-- The `g`-flag loop of `RegExp.prototype[@@matchAll]` / `@@match`: after a match `(s, e)`,
`lastIndex = e`, and if the match is empty `lastIndex = AdvanceStringIndex(e) = e + 1`. -/
def iterLoop (exec : Nat → ExecResult) :
    (tries : Nat) → (lastIndex : Nat) → List (Nat × Nat × List (Option (Nat × Nat))) × Bool
  | 0, _ => ([], true)
  | k + 1, i =>
    match exec i with
    | .noMatch => ([], true)
    | .outOfFuel => ([], false)
    | .matched s e caps =>
      let r := iterLoop exec k (if e = s then e + 1 else e)
      ((s, e, caps) :: r.1, r.2)

/-- All matches from `start` (second component `false`: fuel ran out after those listed). -/
def esIter (flags : Flags) (pattern : Node) (input : Array Nat) (start fuel : Nat) :
    List (Nat × Nat × List (Option (Nat × Nat))) × Bool :=
  let rer := RER.ofFlags flags (countParens pattern)
  let m := compileNode input pattern pattern rer .forward 0
  let run := fun i =>
    m.run fuel { endIndex := i, captures := List.replicate rer.capturingGroupsCount none }
      (fun y => .success y)
  iterLoop (fun i => searchLoop run (input.size + 1 - i) i) (input.size + 2) start

/-! ## Early errors and unsupported constructs -/

def orElseErr (a b : Option String) : Option String :=
  match a with
  | some e => some e
  | none => b

def validateProp (f : Flags) (kind name : Nat) : Option String :=
  if !(f.u || f.v) then some "property escape without u/v flag"
  else if (lookupProp kind name).isSome then none
  else some s!"unknown property (kind {kind})"

def validateClassItem (f : Flags) : ClassItem → Option String
  | .c cp => if cp ≤ 0x10FFFF then none else some "code point out of range"
  | .r lo hi => if lo ≤ hi ∧ hi ≤ 0x10FFFF then none else some "class range out of order"
  | .esc _ => none
  | .prop _ kind name => validateProp f kind name

def validateClassItems (f : Flags) : List ClassItem → Option String
  | [] => none
  | i :: is => orElseErr (validateClassItem f i) (validateClassItems f is)

mutual
def validateVOp (f : Flags) : VOp → Option String
  | .c cp => if cp ≤ 0x10FFFF then none else some "code point out of range"
  | .r lo hi => if lo ≤ hi ∧ hi ≤ 0x10FFFF then none else some "class range out of order"
  | .esc _ => none
  | .prop _ kind name => validateProp f kind name
  | .q strs => if strs.all (fun s => s.all (· ≤ 0x10FFFF)) then none else some "code point out of range"
  | .cls neg op ops =>
    -- "It is a Syntax Error if MayContainStrings of the ClassContents is true" for [^…]
    if neg && vExprMayContainStrings op ops then some "negated class may contain strings"
    else if (op != .union) && ops.length < 2 then some "class set operator needs two operands"
    else validateVOps f ops
def validateVOps (f : Flags) : List VOp → Option String
  | [] => none
  | o :: os => orElseErr (validateVOp f o) (validateVOps f os)
end

def Mods.isEmpty (m : Mods) : Bool := !m.i && !m.m && !m.s
def Mods.overlaps (a b : Mods) : Bool := (a.i && b.i) || (a.m && b.m) || (a.s && b.s)

mutual
/-- Early errors of a node; `pi` = left capturing parentheses before it, `total` = in the pattern. -/
def validateNode (f : Flags) (pattern : Node) (total : Nat) : Node → (pi : Nat) → Option String
  | .empty, _ => none
  | .char c, _ => if c ≤ 0x10FFFF then none else some "code point out of range"
  | .dot, _ => none
  | .bol, _ => none
  | .eol, _ => none
  | .wb, _ => none
  | .nwb, _ => none
  | .cat ns, pi => validateNodes f pattern total ns pi
  | .alt ns, pi => validateNodes f pattern total ns pi
  | .group idx _ n, pi =>
    if idx ≠ pi + 1 then some s!"group index {idx} is not its left-parenthesis number {pi + 1}"
    else validateNode f pattern total n (pi + 1)
  | .nc n, pi => validateNode f pattern total n pi
  | .mod add rem n, pi =>
    if add.isEmpty && rem.isEmpty then some "empty modifiers"
    else if add.overlaps rem then some "modifier both added and removed"
    else validateNode f pattern total n pi
  | .look _ _ n, pi => validateNode f pattern total n pi
  | .bref n, _ => if 1 ≤ n ∧ n ≤ total then none else some s!"back-reference {n} out of range"
  | .nref name, _ =>
    if (groupSpecifiersThatMatch pattern name).isEmpty then some "undefined group name" else none
  | .quant min max _ n, pi =>
    match max with
    | some mx => if mx < min then some "quantifier range out of order"
                 else validateNode f pattern total n pi
    | none => validateNode f pattern total n pi
  | .esc _, _ => none
  | .prop _ kind name, _ => validateProp f kind name
  | .cls _ items, _ =>
    if f.v then some "legacy class under the v flag" else validateClassItems f items
  | .vcls neg op ops, _ =>
    if !f.v then some "class set expression without the v flag"
    else if neg && vExprMayContainStrings op ops then some "negated class may contain strings"
    else if (op != .union) && ops.length < 2 then some "class set operator needs two operands"
    else validateVOps f ops
def validateNodes (f : Flags) (pattern : Node) (total : Nat) : List Node → Nat → Option String
  | [], _ => none
  | n :: ns, pi =>
    orElseErr (validateNode f pattern total n pi)
      (validateNodes f pattern total ns (pi + countParens n))
end

mutual
/-- The group names of a node, or an error if two groups with the same name might both
participate ("MightBothParticipate"): same name is allowed only in different alternatives. -/
def groupNames : Node → Except String (List (List Nat))
  | .group _ name n =>
    match groupNames n with
    | .error e => .error e
    | .ok inner =>
      match name with
      | none => .ok inner
      | some nm => if inner.contains nm then .error "duplicate group name" else .ok (nm :: inner)
  | .cat ns => groupNamesSeq ns
  | .alt ns => groupNamesAlt ns
  | .nc n => groupNames n
  | .mod _ _ n => groupNames n
  | .look _ _ n => groupNames n
  | .quant _ _ _ n => groupNames n
  | _ => .ok []
def groupNamesSeq : List Node → Except String (List (List Nat))
  | [] => .ok []
  | n :: ns =>
    match groupNames n, groupNamesSeq ns with
    | .error e, _ => .error e
    | _, .error e => .error e
    | .ok a, .ok b => if a.any (fun x => b.contains x) then .error "duplicate group name"
                      else .ok (a ++ b)
def groupNamesAlt : List Node → Except String (List (List Nat))
  | [] => .ok []
  | n :: ns =>
    match groupNames n, groupNamesAlt ns with
    | .error e, _ => .error e
    | _, .error e => .error e
    | .ok a, .ok b => .ok (a ++ b.filter (fun x => !a.contains x))
end

/-- All static checks; `none` = the pattern is accepted. -/
def validate (f : Flags) (pattern : Node) : Option String :=
  orElseErr (validateNode f pattern (countParens pattern) pattern 0)
    (match groupNames pattern with
     | .error e => some e
     | .ok _ => none)

/-! ## Text entry points -/

/-- UTF-8 byte offset of code point index `i`. -/
def byteOffset (input : List Nat) (i : Nat) : Nat :=
  ((input.take i).map (fun c => (Regress.Utf8.encode c).length)).sum

def fmtCapture (input : List Nat) : Option (Nat × Nat) → String
  | none => "_"
  | some (a, b) => s!"{byteOffset input a}-{byteOffset input b}"

def fmtMatch (input : List Nat) (s e : Nat) (caps : List (Option (Nat × Nat))) : String :=
  s!"{byteOffset input s}-{byteOffset input e}[" ++
    ";".intercalate (caps.map (fmtCapture input)) ++ "]"

/-- Parse the three textual arguments and run the static checks. -/
def prepare (flags ast hay : String) : Except String (Flags × Node × List Nat) :=
  match parseFlags flags with
  | none => .error "bad flags"
  | some f =>
    match parseAst ast with
    | .error e => .error e
    | .ok n =>
      match parseCps hay with
      | none => .error "bad haystack"
      | some h =>
        match validate f n with
        | some e => .error e
        | none => .ok (f, n, h)

/-- One line: `none` | `m s-e[c;c;…]` (UTF-8 byte offsets) | `fuel` | `unsupported <why>`. -/
def esFindLine (flags ast hay : String) (start fuel : Nat) : String :=
  match prepare flags ast hay with
  | .error e => s!"unsupported {e}"
  | .ok (f, n, h) =>
    match esExec f n h.toArray start fuel with
    | .noMatch => "none"
    | .outOfFuel => "fuel"
    | .matched s e caps => "m " ++ fmtMatch h s e caps

/-- One line: `ms` followed by ` s-e[c;…]` for each match | `fuel` | `unsupported <why>`. -/
def esIterLine (flags ast hay : String) (start fuel : Nat) : String :=
  match prepare flags ast hay with
  | .error e => s!"unsupported {e}"
  | .ok (f, n, h) =>
    match esIter f n h.toArray start fuel with
    | (_, false) => "fuel"
    | (ms, true) => " ".intercalate ("ms" :: ms.map (fun m => fmtMatch h m.1 m.2.1 m.2.2))

end Regress.ES
