/-! Shared basic definitions for the regress model. -/
namespace Regress

/-- The maximum code point. -/
def CODE_POINT_MAX : Nat := 0x10FFFF

end Regress
