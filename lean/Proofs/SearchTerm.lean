import Proofs.Lemmas.SearchTerm
/-!
# SearchTerm — the WHOLE running search terminates, with an explicit tick budget

`Proofs/Final.lean` left one budget hypothesis: C20's `NoFuelOut prog inp fuel` ("the running search from
every boundary returns"), and C09's `final_search_is_unfold` is stated "for any budget for which the search
returns".  What was proved before is termination of ONE attempt (`final_terminates`, bound
`Pk.lookBound prog |haystack|`).  Here: the running search `VM.findIter` (= `backends::find::<Executor>`
drained: ONE reused `MatchAttempter` / the PikeVM state built once per `next_match`, prefix scans,
`next_match`'s scan loop, the iterator stepping past empty matches, ONE global tick counter) returns for
every budget

    fuel ≥ searchBound prog |haystack|  =  (|haystack| + 1) * Pk.lookBound prog |haystack|

for every compiled pattern, both executors, every start offset the API accepts.

Tick accounting (`Proofs/Lemmas/SearchTerm.lean`): only the interpreters tick (prefix scans,
`next_right_pos`, the iterator's bookkeeping are free); one attempt on the running matcher — reused
backtracker state, or PikeVM state with the stale `entry` — ends within `Pk.lookBound` ticks whenever that
many are left (`btAttempt_total`, `pkAttempt_total`); the positions a search attempts at are strictly
increasing valid positions `≤ len`, so there are at most `len + 1 - start` attempts.  Invariant: at cursor
`c`, `ticks so far + (len + 1 - c) * Pk.lookBound ≤ searchBound`.  The model's structural fuels
(`len + 2` iterations of a scan loop, `len + 3` of the drain) never run out either.

| theorem | statement |
|---------|-----------|
| `findIter_terminates` | UTF-8 haystack, start on a boundary or beyond the end, either executor, `fuel ≥ searchBound`: `findIter … = .ok ms` for some `ms` (never `"fuel"`, never an error site, never the model's structural fuel) |
| `findIter_ticks` | … and `findIterStats` reports at most `searchBound` ticks, whatever `fuel ≥ searchBound` |
| `findIter_terminates_ascii`, `findIter_ticks_ascii` | the same for the ASCII input kind (`kind = .ascii`, all bytes `< 128`), every start offset |
| `final_search_is_unfold_total` | C09 with NO proviso: `findIter .bt … fuel = findIter .pk … fuel = .ok (unfoldIter (specEnv inp re.node prog) start)` |
| `noFuelOut_of_searchBound` | `NoFuelOut prog inp fuel` for every `fuel ≥ searchBound` |
| `final_searcher_total`, `final_searcher_matches_spec_total` | C20 (`Final.final_searcher`, `final_searcher_matches_spec`) with NO `NoFuelOut` hypothesis |
| `final_search_total` | `final_search_laws` + `final_match_shape` + `final_replace` for THE list the search returns |

Hypotheses kept: `H0` of `Final.lean` (`∀ c ∈ pat, c ≤ 0x10FFFF`, parse ok, compile ok), `Utf8Text inp cs`
(or ASCII kind + ASCII bytes), start on a char boundary or beyond the end, `searchBound … ≤ fuel`; for the
statements that mention the IR semantics additionally `fits` and the `unicode` flag, as in `Final.lean`.
No hypothesis about the program, none about the search returning.
-/
namespace Regress.SearchTerm

open Regress Regress.IR Regress.VM Regress.Parse Regress.Keystone Regress.C07 Regress.E2E Regress.Closure
open Regress.EndToEnd Regress.Certs Regress.Closure2 Regress.Api Regress.C09 Regress.VM.Safety Regress.Final

section Claims
variable {pat : List Nat} {fl : IR.Flags} {re : Regex} {prog : Prog} {ofuel : Nat}
  {inp : Input} {cs : List Nat}

/-- The structural hypotheses of the termination argument hold of every compiled program. -/
theorem compiled_structHyp (hb : ∀ c ∈ pat, c ≤ 0x10FFFF) (hp : parse pat fl = .ok re)
    (hc : compile ofuel pat fl = .ok prog) : StructHyp prog := by
  have hok := (compiled_progOK hb hp hc).1
  simp only [ProgOK, ProgPkOK, Bool.and_eq_true] at hok
  exact ⟨hok.1.1.1, hok.1.2, hok.2, hok.1.1.2⟩

/-! ## Termination -/

/-- **`findIter_ticks`.**  For every compiled pattern, every well-formed UTF-8 haystack, every start offset
the API accepts, either executor and EVERY tick budget `fuel ≥ searchBound prog |haystack|`: the running
search returns a list of matches, and its tick counter ends at most at `searchBound prog |haystack|`. -/
theorem findIter_ticks (hb : ∀ c ∈ pat, c ≤ 0x10FFFF) (hp : parse pat fl = .ok re)
    (hc : compile ofuel pat fl = .ok prog) (ht : IR.Utf8Text inp cs) (ex : Exec) {start : Nat}
    (hs : VUtf8 inp start ∨ inp.len < start) {fuel : Nat} (hf : searchBound prog inp.len ≤ fuel) :
    ∃ ms steps peak, findIterStats ex prog inp start fuel = .ok (ms, steps, peak) ∧
      steps ≤ searchBound prog inp.len := by
  have H := compiled_findHyp2 hb hp hc ht
  exact findIterStats_total (structHyp_of_findHyp2 H) (kind_utf8 H.wf H.leads H.text) ex hs hf

/-- **`findIter_terminates`.**  Same hypotheses: `findIter ex prog inp start fuel = .ok ms` for some `ms` —
never out of fuel, never an error. -/
theorem findIter_terminates (hb : ∀ c ∈ pat, c ≤ 0x10FFFF) (hp : parse pat fl = .ok re)
    (hc : compile ofuel pat fl = .ok prog) (ht : IR.Utf8Text inp cs) (ex : Exec) {start : Nat}
    (hs : VUtf8 inp start ∨ inp.len < start) {fuel : Nat} (hf : searchBound prog inp.len ≤ fuel) :
    ∃ ms, findIter ex prog inp start fuel = .ok ms := by
  have H := compiled_findHyp2 hb hp hc ht
  exact findIter_total (structHyp_of_findHyp2 H) (kind_utf8 H.wf H.leads H.text) ex hs hf

/-- **`findIter_ticks_ascii`**: the ASCII input kind (`Regex::find_from_ascii` & co.: bytes `< 128`), every
start offset. -/
theorem findIter_ticks_ascii (hb : ∀ c ∈ pat, c ≤ 0x10FFFF) (hp : parse pat fl = .ok re)
    (hc : compile ofuel pat fl = .ok prog) (hk : inp.kind = .ascii) (ha : VM.L1.asciiOK inp = true)
    (ex : Exec) (start : Nat) {fuel : Nat} (hf : searchBound prog inp.len ≤ fuel) :
    ∃ ms steps peak, findIterStats ex prog inp start fuel = .ok (ms, steps, peak) ∧
      steps ≤ searchBound prog inp.len := by
  have S := compiled_structHyp hb hp hc
  exact findIterStats_total S (kind_ascii S.wf hk ha) ex (Nat.lt_or_ge inp.len start).symm hf

/-- **`findIter_terminates_ascii`.** -/
theorem findIter_terminates_ascii (hb : ∀ c ∈ pat, c ≤ 0x10FFFF) (hp : parse pat fl = .ok re)
    (hc : compile ofuel pat fl = .ok prog) (hk : inp.kind = .ascii) (ha : VM.L1.asciiOK inp = true)
    (ex : Exec) (start : Nat) {fuel : Nat} (hf : searchBound prog inp.len ≤ fuel) :
    ∃ ms, findIter ex prog inp start fuel = .ok ms := by
  have S := compiled_structHyp hb hp hc
  exact findIter_total S (kind_ascii S.wf hk ha) ex (Nat.lt_or_ge inp.len start).symm hf

/-! ## C09 without proviso -/

/-- **`final_search_is_unfold_total`** (C09 end to end, NO "for which the search returns").  For every
compiled pattern, UTF-8 haystack that `fits`, start on a boundary or beyond the end, and every budget
`≥ searchBound`: the running search of the backtracking executor AND of the PikeVM executor return exactly
`unfoldIter` of the specification environment (the IR semantics of the parsed tree). -/
theorem final_search_is_unfold_total (hb : ∀ c ∈ pat, c ≤ 0x10FFFF) (hp : parse pat fl = .ok re)
    (hc : compile ofuel pat fl = .ok prog) (ht : IR.Utf8Text inp cs) (hfit : fits inp.len re.node = true)
    (hu : prog.flags.unicode = inp.unicode) {start : Nat} (hs : VUtf8 inp start ∨ inp.len < start)
    {fuel : Nat} (hf : searchBound prog inp.len ≤ fuel) (ex : Exec) :
    findIter ex prog inp start fuel = .ok (unfoldIter (specEnv inp re.node prog) start) := by
  obtain ⟨ms, h⟩ := findIter_terminates hb hp hc ht ex hs hf
  rw [h]
  cases ex with
  | bt => rw [findIter_bt_spec hb hp hc ht hfit hu fuel hs h]
  | pk => rw [findIter_pk_spec hb hp hc ht hfit hu fuel hs h]

/-- Hence the two executors' running searches return the same list (budgets independent). -/
theorem final_search_agree_total (hb : ∀ c ∈ pat, c ≤ 0x10FFFF) (hp : parse pat fl = .ok re)
    (hc : compile ofuel pat fl = .ok prog) (ht : IR.Utf8Text inp cs) (hfit : fits inp.len re.node = true)
    (hu : prog.flags.unicode = inp.unicode) {start : Nat} (hs : VUtf8 inp start ∨ inp.len < start)
    {fuel fuel' : Nat} (hf : searchBound prog inp.len ≤ fuel) (hf' : searchBound prog inp.len ≤ fuel') :
    findIter .bt prog inp start fuel = findIter .pk prog inp start fuel' := by
  rw [final_search_is_unfold_total hb hp hc ht hfit hu hs hf, final_search_is_unfold_total hb hp hc ht hfit hu hs hf']

/-- **`final_search_total`**: `Final.final_search_laws`, `final_match_shape`, `final_replace` (from 0) for
THE list the search returns — no hypothesis that it returns.  No `fits` needed. -/
theorem final_search_total (hb : ∀ c ∈ pat, c ≤ 0x10FFFF) (hp : parse pat fl = .ok re)
    (hc : compile ofuel pat fl = .ok prog) (ht : IR.Utf8Text inp cs) (ex : Exec) {start : Nat}
    (hs : VUtf8 inp start ∨ inp.len < start) {fuel : Nat} (hf : searchBound prog inp.len ≤ fuel) :
    ∃ ms, findIter ex prog inp start fuel = .ok ms ∧
      Consec Succeeds ms ∧
      ms.Pairwise (fun a b => a.range.2 ≤ b.range.1 ∧ a.range.1 < b.range.1) ∧
      (start ≤ inp.len → ms.length ≤ inp.len - start + 1) ∧
      C17.Sorted inp.len start ms ∧
      (inp.len < start → ms = []) ∧
      (∀ m ∈ ms, m.captures.length = numGroups re.node ∧ m.NamesOK ∧
        start ≤ m.range.1 ∧ m.range.1 ≤ m.range.2 ∧ m.range.2 ≤ inp.len ∧
        VUtf8 inp m.range.1 ∧ VUtf8 inp m.range.2 ∧
        (∀ a b, some (a, b) ∈ m.captures → a ≤ b ∧ b ≤ inp.len ∧ VUtf8 inp a ∧ VUtf8 inp b)) ∧
      (start = 0 →
        replaceAllWith inp.bytes.toList ms (fun m => slice inp.bytes.toList m.range.1 m.range.2) =
          inp.bytes.toList) := by
  obtain ⟨ms, h⟩ := findIter_terminates hb hp hc ht ex hs hf
  have L := final_search_laws hb hp hc ht ex fuel hs h
  refine ⟨ms, h, L.1, L.2.1, L.2.2.2.1, L.2.2.2.2.1, L.2.2.2.2.2, fun m hm => ?_, fun h0 => ?_⟩
  · have M := final_match_shape hb hp hc ht ex fuel hs h m hm
    exact ⟨M.1, M.2.1, M.2.2.2.2.2.2.1, M.2.2.2.2.2.2.2.1, M.2.2.2.2.2.2.2.2.1, M.2.2.2.2.2.2.2.2.2.1,
      M.2.2.2.2.2.2.2.2.2.2.1, M.2.2.2.2.2.2.2.2.2.2.2⟩
  · subst h0
    exact (final_replace hb hp hc ht ex fuel h (fun _ => [])).2.2.2

/-! ## C20 without `NoFuelOut` -/

/-- **`noFuelOut_of_searchBound`**: the hypothesis `Final.final_searcher` kept holds for every budget
`≥ searchBound`. -/
theorem noFuelOut_of_searchBound (hb : ∀ c ∈ pat, c ≤ 0x10FFFF) (hp : parse pat fl = .ok re)
    (hc : compile ofuel pat fl = .ok prog) (ht : IR.Utf8Text inp cs)
    {fuel : Nat} (hf : searchBound prog inp.len ≤ fuel) : NoFuelOut prog inp fuel :=
  fun _ hv => findIter_terminates hb hp hc ht .bt (Or.inl hv) hf

/-- **`final_searcher_total`** (C20; `Final.final_searcher` with NO `NoFuelOut` hypothesis).  For every
compiled pattern, UTF-8 haystack and budget `≥ searchBound`: the running search from 0 returns some `ms`;
the steps of `next()` on a fresh `RegexSearcher` over the running search tile `[0, len)` on char boundaries
without panic; their `Match` steps are exactly the ranges of `ms`; any interleaving of `next` / `next_back`
hands out exactly those steps. -/
theorem final_searcher_total (hb : ∀ c ∈ pat, c ≤ 0x10FFFF) (hp : parse pat fl = .ok re)
    (hc : compile ofuel pat fl = .ok prog) (ht : IR.Utf8Text inp cs)
    {fuel : Nat} (hf : searchBound prog inp.len ≤ fuel) :
    ∃ ms, findIter .bt prog inp 0 fuel = .ok ms ∧
    C20.CtxOK (searcherCtx prog inp fuel) ∧
    ∃ steps, forwardSteps (searcherCtx prog inp fuel) = some steps ∧
      steps.length ≤ 2 * inp.len + 1 ∧
      C20.tilesFrom inp.len 0 steps = true ∧
      C20.onBoundaries (searcherCtx prog inp fuel) steps = true ∧
      C20.matchesOf steps = ms.map (·.range) ∧
      ∀ ops, ∃ r mid, runOps (searcherCtx prog inp fuel) ops = .ok r ∧
        r.fronts ++ mid ++ r.backs.reverse = steps ∧
        (r.frontDone = true ∨ r.backDone = true → mid = []) := by
  have hno := noFuelOut_of_searchBound hb hp hc ht hf
  have hv0 : VUtf8 inp 0 := vb_iff.mp (vb_zero ⟨ht.kind, ht.bytes, ht.scalar⟩)
  obtain ⟨ms, hms⟩ := hno 0 hv0
  exact ⟨ms, hms, final_searcher hb hp hc ht hno hms⟩

/-- **`final_searcher_matches_spec_total`** (`Final.final_searcher_matches_spec` with NO `NoFuelOut`): with
`fits`, the `Match` steps of the searcher are the ranges of the unfold of the IR semantics of the parsed
tree. -/
theorem final_searcher_matches_spec_total (hb : ∀ c ∈ pat, c ≤ 0x10FFFF) (hp : parse pat fl = .ok re)
    (hc : compile ofuel pat fl = .ok prog) (ht : IR.Utf8Text inp cs) (hfit : fits inp.len re.node = true)
    (hu : prog.flags.unicode = inp.unicode)
    {fuel : Nat} (hf : searchBound prog inp.len ≤ fuel) :
    ∃ steps, forwardSteps (searcherCtx prog inp fuel) = some steps ∧
      C20.tilesFrom inp.len 0 steps = true ∧
      C20.matchesOf steps = (unfoldIter (specEnv inp re.node prog) 0).map (·.range) :=
  final_searcher_matches_spec hb hp hc ht hfit hu (noFuelOut_of_searchBound hb hp hc ht hf)

end Claims

/-! ## Non-vacuity: the compiled example of `Final.lean`

`/(?<n>a|b){1,18446744073709551615}(?<=[ab])\k<n>c{0,99999999999999999999}/` on "ébbcc aa" (9 bytes). -/

section Examples

theorem fxLen : fxInp.len = 9 := by decide +kernel
theorem fxRank : Pk.rankBound fxProg 9 = 1020 ∧ Pk.lookDepth fxProg = 1 := by decide +kernel
set_option exponentiation.threshold 2000 in
/-- The bound, evaluated: 10 attempts of `Pk.lookBound fxProg 9 = (3 ^ 1020 + 1) ^ 2` ticks
(`Pk.rankBound fxProg 9 = 1020`; one level of look-arounds). -/
theorem fxBound : searchBound fxProg fxInp.len = 10 * (3 ^ 1020 + 1) ^ 2 := by
  have h : searchBound fxProg fxInp.len =
      (fxInp.len + 1) * ((3 ^ Pk.rankBound fxProg fxInp.len + 1) ^ (Pk.lookDepth fxProg + 1)) := rfl
  rw [h, fxLen, fxRank.1, fxRank.2]

/-- `findIter_terminates` and `findIter_ticks` on it, both executors. -/
example (ex : Exec) (fuel : Nat) (hf : searchBound fxProg fxInp.len ≤ fuel) :
    ∃ ms, findIter ex fxProg fxInp 0 fuel = .ok ms :=
  findIter_terminates fxBnd fxParse fxCompile fxText ex (Or.inl fxV0) hf

example (ex : Exec) (fuel : Nat) (hf : searchBound fxProg fxInp.len ≤ fuel) :
    ∃ ms steps peak, findIterStats ex fxProg fxInp 0 fuel = .ok (ms, steps, peak) ∧
      steps ≤ searchBound fxProg fxInp.len :=
  findIter_ticks fxBnd fxParse fxCompile fxText ex (Or.inl fxV0) hf

/-- What the specification computes here. -/
theorem fxSpec : (unfoldIter (specEnv fxInp fxRe.node fxProg) 0).map (fun m => (m.range, m.captures)) =
    [((2, 6), [some (2, 3)]), ((7, 9), [some (7, 8)])] := by decide +kernel

/-- `final_search_is_unfold_total`: for EVERY budget `≥ searchBound` both running searches return the two
matches `2..6 [2..3]`, `7..9 [7..8]` (what the real engine returns) — no proviso. -/
example (ex : Exec) (fuel : Nat) (hf : searchBound fxProg fxInp.len ≤ fuel) :
    ∃ ms, findIter ex fxProg fxInp 0 fuel = .ok ms ∧
      ms.map (fun m => (m.range, m.captures)) = [((2, 6), [some (2, 3)]), ((7, 9), [some (7, 8)])] :=
  ⟨_, final_search_is_unfold_total fxBnd fxParse fxCompile fxText fxFit rfl (Or.inl fxV0) hf ex, fxSpec⟩

/-- C20 without `NoFuelOut`. -/
example (fuel : Nat) (hf : searchBound fxProg fxInp.len ≤ fuel) :
    ∃ steps, forwardSteps (searcherCtx fxProg fxInp fuel) = some steps ∧
      C20.tilesFrom fxInp.len 0 steps = true ∧
      C20.matchesOf steps = (unfoldIter (specEnv fxInp fxRe.node fxProg) 0).map (·.range) :=
  final_searcher_matches_spec_total fxBnd fxParse fxCompile fxText fxFit rfl hf

example (fuel : Nat) (hf : searchBound fxProg fxInp.len ≤ fuel) : NoFuelOut fxProg fxInp fuel :=
  noFuelOut_of_searchBound fxBnd fxParse fxCompile fxText hf

/-- The running searches, evaluated with a concrete moderate budget: the backtracker needs 61 ticks, the
PikeVM 81 (the bound is generous: `10 * (3 ^ 1020 + 1) ^ 2`); with a budget of 40 ticks neither returns
(`"fuel"`: the budget hypothesis is not vacuous). -/
example : (match findIterStats .bt fxProg fxInp 0 1000 with
    | .ok (ms, steps, _) =>
      decide (ms.map (fun m => (m.range, m.captures)) = [((2, 6), [some (2, 3)]), ((7, 9), [some (7, 8)])]) &&
        steps == 61
    | .error _ => false) = true := by decide +kernel
example : (match findIterStats .pk fxProg fxInp 0 1000 with
    | .ok (ms, steps, _) =>
      decide (ms.map (fun m => (m.range, m.captures)) = [((2, 6), [some (2, 3)]), ((7, 9), [some (7, 8)])]) &&
        steps == 81
    | .error _ => false) = true := by decide +kernel
example : (match findIter .bt fxProg fxInp 0 40, findIter .pk fxProg fxInp 0 40 with
    | .error _, .error _ => true
    | _, _ => false) = true := by decide +kernel

/-- ASCII input kind: "bbc aa" (6 bytes), every start offset. -/
def fxAscii : Input := { kind := .ascii, bytes := #[0x62, 0x62, 0x63, 0x20, 0x61, 0x61], unicode := false }

example (ex : Exec) (start fuel : Nat) (hf : searchBound fxProg fxAscii.len ≤ fuel) :
    ∃ ms, findIter ex fxProg fxAscii start fuel = .ok ms :=
  findIter_terminates_ascii fxBnd fxParse fxCompile rfl (by decide +kernel) ex start hf

example : (match findIterStats .bt fxProg fxAscii 0 1000, findIterStats .pk fxProg fxAscii 0 1000 with
    | .ok (ms, _, _), .ok (ms', _, _) =>
      decide (ms.map (fun m => (m.range, m.captures)) = [((0, 3), [some (0, 1)]), ((4, 6), [some (4, 5)])]) &&
        decide (ms' = ms)
    | _, _ => false) = true := by decide +kernel

end Examples

end Regress.SearchTerm

#print axioms Regress.SearchTerm.btAttempt_total
#print axioms Regress.SearchTerm.pkAttempt_total
#print axioms Regress.SearchTerm.findIterStats_total
#print axioms Regress.SearchTerm.findIter_ticks
#print axioms Regress.SearchTerm.findIter_terminates
#print axioms Regress.SearchTerm.findIter_ticks_ascii
#print axioms Regress.SearchTerm.findIter_terminates_ascii
#print axioms Regress.SearchTerm.final_search_is_unfold_total
#print axioms Regress.SearchTerm.final_search_agree_total
#print axioms Regress.SearchTerm.final_search_total
#print axioms Regress.SearchTerm.noFuelOut_of_searchBound
#print axioms Regress.SearchTerm.final_searcher_total
#print axioms Regress.SearchTerm.final_searcher_matches_spec_total
#print axioms Regress.SearchTerm.fxBound
