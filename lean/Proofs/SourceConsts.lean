import RegressModel.Gen.Consts
import RegressModel.Text.Utf16
import RegressModel.Text.Utf8
import RegressModel.IR.Walk

/-!
# Obligations that pin hand-written model literals to constants read from the source

`tools/rs2lean.py` re-reads these constants from `/repo/src` on every run (`RegressModel/Gen/Consts.lean`).
The hand-written models spell the same numbers as literals (so that `omega` / `decide` work on them
directly); the theorems below are the obligations that the two agree.  When the source changes a
constant - or changes the defining expression into something the translator does not recognise - one of
these stops checking (or the translator stops), which is reported as a broken tie for the properties
that depend on the model concerned.
-/

namespace Regress.SourceConsts
open Regress Regress.IR

/-- `Utf16Input::is_high_surrogate`: `b >= SURROGATE_HIGH_START && b <= SURROGATE_HIGH_END`. -/
theorem isHighSurrogate_src (b : Nat) :
    Utf16.isHighSurrogate b = (decide (b ≥ Gen.SURROGATE_HIGH_START) && decide (b ≤ Gen.SURROGATE_HIGH_END)) := rfl

/-- `Utf16Input::is_low_surrogate`: `b >= SURROGATE_LOW_START && b <= SURROGATE_LOW_END`. -/
theorem isLowSurrogate_src (b : Nat) :
    Utf16.isLowSurrogate b = (decide (b ≥ Gen.SURROGATE_LOW_START) && decide (b ≤ Gen.SURROGATE_LOW_END)) := rfl

/-- the two blocks are adjacent, disjoint and 0x400 units each: what the pairing arithmetic relies on -/
theorem surrogate_blocks :
    Gen.SURROGATE_HIGH_END + 1 = Gen.SURROGATE_LOW_START ∧
    Gen.SURROGATE_HIGH_END + 1 - Gen.SURROGATE_HIGH_START = 0x400 ∧
    Gen.SURROGATE_LOW_END + 1 - Gen.SURROGATE_LOW_START = 0x400 ∧
    Gen.SURROGATE_PAIR_MASK = 0x3FF := by decide

/-- `code_point_from_surrogates`: `(((high & M) << 10) | (low & M)) + 0x10000` with the source's mask `M`. -/
theorem codePointFromSurrogates_src (high low : Nat) :
    Utf16.codePointFromSurrogates high low =
      ((high % (Gen.SURROGATE_PAIR_MASK + 1)) * 1024 + (low % (Gen.SURROGATE_PAIR_MASK + 1))) + 0x10000 := rfl

/-- `UTF8_CONT_SIGBITS`: a continuation byte carries six bits (`% 64`, `* 64` in `Utf8.w2` … `w4`). -/
theorem utf8_cont_bits : 2 ^ Gen.UTF8_CONT_SIGBITS = 64 := by decide

theorem w2_src (b0 b1 : Nat) : Utf8.w2 b0 b1 = (b0 % 32) * 2 ^ Gen.UTF8_CONT_SIGBITS + (b1 % 2 ^ Gen.UTF8_CONT_SIGBITS) := rfl

/-- `Node::try_duplicate` gives up below `DUPLICATE_DEPTH_LIMIT` levels (`if depth > 100 { return None }`). -/
theorem duplicate_depth_limit : Gen.DUPLICATE_DEPTH_LIMIT = 100 := rfl

theorem tryDuplicate_gives_up (d : Nat) (h : d > Gen.DUPLICATE_DEPTH_LIMIT) (c : Nat) :
    Node.tryDuplicate d (.char c) = .ok none := by
  have : d > 100 := h
  simp [Node.tryDuplicate, this]

theorem tryDuplicate_leaf_ok (d : Nat) (h : d ≤ Gen.DUPLICATE_DEPTH_LIMIT) (c : Nat) :
    Node.tryDuplicate d (.char c) = .ok (some (.char c)) := by
  have : ¬ d > 100 := by have : d ≤ 100 := h; omega
  simp [Node.tryDuplicate, this]

#print axioms isHighSurrogate_src
#print axioms isLowSurrogate_src
#print axioms surrogate_blocks
#print axioms codePointFromSurrogates_src
#print axioms utf8_cont_bits
#print axioms w2_src
#print axioms duplicate_depth_limit
#print axioms tryDuplicate_gives_up
#print axioms tryDuplicate_leaf_ok

end Regress.SourceConsts
