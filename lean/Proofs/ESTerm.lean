import Proofs.Lemmas.ESTerm
import Proofs.Lower
import Proofs.LowerChain
/-!
# Fuel adequacy: the ECMAScript specification model always answers

`RegressModel/Spec/ESMatch.lean` gives the ECMAScript 2025 pattern semantics a fuel argument and a
third result `outOfFuel`; `Proofs/Lower.lean` relates `outOfFuel` to everything.  This file closes
that gap: with fuel at least `esFuelBound a n` (explicit, computable, **linear in the input length
`n`**) the specification model never answers `outOfFuel` — for *every* AST (no validity hypothesis
is needed), every RegExp Record, every input and every start index inside the input.  Hence the
`…_partial` theorems about the lowering hold with no `outOfFuel` case left (`…_total` below).

The bound.  `esFuelBound a n = fuelNeed n a` where (`Proofs/Lemmas/ESTerm.lean`)

    fuelNeed n (x{min,})     = (min + n + 1)            + fuelNeed n x
    fuelNeed n (x{min,max})  = min(max, min + n + 1)    + fuelNeed n x
    fuelNeed n (cat / alt)   = the maximum over the children
    fuelNeed n (group, (?:), (?flags:), look-around) = fuelNeed n (body)
    fuelNeed n (anything else) = 0

i.e. `≤ quantDepth a · (n + 1) + quantMinSum a` (`esFuelBound_linear`).  The reason is how the model
spends fuel: only `RepeatMatcher`'s continuation `d` passes `fuel - 1` on; every other Matcher hands
its own fuel unchanged to its parts, so quantifiers that are siblings do not add up, only nested
ones do; and one quantifier chains at most `min` iterations plus — by the specification's own empty
check, step 2.a of `RepeatMatcher`'s continuation — one per remaining input character.  It is tight
for a single loop (`/a*/` on "aaa": 4 is enough, 3 is not — see the examples).

No termination failure was found: nullable bodies under `*` / `{n,}`, back-references (to groups
that are unset, not yet closed, or do not exist), look-behinds (where the end index *decreases*) and
look-arounds nested in loops all answer within the bound.
-/
namespace Regress.ES

/-- **The specification's anchored match always answers** with fuel `≥ esFuelBound`. -/
theorem es_terminates (a : Node) (rer : RER) (cs : List Nat) (i fuel : Nat)
    (hi : i ≤ cs.length) (hfuel : esFuelBound a cs.length ≤ fuel) :
    matchAt cs.toArray a rer fuel i ≠ .outOfFuel :=
  matchAt_ne_outOfFuel cs.toArray a rer (by simpa using hi) (by simpa [esFuelBound] using hfuel)

/-- The same in the form "the answer is `failure` or a `success`". -/
theorem es_definite (a : Node) (rer : RER) (cs : List Nat) (i fuel : Nat)
    (hi : i ≤ cs.length) (hfuel : esFuelBound a cs.length ≤ fuel) :
    matchAt cs.toArray a rer fuel i = .failure ∨ ∃ y, matchAt cs.toArray a rer fuel i = .success y := by
  have := es_terminates a rer cs i fuel hi hfuel
  cases h : matchAt cs.toArray a rer fuel i with
  | failure => exact .inl rfl
  | success y => exact .inr ⟨y, rfl⟩
  | outOfFuel => exact absurd h this

/-- Above the bound the answer does not depend on the fuel. -/
theorem es_fuel_irrelevant (a : Node) (rer : RER) (cs : List Nat) (i fuel fuel' : Nat)
    (hi : i ≤ cs.length) (hfuel : esFuelBound a cs.length ≤ fuel) (hfuel' : esFuelBound a cs.length ≤ fuel') :
    matchAt cs.toArray a rer fuel i = matchAt cs.toArray a rer fuel' i := by
  have hb := matchAt_mono cs.toArray a rer (f := esFuelBound a cs.length) (f' := fuel) hfuel i
  have hb' := matchAt_mono cs.toArray a rer (f := esFuelBound a cs.length) (f' := fuel') hfuel' i
  have h0 := es_terminates a rer cs i _ hi (Nat.le_refl _)
  rcases hb with h | h
  · exact absurd h h0
  · rcases hb' with h' | h'
    · exact absurd h' h0
    · rw [← h, ← h']

/-- **`RegExpBuiltinExec`'s search always answers** (from every `lastIndex`; no hypothesis on
`start`: beyond the input the loop makes no attempt). -/
theorem esExec_terminates (f : Flags) (a : Node) (cs : List Nat) (start fuel : Nat)
    (hfuel : esFuelBound a cs.length ≤ fuel) :
    esExec f a cs.toArray start fuel ≠ .outOfFuel := by
  rw [esExec_eq]
  by_cases hs : start ≤ cs.length
  · apply searchLoop_ne_outOfFuel (bound := cs.length)
    · intro i hi
      exact es_terminates a _ cs i fuel hi hfuel
    · simp only [List.size_toArray]; omega
  · have : cs.toArray.size + 1 - start = 0 := by simp only [List.size_toArray]; omega
    rw [this]
    simp [searchLoop]

/-- Above the bound the search result does not depend on the fuel. -/
theorem esExec_fuel_irrelevant (f : Flags) (a : Node) (cs : List Nat) (start fuel fuel' : Nat)
    (hfuel : esFuelBound a cs.length ≤ fuel) (hfuel' : esFuelBound a cs.length ≤ fuel') :
    esExec f a cs.toArray start fuel = esExec f a cs.toArray start fuel' := by
  have h0 := esExec_terminates f a cs start _ (Nat.le_refl _)
  rw [esExec_fuel_mono f a cs.toArray start hfuel h0, esExec_fuel_mono f a cs.toArray start hfuel' h0]

/-- **The `g`-flag iteration always completes**: the list of matches is never cut short by fuel. -/
theorem esIter_terminates (f : Flags) (a : Node) (cs : List Nat) (start fuel : Nat)
    (hfuel : esFuelBound a cs.length ≤ fuel) :
    (esIter f a cs.toArray start fuel).2 = true := by
  simp only [esIter]
  apply iterLoop_complete
  intro i
  have := esExec_terminates f a cs i fuel hfuel
  rw [esExec_eq] at this
  exact this

/-- **The bound is linear in the input length**: at most (quantifier nesting depth) · (n + 1) plus
the sum of the quantifier minima of the pattern. -/
theorem esFuelBound_linear (a : Node) (n : Nat) :
    esFuelBound a n ≤ quantDepth a * (n + 1) + quantMinSum a := fuelNeed_le n a

theorem esFuelBound_star (x : Node) (g : Bool) (n : Nat) :
    esFuelBound (.quant 0 none g x) n = n + 1 + esFuelBound x n := by
  simp [esFuelBound, fuelNeed, quantFuel]

theorem esFuelBound_counted (x : Node) (g : Bool) (mn mx n : Nat) :
    esFuelBound (.quant mn (some mx) g x) n = min mx (mn + n + 1) + esFuelBound x n := by
  simp [esFuelBound, fuelNeed, quantFuel]

/-! ## Non-vacuity, tightness, and the nullable-body cases -/

/-- `/(?:a*|b?)*c/`: nested nullable quantifiers. -/
def exNullable : Node :=
  .cat [.quant 0 none true (.nc (.alt [.quant 0 none true (.char 0x61),
                                        .quant 0 (some 1) true (.char 0x62)])), .char 0x63]

example : esFuelBound exNullable 3 = 8 := by decide
/-- on "aab" the model answers `noMatch` (the engine: no match) — every way of splitting "aab"
among the iterations is tried and the empty iterations are cut by the empty check. -/
example : esExec {} exNullable #[0x61, 0x61, 0x62] 0 8 = .noMatch := by decide +kernel
/-- on "aabc": `0..4` (the engine: `0..4 []`) -/
example : esExec {} exNullable #[0x61, 0x61, 0x62, 0x63] 0 (esFuelBound exNullable 4) = .matched 0 4 [] := by
  decide +kernel
example : esExec {} exNullable [0x61, 0x61, 0x62].toArray 0 8 ≠ .outOfFuel :=
  esExec_terminates {} exNullable [0x61, 0x61, 0x62] 0 8 (by decide)

/-- `/(a+)(?<=(?:\1){2,})b*?(?<!c\1*)$/`: a back-reference iterated inside a look-behind (end index
decreasing, `min = 2`), a lazy loop, a negative look-behind with a nullable loop over a
back-reference. -/
def exLookBack : Node :=
  .cat [.group 1 none (.quant 1 none true (.char 0x61)),
        .look false false (.quant 2 none true (.nc (.bref 1))),
        .quant 0 none false (.char 0x62),
        .look false true (.cat [.char 0x63, .quant 0 none true (.bref 1)]), .eol]

example : esFuelBound exLookBack 5 = 8 := by decide
/-- on "aaabb": `2..5`, group 1 = `2..3` (the engine: `2..5 [Some(2..3)]`) -/
example : esExec {} exLookBack #[0x61, 0x61, 0x61, 0x62, 0x62] 0 8 = .matched 2 5 [some (2, 3)] := by
  decide +kernel
example : (esIter {} exLookBack #[0x61, 0x61, 0x61, 0x62, 0x62] 0 8).1 = [(2, 5, [some (2, 3)])] ∧
    (esIter {} exLookBack #[0x61, 0x61, 0x61, 0x62, 0x62] 0 8).2 = true := by
  decide +kernel

/-- `/(a*)*(?:a?){3,}b/`: a starred group whose body is nullable, and a counted loop whose
mandatory iterations may all be empty. -/
def exEmptyIter : Node :=
  .cat [.quant 0 none true (.group 1 none (.quant 0 none true (.char 0x61))),
        .quant 3 none true (.quant 0 (some 1) true (.char 0x61)), .char 0x62]

example : esFuelBound exEmptyIter 3 = 8 := by decide
/-- on "aab": `0..3`, group 1 = `0..2` (the engine: `0..3 [Some(0..2)]`); on "aaa": no match. -/
example : esExec {} exEmptyIter #[0x61, 0x61, 0x62] 0 8 = .matched 0 3 [some (0, 2)] := by decide +kernel
example : esExec {} exEmptyIter #[0x61, 0x61, 0x61] 0 8 = .noMatch := by decide +kernel

/-- An AST that `validate` rejects (back-reference to a group that does not exist, `max < min`)
terminates too: validity is not a hypothesis. -/
example : esExec {} (.quant 5 (some 2) true (.cat [.bref 7, .quant 0 none false .empty])) #[0x61] 0
    (esFuelBound (.quant 5 (some 2) true (.cat [.bref 7, .quant 0 none false .empty])) 1) =
    .matched 0 0 [] := by decide +kernel

/-- Tightness for one loop: `/a*/` on "aaa" has bound 4; fuel 4 answers, fuel 3 does not. -/
example : esFuelBound (.quant 0 none true (.char 0x61)) 3 = 4 := by decide
example : esExec {} (.quant 0 none true (.char 0x61)) #[0x61, 0x61, 0x61] 0 4 = .matched 0 3 [] := by decide
example : esExec {} (.quant 0 none true (.char 0x61)) #[0x61, 0x61, 0x61] 0 3 = .outOfFuel := by decide

/-- The hypothesis `i ≤ |input|` of `es_terminates` cannot be dropped: `/(?<=\0*)/` started at
index 9 of the empty input walks back over nine out-of-range positions (which the model reads as
U+0000), needing fuel 10 where the bound is 1.  (`esExec` never starts an attempt there.) -/
example : esFuelBound (.look false false (.quant 0 none true (.char 0))) 0 = 1 := by decide
example : matchAt #[] (.look false false (.quant 0 none true (.char 0))) (RER.ofFlags {} 0) 1 9 = .outOfFuel := by
  decide

end Regress.ES

namespace Regress.Lower

open Regress Regress.IR Regress.VM Regress.Keystone

/-- **ES specification = IR semantics, one anchored attempt, no fuel proviso**: with fuel
`≥ esFuelBound a |cs|` the specification fails and `firstMatch` is `none`, or the specification
succeeds with `y` and `firstMatch` is a state at the same position with the same captures.
(Fragment `supported`, as `lower_attempt_ast_partial`.) -/
theorem lower_attempt_total {f : ES.Flags} {a : ES.Node} {r : Regex} {inp : Input} {cs : List Nat}
    (hsup : supported (normalize a) (irFlags f) (normalize a) = true)
    (hir : toIR f a = .ok r) (ht : Utf8Text inp cs) (hiu : inp.unicode = (f.u || f.v)) (i : Nat)
    (hi : i ≤ cs.length) (fuel : Nat) (hfuel : ES.esFuelBound a cs.length ≤ fuel) :
    (ES.matchAt cs.toArray a (ES.RER.ofFlags f (ES.countParens a)) fuel i = .failure ∧
      firstMatch inp r.node (Utf8.off cs i) = none) ∨
    (∃ y s, ES.matchAt cs.toArray a (ES.RER.ofFlags f (ES.countParens a)) fuel i = .success y ∧
      firstMatch inp r.node (Utf8.off cs i) = some s ∧ Rel cs y s) := by
  have h1 := lower_attempt_ast_partial hsup hir ht hiu i hi fuel
  have h0 := ES.es_terminates a (ES.RER.ofFlags f (ES.countParens a)) cs i fuel hi hfuel
  unfold AttemptAgrees at h1
  cases hm : ES.matchAt cs.toArray a (ES.RER.ofFlags f (ES.countParens a)) fuel i with
  | outOfFuel => exact absurd hm h0
  | failure =>
    rw [hm] at h1
    exact .inl ⟨rfl, h1⟩
  | success y =>
    rw [hm] at h1
    obtain ⟨s, hs, hys⟩ := h1
    exact .inr ⟨y, s, rfl, hs, hys⟩

/-- **ES specification = IR semantics, the leftmost search, no fuel proviso.** -/
theorem lower_search_total {f : ES.Flags} {a : ES.Node} {r : Regex} {inp : Input} {cs : List Nat}
    (hsup : supported (normalize a) (irFlags f) (normalize a) = true)
    (hir : toIR f a = .ok r) (ht : Utf8Text inp cs) (hiu : inp.unicode = (f.u || f.v)) (start : Nat)
    (hs : start ≤ cs.length) (fuel : Nat) (hfuel : ES.esFuelBound a cs.length ≤ fuel) :
    (ES.esExec f a cs.toArray start fuel = .noMatch ∧ semFind inp r.node (Utf8.off cs start) = none) ∨
    (∃ s e caps st, ES.esExec f a cs.toArray start fuel = .matched s e caps ∧
      semFind inp r.node (Utf8.off cs start) = some (Utf8.off cs s, st) ∧ s ≤ cs.length ∧
      Rel cs ⟨e, caps⟩ st) := by
  have h1 := lower_search_partial hsup hir ht hiu start hs fuel
  have h0 := ES.esExec_terminates f a cs start fuel hfuel
  simp only [SearchAgrees] at h1
  cases hm : ES.esExec f a cs.toArray start fuel with
  | outOfFuel => exact absurd hm h0
  | noMatch =>
    rw [hm] at h1
    exact .inl ⟨rfl, h1⟩
  | matched s e caps =>
    rw [hm] at h1
    obtain ⟨st, hq, hsl, hrel⟩ := h1
    exact .inr ⟨s, e, caps, st, rfl, hq, hsl, hrel⟩

/-- **ES specification = PikeVM on the compiled program (one anchored attempt), no fuel proviso on
the specification side**: `spec_to_pikevm_partial` with the `outOfFuel` case excluded. -/
theorem spec_to_pikevm_total {f : ES.Flags} {a : ES.Node} {r r' : Regex} {prog : Prog} {inp : Input}
    {cs : List Nat} {ofuel : Nat}
    (hsup : supported (normalize a) (irFlags f) (normalize a) = true)
    (hir : toIR f a = .ok r) (hopt : optimize ofuel r = .ok r') (he : emit r' = .ok prog)
    (hw : WF r.node) (hroot : rootOK r'.node = true) (hu : r'.flags.unicode = inp.unicode)
    (hiu : inp.unicode = (f.u || f.v))
    (hng : numGroups r.node < 4294967296) (hnl : numLoops r'.node ≤ 65536)
    (ht : Utf8Text inp cs) (i : Nat) (hi : i ≤ cs.length) (fuelES fuelVM : Nat)
    (hfuel : ES.esFuelBound a cs.length ≤ fuelES)
    (hf : Fine (Pk.attempt prog inp fuelVM (Utf8.off cs i))) :
    match ES.matchAt cs.toArray a (ES.RER.ofFlags f (ES.countParens a)) fuelES i with
    | .outOfFuel => False
    | .failure => ∃ steps peak, Pk.attempt prog inp fuelVM (Utf8.off cs i) = .failed steps peak
    | .success y => ∃ st steps peak,
        Pk.attempt prog inp fuelVM (Utf8.off cs i) = .matched (Utf8.off cs y.endIndex) st steps peak ∧
        Rel cs y { pos := Utf8.off cs y.endIndex, caps := capsOfState st } := by
  have h1 := spec_to_pikevm_partial hsup hir hopt he hw hroot hu hiu hng hnl ht i hi fuelES fuelVM hf
  have h0 := ES.es_terminates a (ES.RER.ofFlags f (ES.countParens a)) cs i fuelES hi hfuel
  cases hm : ES.matchAt cs.toArray a (ES.RER.ofFlags f (ES.countParens a)) fuelES i with
  | outOfFuel => exact absurd hm h0
  | failure => rw [hm] at h1; exact h1
  | success y => rw [hm] at h1; exact h1

/-! ## Non-vacuity of the corollaries -/

/-- `lower_attempt_total` applies to `/(?<=(a))(b|c)*?\1/` (look-behind, lazy loop over a group, a
back-reference; `Lower.exAst`) on "abca" at index 1 with the fuel the bound prescribes (5). -/
example : ES.esFuelBound exAst 4 = 5 := by decide

example : ∃ r, toIR {} exAst = .ok r ∧
    ((ES.matchAt ([0x61, 0x62, 0x63, 0x61] : List Nat).toArray exAst (ES.RER.ofFlags {} (ES.countParens exAst)) 5 1
        = .failure ∧ firstMatch exInp r.node (Utf8.off [0x61, 0x62, 0x63, 0x61] 1) = none) ∨
     (∃ y s, ES.matchAt ([0x61, 0x62, 0x63, 0x61] : List Nat).toArray exAst
          (ES.RER.ofFlags {} (ES.countParens exAst)) 5 1 = .success y ∧
        firstMatch exInp r.node (Utf8.off [0x61, 0x62, 0x63, 0x61] 1) = some s ∧
        Rel [0x61, 0x62, 0x63, 0x61] y s)) := by
  have hok : (toIR {} exAst).toBool = true := by rfl
  cases h : toIR {} exAst with
  | error e => rw [h] at hok; cases hok
  | ok r =>
    refine ⟨r, rfl, ?_⟩
    have hsup : supported (normalize exAst) (irFlags {}) (normalize exAst) = true := by
      rw [exAst_nf]; exact exAst_supported
    exact lower_attempt_total hsup h exInp_text rfl 1 (by decide) 5 (by decide)

/-- …and the specification side of that instance is the success `1..4` with groups `0..1`, `2..3`. -/
example : ES.matchAt #[0x61, 0x62, 0x63, 0x61] exAst (ES.RER.ofFlags {} (ES.countParens exAst)) 5 1 =
    .success ⟨4, [some (0, 1), some (2, 3)]⟩ := by decide +kernel

/-- `lower_search_total` on the same instance, from `lastIndex = 0`. -/
example (r : Regex) (h : toIR {} exAst = .ok r) (fuel : Nat) (hfuel : 5 ≤ fuel) :
    (ES.esExec {} exAst ([0x61, 0x62, 0x63, 0x61] : List Nat).toArray 0 fuel = .noMatch ∧
      semFind exInp r.node (Utf8.off [0x61, 0x62, 0x63, 0x61] 0) = none) ∨
    (∃ s e caps st, ES.esExec {} exAst ([0x61, 0x62, 0x63, 0x61] : List Nat).toArray 0 fuel = .matched s e caps ∧
      semFind exInp r.node (Utf8.off [0x61, 0x62, 0x63, 0x61] 0) = some (Utf8.off [0x61, 0x62, 0x63, 0x61] s, st) ∧
      s ≤ ([0x61, 0x62, 0x63, 0x61] : List Nat).length ∧ Rel [0x61, 0x62, 0x63, 0x61] ⟨e, caps⟩ st) :=
  lower_search_total (by rw [exAst_nf]; exact exAst_supported) h exInp_text rfl 0 (by decide) fuel
    (by have : ES.esFuelBound exAst 4 = 5 := by decide
        simpa [this] using hfuel)

/-- `/(?:(a|bc))+\1/`: the chain theorem's instance with a loop (bound 5 on four characters). -/
def exTotAst : ES.Node :=
  .cat [.quant 1 none true (.group 1 none (.alt [.char 0x61, .cat [.char 0x62, .char 0x63]])), .bref 1]

def exTotCheck : Bool :=
  match toIR {} exTotAst with
  | .error _ => false
  | .ok r =>
    match optimize 1000 r with
    | .error _ => false
    | .ok r' =>
      match emit r' with
      | .error _ => false
      | .ok _ =>
        wfNode r.node && rootOK r'.node && !r'.flags.unicode && decide (numGroups r.node < 4294967296) &&
          decide (numLoops r'.node ≤ 65536)

theorem exTotCheck_ok : exTotCheck = true := by decide +kernel

theorem exTot_supported : supported (normalize exTotAst) (irFlags {}) (normalize exTotAst) = true := by
  decide +kernel

example : ES.esFuelBound exTotAst 4 = 6 := by decide

/-- `spec_to_pikevm_total` applies to `/(a|bc)+\1/` on "bcbc" at index 0: for every specification
fuel `≥ 6` and every VM budget for which the VM attempt is `Fine`, the two outcomes coincide and
neither is "unknown". -/
example : ∃ r r' prog, toIR {} exTotAst = .ok r ∧ optimize 1000 r = .ok r' ∧ emit r' = .ok prog ∧
    ∀ (fuelES fuelVM : Nat), 6 ≤ fuelES →
      Fine (Pk.attempt prog Keystone.exInp fuelVM (Utf8.off [0x62, 0x63, 0x62, 0x63] 0)) →
      match ES.matchAt ([0x62, 0x63, 0x62, 0x63] : List Nat).toArray exTotAst
          (ES.RER.ofFlags {} (ES.countParens exTotAst)) fuelES 0 with
      | .outOfFuel => False
      | .failure => ∃ steps peak,
          Pk.attempt prog Keystone.exInp fuelVM (Utf8.off [0x62, 0x63, 0x62, 0x63] 0) = .failed steps peak
      | .success y => ∃ st steps peak,
          Pk.attempt prog Keystone.exInp fuelVM (Utf8.off [0x62, 0x63, 0x62, 0x63] 0) =
            .matched (Utf8.off [0x62, 0x63, 0x62, 0x63] y.endIndex) st steps peak ∧
          Rel [0x62, 0x63, 0x62, 0x63] y
            { pos := Utf8.off [0x62, 0x63, 0x62, 0x63] y.endIndex, caps := capsOfState st } := by
  have hc := exTotCheck_ok
  unfold exTotCheck at hc
  cases h1 : toIR {} exTotAst with
  | error e => rw [h1] at hc; cases hc
  | ok r =>
    rw [h1] at hc
    simp only at hc
    cases h2 : optimize 1000 r with
    | error e => rw [h2] at hc; cases hc
    | ok r' =>
      rw [h2] at hc
      simp only at hc
      cases h3 : emit r' with
      | error e => rw [h3] at hc; cases hc
      | ok prog =>
        rw [h3] at hc
        simp only [Bool.and_eq_true, Bool.not_eq_true', decide_eq_true_eq] at hc
        obtain ⟨⟨⟨⟨hwf, hroot⟩, hu⟩, hng⟩, hnl⟩ := hc
        refine ⟨r, r', prog, rfl, h2, h3, fun fuelES fuelVM hfe hf => ?_⟩
        exact spec_to_pikevm_total exTot_supported h1 h2 h3 (wfNode_sound _ hwf) hroot
          (by rw [hu]; rfl) rfl hng hnl Keystone.exInp_text 0 (by decide) fuelES fuelVM
          (by have : ES.esFuelBound exTotAst 4 = 6 := by decide
              simpa [this] using hfe) hf

/-- …and the specification side is the success `0..4` with group 1 = `0..2` (after backtracking out
of the second iteration). -/
example : ES.matchAt #[0x62, 0x63, 0x62, 0x63] exTotAst (ES.RER.ofFlags {} (ES.countParens exTotAst)) 6 0 =
    .success ⟨4, [some (0, 2)]⟩ := by decide +kernel

end Regress.Lower

#print axioms Regress.ES.es_terminates
#print axioms Regress.ES.es_definite
#print axioms Regress.ES.es_fuel_irrelevant
#print axioms Regress.ES.esExec_terminates
#print axioms Regress.ES.esExec_fuel_irrelevant
#print axioms Regress.ES.esIter_terminates
#print axioms Regress.ES.esFuelBound_linear
#print axioms Regress.ES.compileNode_term
#print axioms Regress.Lower.lower_attempt_total
#print axioms Regress.Lower.lower_search_total
#print axioms Regress.Lower.spec_to_pikevm_total
