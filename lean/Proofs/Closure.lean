import Proofs.Lemmas.ClosureFind
import Proofs.Lemmas.ClosureAdm
import Proofs.Lemmas.ClosureCtx
import Proofs.Lemmas.ClosureNames
/-!
# Closure — the API-level theorems (C09, C16, C17, C20, C06 "reported ranges") for the modelled engine

C09/C17/C20 are proved about an abstract matcher (`EnvOK env`, `CtxOK ctx`). This file discharges those
hypotheses for the concrete executor models of `RegressModel/VM`, so that the theorems speak about
`VM.findIter` — the function the differential-testing driver runs against the real engine.

Route (see `Proofs/Lemmas/ClosureIter.lean`): `EnvOK` quantifies over all `p ≤ len`, but for UTF-8
input the executors are only known to behave at char boundaries. We prove the boundary-restricted
`EnvOKOn (vb inp) env` (`vb inp p ↔ VUtf8 inp p`), show that **the iterator only queries boundaries**
(`collectK_restrict`: from a boundary start, `collectK env = collectK (restrictEnv v env)`), and
transport every C09/C17 theorem through the restricted environment, which satisfies `EnvOK`.
For ASCII input plain `EnvOK` holds.

Hypotheses that remain (all decidable, all checked by the harness on every emitted program):
* `wfProgFull prog` (C06) and `Utf8Text inp cs` / `inp.kind = .ascii`;
* `IR.LeadsSP prog.startPred` for the backtracker (`C04Sem.start_pred_lead_bytes` for emitted programs);
* for `findIter` (one matcher reused across attempts): C02's fragment `loopsStructured`,
  `looksStructured`, `simpleProg` (no `Loop1CharBody`) — inherited from `C02.reused_matcher_attempt`;
* for `iter_is_unfold` / `prefilter_transparent`: admissibility of the byte scan w.r.t. the *VM's*
  attempts (`PrefilterAdmissibleOn`). Proved outright for `Arbitrary`/`StartAnchored` and for the PikeVM
  (which never scans); for `ByteSet`/`ByteSeq` start predicates it is reduced (`admissibleOn_vm`) to
  `StartPredSound`: "an attempt succeeds only where the start predicate admits the following bytes",
  which for emitted programs is `C04Sem.predicate_for_re_sound` + the emitter-correctness bridge
  (VM match ⟹ IR match, C07's subject) and is kept as a hypothesis here.
No fuel hypothesis is needed for `EnvOK` (an attempt that runs out of budget is `none`).
-/
namespace Regress.Closure
open Regress.Api Regress.VM Regress.VM.Safety Regress.C06 Regress.C09

/-! ## 1. `EnvOK` for the executor environments -/

/-- **`envOK_bt`** — backtracking executor, UTF-8. -/
theorem envOK_bt {prog : Prog} {inp : Input} {cs : List Nat} (hw : wfProgFull prog = true)
    (hl : IR.LeadsSP prog.startPred) (ht : Utf8Text inp cs) (fuel : Nat) :
    EnvOKOn (vb inp) (searchEnvBt prog inp fuel) ∧
      EnvOK (restrictEnv (vb inp) (searchEnvBt prog inp fuel)) :=
  ⟨envOKOn_bt hw hl ht fuel, restrict_ok (envOKOn_bt hw hl ht fuel)⟩

/-- **`envOK_pk`** — PikeVM, UTF-8. -/
theorem envOK_pk {prog : Prog} {inp : Input} {cs : List Nat} (hw : wfProgFull prog = true)
    (ht : Utf8Text inp cs) (fuel : Nat) :
    EnvOKOn (vb inp) (searchEnvPk prog inp fuel) ∧
      EnvOK (restrictEnv (vb inp) (searchEnvPk prog inp fuel)) :=
  ⟨envOKOn_pk hw ht fuel, restrict_ok (envOKOn_pk hw ht fuel)⟩

/-- **`envOK_ascii`** — both executors, ASCII input: `EnvOK` as stated in `Api/Iter.lean`. -/
theorem envOK_ascii {prog : Prog} {inp : Input} (hw : wfProgFull prog = true)
    (hk : inp.kind = .ascii) (fuel : Nat) :
    EnvOK (searchEnvBt prog inp fuel) ∧ EnvOK (searchEnvPk prog inp fuel) :=
  ⟨envOK_bt_ascii hw hk fuel, envOK_pk_ascii hw hk fuel⟩

/-! ## 2. The iterator theorems for a modelled engine -/

/-- What has been proved about one modelled executor on a concrete program and haystack:
`v` = the valid positions (char boundaries `≤ len`, resp. all `p ≤ len` for ASCII). -/
structure ModelEnv (prog : Prog) (inp : Input) (env : SearchEnv) (v : Nat → Bool) : Prop where
  on : EnvOKOn v env
  len : env.len = inp.len
  names : env.names = prog.names
  names_ok : prog.names = [] ∨ prog.names.length = prog.groups
  caps : ∀ p e c, v p = true → env.attempt p = some (e, c) →
    CapsOK (fun q => v q = true) prog.groups c
  zero : v 0 = true
  last : v inp.len = true

theorem vb_zero {inp : Input} {cs : List Nat} (ht : Utf8Text inp cs) : vb inp 0 = true :=
  vb_iff.mpr ((vutf8_iff ht).mpr ⟨0, Nat.zero_le _, by simp [Utf8.off]⟩)

theorem vb_len {inp : Input} {cs : List Nat} (ht : Utf8Text inp cs) : vb inp inp.len = true :=
  vb_iff.mpr ((vutf8_iff ht).mpr ⟨cs.length, Nat.le_refl _, by
    rw [Utf8.off_length]; simp [Input.len, ht.bytes]⟩)

theorem wf_names {prog : Prog} (hw : wfProgFull prog = true) :
    prog.names = [] ∨ prog.names.length = prog.groups := by
  have h1 := (wfFull_parts hw).1
  simp only [wfProg, Bool.and_eq_true, Bool.or_eq_true, beq_iff_eq, List.isEmpty_iff] at h1
  exact h1.1.1.1.2

theorem capsOK_vb {inp : Input} {g : Nat} {c : Caps} (h : CapsOK (VUtf8 inp) g c) :
    CapsOK (fun q => vb inp q = true) g c :=
  ⟨h.length, fun s e hm => ⟨vb_iff.mpr (h.ok s e hm).1, vb_iff.mpr (h.ok s e hm).2.1, (h.ok s e hm).2.2⟩⟩

theorem capsOK_va {inp : Input} {g : Nat} {c : Caps} (h : CapsOK (· ≤ inp.len) g c) :
    CapsOK (fun q => va inp q = true) g c :=
  ⟨h.length, fun s e hm => ⟨by simpa [va] using (h.ok s e hm).1, by simpa [va] using (h.ok s e hm).2.1,
    (h.ok s e hm).2.2⟩⟩

/-- The backtracking executor on UTF-8 input. -/
theorem modelEnv_bt {prog : Prog} {inp : Input} {cs : List Nat} (hw : wfProgFull prog = true)
    (hl : IR.LeadsSP prog.startPred) (ht : Utf8Text inp cs) (fuel : Nat) :
    ModelEnv prog inp (searchEnvBt prog inp fuel) (vb inp) where
  on := envOKOn_bt hw hl ht fuel
  len := rfl
  names := rfl
  names_ok := wf_names hw
  caps := fun _ _ _ hp ha => capsOK_vb (attempt_bt_ok hw ht fuel (vb_iff.mp hp) ha).2.2
  zero := vb_zero ht
  last := vb_len ht

/-- The PikeVM on UTF-8 input. -/
theorem modelEnv_pk {prog : Prog} {inp : Input} {cs : List Nat} (hw : wfProgFull prog = true)
    (ht : Utf8Text inp cs) (fuel : Nat) :
    ModelEnv prog inp (searchEnvPk prog inp fuel) (vb inp) where
  on := envOKOn_pk hw ht fuel
  len := rfl
  names := rfl
  names_ok := wf_names hw
  caps := fun _ _ _ hp ha => capsOK_vb (attempt_pk_ok hw ht fuel (vb_iff.mp hp) ha).2.2
  zero := vb_zero ht
  last := vb_len ht

/-- The backtracking executor on ASCII input (every position `≤ len` is valid). -/
theorem modelEnv_bt_ascii {prog : Prog} {inp : Input} (hw : wfProgFull prog = true)
    (hk : inp.kind = .ascii) (fuel : Nat) :
    ModelEnv prog inp (searchEnvBt prog inp fuel) (va inp) where
  on := envOKOn_of_envOK (envOK_bt_ascii hw hk fuel)
  len := rfl
  names := rfl
  names_ok := wf_names hw
  caps := fun _ _ _ hp ha =>
    capsOK_va (attempt_bt_ok_ascii hw hk fuel (by simpa [va] using hp) ha).2.2
  zero := by simp [va]
  last := by simp [va]

/-- The PikeVM on ASCII input. -/
theorem modelEnv_pk_ascii {prog : Prog} {inp : Input} (hw : wfProgFull prog = true)
    (hk : inp.kind = .ascii) (fuel : Nat) :
    ModelEnv prog inp (searchEnvPk prog inp fuel) (va inp) where
  on := envOKOn_of_envOK (envOK_pk_ascii hw hk fuel)
  len := rfl
  names := rfl
  names_ok := wf_names hw
  caps := fun _ _ _ hp ha =>
    capsOK_va (attempt_pk_ok_ascii hw hk fuel (by simpa [va] using hp) ha).2.2
  zero := by simp [va]
  last := by simp [va]

section Iter
variable {prog : Prog} {inp : Input} {env : SearchEnv} {v : Nat → Bool}
  (M : ModelEnv prog inp env v) (k : Kind) {start : Nat}

/-- A start offset the API accepts: valid, or beyond the end (`find_from` asserts
`start >= len || is_char_boundary(start)`; at `start = len` both hold). -/
def StartOK (v : Nat → Bool) (len start : Nat) : Prop := v start = true ∨ len < start

variable (hs : StartOK v env.len start)
include M hs

/-- **`iter_increasing_vm`** (C09 `iter_increasing`). -/
theorem iter_increasing_vm : Consec Succeeds (collectK env k start) :=
  iter_increasing_on M.on k hs

/-- **`iter_disjoint_vm`** (C09 `iter_disjoint`). -/
theorem iter_disjoint_vm :
    (collectK env k start).Pairwise (fun a b => a.range.2 ≤ b.range.1 ∧ a.range.1 < b.range.1) :=
  iter_disjoint_on M.on k hs

/-- **`iter_in_range_vm`** (C09 `iter_in_range`). -/
theorem iter_in_range_vm : ∀ m ∈ collectK env k start,
    start ≤ m.range.1 ∧ m.range.1 ≤ m.range.2 ∧ m.range.2 ≤ inp.len := by
  rw [← M.len]; exact iter_in_range_on M.on k hs

/-- **`iter_count_le_vm`** (C09 `iter_count_le`). -/
theorem iter_count_le_vm (hle : start ≤ inp.len) :
    (collectK env k start).length ≤ inp.len - start + 1 := by
  rw [← M.len] at hle ⊢; exact iter_count_le_on M.on k hs hle

/-- **`iter_sorted_vm`** (C17 `Sorted`). -/
theorem iter_sorted_vm : C17.Sorted inp.len start (collectK env k start) := by
  rw [← M.len]; exact iter_sorted_on M.on k hs

/-- **`reported_ranges_valid_vm`** (C06 "slicing cannot fail" for whole searches, C16 "one slot per
group"). Every yielded `Match`: its range `[s, e)` has `start ≤ s ≤ e ≤ len` with `s`, `e` valid (char
boundaries); it has exactly `prog.groups` capture slots; every participating capture `[a, b)` has
`a ≤ b ≤ len` with `a`, `b` valid; it is the matcher's result at `s`; and `group_names` is empty or has
one entry per capture slot (`NamesOK`). -/
theorem reported_ranges_valid_vm : ∀ m ∈ collectK env k start,
    start ≤ m.range.1 ∧ m.range.1 ≤ m.range.2 ∧ m.range.2 ≤ inp.len ∧
    v m.range.1 = true ∧ v m.range.2 = true ∧
    m.captures.length = prog.groups ∧
    (∀ a b, some (a, b) ∈ m.captures → a ≤ b ∧ b ≤ inp.len ∧ v a = true ∧ v b = true) ∧
    env.attempt m.range.1 = some (m.range.2, m.captures) ∧
    m.names = prog.names ∧ m.NamesOK := by
  intro m hm
  have hr := iter_in_range_vm M k hs m hm
  obtain ⟨h1, h2, h3, h4⟩ := iter_sound_on M.on k hs m hm
  have hc := M.caps _ _ _ h1 h3
  refine ⟨hr.1, hr.2.1, hr.2.2, h1, h2, hc.length, ?_, h3, by rw [h4, M.names], ?_⟩
  · intro a b hab
    have := hc.ok a b hab
    exact ⟨this.2.2, by rw [← M.len]; exact M.on.v_le _ this.2.1, this.1, this.2.1⟩
  · unfold MatchR.NamesOK
    rw [h4, M.names, hc.length]
    exact M.names_ok

omit hs in
/-- **`start_beyond_end_empty_vm`** (C09 `start_beyond_end_empty`). -/
theorem start_beyond_end_empty_vm (hgt : inp.len < start) : collectK env k start = [] :=
  start_beyond_end_empty k start (by rw [M.len]; exact hgt)

omit M hs in
/-- **`iter_fused_vm`** (C09 `iter_fused`; holds of every environment). -/
theorem iter_fused_vm (it it' : Matches) (hn : it.next env k = (none, it')) :
    it' = it ∧ it'.next env k = (none, it') :=
  iter_fused k it it' hn

/-- **`iter_is_unfold_vm`** (C09 `iter_is_unfold`), backtracking executor with a prefix search that is
admissible for the executor's attempts. -/
theorem iter_is_unfold_vm (ha : PrefilterAdmissibleOn v env) :
    collectK env .btPrefix start = unfoldIter env start :=
  iter_is_unfold_on M.on ha hs

/-- … in particular when `find_bytes = Some` (start predicate `Arbitrary`). -/
theorem iter_is_unfold_vm_plain (hid : ∀ p, v p = true → env.findBytes p = some p) :
    collectK env .btPrefix start = unfoldIter env start :=
  iter_is_unfold_on M.on (admissibleOn_of_id M.on hid) hs

/-- … and for the non-anchored PikeVM, which never scans. -/
theorem iter_is_unfold_vm_pike : collectK env (.pike false) start = unfoldIter env start :=
  iter_is_unfold_pike_on M.on hs

end Iter

/-- `iter_is_unfold` for the backtracking executor and a regex whose start predicate is `Arbitrary`. -/
theorem iter_is_unfold_bt_arbitrary {prog : Prog} {inp : Input} {cs : List Nat}
    (hw : wfProgFull prog = true) (ht : Utf8Text inp cs) (hsp : prog.startPred = .arbitrary)
    (fuel : Nat) {start : Nat} (hs : VUtf8 inp start ∨ inp.len < start) :
    collectK (searchEnvBt prog inp fuel) (kindOf prog .bt) start =
      unfoldIter (searchEnvBt prog inp fuel) start := by
  have hl : IR.LeadsSP prog.startPred := by rw [hsp]; trivial
  have hk : kindOf prog .bt = .btPrefix := by simp [kindOf, isAnchored, hsp]
  rw [hk]
  refine iter_is_unfold_vm_plain (modelEnv_bt hw hl ht fuel)
    (hs.imp (fun h => vb_iff.mpr h) (fun h => h)) ?_
  intro p _
  show findBytesPred prog.startPred inp.bytes p = some p
  rw [hsp]; rfl

/-- `iter_is_unfold` and `prefilter_transparent` for the backtracking executor with any start predicate
(`ByteSet`, `ByteSeq`, …), given that the start predicate is sound for the executor's attempts. -/
theorem iter_is_unfold_bt {prog : Prog} {inp : Input} {cs : List Nat}
    (hw : wfProgFull prog = true) (hl : IR.LeadsSP prog.startPred) (ht : Utf8Text inp cs) (fuel : Nat)
    (hsound : StartPredSound prog.startPred inp (searchEnvBt prog inp fuel))
    {start : Nat} (hs : VUtf8 inp start ∨ inp.len < start) :
    collectK (searchEnvBt prog inp fuel) .btPrefix start = unfoldIter (searchEnvBt prog inp fuel) start ∧
    ∀ p, VUtf8 inp p → nextMatchPrefix (searchEnvBt prog inp fuel) p =
      nextMatchPrefix { searchEnvBt prog inp fuel with findBytes := some } p := by
  have M := modelEnv_bt hw hl ht fuel
  have ha := admissibleOn_vm ht hl (env := searchEnvBt prog inp fuel) rfl rfl M.on hsound
  exact ⟨iter_is_unfold_vm M (hs.imp (fun h => vb_iff.mpr h) (fun h => h)) ha,
    fun p hp => prefilter_transparent_on M.on ha (vb_iff.mpr hp)⟩

/-! ## 3. The state-threading search `findIter` -/

/-- **`findIter_eq_collect`.** See `Proofs/Lemmas/ClosureFind.lean`. -/
theorem findIter_eq_collectK {prog : Prog} {inp : Input} {cs : List Nat} (H : FindHyp prog inp cs)
    (fuel : Nat) {start : Nat} (hs : VUtf8 inp start ∨ inp.len < start) {ms : List MatchR}
    (h : findIter .bt prog inp start fuel = .ok ms) :
    ms = collectK (searchEnvBt prog inp fuel) (kindOf prog .bt) start :=
  findIter_eq_collect H fuel hs h

/-- **The theorems of §2 hold of `findIter`'s output**: whenever the running search (one reused
matcher, global budget) returns a list, that list is increasing, pairwise disjoint, in range, at most
`len - start + 1` long, sorted in the sense of C17, and every match and capture range is a valid slice
of the haystack with one capture slot per group. -/
theorem findIter_valid {prog : Prog} {inp : Input} {cs : List Nat} (H : FindHyp prog inp cs)
    (fuel : Nat) {start : Nat} (hs : VUtf8 inp start ∨ inp.len < start) {ms : List MatchR}
    (h : findIter .bt prog inp start fuel = .ok ms) :
    Consec Succeeds ms ∧
    ms.Pairwise (fun a b => a.range.2 ≤ b.range.1 ∧ a.range.1 < b.range.1) ∧
    (start ≤ inp.len → ms.length ≤ inp.len - start + 1) ∧
    C17.Sorted inp.len start ms ∧
    ∀ m ∈ ms, start ≤ m.range.1 ∧ m.range.1 ≤ m.range.2 ∧ m.range.2 ≤ inp.len ∧
      VUtf8 inp m.range.1 ∧ VUtf8 inp m.range.2 ∧ m.captures.length = prog.groups ∧
      (∀ a b, some (a, b) ∈ m.captures → a ≤ b ∧ b ≤ inp.len ∧ VUtf8 inp a ∧ VUtf8 inp b) ∧
      m.names = prog.names ∧ m.NamesOK := by
  have M := modelEnv_bt H.wf H.leads H.text fuel
  have hs' : StartOK (vb inp) (searchEnvBt prog inp fuel).len start :=
    hs.imp (fun h => vb_iff.mpr h) (fun h => h)
  rw [findIter_eq_collect H fuel hs h]
  refine ⟨iter_increasing_vm M _ hs', iter_disjoint_vm M _ hs', iter_count_le_vm M _ hs',
    iter_sorted_vm M _ hs', ?_⟩
  intro m hm
  have := reported_ranges_valid_vm M _ hs' m hm
  exact ⟨this.1, this.2.1, this.2.2.1, vb_iff.mp this.2.2.2.1, vb_iff.mp this.2.2.2.2.1,
    this.2.2.2.2.2.1,
    fun a b hab => ⟨(this.2.2.2.2.2.2.1 a b hab).1, (this.2.2.2.2.2.2.1 a b hab).2.1,
      vb_iff.mp (this.2.2.2.2.2.2.1 a b hab).2.2.1, vb_iff.mp (this.2.2.2.2.2.2.1 a b hab).2.2.2⟩,
    this.2.2.2.2.2.2.2.2.1, this.2.2.2.2.2.2.2.2.2⟩

/-! ## 4. C20: the `Pattern` searcher over the modelled engine -/

/-- **`ctxOK_vm`** (generic). The searcher context of a modelled engine satisfies `CtxOK`, provided the
prefix search is idempotent (it is: `findBytesPred_idem`). -/
theorem ctxOK_model {prog : Prog} {inp : Input} {env : SearchEnv} {v : Nat → Bool}
    (M : ModelEnv prog inp env v)
    (hidem : ∀ p q, v p = true → env.findBytes p = some q → env.findBytes q = some q) (k : Kind) :
    C20.CtxOK (ctxOf env k v) :=
  ctxOK_of_envOKOn M.on hidem k M.zero (by rw [M.len]; exact M.last)

/-- **`ctxOK_vm`**: backtracking executor, UTF-8 haystack. `findFrom p` = the range of
`find_from(h, p).next()`, `isBoundary` = `is_char_boundary`, `nextBoundary` = `next_right_pos`. -/
theorem ctxOK_vm {prog : Prog} {inp : Input} {cs : List Nat} (hw : wfProgFull prog = true)
    (hl : IR.LeadsSP prog.startPred) (ht : Utf8Text inp cs) (fuel : Nat) :
    C20.CtxOK (ctxOf (searchEnvBt prog inp fuel) (kindOf prog .bt) (vb inp)) :=
  ctxOK_model (modelEnv_bt hw hl ht fuel) (fun _ _ _ hq => findBytesPred_idem _ _ hq) _

/-- The same for the PikeVM. -/
theorem ctxOK_vm_pk {prog : Prog} {inp : Input} {cs : List Nat} (hw : wfProgFull prog = true)
    (ht : Utf8Text inp cs) (fuel : Nat) :
    C20.CtxOK (ctxOf (searchEnvPk prog inp fuel) (kindOf prog .pk) (vb inp)) :=
  ctxOK_model (modelEnv_pk hw ht fuel) (fun _ _ _ hq => by cases hq; rfl) _

/-- The searcher context built from the *running* search: `findFrom p` is the first element of
`findIter … p`. -/
def searcherCtx (prog : Prog) (inp : Input) (fuel : Nat) : SearchCtx :=
  { len := inp.len
    findFrom := fun p =>
      match findIter .bt prog inp p fuel with
      | .ok (m :: _) => some m.range
      | _ => none
    isBoundary := vb inp
    nextBoundary := nextRightPosOpt inp }

/-- The budget suffices for the search from every char boundary (a property of `fuel`, `prog`, `inp`;
decidable by running the searches). -/
def NoFuelOut (prog : Prog) (inp : Input) (fuel : Nat) : Prop :=
  ∀ p, VUtf8 inp p → ∃ ms, findIter .bt prog inp p fuel = .ok ms

theorem searcherCtx_findFrom {prog : Prog} {inp : Input} {cs : List Nat} (H : FindHyp prog inp cs)
    {fuel : Nat} (hf : NoFuelOut prog inp fuel) {p : Nat} (hp : VUtf8 inp p) :
    (searcherCtx prog inp fuel).findFrom p =
      (ctxOf (searchEnvBt prog inp fuel) (kindOf prog .bt) (vb inp)).findFrom p := by
  obtain ⟨ms, hms⟩ := hf p hp
  have heq := findIter_eq_collect H fuel (Or.inl hp) hms
  have hOn := envOKOn_bt H.wf H.leads H.text fuel
  have hvp := vb_iff.mpr hp
  rw [ctxOf_findFrom _ (hOn.v_le p hvp)]
  simp only [searcherCtx, hms]
  have hc : collectK (searchEnvBt prog inp fuel) (kindOf prog .bt) p =
      Matches.collect (searchEnvBt prog inp fuel) (kindOf prog .bt) ⟨some p⟩ := by
    unfold collectK Matches.new
    rw [initialPosition_eq]; simp [hOn.v_le p hvp]
  rw [hc, collect_some_eq_on hOn _ hvp] at heq
  cases hm : nextMatch (searchEnvBt prog inp fuel) (kindOf prog .bt) p with
  | none => rw [hm] at heq; subst heq; rfl
  | some mn => obtain ⟨m, ns⟩ := mn; rw [hm] at heq; subst heq; rfl

/-- **`ctxOK_vm` for the running search.** -/
theorem ctxOK_findIter {prog : Prog} {inp : Input} {cs : List Nat} (H : FindHyp prog inp cs)
    {fuel : Nat} (hf : NoFuelOut prog inp fuel) : C20.CtxOK (searcherCtx prog inp fuel) := by
  have C := ctxOK_vm H.wf H.leads H.text fuel
  have hff : ∀ p, p ≤ inp.len → vb inp p = true → (searcherCtx prog inp fuel).findFrom p =
      (ctxOf (searchEnvBt prog inp fuel) (kindOf prog .bt) (vb inp)).findFrom p :=
    fun p _ hb => searcherCtx_findFrom H hf (vb_iff.mp hb)
  exact
    { find_range := fun p s e hp hb h => C.find_range p s e hp hb (by rw [← hff p hp hb]; exact h)
      find_boundary := fun p s e hp hb h => C.find_boundary p s e hp hb (by rw [← hff p hp hb]; exact h)
      find_restart := fun p s e hp hb h => by
        have h' : (ctxOf (searchEnvBt prog inp fuel) (kindOf prog .bt) (vb inp)).findFrom p = some (s, e) := by
          rw [← hff p hp hb]; exact h
        have hr := C.find_range p s e hp hb h'
        have hbd := C.find_boundary p s e hp hb h'
        have hs : s ≤ inp.len := Nat.le_trans hr.2.1 hr.2.2
        rw [hff s hs hbd.1]
        exact C.find_restart p s e hp hb h'
      boundary_zero := C.boundary_zero
      boundary_len := C.boundary_len
      next_boundary := C.next_boundary }

/-- **`forward_tiles` / `interleaved_tiles` for the modelled engine.** The steps of `next()` on a fresh
`RegexSearcher` over the running search tile `[0, len)` on char boundaries without panic, and their
`Match` steps are exactly the ranges of `findIter … 0` (the matches of `find_iter`); any interleaving
of `next` / `next_back` hands out exactly those steps. -/
theorem forward_tiles_vm {prog : Prog} {inp : Input} {cs : List Nat} (H : FindHyp prog inp cs)
    {fuel : Nat} (hf : NoFuelOut prog inp fuel) {ms : List MatchR}
    (hms : findIter .bt prog inp 0 fuel = .ok ms) :
    ∃ steps, forwardSteps (searcherCtx prog inp fuel) = some steps ∧
      steps.length ≤ 2 * inp.len + 1 ∧
      C20.tilesFrom inp.len 0 steps = true ∧
      C20.onBoundaries (searcherCtx prog inp fuel) steps = true ∧
      C20.matchesOf steps = ms.map (·.range) ∧
      ∀ ops, ∃ r mid, runOps (searcherCtx prog inp fuel) ops = .ok r ∧
        r.fronts ++ mid ++ r.backs.reverse = steps ∧
        (r.frontDone = true ∨ r.backDone = true → mid = []) := by
  have C := ctxOK_findIter H hf
  obtain ⟨steps, h1, _, h3, h4, h5, _, h7⟩ := C20.forward_tiles _ C
  have hOn := envOKOn_bt H.wf H.leads H.text fuel
  have hv0 := vb_zero H.text
  -- C20's iterator specification, for the running search, is `findIter`'s output
  have hiter : C20.IsIter (searcherCtx prog inp fuel) 0 (ms.map (·.range)) := by
    rw [findIter_eq_collect H fuel (Or.inl (vb_iff.mp hv0)) hms]
    have base := isIter_collect hOn (kindOf prog .bt) hv0
    -- transfer `IsIterO` along the agreement of `findFrom` on boundaries
    have tr : ∀ (l : List (Nat × Nat)) (cur : Option Nat), (∀ c, cur = some c → vb inp c = true) →
        C20.IsIterO (ctxOf (searchEnvBt prog inp fuel) (kindOf prog .bt) (vb inp)) cur l →
        C20.IsIterO (searcherCtx prog inp fuel) cur l := by
      intro l
      induction l with
      | nil =>
        intro cur hc h
        cases cur with
        | none => trivial
        | some c =>
          simp only [C20.IsIterO] at h ⊢
          rw [searcherCtx_findFrom H hf (vb_iff.mp (hc c rfl))]; exact h
      | cons m l ih =>
        intro cur hc h
        cases cur with
        | none => exact h
        | some c =>
          simp only [C20.IsIterO] at h ⊢
          have hvc := hc c rfl
          refine ⟨by rw [searcherCtx_findFrom H hf (vb_iff.mp hvc)]; exact h.1, ?_⟩
          have Cp := ctxOK_vm H.wf H.leads H.text fuel
          have hbd := Cp.find_boundary c m.1 m.2 (hOn.v_le c hvc) hvc h.1
          have hrg := Cp.find_range c m.1 m.2 (hOn.v_le c hvc) hvc h.1
          have hadv : C20.advance (searcherCtx prog inp fuel) m =
              C20.advance (ctxOf (searchEnvBt prog inp fuel) (kindOf prog .bt) (vb inp)) m := rfl
          rw [hadv]
          apply ih _ _ h.2
          intro c' hc'
          unfold C20.advance at hc'
          split at hc'
          · cases hc'; exact hbd.2
          · exact (Cp.next_boundary m.2 c' hrg.2.2 hbd.2 hc').2.2
    exact tr _ _ (fun c hc => by cases hc; exact hv0) base
  refine ⟨steps, h1, h3, h4, h5, h7 _ hiter, ?_⟩
  intro ops
  obtain ⟨all, r, mid, a1, a2, a3, a4, _⟩ := C20.interleaved_tiles _ C ops
  rw [h1] at a1; cases a1
  exact ⟨r, mid, a2, a3, a4⟩

/-! ## 5. C17: `replace_all` over the modelled engine -/

/-- **`replace_all_vm`.** The matches of the running search from 0 are `Sorted`; hence `replace_all_with`
keeps every unmatched gap (`C17.unmatched_preserved`), and replacing every match by itself returns the
haystack (`C17.replace_with_identity`). `text` = the haystack bytes. -/
theorem replace_all_vm {prog : Prog} {inp : Input} {cs : List Nat} (H : FindHyp prog inp cs)
    (fuel : Nat) {ms : List MatchR} (hms : findIter .bt prog inp 0 fuel = .ok ms)
    (f : MatchR → List Nat) :
    let text := inp.bytes.toList
    C17.Sorted text.length 0 ms ∧
    replaceAllWith text ms f =
      C17.interleave (C17.gaps text 0 ms) (ms.map f) ++ C17.tailGap text 0 ms ∧
    C17.interleave (C17.gaps text 0 ms) (ms.map (C17.matched text)) ++ C17.tailGap text 0 ms = text ∧
    replaceAllWith text ms (fun m => slice text m.range.1 m.range.2) = text := by
  intro text
  have hv0 : VUtf8 inp 0 := vb_iff.mp (vb_zero H.text)
  have hsorted : C17.Sorted text.length 0 ms := by
    have := (findIter_valid H fuel (Or.inl hv0) hms).2.2.2.1
    simpa [text, Input.len] using this
  have := C17.unmatched_preserved text ms f hsorted
  exact ⟨hsorted, this.1, this.2, C17.replace_with_identity text ms hsorted⟩

/-! ## 6. C16: names -/

/-- **`namesOK_vm`**: every `Match` the running search yields satisfies C16's `NamesOK`, so the C16
accessor theorems (`named_groups_source_order`, `named_agree`, …) apply to it. -/
theorem namesOK_vm {prog : Prog} {inp : Input} {cs : List Nat} (H : FindHyp prog inp cs)
    (fuel : Nat) {start : Nat} (hs : VUtf8 inp start ∨ inp.len < start) {ms : List MatchR}
    (h : findIter .bt prog inp start fuel = .ok ms) : ∀ m ∈ ms, m.NamesOK ∧ m.names = prog.names :=
  fun m hm => ⟨((findIter_valid H fuel hs h).2.2.2.2 m hm).2.2.2.2.2.2.2.2,
    ((findIter_valid H fuel hs h).2.2.2.2 m hm).2.2.2.2.2.2.2.1⟩

/-- **`names_by_id`** (emitter side). See `Proofs/Lemmas/ClosureNames.lean`. -/
theorem names_by_id_emit (r : IR.Regex) (prog : Prog) (he : emit r = .ok prog)
    (hd : groupIdsDense r.node = true) (hn : (groupList r.node).length < 4294967296) :
    prog.groups = (groupList r.node).length ∧
    (prog.names = [] ∨ prog.names.length = prog.groups) ∧
    ((∀ g ∈ groupList r.node, g.2.getD [] = []) → prog.names = []) ∧
    ((∃ g ∈ groupList r.node, g.2.getD [] ≠ []) →
      prog.names.length = prog.groups ∧
      ∀ id nm, (id, nm) ∈ groupList r.node → prog.names[id]? = some (nm.getD [])) :=
  names_by_id r prog he hd hn

/-! ## Non-vacuity -/

/-- `"éabbéab"` (9 bytes; boundaries 0 2 3 4 5 7 8 9). -/
def exInp : Input :=
  { kind := .utf8, bytes := Utf8.text [0xE9, 0x61, 0x62, 0x62, 0xE9, 0x61, 0x62], unicode := false }

theorem exInp_text : Utf8Text exInp [0xE9, 0x61, 0x62, 0x62, 0xE9, 0x61, 0x62] := ⟨rfl, rfl, by decide⟩

/-- `/(?<=(a))b|(?!ab)(a)b/` (C02's `progLookBehind`: a look-behind with a group, a negative
look-ahead, a `ByteSet` start predicate) satisfies every hypothesis used above. -/
theorem exHyp : FindHyp C02.progLookBehind exInp [0xE9, 0x61, 0x62, 0x62, 0xE9, 0x61, 0x62] where
  wf := by decide +kernel
  leads := by decide
  loops := by decide +kernel
  looks := by decide +kernel
  simple := by decide +kernel
  text := exInp_text

/-- The running search finds `b` at `[3,4)` and `[8,9)`, group 0 = the `a` before it. -/
theorem ex_findIter :
    (match findIter .bt C02.progLookBehind exInp 0 1000 with
     | .ok ms => ms == [{ range := (3, 4), captures := [some (2, 3), none], names := [] },
                        { range := (8, 9), captures := [some (7, 8), none], names := [] }]
     | .error _ => false) = true := by decide +kernel

example : VUtf8 exInp 0 ∧ VUtf8 exInp 2 ∧ ¬ VUtf8 exInp 1 := by decide +kernel

/-- `findIter_valid` instantiated. -/
example (ms : List MatchR) (h : findIter .bt C02.progLookBehind exInp 0 1000 = .ok ms) :
    C17.Sorted exInp.len 0 ms ∧ ∀ m ∈ ms, m.captures.length = 2 ∧ VUtf8 exInp m.range.1 :=
  have := findIter_valid exHyp 1000 (Or.inl (by decide +kernel)) h
  ⟨this.2.2.2.1, fun m hm => ⟨(this.2.2.2.2 m hm).2.2.2.2.2.1, (this.2.2.2.2 m hm).2.2.2.1⟩⟩

/-- `ctxOK_vm` instantiated. -/
example : C20.CtxOK (ctxOf (searchEnvBt C02.progLookBehind exInp 1000)
    (kindOf C02.progLookBehind .bt) (vb exInp)) :=
  ctxOK_vm exHyp.wf exHyp.leads exHyp.text 1000

/-- The start predicate `Arbitrary`: `/(?:a|(b))*?c\1/` (C02's `progLazy`), `iter_is_unfold`. -/
example (start : Nat) (hs : VUtf8 exInp start ∨ exInp.len < start) :
    collectK (searchEnvBt C02.progLazy exInp 1000) (kindOf C02.progLazy .bt) start =
      unfoldIter (searchEnvBt C02.progLazy exInp 1000) start :=
  iter_is_unfold_bt_arbitrary (by decide +kernel) exInp_text rfl 1000 hs

/-! ### `groupIdsDense` on real IRs (dumps of `regress::verif::dump_ir_canon`, harness corpus) -/

/-- `(cat (look 1 1 0 2 (cat (group 1 - (empty)) (group 0 - (char 3c2)) (char 7c) (char 77))) (goal))`:
a negative look-behind whose `Cat` the parser reversed — the group ids appear as `1, 0`. -/
def exIR1 : IR.Node :=
  .cat [.look true true 0 2 (.cat [.group 1 none .empty, .group 0 none (.char 0x3c2), .char 0x7c, .char 0x77]),
        .goal]

example : groupIds exIR1 = [1, 0] ∧ groupIdsDense exIR1 = true := by decide

/-- `(cat (alt (cat (char 61) (group 0 64.31 (char e9))) (alt (cat (look 0 1 1 2 (cat (group 1 6e.32
(anchor eol 1)) (char e9))) (group 2 64.31 (cat (anchor sol 1) (char 2028)))) (cat (anchor sol 1)
(group 3 64.31 (cat (char e9) (anynl)))))) (goal))`: four named groups (`d1`, `n2`, `d1`, `d1`), one of
them inside a look-behind. -/
def exIR2 : IR.Node :=
  .cat [.alt (.cat [.char 0x61, .group 0 (some [0x64, 0x31]) (.char 0xe9)])
          (.alt (.cat [.look false true 1 2 (.cat [.group 1 (some [0x6e, 0x32]) (.anchor false true), .char 0xe9]),
                       .group 2 (some [0x64, 0x31]) (.cat [.anchor true true, .char 0x2028])])
                (.cat [.anchor true true, .group 3 (some [0x64, 0x31]) (.cat [.char 0xe9, .matchAnyExceptLT])])),
        .goal]

example : groupIds exIR2 = [0, 1, 2, 3] ∧ groupIdsDense exIR2 = true := by decide

/-- `names_by_id` on `exIR2`: the emitted names are `[d1, n2, d1, d1]`, by group id. -/
example : (match emit { node := exIR2, flags := {} } with
    | .ok prog => prog.groups == 4 && prog.names == [[0x64, 0x31], [0x6e, 0x32], [0x64, 0x31], [0x64, 0x31]]
    | .error _ => false) = true := by decide +kernel

/-- … and on `exIR1` (no group named): `names = []`, `groups = 2`. -/
example : (match emit { node := exIR1, flags := {} } with
    | .ok prog => prog.groups == 2 && prog.names == []
    | .error _ => false) = true := by decide +kernel

#print axioms envOK_bt
#print axioms envOK_pk
#print axioms envOK_ascii
#print axioms modelEnv_bt
#print axioms modelEnv_pk
#print axioms modelEnv_bt_ascii
#print axioms modelEnv_pk_ascii
#print axioms iter_increasing_vm
#print axioms iter_disjoint_vm
#print axioms iter_in_range_vm
#print axioms iter_count_le_vm
#print axioms iter_sorted_vm
#print axioms reported_ranges_valid_vm
#print axioms start_beyond_end_empty_vm
#print axioms iter_fused_vm
#print axioms iter_is_unfold_vm
#print axioms iter_is_unfold_vm_plain
#print axioms iter_is_unfold_vm_pike
#print axioms iter_is_unfold_bt_arbitrary
#print axioms iter_is_unfold_bt
#print axioms findIter_eq_collectK
#print axioms findIter_valid
#print axioms ctxOK_vm
#print axioms ctxOK_vm_pk
#print axioms ctxOK_findIter
#print axioms forward_tiles_vm
#print axioms replace_all_vm
#print axioms namesOK_vm
#print axioms names_by_id_emit
#print axioms exHyp
#print axioms ex_findIter

end Regress.Closure
