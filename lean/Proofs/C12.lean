import RegressModel.Sets.CodePointSet
import Proofs.Lemmas.CodePointSet

/-!
# C12 — `CodePointSet` set algebra

Property theorems about the model `RegressModel/Sets/CodePointSet.lean` of `src/codepointset.rs`.
`WF` is `assert_is_well_formed`; `mem s c` is "some interval of `s` contains `c`".
-/

namespace Regress.C12
open Regress.CPS

/-! ## Well-formedness is decidable -/

theorem wf_iff (s : IvList) : wf s = true ↔ WF s := wf_iff_WF s

/-! ## `add` -/

theorem add_wf {s : IvList} {niv : Interval} (hs : WF s) (hn : ivOk niv) : WF (add s niv) := by
  obtain ⟨A, B, C, e, hadd, hA, hB, hC⟩ := add_parts s niv hs
  obtain ⟨hok, hpw⟩ := (WF_iff s).1 hs
  rw [hadd, WF_iff]
  subst e
  simp only [ivOk] at hn
  have hokA : ∀ a ∈ A, ivOk a := fun a h => hok a (by simp [h])
  have hokB : ∀ a ∈ B, ivOk a := fun a h => hok a (by simp [h])
  have hokC : ∀ a ∈ C, ivOk a := fun a h => hok a (by simp [h])
  obtain ⟨pA, pBC, hABC⟩ := List.pairwise_append.1 hpw
  obtain ⟨pB, pC, hBC⟩ := List.pairwise_append.1 pBC
  obtain ⟨m1, m2, m3, m4, -⟩ := foldl_merge B niv hn.1 (fun b hb => ⟨(hokB b hb).1, hB b hb⟩)
  generalize List.foldl mergeIntervals niv B = m at m1 m2 m3 m4
  have hmok : ivOk m := by
    refine ⟨by omega, ?_⟩
    rcases m4 with h | ⟨b, hb, h⟩
    · omega
    · have := (hokB b hb).2; omega
  have hAm : ∀ a ∈ A, a.last + 1 < m.first := by
    intro a ha
    rcases m3 with h | ⟨b, hb, h⟩
    · have := hA a ha; omega
    · have := hABC a ha b (by simp [hb]); omega
  have hmC : ∀ c ∈ C, m.last + 1 < c.first := by
    intro c hc
    rcases m4 with h | ⟨b, hb, h⟩
    · have := hC c hc; omega
    · have := hBC b hb c hc; omega
  refine ⟨?_, ?_⟩
  · intro iv hiv
    rcases List.mem_append.1 hiv with h | h
    · exact hokA iv h
    · rcases List.mem_cons.1 h with rfl | h
      · exact hmok
      · exact hokC iv h
  · refine List.pairwise_append.2 ⟨pA, List.pairwise_cons.2 ⟨hmC, pC⟩, ?_⟩
    intro a ha x hx
    rcases List.mem_cons.1 hx with rfl | h
    · exact hAm a ha
    · exact hABC a ha x (by simp [h])

theorem add_mem {s : IvList} {niv : Interval} (hs : WF s) (hn : ivOk niv) (c : Nat) :
    mem (add s niv) c ↔ mem s c ∨ (niv.first ≤ c ∧ c ≤ niv.last) := by
  obtain ⟨A, B, C, e, hadd, hA, hB, hC⟩ := add_parts s niv hs
  obtain ⟨hok, hpw⟩ := (WF_iff s).1 hs
  rw [hadd]
  subst e
  have hokB : ∀ a ∈ B, ivOk a := fun a h => hok a (by simp [h])
  obtain ⟨-, -, -, -, m5⟩ := foldl_merge B niv hn.1 (fun b hb => ⟨(hokB b hb).1, hB b hb⟩)
  simp only [mem_append, mem_cons, m5 c]
  constructor
  · rintro (h | (h | h) | h)
    · exact Or.inl (Or.inl h)
    · exact Or.inr h
    · exact Or.inl (Or.inr (Or.inl h))
    · exact Or.inl (Or.inr (Or.inr h))
  · rintro ((h | h | h) | h)
    · exact Or.inl h
    · exact Or.inr (Or.inl (Or.inr h))
    · exact Or.inr (Or.inr h)
    · exact Or.inr (Or.inl (Or.inl h))


/-- Non-vacuity (the Rust unit test `test_add`): hypotheses hold, all three `match` arms of `add` are
exercised (insert, replace one, merge many). -/
example : WF [⟨10, 20⟩] ∧ ivOk ⟨30, 40⟩ ∧ add [⟨10, 20⟩] ⟨30, 40⟩ = [⟨10, 20⟩, ⟨30, 40⟩] := by decide
example : WF [⟨10, 20⟩, ⟨30, 40⟩] ∧ ivOk ⟨15, 35⟩ ∧ add [⟨10, 20⟩, ⟨30, 40⟩] ⟨15, 35⟩ = [⟨10, 40⟩] := by
  decide
example : WF [⟨0, 10⟩, ⟨15, 15⟩] ∧ ivOk ⟨12, 14⟩ ∧
    add [⟨0, 10⟩, ⟨15, 15⟩] ⟨12, 14⟩ = [⟨0, 10⟩, ⟨12, 15⟩] := by decide
example : mem (add [⟨10, 20⟩, ⟨30, 40⟩] ⟨15, 35⟩) 25 ∧ ¬ mem [⟨10, 20⟩, ⟨30, 40⟩] 25 := by decide

theorem addOne_wf {s : IvList} {cp : Nat} (hs : WF s) (hcp : cp ≤ 0x10FFFF) : WF (addOne s cp) :=
  add_wf hs ⟨Nat.le_refl _, hcp⟩

theorem addOne_mem {s : IvList} {cp : Nat} (hs : WF s) (hcp : cp ≤ 0x10FFFF) (c : Nat) :
    mem (addOne s cp) c ↔ mem s c ∨ c = cp := by
  rw [addOne, add_mem hs ⟨Nat.le_refl _, hcp⟩ c]
  simp only
  constructor
  · rintro (h | h)
    · exact Or.inl h
    · exact Or.inr (by omega)
  · rintro (h | h)
    · exact Or.inl h
    · exact Or.inr (by omega)

/-- Non-vacuity (the Rust unit test `test_add_one`). -/
example : addOne (addOne (addOne [] 10) 20) 15 = [⟨10, 10⟩, ⟨15, 15⟩, ⟨20, 20⟩] := by decide

/-- The faithful transcription of `equal_range_by` (two std `binary_search_by` calls), as called
by `add`, never panics and returns exactly the linear-scan `equalRange` used in the model of `add`,
for every well-formed set and every non-empty `new_iv`. This discharges the modelling assumption
"`equal_range_by` = linear scan" for all inputs `add` is specified on. -/
theorem equalRangeBy_eq {s : IvList} {niv : Interval} (hs : WF s) (hn : niv.first ≤ niv.last) :
    equalRangeBy s (fun iv => iv.mergecmp niv) = some (equalRange s niv) := by
  rw [equalRangeBy_spec s _ (sortedBy_mergecmp hs niv hn)]
  rfl

example : WF [⟨0, 10⟩, ⟨12, 23⟩, ⟨100, 250⟩, ⟨300, 400⟩] ∧
    equalRangeBy ([⟨0, 10⟩, ⟨12, 23⟩, ⟨100, 250⟩, ⟨300, 400⟩] : IvList)
      (fun iv => iv.mergecmp ⟨20, 99⟩)
      = some (1, 3) := by decide

/-! ## `add_set` -/

theorem foldl_add {t : IvList} : ∀ {s : IvList}, WF s → (∀ iv ∈ t, ivOk iv) →
    WF (t.foldl add s) ∧ ∀ c, mem (t.foldl add s) c ↔ mem s c ∨ mem t c := by
  induction t with
  | nil => intro s hs _; simp [hs, mem_nil]
  | cons a t ih =>
    intro s hs ht
    have ha := ht a (by simp)
    obtain ⟨h1, h2⟩ := ih (add_wf hs ha) (fun iv h => ht iv (List.mem_cons_of_mem _ h))
    refine ⟨h1, fun c => ?_⟩
    simp only [List.foldl_cons, h2 c, add_mem hs ha c, mem_cons]
    constructor
    · rintro ((h | h) | h)
      · exact Or.inl h
      · exact Or.inr (Or.inl h)
      · exact Or.inr (Or.inr h)
    · rintro (h | h | h)
      · exact Or.inl (Or.inl h)
      · exact Or.inl (Or.inr h)
      · exact Or.inr h

theorem addSet_eq (s t : IvList) :
    addSet s t = if s.length < t.length then s.foldl add t else t.foldl add s := by
  unfold addSet
  by_cases h : s.length < t.length <;> simp [h]

theorem addSet_wf {s t : IvList} (hs : WF s) (ht : WF t) : WF (addSet s t) := by
  rw [addSet_eq]
  split
  · exact (foldl_add ht ((WF_iff s).1 hs).1).1
  · exact (foldl_add hs ((WF_iff t).1 ht).1).1

theorem addSet_mem {s t : IvList} (hs : WF s) (ht : WF t) (c : Nat) :
    mem (addSet s t) c ↔ mem s c ∨ mem t c := by
  rw [addSet_eq]
  split
  · rw [(foldl_add ht ((WF_iff s).1 hs).1).2 c]; exact Or.comm
  · exact (foldl_add hs ((WF_iff t).1 ht).1).2 c

/-- Non-vacuity (the Rust unit test `test_add_set`), both without and with the swap. -/
example : WF [⟨10, 20⟩, ⟨30, 40⟩] ∧ WF [⟨15, 25⟩, ⟨35, 45⟩] ∧
    addSet [⟨10, 20⟩, ⟨30, 40⟩] [⟨15, 25⟩, ⟨35, 45⟩] = [⟨10, 25⟩, ⟨30, 45⟩] := by decide
example : WF [⟨10, 20⟩] ∧ WF [⟨15, 25⟩, ⟨35, 45⟩] ∧
    addSet [⟨10, 20⟩] [⟨15, 25⟩, ⟨35, 45⟩] = [⟨10, 25⟩, ⟨35, 45⟩] := by decide

/-! ## `inverted` -/

theorem inverted_wf {s : IvList} (hs : WF s) : WF (inverted s) := by
  rw [inverted_eq]
  exact (invAux_spec s 0 hs (fun _ _ => Nat.zero_le _)).1

theorem inverted_mem {s : IvList} (hs : WF s) {c : Nat} (hc : c ≤ 0x10FFFF) :
    mem (inverted s) c ↔ ¬ mem s c := by
  rw [inverted_eq, (invAux_spec s 0 hs (fun _ _ => Nat.zero_le _)).2.2 c]
  simp [hc]

theorem inverted_mem_le {s : IvList} (hs : WF s) {c : Nat} (h : mem (inverted s) c) :
    c ≤ 0x10FFFF := by
  rw [inverted_eq, (invAux_spec s 0 hs (fun _ _ => Nat.zero_le _)).2.2 c] at h
  exact h.2.1

theorem invertedIntervalCount_eq {s : IvList} (_hs : WF s) :
    invertedIntervalCount s = (inverted s).length := by
  simp [invertedIntervalCount, invertedIntervalCountLoop_eq, inverted_eq]

/-- Non-vacuity (the Rust unit test `test_inverted`). -/
example : WF [⟨10, 20⟩, ⟨30, 40⟩] ∧
    inverted [⟨10, 20⟩, ⟨30, 40⟩] = [⟨0, 9⟩, ⟨21, 29⟩, ⟨41, 0x10FFFF⟩] ∧
    invertedIntervalCount [⟨10, 20⟩, ⟨30, 40⟩] = 3 ∧
    mem (inverted [⟨10, 20⟩, ⟨30, 40⟩]) 25 ∧ ¬ mem (inverted [⟨10, 20⟩, ⟨30, 40⟩]) 35 := by decide
example : WF [⟨0, 0x10FFFF⟩] ∧ inverted [⟨0, 0x10FFFF⟩] = [] ∧ inverted [] = [⟨0, 0x10FFFF⟩] := by
  decide

/-! ## `intersect` -/

theorem intersect_wf {s t : IvList} (hs : WF s) (ht : WF t) : WF (intersect s t) := by
  rw [intersect_eq]
  obtain ⟨hoks, hpws⟩ := (WF_iff s).1 hs
  rw [WF_iff]
  constructor
  · intro x hx
    obtain ⟨iv, hiv, siv, hsiv, hov, rfl⟩ := mem_capAll.1 hx
    have h1 := ((WF_iff t).1 ht).1 iv hiv
    have h2 := hoks siv hsiv
    have h3 := (overlaps_iff _ _).1 hov
    simp only [ivOk, cap] at *
    omega
  · induction t with
    | nil => simp [capAll]
    | cons iv rest ih =>
      obtain ⟨hokt, hpwt⟩ := (WF_iff _).1 ht
      have hpwt' := List.pairwise_cons.1 hpwt
      have hrest : WF rest := (WF_iff _).2 ⟨fun x h => hokt x (List.mem_cons_of_mem _ h), hpwt'.2⟩
      simp only [capAll]
      refine List.pairwise_append.2 ⟨capList_pairwise hpws, ih hrest, ?_⟩
      intro a ha b hb
      obtain ⟨siv, -, -, rfl⟩ := mem_capList.1 ha
      obtain ⟨iv2, hiv2, siv2, -, -, rfl⟩ := mem_capAll.1 hb
      have := hpwt'.1 iv2 hiv2
      simp only [cap]
      omega

/-- `intersect_mem` needs no well-formedness hypothesis at all. -/
theorem intersect_mem_any (s t : IvList) (c : Nat) :
    mem (intersect s t) c ↔ mem s c ∧ mem t c := by
  rw [intersect_eq]
  constructor
  · rintro ⟨x, hx, hc1, hc2⟩
    obtain ⟨iv, hiv, siv, hsiv, -, rfl⟩ := mem_capAll.1 hx
    simp only [cap] at hc1 hc2
    exact ⟨⟨siv, hsiv, by omega, by omega⟩, ⟨iv, hiv, by omega, by omega⟩⟩
  · rintro ⟨⟨siv, hsiv, h1, h2⟩, ⟨iv, hiv, h3, h4⟩⟩
    refine ⟨cap iv siv, mem_capAll.2 ⟨iv, hiv, siv, hsiv, ?_, rfl⟩, ?_⟩
    · exact (overlaps_iff _ _).2 (by omega)
    · simp only [cap]; omega

theorem intersect_mem {s t : IvList} (_hs : WF s) (_ht : WF t) (c : Nat) :
    mem (intersect s t) c ↔ mem s c ∧ mem t c := intersect_mem_any s t c

/-- `intersect_wf` really needs the argument to be well-formed (not merely sorted and disjoint):
an abutting or unsorted argument list yields a result violating `assert_is_well_formed`. -/
theorem intersect_needs_wf :
    ¬ WF (intersect [⟨0, 10⟩] [⟨1, 2⟩, ⟨3, 4⟩]) ∧ ¬ WF (intersect [⟨0, 10⟩] [⟨5, 6⟩, ⟨1, 2⟩]) := by
  decide

/-- Non-vacuity. -/
example : WF [⟨0, 10⟩, ⟨20, 30⟩] ∧ WF [⟨5, 25⟩, ⟨28, 100⟩] ∧
    intersect [⟨0, 10⟩, ⟨20, 30⟩] [⟨5, 25⟩, ⟨28, 100⟩] = [⟨5, 10⟩, ⟨20, 25⟩, ⟨28, 30⟩] ∧
    mem (intersect [⟨0, 10⟩, ⟨20, 30⟩] [⟨5, 25⟩, ⟨28, 100⟩]) 22 := by decide

/-! ## `remove`

The Rust doc comment says "Invariants: The intervals must be sorted and disjoint". That is exactly
the hypothesis `SD r` (each interval non-empty, each ends before every later one starts; abutting
intervals and bounds above `0x10FFFF` are allowed) under which the theorems hold; `WF r` implies it.
Both parts of `SD` are necessary, see `remove_needs_sorted` / `remove_needs_nonempty` below. -/

theorem remove_wf_sd {s r : IvList} (hs : WF s) (hr : SD r) : WF (remove s r) := by
  rw [remove_eq]; exact rm_wf s r hs hr

theorem remove_mem_sd {s r : IvList} (hs : SD s) (hr : SD r) (c : Nat) :
    mem (remove s r) c ↔ mem s c ∧ ¬ mem r c := by
  rw [remove_eq]; exact rm_mem s r c hs hr

theorem remove_wf {s r : IvList} (hs : WF s) (hr : WF r) : WF (remove s r) :=
  remove_wf_sd hs (WF_SD hr)

theorem remove_mem {s r : IvList} (hs : WF s) (hr : WF r) (c : Nat) :
    mem (remove s r) c ↔ mem s c ∧ ¬ mem r c :=
  remove_mem_sd (WF_SD hs) (WF_SD hr) c

/-- If the removal list is not sorted the result is wrong: `2` is not removed. -/
theorem remove_needs_sorted :
    mem (remove [⟨0, 10⟩] [⟨5, 6⟩, ⟨1, 2⟩]) 2 ∧ mem [⟨5, 6⟩, ⟨1, 2⟩] 2 := by decide

/-- If the removal list contains an empty (inverted) interval the result is not well-formed. -/
theorem remove_needs_nonempty : ¬ WF (remove [⟨0, 10⟩] [⟨5, 3⟩]) := by decide

/-- Non-vacuity: the removal list is consumed across several `iv`s, one `iv` is split several times,
and `current_remove` becomes `None` inside the inner loop after `iv` was already split (second
example), which is the case where the trailing `if current_remove.is_none()` pushes the *mutated*
`iv`. -/
example : WF [⟨0, 10⟩, ⟨20, 30⟩] ∧ WF [⟨2, 3⟩, ⟨5, 6⟩, ⟨9, 25⟩] ∧
    remove [⟨0, 10⟩, ⟨20, 30⟩] [⟨2, 3⟩, ⟨5, 6⟩, ⟨9, 25⟩] = [⟨0, 1⟩, ⟨4, 4⟩, ⟨7, 8⟩, ⟨26, 30⟩] := by
  decide
example : WF [⟨0, 10⟩, ⟨20, 30⟩] ∧ WF [⟨2, 3⟩, ⟨5, 6⟩] ∧
    remove [⟨0, 10⟩, ⟨20, 30⟩] [⟨2, 3⟩, ⟨5, 6⟩] = [⟨0, 1⟩, ⟨4, 4⟩, ⟨7, 10⟩, ⟨20, 30⟩] := by decide
/-- `SD` but not `WF` removal list (abutting intervals). -/
example : SD [⟨2, 3⟩, ⟨4, 6⟩] ∧ ¬ WF [⟨2, 3⟩, ⟨4, 6⟩] ∧
    remove [⟨0, 10⟩] [⟨2, 3⟩, ⟨4, 6⟩] = [⟨0, 1⟩, ⟨7, 10⟩] := by
  refine ⟨?_, by decide, by decide⟩
  simp [SD]

/-! ## `contains` -/

theorem contains_iff (s : IvList) (c : Nat) : contains s c = true ↔ mem s c :=
  contains_iff_mem s c

/-- The faithful transcription of std's `binary_search_by` (Rust 1.95 `core::slice`), used as in
`interval_contains`, never indexes out of bounds (`some`) and agrees with the "some element compares
`Equal`" model `contains` on every well-formed set. -/
theorem containsBin_eq {s : IvList} (hs : WF s) (c : Nat) :
    containsBin s c = some (contains s c) := by
  obtain ⟨r, hr, hspec⟩ := binarySearchBy_spec s (fun iv => iv.compare c) (sortedBy_compare hs c)
  unfold containsBin
  rw [hr]
  cases r with
  | ok i =>
    obtain ⟨x, hx, hc⟩ := hspec
    have : contains s c = true := by
      simp only [contains, List.any_eq_true]
      exact ⟨x, List.mem_of_getElem? hx, by simp [hc]⟩
    simp [this]
  | error i =>
    obtain ⟨_, h1, h2⟩ := hspec
    have : contains s c = false := by
      simp only [contains, List.any_eq_false]
      intro x hx
      obtain ⟨j, hj, rfl⟩ := List.getElem_of_mem hx
      by_cases hji : j < i
      · simp [h1 j _ hji (List.getElem?_eq_getElem hj)]
      · simp [h2 j _ (by omega) (List.getElem?_eq_getElem hj)]
    simp [this]

example : WF [⟨0, 10⟩, ⟨20, 30⟩, ⟨40, 50⟩] ∧ containsBin [⟨0, 10⟩, ⟨20, 30⟩, ⟨40, 50⟩] 25 = some true ∧
    containsBin [⟨0, 10⟩, ⟨20, 30⟩, ⟨40, 50⟩] 35 = some false := by decide

example : contains [⟨0, 10⟩, ⟨20, 30⟩] 25 = true ∧ contains [⟨0, 10⟩, ⟨20, 30⟩] 15 = false := by
  decide

#print axioms wf_iff
#print axioms add_wf
#print axioms add_mem
#print axioms addOne_wf
#print axioms addOne_mem
#print axioms equalRangeBy_eq
#print axioms addSet_wf
#print axioms addSet_mem
#print axioms inverted_wf
#print axioms inverted_mem
#print axioms inverted_mem_le
#print axioms invertedIntervalCount_eq
#print axioms remove_wf_sd
#print axioms remove_mem_sd
#print axioms remove_wf
#print axioms remove_mem
#print axioms remove_needs_sorted
#print axioms remove_needs_nonempty
#print axioms intersect_wf
#print axioms intersect_mem_any
#print axioms intersect_mem
#print axioms intersect_needs_wf
#print axioms contains_iff
#print axioms containsBin_eq

end Regress.C12
